(** C02 -- __eq__ / __hash__ of the SOURCE (GenOrder.v, regenerated from /repo on this run) are
    the definitions the static theorems of Props/C02.v are about. *)
From Coq Require Import ZArith List Bool.
From Bermuda Require Import Model.Base Model.Order Model.Eq.
From Gen Require Import GenOrder.
Import ListNotations.
Local Open Scope Z_scope.

(* Cell.__eq__ on cumulative cells (Cell / CumulativeCell in any combination) *)
Theorem C02_gen_cell_eq : forall a b, is_inc a = false -> is_inc b = false ->
  prev a = None -> prev b = None -> gen_cell_eq a b = cell_pyeq a b.
Proof.
  intros a b Ha Hb Pa Pb. unfold gen_cell_eq, cell_pyeq, gen_values_eq, basis_eqb, class_compat, is_inc in *.
  rewrite Pa, Pb. destruct (ckind a), (ckind b); try discriminate; cbn; rewrite ?andb_true_r; reflexivity.
Qed.
(* IncrementalCell.__eq__ *)
Theorem C02_gen_inc_eq : forall a b, ckind a = KInc -> ckind b = KInc -> gen_inc_eq a b = cell_pyeq a b.
Proof.
  intros a b Ha Hb. unfold gen_inc_eq, gen_cell_eq, cell_pyeq, gen_values_eq, basis_eqb, class_compat.
  rewrite Ha, Hb. reflexivity.
Qed.
(* Cell.__hash__ hashes nothing that __eq__ ignores (class name only through the basis) *)
Theorem C02_gen_hash_components_ok : hash_comps_ok gen_cell_hash_components = true /\ inc_hashable = true.
Proof. split; reflexivity. Qed.
(* Metadata.__hash__ hashes the eight attributes with details as frozensets of items *)
Theorem C02_gen_meta_hash : forall m, gen_meta_hash_key m = canonical_key m.
Proof. reflexivity. Qed.
(* Triangle.__eq__ compares lengths and zips; __hash__ hashes the cell tuple; membership is list
   membership with cell ==; the class is an abc.Set *)
Theorem C02_gen_triangle_shape :
  tri_eq_checks_length && tri_eq_zips_cells && tri_hash_of_cell_tuple && tri_contains_uses_cell_eq
  && tri_iter_over_cells && tri_len_of_cells && tri_is_abc_set && tri_materialises_once = true.
Proof. reflexivity. Qed.
