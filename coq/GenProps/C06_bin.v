(* T-bin obligations (C05 / C06 / C19): the constants and the per-function stream-event description
   regenerated from /repo's current source (Gen.GenBin) are the ones the model and the static
   theorems are about.  Compiled in build/<ID>/ on every run. *)
From Coq Require Import ZArith List String Bool.
From Bermuda Require Import Model.Binary Model.BinDesc.
From Gen Require Import GenBin.
Import ListNotations.

(* generated constants = documented v1 values = the constants of Model/Binary.v *)
Theorem v1_constants :
  consts_eqb GenBin.constants v1_constants_spec = true /\
  consts_eqb GenBin.constants model_constants = true.
Proof. split; vm_compute; reflexivity. Qed.

(* struct formats, field orders, loop/branch conditions of every _write_* / _read_* function *)
Theorem layout_matches_model : layout_eqb GenBin.layout BinDesc.layout = true.
Proof. vm_compute; reflexivity. Qed.

Print Assumptions v1_constants.
Print Assumptions layout_matches_model.
