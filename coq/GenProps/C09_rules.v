(** C09 -- instance for the rule table GENERATED from /repo (translate/t_rules.py -> GenRules.v).
    The only run-time obligation is [table_ok rules non_loss = true] (kernel computation over the
    probed registry); the theorems are instantiations of the static generic ones. *)
From Coq Require Import ZArith List Bool.
From Bermuda Require Import Model.Base Model.Summarize Proofs.SummarizeLib Proofs.Summarize Proofs.Summarize2
  Proofs.SummarizeTable.
From Gen Require Import GenRules.
Import ListNotations.
Local Open Scope Z_scope.

(* every documented additive field is bound to the sum of ITS OWN key, every ratio field to the
   documented weighted average, NON_LOSS_METRICS is the documented set *)
Theorem C09_table_ok : table_ok rules non_loss = true.
Proof. vm_compute; reflexivity. Qed.

Theorem C09_additive_rules : forall k, In k additive_fields -> lookup_rule rules k = Some (RSum k).
Proof. intros k. exact (table_ok_additive rules non_loss k C09_table_ok). Qed.
Theorem C09_ratio_rules : forall k r, In (k, r) ratio_fields -> lookup_rule rules k = Some r.
Proof. intros k r. exact (table_ok_ratio rules non_loss k r C09_table_ok). Qed.

Section Inst.
  Variable wavg : transform -> list value -> list value -> result value.
  Notation summ := (summarize wavg rules non_loss).

  (* losses, premiums, exposures, claim counts, *_loss_developed, *_loss_prior: the output value is
     the sum of that same field over the input cells holding the coordinate *)
  Theorem C09_registered_additive_field_is_sum : forall prem t out o k v,
    In k additive_fields ->
    summ prem t = Ok out -> In o out -> In (k, v) (cvals o) ->
    (prem_of prem t = true \/ mem_str k non_loss = false) ->
    conforming_sum (raw k (group_of (inc_of t) (coord_of (inc_of t) o) t)) = Ok v.
  Proof.
    intros prem t out o k v Hk H Ho Hkv Hp.
    exact (summarize_sums wavg rules non_loss prem t out o k v H Ho Hkv (C09_additive_rules k Hk) Hp).
  Qed.
  Theorem C09_registered_conservation : forall prem t out k i,
    In k additive_fields ->
    summ prem t = Ok out -> (prem_of prem t = true \/ mem_str k non_loss = false) ->
    (forall o, In o out -> in_range i (getv k o)) ->
    field_total i k out = field_total i k t.
  Proof.
    intros prem t out k i Hk H Hp Hr.
    exact (conservation wavg rules non_loss prem t out k i H (C09_additive_rules k Hk) Hp Hr).
  Qed.
  Theorem C09_registered_ratio_field : forall prem t out o k v a w tr,
    In (k, RWAvg a w tr) ratio_fields ->
    summ prem t = Ok out -> In o out -> In (k, v) (cvals o) ->
    (prem_of prem t = true \/ mem_str k non_loss = false) ->
    wavg tr (raw a (group_of (inc_of t) (coord_of (inc_of t) o) t))
            (raw w (group_of (inc_of t) (coord_of (inc_of t) o) t)) = Ok v.
  Proof.
    intros prem t out o k v a w tr Hk H Ho Hkv Hp.
    exact (summarize_wavg wavg rules non_loss prem t out o k v a w tr H Ho Hkv (C09_ratio_rules _ _ Hk) Hp).
  Qed.
  Theorem C09_non_loss_is_documented : forall k, mem_str k non_loss = true <-> In k documented_non_loss.
  Proof. intros k. exact (table_ok_non_loss rules non_loss k C09_table_ok). Qed.
End Inst.

Print Assumptions C09_table_ok.
Print Assumptions C09_registered_additive_field_is_sum.
Print Assumptions C09_registered_conservation.
Print Assumptions C09_registered_ratio_field.

Example C09_table_nonvacuous : length rules = 26%nat /\ length additive_fields = 22%nat /\ length non_loss = 8%nat.
Proof. vm_compute. repeat split. Qed.
