(** C08 -- instance for the rule table generated from /repo (placeholder header; see below). *)
From Coq Require Import ZArith List Bool.
From Bermuda Require Import Model.Base Model.Summarize Proofs.SummarizeTable.
From Gen Require Import GenRules.
Theorem C08_table_ok : table_ok rules non_loss = true.
Proof. vm_compute; reflexivity. Qed.
