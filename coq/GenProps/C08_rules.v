(** C08 -- instance for the rule table GENERATED from /repo (translate/t_rules.py -> GenRules.v):
    with [table_ok] every documented additive field is summed under its own key, so the generic
    window theorems give "the additive fields of an output cell are the sums over the source cells of
    its slice, window and evaluation date" and conservation for the real registry. *)
From Coq Require Import ZArith List Bool.
From Bermuda Require Import Model.Base Model.Summarize Model.Aggregate Proofs.SummarizeLib Proofs.Summarize
  Proofs.Summarize2 Proofs.SummarizeTable Proofs.Aggregate.
From Gen Require Import GenRules.
Import ListNotations.
Local Open Scope Z_scope.

Theorem C08_table_ok : table_ok rules non_loss = true.
Proof. vm_compute; reflexivity. Qed.

Section Inst.
  Variable wavg : transform -> list value -> list value -> result value.

  Theorem C08_registered_field_is_sum : forall prem g vals k v,
    In k additive_fields ->
    summarize_cell_values wavg rules non_loss prem g = Ok vals -> g <> [] -> In (k, v) vals ->
    (prem = true \/ mem_str k non_loss = false) ->
    conforming_sum (raw k g) = Ok v.
  Proof.
    intros prem g vals k v Hk Ev Hne Hkv Hp.
    exact (scv_sum_entry wavg rules non_loss prem g vals k v Ev Hne Hkv
             (table_ok_additive rules non_loss k C08_table_ok Hk) Hp).
  Qed.
  Theorem C08_registered_conservation_per_eval : forall prem l out k i e,
    In k additive_fields ->
    map_result (window_cell wavg rules non_loss prem) (groupby coord_eqb coord3 l) = Ok out ->
    (prem = true \/ mem_str k non_loss = false) ->
    (forall o, In o out -> in_range i (getv k o)) ->
    total_at e i k out = total_at e i k l.
  Proof.
    intros prem l out k i e Hk H Hp Hr.
    exact (windows_conserve wavg rules non_loss prem l out k i e H
             (table_ok_additive rules non_loss k C08_table_ok Hk) Hp Hr).
  Qed.
End Inst.

Print Assumptions C08_table_ok.
Print Assumptions C08_registered_field_is_sum.
Print Assumptions C08_registered_conservation_per_eval.
