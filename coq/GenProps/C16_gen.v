(** C16 -- obligations about the description of bermuda/utils/summarize.py (blend, blend_cells, blend_samples,
    _linear_blend, _mixture_blend) that translate/t_blend.py regenerates into GenBlend.v on every run.

    [GenBlend.d : blend_desc] says what the source decides (accepted methods, ordered validations and their error
    classes, transposition of dict weights, method -> helper dispatch, which refusals exist, p=weights, whose header
    is kept) and carries the canonical text of everything else.  The static theorems of Proofs/BlendDescP.v hold for
    ANY d with blend_spec_ok d = true; here the side condition is computed for the d extracted now, and the
    statements of Props/C16.v are instantiated for the model parametrised by it.
    Strength as Props/C16.v: PARTIAL (the generator is an oracle). *)
From Coq Require Import ZArith QArith Qabs List Bool String.
From Bermuda Require Import Model.Base Model.Blend Model.BlendDesc Proofs.BlendP Proofs.BlendQ Proofs.BlendTop
     Proofs.BlendDescP Props.C16.
From Gen Require Import GenBlend.
Import ListNotations.
Local Open Scope Q_scope.
Local Notation length := Datatypes.length.

Theorem C16_gen_spec_ok : blend_spec_ok GenBlend.d = true.
Proof. vm_compute. reflexivity. Qed.
Print Assumptions C16_gen_spec_ok.

(* the model parametrised by what the source says now is the model every theorem of Props/C16.v is about *)
Theorem C16_gen_model : forall fo draw tris w m,
  blendD GenBlend.d fo draw tris w m = blend fo draw tris w m.
Proof. exact (blendD_is_blend GenBlend.d C16_gen_spec_ok). Qed.
Print Assumptions C16_gen_model.

Theorem C16_gen_structure : forall fo draw tris w m out,
  blendD GenBlend.d fo draw tris w m = Ok out ->
  exists t0 rest, tris = t0 :: rest /\
    map qhdr out = map (fun kc => hdr (snd kc)) (index_tri t0) /\
    Forall2 (fun o kc => map fst (qvals o) = fo (keys (cvals (snd kc)))) out (index_tri t0).
Proof. exact (blendD_structure GenBlend.d C16_gen_spec_ok). Qed.
Print Assumptions C16_gen_structure.

Theorem C16_gen_linear : forall fo draw tris w out,
  blendD GenBlend.d fo draw tris w MLinear = Ok out ->
  exists t0 rest wl, tris = t0 :: rest /\ weight_listD GenBlend.d w (length t0) = Ok wl /\
    forall i o f v, nth_error out i = Some o -> In (f, v) (qvals o) ->
      exists k c0 wi cells vals vs xs,
        nth_error (index_tri t0) i = Some (k, c0) /\ nth_error wl i = Some wi /\
        at_coordinate tris k c0 cells /\
        field_vals cells f = Some vals /\ all_some (map samples vals) = Some vs /\
        v = QArr xs /\ length xs = max_len vs /\
        let ws := eff_weights wi (length vals) in
        length ws = length vs /\
        (forall j, (j < max_len vs)%nat -> nth j xs 0 = dot ws (map (fun x => pick x j) vs)) /\
        (convex ws -> forall j lo hi, (j < max_len vs)%nat ->
           Forall (fun x => lo <= pick x j /\ pick x j <= hi) vs -> lo <= nth j xs 0 /\ nth j xs 0 <= hi) /\
        (qsum ws == 1 -> forall j c, (j < max_len vs)%nat ->
           Forall (fun x => pick x j == c) vs -> nth j xs 0 == c).
Proof. exact (blendD_linear GenBlend.d C16_gen_spec_ok). Qed.
Print Assumptions C16_gen_linear.

Theorem C16_gen_mixture : forall fo draw tris w out,
  blendD GenBlend.d fo draw tris w MMixture = Ok out ->
  exists t0 rest wl, tris = t0 :: rest /\ weight_listD GenBlend.d w (length t0) = Ok wl /\
    forall i o f v, nth_error out i = Some o -> In (f, v) (qvals o) ->
      exists k c0 wi cells v0 others,
        nth_error (index_tri t0) i = Some (k, c0) /\ nth_error wl i = Some wi /\
        at_coordinate tris k c0 cells /\
        field_vals cells f = Some (v0 :: others) /\
        (is_scalar v0 = true ->
           v = QKeep v0 /\ Forall (fun x => vtype x = vtype v0 /\ val_pyeq x v0 = true) others) /\
        (is_scalar v0 = false ->
           exists xs, v = QArr xs /\ length xs = length (arr_of v0) /\ length (draw i f) = length xs /\
             forall j, (j < length xs)%nat ->
               let pickd := nth j (draw i f) O in
               (pickd < length (v0 :: others))%nat /\
               nth j xs 0 = nth j (arr_of (nth pickd (v0 :: others) VNone)) 0 /\
               length (arr_of (nth pickd (v0 :: others) VNone)) = length xs).
Proof. exact (blendD_mixture GenBlend.d C16_gen_spec_ok). Qed.
Print Assumptions C16_gen_mixture.

Theorem C16_gen_weights_dict_per_cell : forall rows n i,
  rows <> [] -> n <> 1%nat -> Forall (fun r => length r = n) rows -> (i < n)%nat ->
  exists wl, weight_listD GenBlend.d (WDict rows) n = Ok wl /\ nth_error wl i = Some (Some (column rows i)).
Proof. exact (weight_listD_dict_per_cell GenBlend.d C16_gen_spec_ok). Qed.
Print Assumptions C16_gen_weights_dict_per_cell.

Theorem C16_gen_refuses_different_lengths : forall fo draw t0 rest w m,
  single_check (t0 :: rest) w = None -> m <> MBad ->
  Exists (fun t => length t <> length t0) rest ->
  blendD GenBlend.d fo draw (t0 :: rest) w m = Err ValueError.
Proof. exact (blendD_refuses_different_lengths GenBlend.d C16_gen_spec_ok). Qed.
Print Assumptions C16_gen_refuses_different_lengths.

Theorem C16_gen_refuses_different_cell_types : forall fo draw t0 rest w m,
  single_check (t0 :: rest) w = None -> m <> MBad -> t0 <> [] ->
  Forall (fun t => length t = length t0) rest ->
  Exists (fun t => first_kind t <> first_kind t0) rest ->
  blendD GenBlend.d fo draw (t0 :: rest) w m = Err ValueError.
Proof. exact (blendD_refuses_different_cell_types GenBlend.d C16_gen_spec_ok). Qed.
Print Assumptions C16_gen_refuses_different_cell_types.

Theorem C16_gen_refuses_different_coordinates : forall fo draw tris w m out,
  blendD GenBlend.d fo draw tris w m = Ok out ->
  exists t0 rest, tris = t0 :: rest /\
    forall k c0, In (k, c0) (index_tri t0) ->
      Forall (fun t => exists c, In c t /\ coord_of c = k) tris.
Proof. exact (blendD_refuses_different_coordinates GenBlend.d C16_gen_spec_ok). Qed.
Print Assumptions C16_gen_refuses_different_coordinates.

Theorem C16_gen_mixture_refuses_unequal_scalars : forall dr cells w f v0 rest,
  field_vals cells f = Some (v0 :: rest) -> is_scalar v0 = true ->
  Forall (fun x => vtype x = vtype v0) rest -> Exists (fun x => val_pyeq x v0 = false) rest ->
  blend_fieldD GenBlend.d dr cells w MMixture f = Err ValueError.
Proof. exact (blend_fieldD_mixture_refuses_unequal_scalars GenBlend.d C16_gen_spec_ok). Qed.
Print Assumptions C16_gen_mixture_refuses_unequal_scalars.

(* ---------------------------------------------------------------- non-vacuity *)
(* the extracted description drives a real computation ... *)
Example C16_gen_ex_runs :
  exists out, blendD GenBlend.d ex_fo ex_draw [ex_t1; ex_t2] (WDict [[1 # 4; 1 # 2]; [3 # 4; 1 # 2]]) MLinear = Ok out
              /\ length out = 2%nat.
Proof. eexists. split; [vm_compute; reflexivity | reflexivity]. Qed.

(* ... and the parametrisation is not idle: a description that differs in ONE decision is rejected by the side
   condition and its model disagrees with Blend.blend on a concrete input *)
Definition set_transposed (a : blend_desc) (b : bool) : blend_desc :=
  mkBlendDesc (bd_methods a) (bd_checks a) b (bd_dict_len_err a) (bd_missing_err a) (bd_dispatch a)
              (bd_dispatch_else a) (bd_len_err a) (bd_linlen_err a) (bd_sum_err a) (bd_choice_p a)
              (bd_fieldset_err a) (bd_mixtype_err a) (bd_mixscalar_err a) (bd_header_from a) (bd_shape a).
Definition set_dispatch (a : blend_desc) (x : list (str * helper)) : blend_desc :=
  mkBlendDesc (bd_methods a) (bd_checks a) (bd_dict_transposed a) (bd_dict_len_err a) (bd_missing_err a) x
              (bd_dispatch_else a) (bd_len_err a) (bd_linlen_err a) (bd_sum_err a) (bd_choice_p a)
              (bd_fieldset_err a) (bd_mixtype_err a) (bd_mixscalar_err a) (bd_header_from a) (bd_shape a).
Example C16_gen_ex_wrong_axis_rejected :
  blend_spec_ok (set_transposed GenBlend.d false) = false
  /\ blendD (set_transposed GenBlend.d false) ex_fo ex_draw [ex_t1; ex_t2] (WDict [[1 # 4; 1 # 2]; [3 # 4; 1 # 2]]) MLinear
     <> blend ex_fo ex_draw [ex_t1; ex_t2] (WDict [[1 # 4; 1 # 2]; [3 # 4; 1 # 2]]) MLinear.
Proof. split; [vm_compute; reflexivity | intro H; vm_compute in H; discriminate H]. Qed.
Example C16_gen_ex_wrong_helper_rejected :
  let d' := set_dispatch GenBlend.d [(MIXTURE, HLinear); (LINEAR, HLinear)] in
  blend_spec_ok d' = false
  /\ blendD d' ex_fo ex_draw [ex_t1; ex_t2] WNone MMixture <> blend ex_fo ex_draw [ex_t1; ex_t2] WNone MMixture.
Proof. split; [vm_compute; reflexivity | intro H; vm_compute in H; discriminate H]. Qed.
