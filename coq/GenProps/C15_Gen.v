(** C15, regenerated decision tokens: the comparison of _make_right_triangle_slice and the row index
    of Triangle.right_edge extracted from the current source (Gen.GenExt, translate/t_acc.py) satisfy
    the side conditions under which the theorems of Props/C15.v were proved. *)
From Coq Require Import ZArith List Bool Lia.
From Bermuda Require Import Model.Base Model.Accessors Model.Extend Proofs.Extend.
From Gen Require Import GenExt.
Import ListNotations.
Open Scope Z_scope.

Theorem C15_gen_spec_ok : lagcmp_spec_ok rt_cmp = true /\ edge_index_ok edge_index = true.
Proof. vm_compute. split; reflexivity. Qed.

(* the new cells of a right-edge cell, as selected by the comparison written in the source *)
Theorem C15_rt_row_source : forall u lags e c',
  In c' (rt_row_with (eval_lagcmp rt_cmp) u lags e) <->
  exists l, In l lags /\ cell_lag u e < l /\ c' = new_cell e (add_lag u (pe e) l).
Proof.
  intros u lags e c'. rewrite rt_row_gen by apply C15_gen_spec_ok. apply rt_row_In.
Qed.
Print Assumptions C15_rt_row_source.
