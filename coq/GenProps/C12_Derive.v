(** C12 -- from the enumerated Boolean facts (C12_Lift, generated shards) to readable
    equations about the GENERATED date functions. *)
From Coq Require Import ZArith Lia Bool Uint63 PrimFloat String.
From Bermuda Require Import Lib.PyPrim Lib.Loop Lib.Calendar.
From Gen Require Import GenDate C12_Base C12_Lift.
Local Open Scope Z_scope.

Ltac split_andb H :=
  repeat match type of H with
  | (_ && _)%bool = true => let H1 := fresh H in apply andb_prop in H; destruct H as [H H1]
  end.

Lemma K_of_j k : isub (of_Z (k + 600)) 600%uint63 = of_Z k.
Proof.
  unfold isub. change (PrimInt63.sub (of_Z (k + 600)) 600%uint63) with (of_Z (k + 600) - of_Z 600)%uint63.
  rewrite <- of_Z_sub. f_equal. lia.
Qed.

(* ---- ordinals are the calendar ---- *)
Lemma ordinals_exact o : LO <= o <= HI ->
  ord_of_date (D o) = of_Z o /\ valid_ymd (D o) = true
  /\ ile 1970 (dyear (D o)) = true /\ ile (dyear (D o)) 2100 = true.
Proof.
  intros H. pose proof (ord_all o H) as Hk. unfold ord_ok in Hk. fold (D o) in Hk.
  split_andb Hk. apply ieq_eq in Hk. auto.
Qed.

(* ---- inverse law ---- *)
Lemma inverse_law p e : LO <= p <= HI -> LO <= e <= HI -> - W <= e - p <= W ->
  py_add_months (D p) (py_dev_lag_months (D p) (D e)) = D e.
Proof. intros Hp He Hw. apply inv_ok_eq. apply inv_all; assumption. Qed.

(* ---- integer shifts ---- *)
Lemma shift_facts d k : LO <= d <= HI -> -600 <= k <= 600 ->
  stays (D d) (of_Z k) = true ->
  lands_ok (D d) (of_Z k) = true /\ ends_ok (D d) (of_Z k) = true.
Proof.
  intros Hd Hk Hs. apply (shift_kernel_spec d k); [|exact Hs].
  apply shift_all; lia.
Qed.

Lemma int_shift_lands d k : LO <= d <= HI -> -600 <= k <= 600 ->
  stays (D d) (of_Z k) = true ->
  py_month_to_id (py_add_months (D d) (K k)) = tgt_id (D d) (of_Z k)
  /\ valid_ymd (py_add_months (D d) (K k)) = true.
Proof.
  intros Hd Hk Hs. destruct (shift_facts d k Hd Hk Hs) as [Hl _].
  unfold lands_ok in Hl. apply andb_prop in Hl. destruct Hl as [H1 H2].
  apply ieq_eq in H1. split; assumption.
Qed.

Lemma ends_ok_spec d k : ends_ok d k = true -> py_is_month_end d = true ->
  py_add_months d (i2f k) = month_end_of_id (tgt_id d k)
  /\ py_is_month_end (py_add_months d (i2f k)) = true
  /\ py_add_months (py_add_months d (i2f k)) (i2f (ineg k)) = d.
Proof.
  unfold ends_ok. intros H He. rewrite He in H. split_andb H.
  apply date_eqb_eq in H, H0. repeat split; assumption.
Qed.

Lemma int_shift_month_ends d k : LO <= d <= HI -> -600 <= k <= 600 ->
  stays (D d) (of_Z k) = true -> py_is_month_end (D d) = true ->
  py_add_months (D d) (K k) = month_end_of_id (tgt_id (D d) (of_Z k))
  /\ py_is_month_end (py_add_months (D d) (K k)) = true
  /\ py_add_months (py_add_months (D d) (K k)) (i2f (ineg (of_Z k))) = D d.
Proof.
  intros Hd Hk Hs He. destruct (shift_facts d k Hd Hk Hs) as [_ H].
  unfold K. exact (ends_ok_spec _ _ H He).
Qed.

(* ---- month ids ---- *)
Lemma id_facts id : 0 <= id <= 1571 ->
  let s := month_start_of_id (of_Z id) in
  let e := month_end_of_id (of_Z id) in
  py_month_to_id s = of_Z id /\ py_month_to_id e = of_Z id
  /\ py_is_month_start s = true /\ py_is_month_end e = true
  /\ valid_ymd s = true /\ valid_ymd e = true
  /\ date_add_days e 1 = month_start_of_id (iadd (of_Z id) 1)
  /\ (exists o, LO <= o <= HI /\ e = D o).
Proof.
  intros H s e. pose proof (id_all id H) as Hk. unfold id_kernel in Hk.
  fold s in Hk. fold e in Hk. split_andb Hk.
  apply ieq_eq in Hk, Hk10. apply date_eqb_eq in Hk5, Hk4, Hk3.
  repeat split; try assumption.
  exists (to_Z (ord_of_date e)). split.
  - unfold in_rng in Hk1. apply andb_prop in Hk1. destruct Hk1 as [Ha Hb].
    apply leb_spec in Ha, Hb. rewrite of_Z_spec in Ha, Hb.
    pose proof wB_value as HwB. pose proof (to_Z_bounded (ord_of_date e)) as Hbd.
    unfold LO, HI in *. rewrite !Z.mod_small in Ha, Hb by lia. lia.
  - unfold D. rewrite of_to_Z. symmetry. exact Hk5.
Qed.

Lemma idpre_facts id : -840 <= id <= -1 ->
  let s := month_start_of_id (of_Z id) in
  let e := month_end_of_id (of_Z id) in
  py_month_to_id s = of_Z id /\ py_month_to_id e = of_Z id
  /\ py_is_month_start s = true /\ py_is_month_end e = true
  /\ valid_ymd s = true /\ valid_ymd e = true
  /\ date_add_days e 1 = month_start_of_id (iadd (of_Z id) 1).
Proof.
  intros H s e. pose proof (idpre_all id H) as Hk. unfold idpre_kernel in Hk.
  fold s in Hk. fold e in Hk. split_andb Hk.
  apply ieq_eq in Hk, Hk7. apply date_eqb_eq in Hk2.
  repeat split; assumption.
Qed.

Lemma month_brackets o : LO <= o <= HI ->
  let d := D o in let id := py_month_to_id d in
  date_leb (month_start_of_id id) d = true /\ date_leb d (month_end_of_id id) = true
  /\ py_is_month_end d = date_eqb d (month_end_of_id id)
  /\ py_is_month_start d = date_eqb d (month_start_of_id id).
Proof.
  intros H d id. pose proof (bracket_all o H) as Hk. unfold bracket_kernel in Hk.
  fold (D o) in Hk. fold d in Hk. fold id in Hk. split_andb Hk.
  apply Bool.eqb_prop in Hk1, Hk0. auto.
Qed.

Lemma month_end_lags_integer a b : 0 <= a <= 1571 -> 0 <= b <= 1571 ->
  PrimFloat.eqb (py_dev_lag_months (month_end_of_id (of_Z a)) (month_end_of_id (of_Z b)))
                (i2f (isub (of_Z b) (of_Z a))) = true.
Proof. intros Ha Hb. exact (lag_all a b Ha Hb). Qed.

(* ---- additivity on month ends (a genuine corollary of the enumerated facts) ---- *)
Lemma stays_tgt d k : stays d k = true ->
  exists t, 0 <= t <= 1571 /\ tgt_id d k = of_Z t.
Proof.
  unfold stays, in_rng. intros H. apply andb_prop in H. destruct H as [_ Hb].
  apply leb_spec in Hb.
  assert (E : to_Z 1571 = 1571) by (vm_compute; reflexivity). rewrite E in Hb.
  exists (to_Z (tgt_id d k)). pose proof (to_Z_bounded (tgt_id d k)).
  split; [lia|]. rewrite of_to_Z. reflexivity.
Qed.

Lemma month_end_additive d k1 k2 :
  LO <= d <= HI -> -600 <= k1 <= 600 -> -600 <= k2 <= 600 -> -600 <= k1 + k2 <= 600 ->
  py_is_month_end (D d) = true ->
  stays (D d) (of_Z k1) = true ->
  stays (D d) (of_Z (k1 + k2)) = true ->
  py_add_months (py_add_months (D d) (K k1)) (K k2) = py_add_months (D d) (K (k1 + k2)).
Proof.
  intros Hd H1 H2 H12 He Hs1 Hs12.
  destruct (int_shift_month_ends d k1 Hd H1 Hs1 He) as [E1 _].
  destruct (int_shift_month_ends d (k1 + k2) Hd H12 Hs12 He) as [E12 _].
  rewrite E1, E12.
  destruct (stays_tgt _ _ Hs1) as [t1 [Ht1 Et1]].
  rewrite Et1.
  destruct (id_facts t1 Ht1) as [_ [Hid [_ [Hme [_ [_ [_ [o [Ho Eo]]]]]]]]].
  assert (Etgt : tgt_id (D o) (of_Z k2) = tgt_id (D d) (of_Z (k1 + k2))).
  { unfold tgt_id. rewrite <- Eo, Hid, <- Et1. unfold tgt_id, iadd.
    change (PrimInt63.add ?a ?b) with (a + b)%uint63.
    rewrite of_Z_add. rewrite Uint63.add_assoc. reflexivity. }
  assert (Hs2 : stays (D o) (of_Z k2) = true).
  { unfold stays. rewrite Etgt. exact Hs12. }
  rewrite Eo.
  destruct (int_shift_month_ends o k2 Ho H2 Hs2) as [E2 _].
  { rewrite <- Eo. exact Hme. }
  rewrite E2, Etgt. reflexivity.
Qed.

(* ---- resolution_delta ---- *)
Lemma resolution_delta_month d q neg :
  py_resolution_delta d (q, "month"%string) neg
  = py_add_months d (i2f (if neg then imul q (ineg 1) else q)).
Proof. destruct neg; reflexivity. Qed.

Lemma resolution_delta_day d q neg :
  py_resolution_delta d (q, "day"%string) neg
  = date_add_days d (if neg then imul q (ineg 1) else q).
Proof. destruct neg; reflexivity. Qed.

Lemma J400 q : isub (of_Z (q + 400)) 400%uint63 = of_Z q.
Proof.
  unfold isub. change (PrimInt63.sub (of_Z (q + 400)) 400%uint63) with (of_Z (q + 400) - of_Z 400)%uint63.
  rewrite <- of_Z_sub. f_equal. lia.
Qed.

Lemma dayadd_kernel_spec o q : dayadd_kernel (of_Z o) (of_Z (q + 400)) = true ->
  ord_of_date (date_add_days (D o) (of_Z q)) = of_Z (o + q).
Proof.
  unfold dayadd_kernel. rewrite J400. unfold dayadd_body. fold (D o). intros H.
  apply ieq_eq in H. rewrite H. symmetry. exact (of_Z_add o q).
Qed.

Lemma day_add_exact o q : LO + 400 <= o <= HI - 400 -> -400 <= q <= 400 ->
  ord_of_date (date_add_days (D o) (of_Z q)) = of_Z (o + q).
Proof.
  intros Ho Hq. apply dayadd_kernel_spec. apply dayadd_all; lia.
Qed.

(* ---- before 1970 ---- *)
Lemma pre_body_spec d k : pre_body d k = true ->
  stays_pre d k = true -> py_is_month_end d = true ->
  py_add_months d (i2f k) = month_end_of_id (tgt_id d k)
  /\ py_add_months (py_add_months d (i2f k)) (i2f (ineg k)) = d.
Proof.
  unfold pre_body. intros H Hs He. rewrite Hs in H.
  destruct (ends_ok_spec d k H He) as [A [_ C]]. split; assumption.
Qed.

Lemma pre_kernel_spec id k :
  pre_kernel (of_Z id) (of_Z (k + 600)) = true ->
  pre_body (month_end_of_id (of_Z id)) (of_Z k) = true.
Proof. unfold pre_kernel. rewrite K_of_j. intros H; exact H. Qed.

Lemma pre1970_month_end_shifts id k : MINID0 <= id <= -1 -> -600 <= k <= 600 ->
  stays_pre (month_end_of_id (of_Z id)) (of_Z k) = true ->
  let d := month_end_of_id (of_Z id) in
  py_is_month_end d = true ->
  py_add_months d (K k) = month_end_of_id (tgt_id d (of_Z k))
  /\ py_add_months (py_add_months d (K k)) (i2f (ineg (of_Z k))) = d.
Proof.
  intros Hi Hk Hs d He. unfold K. apply pre_body_spec; [|exact Hs|exact He].
  apply pre_kernel_spec. apply pre_all; lia.
Qed.

Lemma pre1970_refuted :
  exists p e, LO0 <= p <= HI0 /\ LO0 <= e <= HI0 /\
  date_eqb (py_add_months (D p) (py_dev_lag_months (D p) (D e))) (D e) = false.
Proof.
  (* 1969-11-30 , 1960-03-10 *)
  exists 719131, 715579. unfold LO0, HI0. split; [lia|]. split; [lia|].
  vm_compute. reflexivity.
Qed.

(* ---- bridge to Lib/Calendar.addm ---- *)
Lemma KB_of_j k : isub (of_Z (k + KB)) (of_Z KB) = of_Z k.
Proof.
  unfold isub. change (PrimInt63.sub ?a ?b) with (a - b)%uint63.
  rewrite <- of_Z_sub. f_equal. lia.
Qed.
Lemma to_Z_small z : 0 <= z <= 4611686018427387904 -> to_Z (of_Z z) = z.
Proof. intros H. rewrite of_Z_spec, Z.mod_small; [reflexivity|]. rewrite wB_value. lia. Qed.

Lemma addm_body_spec d k : - KB <= k <= KB ->
  addm_body KB d (of_Z (k + KB)) = true -> stays d (of_Z k) = true ->
  to_Z (ord_of_date (py_add_months d (K k))) = addm (to_Z (ord_of_date d)) k.
Proof.
  intros Hk. unfold addm_body. rewrite KB_of_j.
  rewrite to_Z_small by (unfold KB in *; lia).
  replace (k + KB - KB) with k by lia.
  intros H Hs. rewrite Hs in H. apply Z.eqb_eq in H. exact H.
Qed.

Lemma addm_agrees id k : 0 <= id <= 1571 -> - KB <= k <= KB ->
  (stays (month_start_of_id (of_Z id)) (of_Z k) = true ->
   to_Z (ord_of_date (py_add_months (month_start_of_id (of_Z id)) (K k)))
   = addm (to_Z (ord_of_date (month_start_of_id (of_Z id)))) k)
  /\
  (stays (month_end_of_id (of_Z id)) (of_Z k) = true ->
   to_Z (ord_of_date (py_add_months (month_end_of_id (of_Z id)) (K k)))
   = addm (to_Z (ord_of_date (month_end_of_id (of_Z id)))) k).
Proof.
  intros Hi Hk. pose proof (addm_all id (k + KB) Hi ltac:(lia)) as H.
  unfold addm_kernel in H. apply andb_prop in H. destruct H as [H1 H2].
  split; intros Hs; apply addm_body_spec; assumption.
Qed.
