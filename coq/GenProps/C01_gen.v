(** C01 -- the comparison tuples of the SOURCE (GenOrder.v, regenerated from /repo on this run)
    are the canonical keys the static theorems of Props/C01.v are about. *)
From Coq Require Import ZArith List Bool.
From Bermuda Require Import Model.Base Model.Order Model.Eq.
From Gen Require Import GenOrder.
Import ListNotations.
Local Open Scope Z_scope.

(* Metadata.__lt__:  left tuple = key(self), right tuple = key(other) *)
Theorem C01_gen_meta_lt_compares_canonical_keys : forall self other,
  gen_meta_left self other = canonical_key self /\ gen_meta_right self other = canonical_key other.
Proof. intros. split; reflexivity. Qed.

(* Cell.__lt__ (Cell / CumulativeCell: no prev) *)
Theorem C01_gen_cell_lt_compares_cell_tuples : forall self other,
  prev self = None -> prev other = None ->
  gen_cell_left self other = cell_tuple self /\ gen_cell_right self other = cell_tuple other.
Proof. intros self other H1 H2. unfold gen_cell_left, gen_cell_right, cell_tuple, cell_dates. rewrite H1, H2. split; reflexivity. Qed.

(* IncrementalCell.__lt__ *)
Theorem C01_gen_inc_lt_compares_cell_tuples : forall self other p q,
  prev self = Some p -> prev other = Some q ->
  gen_inc_left self other = cell_tuple self /\ gen_inc_right self other = cell_tuple other.
Proof. intros self other p q H1 H2. unfold gen_inc_left, gen_inc_right, cell_tuple, cell_dates. rewrite H1, H2. split; reflexivity. Qed.

(* Triangle.__init__ materialises its argument once, rejects non-cells and mixed classes, sorts with
   the cells' own `<` (no key function), assigns _cells once; nothing else in the package assigns
   or mutates a `_cells` list (T-funnel) *)
Theorem C01_gen_constructor_shape :
  tri_materialises_once && tri_sorts_with_lt && tri_rejects_mixed_classes && tri_rejects_non_cells
  && tri_single_cells_assignment && tri_iter_over_cells && tri_len_of_cells = true
  /\ funnel_violations = 0%nat.
Proof. split; reflexivity. Qed.
