(** C04, tie by translation: the four decision-carrying constants that translate/t_basis.py extracted
    from the CURRENT bermuda/utils/basis.py (GenBasis.d) satisfy [spec_ok]; hence every theorem of
    Props/C04.v holds for the model instantiated with the constants of the code as it is now. *)
From Coq Require Import ZArith List Bool.
From Bermuda Require Import Model.Base Model.Basis Proofs.BasisP.
From Gen Require Import GenBasis.
Import ListNotations.
Local Open Scope Z_scope.

Theorem C04_gen_spec_ok : spec_ok GenBasis.d = true.
Proof. vm_compute; reflexivity. Qed.
Print Assumptions C04_gen_spec_ok.

Theorem C04_gen_incremental_structure : forall rows,
  rows_okb rows = true -> forallb (cum_row_okb GenBasis.d false) rows = true ->
  exists outs, to_incremental GenBasis.d (concat rows) = Ok (concat outs) /\ rows_structb rows outs = true.
Proof. intros; apply P_tri_inc_struct; auto; exact C04_gen_spec_ok. Qed.
Print Assumptions C04_gen_incremental_structure.

Theorem C04_gen_roundtrip_cum : forall rows,
  rows_okb rows = true -> forallb (cum_row_okb GenBasis.d true) rows = true ->
  exists incs, to_incremental GenBasis.d (concat rows) = Ok incs
               /\ to_cumulative GenBasis.d incs = Ok (map retag_cum (concat rows)).
Proof. intros; apply P_tri_inc_cum; auto; exact C04_gen_spec_ok. Qed.
Print Assumptions C04_gen_roundtrip_cum.

Theorem C04_gen_roundtrip_inc : forall rows,
  rows_okb rows = true -> forallb (inc_row_okb GenBasis.d) rows = true ->
  exists cums, to_cumulative GenBasis.d (concat rows) = Ok cums
               /\ to_incremental GenBasis.d cums = Ok (concat rows).
Proof. intros; apply P_tri_cum_inc; auto; exact C04_gen_spec_ok. Qed.
Print Assumptions C04_gen_roundtrip_inc.

Theorem C04_gen_refuse_first_prev : forall c0 rest p0,
  prev c0 = Some p0 -> p0 + 1 <> ps c0 -> row_to_cumulative GenBasis.d (c0 :: rest) = Err TriangleError.
Proof. intros; eapply P_first_prev_refused; eauto; exact C04_gen_spec_ok. Qed.
Print Assumptions C04_gen_refuse_first_prev.

Theorem C04_gen_refuse_removed_link : forall pre a x b post,
  inc_row_okb GenBasis.d (pre ++ a :: x :: b :: post) = true ->
  row_to_cumulative GenBasis.d (pre ++ a :: b :: post) = Err TriangleError.
Proof. intros; eapply P_removed_link_refused; eauto; exact C04_gen_spec_ok. Qed.
Print Assumptions C04_gen_refuse_removed_link.
