(** C12 -- Development-lag and month arithmetic are mutually inverse and calendar-exact.

    Every function below (py_add_months, py_dev_lag_months, py_month_to_id, py_id_to_month,
    py_is_month_end, py_resolution_delta) is GENERATED from bermuda/date_utils.py on this run.
    `D o` is the date with proleptic ordinal o, `K k` the integer offset k as Python passes it.
    Domain (part of each statement): ordinals LO..HI = 1970-01-01..2100-12-31, offsets
    -600..600 whose target month stays in range (`stays`), month ids 0..1571.
    Abbreviations (C12_Base): tgt_id d k = month_to_id d + k; month_end_of_id id = id_to_month id False;
    month_start_of_id id = id_to_month id True; stays d k: 0 <= tgt_id d k <= 1571.
    W is the half-width in days of the date-pair window enumerated by this run
    (quick: 800; thorough: 47846 = every pair of dates in the range). *)
From Coq Require Import ZArith Bool Uint63 PrimFloat String.
From Bermuda Require Import Lib.PyPrim Lib.Loop Lib.Calendar.
From Gen Require Import GenDate C12_Base C12_Lift C12_Derive.
Local Open Scope Z_scope.

Theorem C12_ordinals_are_the_calendar : forall o, LO <= o <= HI ->
  ord_of_date (D o) = of_Z o /\ valid_ymd (D o) = true
  /\ ile 1970 (dyear (D o)) = true /\ ile (dyear (D o)) 2100 = true.
Proof. exact ordinals_exact. Qed.
Print Assumptions C12_ordinals_are_the_calendar.

Theorem C12_inverse_law : forall p e, LO <= p <= HI -> LO <= e <= HI -> - W <= e - p <= W ->
  py_add_months (D p) (py_dev_lag_months (D p) (D e)) = D e.
Proof. exact inverse_law. Qed.
Print Assumptions C12_inverse_law.

Theorem C12_int_shift_lands_k_months_later : forall d k, LO <= d <= HI -> -600 <= k <= 600 ->
  stays (D d) (of_Z k) = true ->
  py_month_to_id (py_add_months (D d) (K k)) = tgt_id (D d) (of_Z k)
  /\ valid_ymd (py_add_months (D d) (K k)) = true.
Proof. exact int_shift_lands. Qed.
Print Assumptions C12_int_shift_lands_k_months_later.

Theorem C12_month_ends_map_to_month_ends_and_undo : forall d k, LO <= d <= HI -> -600 <= k <= 600 ->
  stays (D d) (of_Z k) = true -> py_is_month_end (D d) = true ->
  py_add_months (D d) (K k) = month_end_of_id (tgt_id (D d) (of_Z k))
  /\ py_is_month_end (py_add_months (D d) (K k)) = true
  /\ py_add_months (py_add_months (D d) (K k)) (i2f (ineg (of_Z k))) = D d.
Proof. exact int_shift_month_ends. Qed.
Print Assumptions C12_month_ends_map_to_month_ends_and_undo.

Theorem C12_month_end_shifts_compose_additively : forall d k1 k2,
  LO <= d <= HI -> -600 <= k1 <= 600 -> -600 <= k2 <= 600 -> -600 <= k1 + k2 <= 600 ->
  py_is_month_end (D d) = true ->
  stays (D d) (of_Z k1) = true -> stays (D d) (of_Z (k1 + k2)) = true ->
  py_add_months (py_add_months (D d) (K k1)) (K k2) = py_add_months (D d) (K (k1 + k2)).
Proof. exact month_end_additive. Qed.
Print Assumptions C12_month_end_shifts_compose_additively.

Theorem C12_month_end_lags_are_exact_integers : forall a b, 0 <= a <= 1571 -> 0 <= b <= 1571 ->
  PrimFloat.eqb (py_dev_lag_months (month_end_of_id (of_Z a)) (month_end_of_id (of_Z b)))
                (i2f (isub (of_Z b) (of_Z a))) = true.
Proof. exact month_end_lags_integer. Qed.
Print Assumptions C12_month_end_lags_are_exact_integers.

Theorem C12_month_id_lossless : forall id, 0 <= id <= 1571 ->
  let s := month_start_of_id (of_Z id) in
  let e := month_end_of_id (of_Z id) in
  py_month_to_id s = of_Z id /\ py_month_to_id e = of_Z id
  /\ py_is_month_start s = true /\ py_is_month_end e = true
  /\ valid_ymd s = true /\ valid_ymd e = true
  /\ date_add_days e 1 = month_start_of_id (iadd (of_Z id) 1)
  /\ (exists o, LO <= o <= HI /\ e = D o).
Proof. exact id_facts. Qed.
Print Assumptions C12_month_id_lossless.

Theorem C12_month_id_lossless_1900_1969 : forall id, -840 <= id <= -1 ->
  let s := month_start_of_id (of_Z id) in
  let e := month_end_of_id (of_Z id) in
  py_month_to_id s = of_Z id /\ py_month_to_id e = of_Z id
  /\ py_is_month_start s = true /\ py_is_month_end e = true
  /\ valid_ymd s = true /\ valid_ymd e = true
  /\ date_add_days e 1 = month_start_of_id (iadd (of_Z id) 1).
Proof. exact idpre_facts. Qed.

Theorem C12_every_date_is_bracketed_by_its_month : forall o, LO <= o <= HI ->
  let d := D o in let id := py_month_to_id d in
  date_leb (month_start_of_id id) d = true /\ date_leb d (month_end_of_id id) = true
  /\ py_is_month_end d = date_eqb d (month_end_of_id id)
  /\ py_is_month_start d = date_eqb d (month_start_of_id id).
Proof. exact month_brackets. Qed.
Print Assumptions C12_every_date_is_bracketed_by_its_month.

Theorem C12_resolution_delta_month_is_add_months : forall d q neg,
  py_resolution_delta d (q, "month"%string) neg
  = py_add_months d (i2f (if neg then imul q (ineg 1) else q)).
Proof. exact resolution_delta_month. Qed.
Print Assumptions C12_resolution_delta_month_is_add_months.

Theorem C12_resolution_delta_day_is_day_arithmetic : forall d q neg,
  py_resolution_delta d (q, "day"%string) neg = date_add_days d (if neg then imul q (ineg 1) else q).
Proof. exact resolution_delta_day. Qed.

Theorem C12_day_arithmetic_is_ordinal_addition : forall o q,
  LO + 400 <= o <= HI - 400 -> -400 <= q <= 400 ->
  ord_of_date (date_add_days (D o) (of_Z q)) = of_Z (o + q).
Proof. exact day_add_exact. Qed.
Print Assumptions C12_day_arithmetic_is_ordinal_addition.

(** Bridge to the Z-level calendar of the structural models (Lib/Calendar.v): on month-aligned
    dates (first or last day of a month) the float-based add_months of the source IS the integer
    month shift `addm` (offsets -KB..KB; KB = 120 in the quick tier, 600 in the thorough tier). *)
Theorem C12_add_months_agrees_with_Z_calendar : forall id k, 0 <= id <= 1571 -> - KB <= k <= KB ->
  (stays (month_start_of_id (of_Z id)) (of_Z k) = true ->
   to_Z (ord_of_date (py_add_months (month_start_of_id (of_Z id)) (K k)))
   = addm (to_Z (ord_of_date (month_start_of_id (of_Z id)))) k)
  /\
  (stays (month_end_of_id (of_Z id)) (of_Z k) = true ->
   to_Z (ord_of_date (py_add_months (month_end_of_id (of_Z id)) (K k)))
   = addm (to_Z (ord_of_date (month_end_of_id (of_Z id)))) k).
Proof. exact addm_agrees. Qed.
Print Assumptions C12_add_months_agrees_with_Z_calendar.

(** Years 1900-1969.  Month-end to month-end integer shifts are still exact ... *)
Theorem C12_pre1970_month_end_shifts : forall id k, MINID0 <= id <= -1 -> -600 <= k <= 600 ->
  stays_pre (month_end_of_id (of_Z id)) (of_Z k) = true ->
  let d := month_end_of_id (of_Z id) in
  py_is_month_end d = true ->
  py_add_months d (K k) = month_end_of_id (tgt_id d (of_Z k))
  /\ py_add_months (py_add_months d (K k)) (i2f (ineg (of_Z k))) = d.
Proof. exact pre1970_month_end_shifts. Qed.
Print Assumptions C12_pre1970_month_end_shifts.

(** ... but the inverse law is REFUTED there (known finding F10: int() truncates toward zero on
    negative lags; witness 1969-11-30 / 1960-03-10, replayed on the implementation each run). *)
Theorem C12_inverse_law_pre1970_refuted :
  exists p e, LO0 <= p <= HI0 /\ LO0 <= e <= HI0 /\
  date_eqb (py_add_months (D p) (py_dev_lag_months (D p) (D e))) (D e) = false.
Proof. exact pre1970_refuted. Qed.

(** Non-vacuity: the hypotheses are met by concrete, non-trivial inputs. *)
Example C12_nonvacuous :
  (LO <= 737484 <= HI) /\ py_is_month_end (D 737484) = true        (* 2020-02-29 *)
  /\ stays (D 737484) (of_Z 12) = true /\ stays (D 737484) (of_Z (-599)) = true
  /\ D 737484 = mkdate 2020 2 29
  /\ py_add_months (D 737484) (K 12) = mkdate 2021 2 28.
Proof. unfold LO, HI. repeat split; try (vm_compute; congruence); vm_compute; reflexivity. Qed.
