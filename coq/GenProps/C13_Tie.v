(** C13 tie: one record of IMPLEMENTATION outputs per generated triangle; [check] compares them with
    the model (Model/Accessors.v) and evaluates the executable specifications on them.
    Compiled in build/C13/ on every run; cases_k.v files import it. *)
From Coq Require Import ZArith List Bool.
From Bermuda Require Import Lib.Calendar Model.Base Model.Accessors.
Import ListNotations.
Local Open Scope Z_scope.

Record out := mkOut {
  o_aligned : bool;                              (* month-aligned: month-unit entries are meaningful *)
  o_metadata : list meta;
  o_periods : list (Z * Z);
  o_evals : list Z;
  o_eval : result Z;
  o_lags_day : list Z;
  o_lags_month : list Z;
  o_fields : list str;
  o_fcc : list (str * Z);
  o_fsc : list (str * Z);
  o_nsamp : result Z;
  o_gaps : list (Z * Z);
  o_common : result meta;
  o_diffs : list meta;
  o_disjoint : bool;
  o_sw_disjoint : bool;
  o_semi_day : bool;
  o_semi_month : bool;
  o_reg_day : bool;
  o_reg_month : bool;
  o_pres : result (option Z);
  o_eres : result (option Z) }.

Definition zl_eqb := list_eqb Z.eqb.
Definition pl_eqb := list_eqb zpair_eqb.
Definition when (c b : bool) : bool := if c then b else true.

(* recombination evaluated on the implementation's own outputs *)
Definition recombine_ok (o : out) : bool :=
  match o_common o with
  | Ok c => (length (o_diffs o) =? length (o_metadata o))%nat
            && forallb (fun dm => meta_pyeq (recombine c (fst dm)) (snd dm))
                       (combine (o_diffs o) (o_metadata o))
  | Err _ => match o_metadata o with [] => true | _ => false end
  end.

Definition month_gaps_p (t : list cell) : list Z :=
  let ps := map period t in
  diffs (sort_u Z.ltb (map (fun p => month_id (fst p)) ps ++ map (fun p => month_id (snd p) + 1) ps)).
Definition month_gaps_e (o : out) : list Z := diffs (isort (map month_id (o_evals o))).
Definition res_spec (gaps : list Z) (r : result (option Z)) : bool :=
  match r with
  | Ok None => match gaps with [] => true | _ => false end
  | Ok (Some g) => match gaps with [] => false | _ => gcd_spec_b gaps g end
  | Err _ => true
  end.

Definition check (t : list cell) (o : out) : list bool :=
  let al := o_aligned o in
  [ (* 0-12: model = implementation *)
    list_eqb meta_seqb (metadata t) (o_metadata o);
    pl_eqb (periods t) (o_periods o);
    zl_eqb (evaluation_dates t) (o_evals o);
    result_eqb Z.eqb (evaluation_date t) (o_eval o);
    zl_eqb (dev_lags UDay t) (o_lags_day o);
    when al (zl_eqb (dev_lags UMonth t) (o_lags_month o));
    list_eqb str_eqb (fields t) (o_fields o);
    list_eqb strz_eqb (field_cell_counts t) (o_fcc o);
    list_eqb strz_eqb (field_slice_counts t) (o_fsc o);
    result_eqb Z.eqb (num_samples t) (o_nsamp o);
    pl_eqb (experience_gaps t) (o_gaps o);
    result_eqb meta_oeqb (common_metadata t) (o_common o);
    list_eqb meta_seqb (metadata_differences t) (o_diffs o);
    (* 13-20 *)
    Bool.eqb (is_disjoint t) (o_disjoint o);
    Bool.eqb (is_slicewise_disjoint t) (o_sw_disjoint o);
    Bool.eqb (is_semi_regular UDay t) (o_semi_day o);
    when al (Bool.eqb (is_semi_regular UMonth t) (o_semi_month o));
    Bool.eqb (is_regular UDay t) (o_reg_day o);
    when al (Bool.eqb (is_regular UMonth t) (o_reg_month o));
    result_eqb (opt_eqb Z.eqb) (period_resolution t) (o_pres o);
    result_eqb (opt_eqb Z.eqb) (eval_date_resolution t) (o_eres o);
    (* 21-: executable specifications on the implementation's outputs *)
    image_spec_b pair_ltb zpair_eqb (map period t) (o_periods o);
    image_spec_b Z.ltb Z.eqb (map ev t) (o_evals o);
    image_spec_b Z.ltb Z.eqb (map (cell_lag UDay) t) (o_lags_day o);
    when al (image_spec_b Z.ltb Z.eqb (map (cell_lag UMonth) t) (o_lags_month o));
    image_spec_b str_ltb str_eqb (flat_map (fun c => keys (cvals c)) t) (o_fields o);
    recombine_ok o;
    Bool.eqb (o_disjoint o) (disjoint_spec_b t);
    Bool.eqb (o_semi_day o) (disjoint_spec_b t && equal_lengths_b UDay t);
    when al (Bool.eqb (o_semi_month o) (disjoint_spec_b t && equal_lengths_b UMonth t));
    Bool.eqb (o_reg_day o) (disjoint_spec_b t && equal_lengths_b UDay t && const_spacing_b UDay t);
    when al (Bool.eqb (o_reg_month o)
               (disjoint_spec_b t && equal_lengths_b UMonth t && const_spacing_b UMonth t));
    res_spec (month_gaps_p t) (o_pres o);
    res_spec (month_gaps_e o) (o_eres o) ].

Definition NCHECK : nat := 34.
Definition run (cases : list (list cell * out)) : list nat :=
  failing (flat_map (fun c => check (fst c) (snd c)) cases).
