(** C11 -- clip and the (period, evaluation, metadata) index, against the descriptions GENERATED
    from bermuda/triangle.py on this run (Gen.GenPred: gen_clip, gen_getitem).

    The theorems are proved once, statically (Proofs/SelectP.v), for ANY description satisfying the
    Boolean side condition `clip_spec_ok` / `getitem_ok`; here the side condition is discharged on
    the generated description by computation and the theorems are instantiated. *)
From Coq Require Import ZArith List Bool Permutation Sorted.
From Bermuda Require Import Model.Base Model.Order Proofs.OrderP Proofs.TriangleP.
From Bermuda Require Import Lib.Calendar Model.Select Proofs.SelectP Proofs.SelectCanon.
From Gen Require Import GenPred.
Import ListNotations.
Local Open Scope Z_scope.

Theorem C11_generated_clip_description_ok : clip_spec_ok gen_clip = true.
Proof. vm_compute. reflexivity. Qed.
Theorem C11_generated_getitem_description_ok : getitem_ok gen_getitem = true.
Proof. vm_compute. reflexivity. Qed.

Theorem C11_generated_slice_getitem_description_ok : getitem_ok gen_getitem_slice = true.
Proof. vm_compute. reflexivity. Qed.

(* clip = filter by the conjunction of the inclusive bounds; the result keeps the input order *)
Theorem C11_clip_is_filter_of_inclusive_bounds : forall a t,
  clip gen_clip a t = filter (inclusive_pred a) t /\ sublist (clip gen_clip a t) t.
Proof.
  intros a t. split; [apply clip_is_filter; exact C11_generated_clip_description_ok | apply clip_sublist].
Qed.
Print Assumptions C11_clip_is_filter_of_inclusive_bounds.

(* every given bound is inclusive, bounds combine conjunctively, nothing else is removed.
   Development lags: dev_lag UDay c = ev c - pe c (days, no restriction);
   dev_lag UMonth c = Calendar.lag_months (pe c) (ev c) (months, the implementation's lag on
   month-aligned cells); bounds are numbers n/1024. *)
Theorem C11_clip_bounds_inclusive_and_conjunctive : forall a t c,
  In c (clip gen_clip a t) <->
  In c t
  /\ (forall d, min_eval a = Some d -> d <= ev c) /\ (forall d, max_eval a = Some d -> ev c <= d)
  /\ (forall d, min_period a = Some d -> d <= ps c) /\ (forall d, max_period a = Some d -> pe c <= d)
  /\ (forall x, min_dev a = Some x -> num_n x <= 1024 * dev_lag (dev_unit a) c)
  /\ (forall x, max_dev a = Some x -> 1024 * dev_lag (dev_unit a) c <= num_n x).
Proof. intros a t c. apply clip_in_iff. exact C11_generated_clip_description_ok. Qed.
Print Assumptions C11_clip_bounds_inclusive_and_conjunctive.

Theorem C11_clip_result_is_sorted : forall (R : cell -> cell -> Prop) a t,
  StronglySorted R t -> StronglySorted R (clip gen_clip a t).
Proof. intros R a t. apply sublist_StronglySorted. apply clip_sublist. Qed.
Print Assumptions C11_clip_result_is_sorted.

(* ... and it is what `Triangle(list(cells))` at the end of clip returns (C01's constructor) *)
Theorem C11_clip_result_is_a_fixed_point_of_the_constructor : forall a t,
  canonical t -> mk_triangle (clip gen_clip a t) = Ok (clip gen_clip a t).
Proof. intros a t. apply clip_constructor. Qed.
Print Assumptions C11_clip_result_is_a_fixed_point_of_the_constructor.

(* lag bounds in days: the int n and datetime.timedelta(days=n) denote the day count n; the model's
   scaled comparison is the comparison of day counts *)
Theorem C11_day_and_timedelta_lag_bounds_compare_day_counts : forall f1 f2 lo hi t c,
  In c (clip gen_clip (mkClip None None None None (Some (Num f1 (1024 * lo))) (Some (Num f2 (1024 * hi))) UDay) t)
  <-> In c t /\ lo <= ev c - pe c <= hi.
Proof. intros. apply day_bounds_compare_day_counts. exact C11_generated_clip_description_ok. Qed.
Print Assumptions C11_day_and_timedelta_lag_bounds_compare_day_counts.

(* complementary clips partition what the other bounds leave *)
Theorem C11_complementary_evaluation_clips_partition : forall a t d,
  min_eval a = None -> max_eval a = None ->
  Permutation (clip gen_clip a t)
              (clip gen_clip (with_bound a BMaxEval (Some d)) t
               ++ clip gen_clip (with_bound a BMinEval (Some (d + 1))) t)
  /\ (forall c, ~ (In c (clip gen_clip (with_bound a BMaxEval (Some d)) t)
                   /\ In c (clip gen_clip (with_bound a BMinEval (Some (d + 1))) t))).
Proof. intros a t d. apply clip_eval_partition. exact C11_generated_clip_description_ok. Qed.
Print Assumptions C11_complementary_evaluation_clips_partition.

Theorem C11_complementary_lag_clips_partition : forall a t k,
  min_dev a = None -> max_dev a = None ->
  Permutation (clip gen_clip a t)
              (clip gen_clip (with_bound a BMaxDev (Some (1024 * k))) t
               ++ clip gen_clip (with_bound a BMinDev (Some (1024 * (k + 1)))) t)
  /\ (forall c, ~ (In c (clip gen_clip (with_bound a BMaxDev (Some (1024 * k))) t)
                   /\ In c (clip gen_clip (with_bound a BMinDev (Some (1024 * (k + 1)))) t))).
Proof. intros a t k. apply clip_dev_partition. exact C11_generated_clip_description_ok. Qed.
Print Assumptions C11_complementary_lag_clips_partition.

(* t[period, evaluation, metadata] is the stated filter (None = unbounded; a date = that date on
   both sides); a Cell comes back iff no component is a slice, IndexError if there is none;
   a period / evaluation index that is neither a date nor a slice raises ValueError *)
Theorem C11_index_by_period_evaluation_metadata : forall t p e m,
  Forall (fun c => DATE_MIN <= ps c <= DATE_MAX) t ->
  (forall pb eb, pidx_bounds p = Ok pb -> pidx_bounds e = Ok eb ->
     getitem gen_getitem gen_clip (ITriple p e m) t =
     let r := filter (getitem_filter pb eb m) t in
     if is_slice_p p || is_slice_p e || (match m with MAll => true | _ => false end) then Ok (GTri r)
     else match r with c :: _ => Ok (GCell c) | [] => Err IndexError end)
  /\ ((p = PBad \/ e = PBad) -> getitem gen_getitem gen_clip (ITriple p e m) t = Err ValueError)
  /\ getitem gen_getitem gen_clip IBadArity t = Err ValueError.
Proof.
  intros t p e m Hd. split; [| split].
  - intros pb eb Hp He. apply getitem_triple; auto using C11_generated_getitem_description_ok,
      C11_generated_clip_description_ok.
  - apply getitem_triple_bad.
  - reflexivity.
Qed.
Print Assumptions C11_index_by_period_evaluation_metadata.

(* TriangleSlice[period, evaluation]: the same filter without a metadata component *)
Theorem C11_triangle_slice_index_by_period_evaluation : forall t p e,
  Forall (fun c => DATE_MIN <= ps c <= DATE_MAX) t ->
  (forall pb eb, pidx_bounds p = Ok pb -> pidx_bounds e = Ok eb ->
     slice_getitem gen_getitem_slice gen_clip (I2Pair p e) t =
     let r := filter (getitem_filter pb eb MNoneIdx) t in
     if is_slice_p p || is_slice_p e then Ok (GTri r)
     else match r with c :: _ => Ok (GCell c) | [] => Err IndexError end)
  /\ ((p = PBad \/ e = PBad) -> slice_getitem gen_getitem_slice gen_clip (I2Pair p e) t = Err ValueError)
  /\ slice_getitem gen_getitem_slice gen_clip I2BadArity t = Err ValueError.
Proof.
  intros t p e Hd. split; [| split].
  - intros pb eb Hp He. cbn [slice_getitem].
    rewrite (getitem_triple gen_getitem_slice gen_clip t p e MNoneIdx pb eb
               C11_generated_slice_getitem_description_ok C11_generated_clip_description_ok Hd Hp He).
    cbv zeta. rewrite Bool.orb_false_r. reflexivity.
  - intro H. cbn [slice_getitem]. now apply getitem_triple_bad.
  - reflexivity.
Qed.
Print Assumptions C11_triangle_slice_index_by_period_evaluation.

(* non-vacuity: a 5-cell, 2-slice triangle; bounds equal to existing dates keep those cells *)
Definition m1 : meta := default_meta.
Definition m2 : meta := mkMeta (Some [65]) (Some [85;83]) None None None None [([108], MStr [120])] [].
Definition mkc (m : meta) (s e v : Z) (x : Z) : cell :=
  mkCell KCum s e v None m [([97], VNum (Num false (1024 * x)))].
Definition ex_t : list cell :=
  [ mkc m1 737425 737455 737455 1; mkc m1 737425 737455 737484 2; mkc m1 737456 737484 737484 3;
    mkc m2 737425 737455 737455 4; mkc m2 737425 737455 737515 5 ].
Example C11_clip_nonvacuous :
  clip gen_clip (mkClip (Some 737484) (Some 737484) None None None None UMonth) ex_t
    = [mkc m1 737425 737455 737484 2; mkc m1 737456 737484 737484 3]
  /\ clip gen_clip (mkClip None None None (Some 737455) (Some (Num false 1024)) (Some (Num true 2048)) UMonth) ex_t
    = [mkc m1 737425 737455 737484 2; mkc m2 737425 737455 737515 5]
  /\ length (clip gen_clip (with_bound no_clip BMaxEval (Some 737455)) ex_t) = 2%nat
  /\ length (clip gen_clip (with_bound no_clip BMinEval (Some 737456)) ex_t) = 3%nat.
Proof. vm_compute. repeat split; reflexivity. Qed.
Example C11_index_nonvacuous :
  Forall (fun c => DATE_MIN <= ps c <= DATE_MAX) ex_t
  /\ getitem gen_getitem gen_clip (ITriple (PDate 737425) (PSlice None (Some 737484)) (MMeta m1)) ex_t
     = Ok (GTri [mkc m1 737425 737455 737455 1; mkc m1 737425 737455 737484 2])
  /\ getitem gen_getitem gen_clip (ITriple (PDate 737456) (PDate 737484) MNoneIdx) ex_t
     = Ok (GCell (mkc m1 737456 737484 737484 3))
  /\ getitem gen_getitem gen_clip (ITriple (PDate 737456) (PDate 737455) MNoneIdx) ex_t = Err IndexError.
Proof.
  split; [| vm_compute; repeat split; reflexivity].
  repeat constructor; vm_compute; discriminate.
Qed.
