(** C12 -- Boolean kernels over the functions GENERATED from bermuda/date_utils.py
    (Gen.GenDate), and the lemmas that turn `kernel = true` into equations.
    Domain constants:  ordinals of 1970-01-01 .. 2100-12-31 and month ids 0 .. 1571. *)
From Coq Require Import ZArith Lia Bool Uint63 PrimFloat String.
From Bermuda Require Import Lib.PyPrim Lib.Loop Lib.Calendar.
From Gen Require Import GenDate.
Local Open Scope Z_scope.

Definition LO : Z := 719163.   (* date(1970,1,1).toordinal() *)
Definition HI : Z := 767009.   (* date(2100,12,31).toordinal() *)
Definition NDAYS : nat := Z.to_nat 47847.
Definition LO0 : Z := 693596.  (* date(1900,1,1).toordinal() *)
Definition HI0 : Z := 719162.  (* date(1969,12,31).toordinal() *)
Definition MAXID : Z := 1571.  (* month id of 2100-12 *)
Definition MINID0 : Z := -840. (* month id of 1900-01 *)

Definition D (o : Z) : date := date_of_ord (of_Z o).
Definition K (k : Z) : float := i2f (of_Z k).      (* an integer month offset as Python passes it *)

(* --- the inverse law ------------------------------------------------------------------ *)
Definition inv_ok (p : int) : int -> bool :=
  let dp := date_of_ord p in   (* evaluated once per p by the VM *)
  fun e => let de := date_of_ord e in
  date_eqb (py_add_months dp (py_dev_lag_months dp de)) de.

Lemma inv_ok_eq p e : inv_ok (of_Z p) (of_Z e) = true ->
  py_add_months (D p) (py_dev_lag_months (D p) (D e)) = D e.
Proof. unfold inv_ok, D. apply date_eqb_eq. Qed.

(* --- calendar sanity of the ordinal conversion (ties D to (y,m,d)) --------------------- *)
Definition valid_ymd (d : date) : bool :=
  ile 1 (dmonth d) && ile (dmonth d) 12 && ile 1 (dday d)
  && ile (dday d) (py_monthrange_days (dyear d) (dmonth d)).
Definition ord_ok (o : int) : bool :=
  let d := date_of_ord o in
  ieq (ord_of_date d) o && valid_ymd d && ile 1970 (dyear d) && ile (dyear d) 2100.

(* --- integer month shifts --------------------------------------------------------------
   j in [0, 1201) encodes the offset k = j - 600.  The result "stays in range" when the target
   month id lies in [0, MAXID]. *)
Definition tgt_id (d : date) (k : int) : int := iadd (py_month_to_id d) k.
(* target month id in [0, 1571] (unsigned comparison: a negative id is a huge unsigned number) *)
Definition stays (d : date) (k : int) : bool := in_rng 0 1571 (tgt_id d k).
(* target month id in [-840, 1571], for starting dates before 1970 *)
Definition stays_pre (d : date) (k : int) : bool := in_rng 0 2411 (iadd (tgt_id d k) 840).
Definition month_end_of_id (id : int) : date := py_id_to_month id false.
Definition month_start_of_id (id : int) : date := py_id_to_month id true.

Definition lands_ok (d : date) (k : int) : bool :=
  let r := py_add_months d (i2f k) in
  ieq (py_month_to_id r) (tgt_id d k) && valid_ymd r.
Definition ends_ok (d : date) (k : int) : bool :=
  if py_is_month_end d then
    let r := py_add_months d (i2f k) in
    date_eqb r (month_end_of_id (tgt_id d k)) && py_is_month_end r
    && date_eqb (py_add_months r (i2f (ineg k))) d
  else true.
Definition shift_kernel (d j : int) : bool :=
  let dd := date_of_ord d in
  let k := isub j 600 in
  if stays dd k then lands_ok dd k && ends_ok dd k else true.
Definition pre_body (d : date) (k : int) : bool := if stays_pre d k then ends_ok d k else true.
Definition pre_kernel (id j : int) : bool := pre_body (month_end_of_id id) (isub j 600).

Lemma shift_kernel_spec d k :
  shift_kernel (of_Z d) (of_Z (k + 600)) = true ->
  stays (D d) (of_Z k) = true ->
  lands_ok (D d) (of_Z k) = true /\ ends_ok (D d) (of_Z k) = true.
Proof.
  unfold shift_kernel. fold (D d).
  replace (isub (of_Z (k + 600)) 600%uint63) with (of_Z k).
  - intros H Hs. rewrite Hs in H. apply andb_prop in H. exact H.
  - unfold isub. change (PrimInt63.sub (of_Z (k + 600)) 600%uint63)
      with (of_Z (k + 600) - of_Z 600)%uint63.
    rewrite <- of_Z_sub. f_equal. lia.
Qed.

(* --- month ids ------------------------------------------------------------------------- *)
(* for every month id: first/last day convert back to the id, are month start / month end,
   consecutive, and the ordinal conversion is exact on them *)
Definition id_kernel (id : int) : bool :=
  let s := month_start_of_id id in
  let e := month_end_of_id id in
  ieq (py_month_to_id s) id && ieq (py_month_to_id e) id
  && py_is_month_start s && py_is_month_end e && valid_ymd s && valid_ymd e
  && date_eqb (date_of_ord (ord_of_date e)) e && date_eqb (date_of_ord (ord_of_date s)) s
  && date_eqb (date_add_days e 1) (month_start_of_id (iadd id 1))
  && ieq (dday e) (py_monthrange_days (dyear e) (dmonth e))
  && in_rng (of_Z LO) (of_Z HI) (ord_of_date e) && in_rng (of_Z LO) (of_Z HI) (ord_of_date s).
(* the same losslessness for the months of 1900-1969 (negative ids) *)
Definition idpre_kernel (id : int) : bool :=
  let s := month_start_of_id id in
  let e := month_end_of_id id in
  ieq (py_month_to_id s) id && ieq (py_month_to_id e) id
  && py_is_month_start s && py_is_month_end e && valid_ymd s && valid_ymd e
  && date_eqb (date_add_days e 1) (month_start_of_id (iadd id 1))
  && ile 1900 (dyear s) && ile (dyear e) 1969.
(* for every date: the month it belongs to is bracketed by id_to_month(month_to_id d) *)
Definition bracket_kernel (o : int) : bool :=
  let d := date_of_ord o in
  let id := py_month_to_id d in
  date_leb (month_start_of_id id) d && date_leb d (month_end_of_id id)
  && ieq (dyear (month_start_of_id id)) (dyear d) && ieq (dmonth (month_start_of_id id)) (dmonth d)
  && Bool.eqb (py_is_month_end d) (date_eqb d (month_end_of_id id))
  && Bool.eqb (py_is_month_start d) (date_eqb d (month_start_of_id id)).
(* month-end to month-end lags are exact integers *)
Definition lag_kernel (a b : int) : bool :=
  PrimFloat.eqb (py_dev_lag_months (month_end_of_id a) (month_end_of_id b)) (i2f (isub b a)).

(* --- day arithmetic --------------------------------------------------------------------- *)
(* d + timedelta(days=q) is ordinal addition, and stays exact *)
Definition dayadd_body (o q : int) : bool :=
  ieq (ord_of_date (date_add_days (date_of_ord o) q)) (iadd o q).
(* j in [0, 801) encodes q = j - 400 *)
Definition dayadd_kernel (o j : int) : bool := dayadd_body o (isub j 400).

(* --- bridge to the Z-level calendar used by the structural models (Lib/Calendar.addm) ----------
   on month-aligned dates (first / last day of a month) the float-based add_months generated from
   the source is the integer month shift `addm`.  j in [0, 2*kb] encodes k = j - kb. *)
Definition addm_body (kb : Z) (d : date) (j : int) : bool :=
  let k := isub j (of_Z kb) in
  if stays d k then
    Z.eqb (to_Z (ord_of_date (py_add_months d (i2f k)))) (addm (to_Z (ord_of_date d)) (to_Z j - kb))
  else true.
Definition addm_kernel (kb : Z) (id j : int) : bool :=
  addm_body kb (month_start_of_id id) j && addm_body kb (month_end_of_id id) j.
