(* T-json obligations (C07): the layout regenerated from /repo's current bermuda/io/json.py and
   Metadata.as_dict (Gen.GenJson, written by translate/t_json.py on every run) is the layout the model
   interprets in the static theorems; the theorems are re-stated for the GENERATED layout.
   Compiled in build/C07/ on every run. *)
From Coq Require Import ZArith List Bool.
From Bermuda Require Import Model.Base Model.Json Proofs.JsonRoundtrip Proofs.JsonShape.
From Gen Require Import GenJson.
Import ListNotations.

(* key names, key order, presence conditions (F11: risk_basis always emitted), hook dispatch order and
   key tests, Metadata keyword/key/default table, cell-class choice, date formats *)
Theorem layout_is_std : GenJson.layout = std_layout.
Proof. vm_compute. reflexivity. Qed.

Theorem spec_ok : layout_eqb GenJson.layout std_layout = true.
Proof. vm_compute. reflexivity. Qed.

Theorem C07_roundtrip_generated : forall t, wf_tri GenJson.layout t = true -> grouped t = true ->
  decode GenJson.layout (encode GenJson.layout t) = Ok (map retag t).
Proof. rewrite layout_is_std. exact decode_encode. Qed.

Theorem C07_key_order_generated : forall t j gs', wf_tri GenJson.layout t = true -> grouped t = true ->
  tri_upto t j gs' ->
  exists cs, decode GenJson.layout j = Ok cs /\ Forall2 cell_equiv (map retag t) cs.
Proof. rewrite layout_is_std. exact decode_upto. Qed.

Print Assumptions layout_is_std.
Print Assumptions C07_roundtrip_generated.
Print Assumptions C07_key_order_generated.
