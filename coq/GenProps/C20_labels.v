(* T-plot obligation (C20, F6): in the description regenerated from /repo's bermuda/plot.py the
   positional arguments of FieldSummary.from_metric land on the dataclass fields named after them; in
   particular the number in each q<..> field name equals the probability of FieldSummary.quantiles()
   it is computed with.  Hence (static, generic theorem) the named summaries are monotone. *)
From Coq Require Import ZArith QArith List Bool String.
From Bermuda Require Import Model.Base Model.Plot Proofs.PlotQuantile.
From Gen Require Import GenPlot.
Import ListNotations.
Open Scope Q_scope.

Theorem quantile_labels_ok : labels_ok GenPlot.desc = true.
Proof. vm_compute. reflexivity. Qed.

Theorem C20_summaries_monotone_generated :
  forall xs f1 f2 l1 l2 v1 v2, xs <> [] ->
  label_prob f1 = Some l1 -> label_prob f2 = Some l2 -> l1 <= l2 ->
  summary_field GenPlot.desc xs f1 = Some v1 -> summary_field GenPlot.desc xs f2 = Some v2 -> v1 <= v2.
Proof. exact (summaries_monotone GenPlot.desc quantile_labels_ok). Qed.

Theorem C20_summaries_within_min_max_generated :
  forall xs f l v lo hi, xs <> [] -> label_prob f = Some l -> summary_field GenPlot.desc xs f = Some v ->
  summary_field GenPlot.desc xs (stat_name SMin) = Some lo -> summary_field GenPlot.desc xs (stat_name SMax) = Some hi ->
  lo <= v /\ v <= hi.
Proof. exact (summaries_within_min_max GenPlot.desc quantile_labels_ok). Qed.

(* all nine quantile fields and the five statistics are there *)
Theorem summary_fields_complete :
  map fst (filter (fun b => match snd b with BQuant _ => true | _ => false end) (bindings GenPlot.desc))
  = map STR ["q2_5"; "q5"; "q10"; "q20"; "q50"; "q80"; "q90"; "q95"; "q97_5"]%string.
Proof. vm_compute. reflexivity. Qed.

Print Assumptions quantile_labels_ok.
Print Assumptions C20_summaries_monotone_generated.
