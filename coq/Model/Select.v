(** C11 -- selection operators: executable model (definitions only).

    Mirrors bermuda/triangle.py (clip, filter, select, extract, right_edge, slices, __getitem__),
    Cell.select (bermuda/base/cell.py) and split (bermuda/utils/summarize.py).

    ORDER.  A triangle is the list of its cells in canonical (sorted) order; the order itself is
    property C01's business.  Every operation here that only REMOVES cells (clip, filter, indexing,
    right_edge, the parts of slices/split) is modelled as a position-preserving selection from the
    input list: the result is a sublist in the same order, hence sorted for whatever order the
    input was sorted by (Proofs/SelectP.v: sublist_StronglySorted), and re-sorting it with a
    stable sort (what `Triangle(...)` does) is the identity.  `select` builds new cells with
    unchanged metadata and coordinates: it is `map`, which preserves sortedness for every order
    that only looks at metadata and coordinates.

    The decision-carrying parts (which attribute, which comparison, which bound, which guard) are
    *descriptions* (`clip_spec`, `getitem_desc`) regenerated from the source by translate/t_pred.py
    into GenPred.v; the interpreter of descriptions is below. *)
From Coq Require Import ZArith List Bool.
From Bermuda Require Import Model.Base Lib.Calendar.
Import ListNotations.
Local Open Scope Z_scope.

(* ------------------------------------------------------------------ Python == on Metadata *)
(* dataclass eq: field-wise ==; str/None by value, per_occurrence_limit and detail values with
   Python's numeric ==  (1 == 1.0 == True), dicts order-insensitively.  Modelled through a normal
   form: numbers lose the int/float tag, bools become 0/1, detail dicts are sorted by key (keys
   of a Python dict are unique). *)
Definition num_norm (x : num) : num := Num false (num_n x).
Definition mval_norm (v : mval) : mval :=
  match v with
  | MNum x => MNum (num_norm x)
  | MBool b => MNum (Num false (if b then 1024 else 0))
  | _ => v
  end.
Fixpoint dict_insert {V} (k : str) (v : V) (d : list (str * V)) : list (str * V) :=
  match d with
  | [] => [(k, v)]
  | (k', v') :: r => if str_ltb k' k then (k', v') :: dict_insert k v r else (k, v) :: d
  end.
Definition dict_sort {V} (d : list (str * V)) : list (str * V) :=
  fold_right (fun kv acc => dict_insert (fst kv) (snd kv) acc) [] d.
Definition details_norm (d : list (str * mval)) : list (str * mval) :=
  dict_sort (map (fun kv => (fst kv, mval_norm (snd kv))) d).
Definition meta_norm (m : meta) : meta :=
  mkMeta (risk_basis m) (country m) (currency m) (reinsurance_basis m) (loss_definition m)
         (option_map num_norm (per_occurrence_limit m))
         (details_norm (details m)) (details_norm (loss_details m)).
Definition meta_pyeq (a b : meta) : bool := meta_seqb (meta_norm a) (meta_norm b).
Definition mval_pyeq (a b : mval) : bool := mval_seqb (mval_norm a) (mval_norm b).

(* ------------------------------------------------------------------ descriptions (T-pred) *)
Inductive cmp_op := OpLt | OpLe | OpGt | OpGe | OpEq | OpNe.
Inductive cattr := AEval | APeriodStart | APeriodEnd | ADevLag | APrevEval.
Inductive bound := BMinEval | BMaxEval | BMinPeriod | BMaxPeriod | BMinDev | BMaxDev.
Inductive guard := GNotNone | GTruthy.
(* one `if <guard on bound>: cells = filter(lambda cell: cell.<attr> <op> <bound>, cells)` *)
Definition clip_entry := (bound * cattr * cmp_op * guard)%type.
Definition clip_spec := list clip_entry.

Inductive dflt := DMin | DMax | DNoDefault.       (* datetime.date.min / .max *)
Record getitem_desc := mkGetitem {
  gi_attr : cattr;            (* the cell attribute the period index is compared with *)
  gi_lo_op : cmp_op;          (* normalised to  cell.<attr> <op> lower  *)
  gi_hi_op : cmp_op;          (* normalised to  cell.<attr> <op> upper  *)
  gi_lo_default : dflt;       (* `if not period_start: period_start = date.min` *)
  gi_hi_default : dflt;
  gi_eval_lo : bound;         (* clip keyword receiving evaluation_slice.start *)
  gi_eval_hi : bound;         (* clip keyword receiving evaluation_slice.stop  *)
  gi_meta_op : cmp_op }.      (* cell.metadata <op> metadata *)

Definition cmp_op_eqb (a b : cmp_op) : bool :=
  match a, b with
  | OpLt, OpLt | OpLe, OpLe | OpGt, OpGt | OpGe, OpGe | OpEq, OpEq | OpNe, OpNe => true
  | _, _ => false
  end.
Definition cattr_eqb (a b : cattr) : bool :=
  match a, b with
  | AEval, AEval | APeriodStart, APeriodStart | APeriodEnd, APeriodEnd | ADevLag, ADevLag
  | APrevEval, APrevEval => true
  | _, _ => false
  end.
Definition bound_eqb (a b : bound) : bool :=
  match a, b with
  | BMinEval, BMinEval | BMaxEval, BMaxEval | BMinPeriod, BMinPeriod | BMaxPeriod, BMaxPeriod
  | BMinDev, BMinDev | BMaxDev, BMaxDev => true
  | _, _ => false
  end.
Definition guard_eqb (a b : guard) : bool :=
  match a, b with GNotNone, GNotNone | GTruthy, GTruthy => true | _, _ => false end.
Definition dflt_eqb (a b : dflt) : bool :=
  match a, b with DMin, DMin | DMax, DMax | DNoDefault, DNoDefault => true | _, _ => false end.
Definition clip_entry_eqb (a b : clip_entry) : bool :=
  let '(b1, a1, o1, g1) := a in let '(b2, a2, o2, g2) := b in
  bound_eqb b1 b2 && cattr_eqb a1 a2 && cmp_op_eqb o1 o2 && guard_eqb g1 g2.

Definition cmp (o : cmp_op) (x y : Z) : bool :=
  match o with
  | OpLt => x <? y | OpLe => x <=? y | OpGt => y <? x | OpGe => y <=? x
  | OpEq => x =? y | OpNe => negb (x =? y)
  end.

(* ------------------------------------------------------------------ clip *)
Inductive lag_unit := UDay | UMonth.
(* keyword arguments of Triangle.clip.  Dates are ordinals; development-lag bounds are numbers
   (n/1024, so 2.5 months is 2560).  Month unit: the model's lag is Calendar.lag_months, an
   integer -- this is the implementation's float lag on month-aligned cells (period_end and
   evaluation_date both month ends; C12_month_end_lags_are_exact_integers, 1970..2100). *)
Record clip_args := mkClip {
  min_eval : option date; max_eval : option date;
  min_period : option date; max_period : option date;
  min_dev : option num; max_dev : option num;
  dev_unit : lag_unit }.
Definition no_clip : clip_args := mkClip None None None None None None UMonth.

Definition dev_lag (u : lag_unit) (c : cell) : Z :=
  match u with UDay => ev c - pe c | UMonth => lag_months (pe c) (ev c) end.
(* all compared quantities as integers: dates as ordinals, lags in 1/1024 units *)
Definition attr_val (u : lag_unit) (a : cattr) (c : cell) : Z :=
  match a with
  | AEval => ev c | APeriodStart => ps c | APeriodEnd => pe c
  | ADevLag => 1024 * dev_lag u c
  | APrevEval => match prev c with Some d => d | None => 0 end
  end.
Definition bound_val (a : clip_args) (b : bound) : option Z :=
  match b with
  | BMinEval => min_eval a | BMaxEval => max_eval a
  | BMinPeriod => min_period a | BMaxPeriod => max_period a
  | BMinDev => option_map num_n (min_dev a) | BMaxDev => option_map num_n (max_dev a)
  end.
Definition bound_is_date (b : bound) : bool :=
  match b with BMinDev | BMaxDev => false | _ => true end.
(* is the filter applied?  `is not None`, or plain truthiness (dates are truthy, 0 / 0.0 are not) *)
Definition guard_holds (g : guard) (b : bound) (v : Z) : bool :=
  match g with GNotNone => true | GTruthy => bound_is_date b || negb (v =? 0) end.
Definition entry_pred (a : clip_args) (e : clip_entry) (c : cell) : bool :=
  let '(b, at_, op, g) := e in
  match bound_val a b with
  | None => true
  | Some v => if guard_holds g b v then cmp op (attr_val (dev_unit a) at_ c) v else true
  end.
Definition clip_pred (s : clip_spec) (a : clip_args) (c : cell) : bool :=
  forallb (fun e => entry_pred a e c) s.
Definition clip (s : clip_spec) (a : clip_args) (t : list cell) : list cell :=
  filter (clip_pred s a) t.

(* the documented predicate: every given bound is an inclusive bound *)
Definition opt_le (lo : option Z) (x : Z) : bool := match lo with None => true | Some l => l <=? x end.
Definition opt_ge (hi : option Z) (x : Z) : bool := match hi with None => true | Some h => x <=? h end.
Definition inclusive_pred (a : clip_args) (c : cell) : bool :=
  opt_le (min_eval a) (ev c) && opt_ge (max_eval a) (ev c)
  && opt_le (min_period a) (ps c) && opt_ge (max_period a) (pe c)
  && opt_le (option_map num_n (min_dev a)) (1024 * dev_lag (dev_unit a) c)
  && opt_ge (option_map num_n (max_dev a)) (1024 * dev_lag (dev_unit a) c).

Definition expected_clip_spec : clip_spec :=
  [ (BMinEval, AEval, OpGe, GNotNone); (BMaxEval, AEval, OpLe, GNotNone);
    (BMinPeriod, APeriodStart, OpGe, GNotNone); (BMaxPeriod, APeriodEnd, OpLe, GNotNone);
    (BMinDev, ADevLag, OpGe, GNotNone); (BMaxDev, ADevLag, OpLe, GNotNone) ].
(* Boolean side condition on a generated description: the same six filters, in any order *)
Definition clip_spec_ok (s : clip_spec) : bool :=
  (length s =? length expected_clip_spec)%nat
  && forallb (fun e => existsb (clip_entry_eqb e) s) expected_clip_spec
  && forallb (fun e => existsb (clip_entry_eqb e) expected_clip_spec) s.

(* ------------------------------------------------------------------ filter / select / extract *)
Definition tri_filter (p : cell -> bool) (t : list cell) : list cell := filter p t.

Definition str_mem (k : str) (ks : list str) : bool := existsb (str_eqb k) ks.
Definition set_vals (c : cell) (v : list (str * value)) : cell :=
  mkCell (ckind c) (ps c) (pe c) (ev c) (prev c) (cmeta c) v.
(* Cell.select: {k: v for k, v in self.values.items() if k in keys} *)
Definition cell_select (ks : list str) (c : cell) : cell :=
  set_vals c (filter (fun kv => str_mem (fst kv) ks) (cvals c)).
Definition tri_select (ks : list str) (t : list cell) : list cell := map (cell_select ks) t.

(* extract(field): cell.values.get(field) -- None for a missing field *)
Definition extract_field (k : str) (t : list cell) : list value :=
  map (fun c => match assoc k (cvals c) with Some v => v | None => VNone end) t.
Definition extract_fn {A} (f : cell -> A) (t : list cell) : list A := map f t.

(* ------------------------------------------------------------------ groupby: slices, split *)
Section GroupBy.
  Context {K : Type} (keqb : K -> K -> bool) (key : cell -> K).
  (* distinct keys in first-occurrence order (the key object kept is the first one, as in a dict) *)
  Fixpoint distinct_keys (seen : list K) (l : list K) : list K :=
    match l with
    | [] => []
    | k :: r => if existsb (fun s => keqb s k) seen then distinct_keys seen r
                else k :: distinct_keys (k :: seen) r
    end.
  (* tlz.groupby(key, cells): groups in first-occurrence order, members in input order *)
  Definition group_by (t : list cell) : list (K * list cell) :=
    map (fun k => (k, filter (fun c => keqb k (key c)) t)) (distinct_keys [] (map key t)).
End GroupBy.

Definition slices (t : list cell) : list (meta * list cell) := group_by meta_pyeq cmeta t.

(* split(detail_keys): key = tuple(details.get(k, None) for k in detail_keys)  (a missing key
   and an explicit None coincide, as in Python) *)
Definition detail_key (ks : list str) (c : cell) : list mval :=
  map (fun k => match assoc k (details (cmeta c)) with Some v => v | None => MNone end) ks.
Definition detail_key_eqb (a b : list mval) : bool := list_eqb mval_pyeq a b.
Definition split (ks : list str) (t : list cell) : list (list mval * list cell) :=
  group_by detail_key_eqb (detail_key ks) t.

(* ------------------------------------------------------------------ right_edge *)
(* same slice and same period *)
Definition same_row (a b : cell) : bool := meta_pyeq (cmeta a) (cmeta b) && same_period a b.
(* per slice and period: sorted(row, key=evaluation_date)[-1] -- the cell with the largest
   evaluation date, the LAST such cell in triangle order if several share it.  Positionally: a cell
   is kept iff no earlier cell of its row is strictly later and no later cell of its row is
   later-or-equal. *)
Fixpoint right_edge_aux (seen l : list cell) : list cell :=
  match l with
  | [] => []
  | c :: r =>
      if existsb (fun x => same_row c x && (ev c <? ev x)) seen
         || existsb (fun x => same_row c x && (ev c <=? ev x)) r
      then right_edge_aux (c :: seen) r
      else c :: right_edge_aux (c :: seen) r
  end.
Definition right_edge (t : list cell) : list cell := right_edge_aux [] t.

(* ------------------------------------------------------------------ __getitem__ *)
Definition DATE_MIN : Z := 1.            (* date.min.toordinal() *)
Definition DATE_MAX : Z := 3652059.      (* date.max.toordinal() *)

Inductive pidx := PDate (d : date) | PSlice (lo hi : option date) | PBad.
Inductive midx := MAll (* slice(None) *) | MNoneIdx (* None *) | MMeta (m : meta).
Inductive index :=
| IInt (i : Z)                                           (* t[i], negative from the end *)
| IRange (start stop : option Z) (step : option positive) (* t[a:b:s], s > 0 or absent *)
| ITriple (p e : pidx) (m : midx)                        (* t[period, evaluation, metadata] *)
| IBadArity.                                             (* a tuple of another length *)
Inductive gi_out := GCell (c : cell) | GTri (t : list cell).

Fixpoint nth_cell (n : nat) (t : list cell) : result cell :=
  match t, n with
  | [], _ => Err IndexError
  | c :: _, O => Ok c
  | _ :: r, S n' => nth_cell n' r
  end.
Definition clampz (lo hi x : Z) : Z := Z.max lo (Z.min hi x).
(* slice.indices(len) for a positive step *)
Definition norm_bound (len : Z) (dflt_ : Z) (x : option Z) : Z :=
  match x with
  | None => dflt_
  | Some v => clampz 0 len (if v <? 0 then v + len else v)
  end.
Fixpoint every_nth (k : nat) (skip : nat) (l : list cell) : list cell :=
  match l with
  | [] => []
  | c :: r => match skip with
              | O => c :: every_nth k (k - 1) r
              | S s => every_nth k s r
              end
  end.
Definition list_slice (start stop : option Z) (step : option positive) (t : list cell) : list cell :=
  let len := Z.of_nat (length t) in
  let a := norm_bound len 0 start in
  let b := norm_bound len len stop in
  let seg := firstn (Z.to_nat (b - a)) (skipn (Z.to_nat a) t) in
  match step with None => seg | Some s => every_nth (Pos.to_nat s) O seg end.

Definition dflt_val (d : dflt) (x : option Z) : option Z :=
  match x with
  | Some v => Some v                    (* a date is truthy *)
  | None => match d with DMin => Some DATE_MIN | DMax => Some DATE_MAX | DNoDefault => None end
  end.
Definition opt_cmp (op : cmp_op) (x : Z) (b : option Z) : bool :=
  match b with Some v => cmp op x v | None => false (* comparison with None raises; not reached *) end.
Definition pidx_bounds (p : pidx) : result (option Z * option Z) :=
  match p with
  | PDate d => Ok (Some d, Some d)
  | PSlice lo hi => Ok (lo, hi)
  | PBad => Err ValueError
  end.
Definition is_slice_p (p : pidx) : bool := match p with PSlice _ _ => true | _ => false end.
Definition with_bound (a : clip_args) (b : bound) (v : option Z) : clip_args :=
  match b with
  | BMinEval => mkClip v (max_eval a) (min_period a) (max_period a) (min_dev a) (max_dev a) (dev_unit a)
  | BMaxEval => mkClip (min_eval a) v (min_period a) (max_period a) (min_dev a) (max_dev a) (dev_unit a)
  | BMinPeriod => mkClip (min_eval a) (max_eval a) v (max_period a) (min_dev a) (max_dev a) (dev_unit a)
  | BMaxPeriod => mkClip (min_eval a) (max_eval a) (min_period a) v (min_dev a) (max_dev a) (dev_unit a)
  | BMinDev => mkClip (min_eval a) (max_eval a) (min_period a) (max_period a)
                      (option_map (fun z => Num false z) v) (max_dev a) (dev_unit a)
  | BMaxDev => mkClip (min_eval a) (max_eval a) (min_period a) (max_period a) (min_dev a)
                      (option_map (fun z => Num false z) v) (dev_unit a)
  end.
Definition meta_cmp (op : cmp_op) (a b : meta) : bool :=
  match op with OpEq => meta_pyeq a b | OpNe => negb (meta_pyeq a b) | _ => false end.

Definition getitem (g : getitem_desc) (s : clip_spec) (ix : index) (t : list cell) : result gi_out :=
  match ix with
  | IInt i =>
      let len := Z.of_nat (length t) in
      let j := if i <? 0 then i + len else i in
      if (j <? 0) || (len <=? j) then Err IndexError
      else bind (nth_cell (Z.to_nat j) t) (fun c => Ok (GCell c))
  | IRange a b st => Ok (GTri (list_slice a b st t))
  | IBadArity => Err ValueError
  | ITriple p e m =>
      let t1 := match m with
                | MMeta mm => filter (fun c => meta_cmp (gi_meta_op g) (cmeta c) mm) t
                | _ => t
                end in
      bind (pidx_bounds p) (fun pb =>
        let lo := dflt_val (gi_lo_default g) (fst pb) in
        let hi := dflt_val (gi_hi_default g) (snd pb) in
        let t2 := filter (fun c => opt_cmp (gi_lo_op g) (attr_val UMonth (gi_attr g) c) lo
                                   && opt_cmp (gi_hi_op g) (attr_val UMonth (gi_attr g) c) hi) t1 in
        bind (pidx_bounds e) (fun eb =>
          let args := with_bound (with_bound no_clip (gi_eval_lo g) (fst eb)) (gi_eval_hi g) (snd eb) in
          let t3 := clip s args t2 in
          if is_slice_p p || is_slice_p e || (match m with MAll => true | _ => false end)
          then Ok (GTri t3)
          else match t3 with c :: _ => Ok (GCell c) | [] => Err IndexError end))
  end.

Definition expected_getitem : getitem_desc :=
  mkGetitem APeriodStart OpGe OpLe DMin DMax BMinEval BMaxEval OpEq.
Definition getitem_desc_eqb (a b : getitem_desc) : bool :=
  cattr_eqb (gi_attr a) (gi_attr b) && cmp_op_eqb (gi_lo_op a) (gi_lo_op b)
  && cmp_op_eqb (gi_hi_op a) (gi_hi_op b) && dflt_eqb (gi_lo_default a) (gi_lo_default b)
  && dflt_eqb (gi_hi_default a) (gi_hi_default b) && bound_eqb (gi_eval_lo a) (gi_eval_lo b)
  && bound_eqb (gi_eval_hi a) (gi_eval_hi b) && cmp_op_eqb (gi_meta_op a) (gi_meta_op b).
Definition getitem_ok (g : getitem_desc) : bool := getitem_desc_eqb g expected_getitem.

(* the stated filter: metadata (if given) equal, lo <= period_start <= hi, lo' <= evaluation <= hi' *)
Definition getitem_filter (p e : option Z * option Z) (m : midx) (c : cell) : bool :=
  (match m with MMeta mm => meta_pyeq (cmeta c) mm | _ => true end)
  && opt_le (fst p) (ps c) && opt_ge (snd p) (ps c)
  && opt_le (fst e) (ev c) && opt_ge (snd e) (ev c).

(* ------------------------------------------------------------------ executable specifications
   (evaluated on the IMPLEMENTATION's output in the correspondence files) *)
(* out is obtained from t by deleting cells (same order), compared strictly *)
Fixpoint sublistb (out t : list cell) : bool :=
  match out, t with
  | [], _ => true
  | _ :: _, [] => false
  | o :: ro, c :: rt => if cell_seqb o c then sublistb ro rt else sublistb out rt
  end.
Definition count_b (p : cell -> bool) (t : list cell) : nat := length (filter p t).
(* exactly the cells satisfying p, unchanged, in order *)
Definition selection_spec_b (p : cell -> bool) (t out : list cell) : bool :=
  sublistb out t && forallb p out && (length out =? count_b p t)%nat.
Definition clip_spec_b (a : clip_args) (t out : list cell) : bool :=
  selection_spec_b (inclusive_pred a) t out.
(* a and b partition t: sizes add up, both are selections, no cell of t is in both / neither *)
Definition partition_spec_b (p : cell -> bool) (t a b : list cell) : bool :=
  selection_spec_b p t a && selection_spec_b (fun c => negb (p c)) t b
  && (length a + length b =? length t)%nat.
Definition right_edge_spec_b (t out : list cell) : bool :=
  sublistb out t
  && forallb (fun c => (count_b (same_row c) out =? 1)%nat) t
  && forallb (fun o => forallb (fun c => negb (same_row o c) || (ev c <=? ev o)) t) out.
Definition groups_spec_b {K} (keqb : K -> K -> bool) (key : cell -> K) (t : list cell)
           (out : list (K * list cell)) : bool :=
  forallb (fun g => sublistb (snd g) t && forallb (fun c => keqb (fst g) (key c)) (snd g)
                    && negb (match snd g with [] => true | _ => false end)) out
  && forallb (fun c => (length (filter (fun g => keqb (fst g) (key c)) out) =? 1)%nat) t
  && (length (concat (map snd out)) =? length t)%nat.
Definition select_spec_b (ks : list str) (t out : list cell) : bool :=
  list_eqb (fun c o =>
      cell_seqb (set_vals c []) (set_vals o [])
      && list_eqb str_eqb (keys (cvals o)) (filter (fun k => str_mem k ks) (keys (cvals c)))
      && forallb (fun kv => match assoc (fst kv) (cvals c) with
                            | Some v => value_seqb v (snd kv) | None => false end) (cvals o))
    t out.

(* helpers for the correspondence files: implementation outputs are given as positions of the
   input triangle whenever the output cells ARE input cells (checked by identity in Python) *)
Definition pick (idx : list nat) (t : list cell) : list cell :=
  flat_map (fun i => match nth_error t i with Some c => [c] | None => [] end) idx.
Definition gi_out_eqb (a b : gi_out) : bool :=
  match a, b with
  | GCell x, GCell y => cell_seqb x y
  | GTri x, GTri y => list_eqb cell_seqb x y
  | _, _ => false
  end.
Definition groups_eqb {K} (keqb : K -> K -> bool) (a b : list (K * list cell)) : bool :=
  list_eqb (pair_eqb keqb (list_eqb cell_seqb)) a b.

(* ------------------------------------------------------------------ t[a:b:c] with a NEGATIVE step
   slice.indices(len) for step < 0: lower = -1, upper = len-1; start defaults to upper, stop to
   lower; a negative bound v is max(v + len, lower), a non-negative one min(v, upper); the selected
   positions are start, start-|c|, ... while > stop.  `list_slice_neg` is the selected cells in
   SELECTION order (descending positions); the source then builds Triangle(<that list>), which
   re-sorts: the sort is a parameter here (Model/Order.v: sort_cells) so that this file stays
   independent of the order model. *)
Definition norm_bound_neg (len : Z) (dflt_ : Z) (x : option Z) : Z :=
  match x with
  | None => dflt_
  | Some v => if v <? 0 then Z.max (v + len) (-1) else Z.min v (len - 1)
  end.
Fixpoint down_positions (fuel : nat) (i stop s : Z) : list Z :=
  match fuel with
  | O => []
  | S f => if stop <? i then i :: down_positions f (i - s) stop s else []
  end.
Definition list_slice_neg (start stop : option Z) (s : positive) (t : list cell) : list cell :=
  let len := Z.of_nat (length t) in
  let a := norm_bound_neg len (len - 1) start in
  let b := norm_bound_neg len (-1) stop in
  pick (map Z.to_nat (down_positions (length t) a b (Z.pos s))) t.
Definition getitem_neg_step (sorter : list cell -> list cell) (start stop : option Z) (s : positive)
           (t : list cell) : gi_out := GTri (sorter (list_slice_neg start stop s t)).

(* ------------------------------------------------------------------ TriangleSlice.__getitem__
   The integer and range forms are the code of Triangle.__getitem__ (IInt / IRange above; the
   result class TriangleSlice is not modelled).  The two-index form (period, evaluation) is the
   three-index form without a metadata component: no metadata filter, and the metadata position
   never counts as a slice -- exactly ITriple p e MNoneIdx.  Its filter lambdas / defaults / clip
   keywords are translated separately (GenPred.gen_getitem_slice). *)
Inductive index2 := I2Pair (p e : pidx) | I2BadArity.
Definition slice_getitem (g : getitem_desc) (s : clip_spec) (ix : index2) (t : list cell) : result gi_out :=
  match ix with
  | I2Pair p e => getitem g s (ITriple p e MNoneIdx) t
  | I2BadArity => Err ValueError
  end.
