(** Method forms of the public operations (bermuda/factory.py).

    `Triangle.<name> = wraps(f)(<wrapper>)` attaches every module-level operation to the class.  The
    properties quantify over both spellings (`t.aggregate(...)` and `aggregate(t, ...)`), the models
    describe the module-level functions; this file is the model of the wrappers that connects them.

    A Python call is a list of positional arguments plus a list of keyword arguments; a function is
    anything that maps such a call to a result.  The translator translate/t_factory.py classifies every
    wrapper of the source into one of the five shapes below (and fails closed on any other shape: a cache,
    named parameters with defaults, dropped *args ...). *)
From Coq Require Import List String Bool.
Import ListNotations.
Open Scope string_scope.

Inductive wrap : Type :=
| Alias                      (* Triangle.m = f                    (the function itself)            *)
| Pass                       (* lambda self, *a, **k: f(self, *a, **k)                             *)
| Unary                      (* lambda self: f(self)                                               *)
| PrependKw (name : string)  (* lambda self, ts, **k: f(name=[self, *ts], **k)                      *)
| PrependPos (name : string) (* lambda self, ts: f([self, *ts])            (parameter called name)  *).

Definition wrap_eqb (a b : wrap) : bool :=
  match a, b with
  | Alias, Alias | Pass, Pass | Unary, Unary => true
  | PrependKw x, PrependKw y | PrependPos x, PrependPos y => String.eqb x y
  | _, _ => false
  end.

Lemma wrap_eqb_eq a b : wrap_eqb a b = true -> a = b.
Proof.
  destruct a, b; simpl; try discriminate; auto; intro H; apply String.eqb_eq in H; now subst.
Qed.

Section Call.
  Variables A R : Type.
  Variable cons_list : A -> A -> A.       (* Python's [self, *ts] *)

  Definition kwargs := list (string * A).
  Definition pyfun := list A -> kwargs -> R.

  Fixpoint kw_find (n : string) (k : kwargs) : option A :=
    match k with
    | [] => None
    | (m, v) :: r => if String.eqb n m then Some v else kw_find n r
    end.

  Fixpoint kw_remove (n : string) (k : kwargs) : kwargs :=
    match k with
    | [] => []
    | (m, v) :: r => if String.eqb n m then kw_remove n r else (m, v) :: kw_remove n r
    end.

  (** [None] = the wrapper's own signature rejects the call (TypeError before f is reached). *)
  Definition apply_wrap (w : wrap) (f : pyfun) (self : A) (pos : list A) (kws : kwargs) : option R :=
    match w with
    | Alias | Pass => Some (f (self :: pos) kws)
    | Unary => match pos, kws with [], [] => Some (f [self] []) | _, _ => None end
    | PrependKw n =>
        match pos with
        | [ts] => match kw_find n kws with
                  | None => Some (f [] ((n, cons_list self ts) :: kws))
                  | Some _ => None
                  end
        | [] => match kw_find n kws with
                | Some ts => Some (f [] ((n, cons_list self ts) :: kw_remove n kws))
                | None => None
                end
        | _ => None
        end
    | PrependPos n =>
        match pos, kws with
        | [ts], [] => Some (f [cons_list self ts] [])
        | [], [(m, ts)] => if String.eqb n m then Some (f [cons_list self ts] []) else None
        | _, _ => None
        end
    end.

  Definition transparent (w : wrap) : bool :=
    match w with Alias | Pass => true | _ => false end.
End Call.

Arguments apply_wrap {A R}.
Arguments kw_find {A}.
Arguments kw_remove {A}.

(** One row of the wiring table: method name, target function, wrapper shape, staticmethod? *)
Definition row := (string * (string * wrap * bool))%type.

Fixpoint lookup (n : string) (t : list row) : option (string * wrap * bool) :=
  match t with
  | [] => None
  | (m, v) :: r => if String.eqb n m then Some v else lookup n r
  end.

Fixpoint count_name (n : string) (t : list row) : nat :=
  match t with
  | [] => 0
  | (m, _) :: r => (if String.eqb n m then 1 else 0) + count_name n r
  end.

(** The wiring the models assume. *)
Definition expected : list row :=
  [ ("aggregate", ("aggregate", Pass, false)); ("summarize", ("summarize", Pass, false));
    ("blend", ("blend", PrependKw "triangles", false)); ("split", ("split", Pass, false));
    ("merge", ("merge", Pass, false)); ("period_merge", ("period_merge", Pass, false));
    ("coalesce", ("coalesce", PrependPos "triangles", false));
    ("to_incremental", ("to_incremental", Unary, false)); ("to_cumulative", ("to_cumulative", Unary, false));
    ("add_statics", ("add_statics", Pass, false));
    ("make_right_triangle", ("make_right_triangle", Pass, false));
    ("make_right_diagonal", ("make_right_diagonal", Pass, false));
    ("thin", ("thin", Pass, false));
    ("to_array_data_frame", ("triangle_to_array_data_frame", Pass, false));
    ("to_binary", ("triangle_to_binary", Pass, false));
    ("to_json", ("triangle_to_json", Alias, false));
    ("to_chain_ladder", ("triangle_to_chain_ladder", Pass, false));
    ("to_dict", ("triangle_to_dict", Alias, false));
    ("to_long_csv", ("triangle_to_long_csv", Pass, false));
    ("to_long_data_frame", ("triangle_to_long_data_frame", Pass, false));
    ("to_right_edge_data_frame", ("triangle_to_right_edge_data_frame", Pass, false));
    ("to_wide_csv", ("triangle_to_wide_csv", Pass, false));
    ("to_wide_data_frame", ("triangle_to_wide_data_frame", Pass, false));
    ("from_array_data_frame", ("array_data_frame_to_triangle", Alias, true));
    ("from_binary", ("binary_to_triangle", Alias, true));
    ("from_chain_ladder", ("chain_ladder_to_triangle", Alias, true));
    ("from_dict", ("dict_to_triangle", Alias, true));
    ("from_long_csv", ("long_csv_to_triangle", Alias, true));
    ("from_long_data_frame", ("long_data_frame_to_triangle", Alias, true));
    ("from_statics_data_frame", ("statics_data_frame_to_triangle", Alias, true));
    ("from_wide_csv", ("wide_csv_to_triangle", Alias, true));
    ("from_wide_data_frame", ("wide_data_frame_to_triangle", Alias, true));
    ("from_json", ("json_to_triangle", Alias, true));
    ("plot_right_edge", ("plot_right_edge", Pass, false));
    ("plot_data_completeness", ("plot_data_completeness", Pass, false));
    ("plot_heatmap", ("plot_heatmap", Pass, false)); ("plot_atas", ("plot_atas", Pass, false));
    ("plot_growth_curve", ("plot_growth_curve", Pass, false));
    ("plot_mountain", ("plot_mountain", Pass, false)); ("plot_ballistic", ("plot_ballistic", Pass, false));
    ("plot_broom", ("plot_broom", Pass, false)); ("plot_drip", ("plot_drip", Pass, false));
    ("plot_hose", ("plot_hose", Pass, false)); ("plot_sunset", ("plot_sunset", Pass, false));
    ("plot_histogram", ("plot_histogram", Pass, false)) ].

Definition entry_eqb (a b : string * wrap * bool) : bool :=
  let '(f, w, s) := a in let '(g, v, t) := b in String.eqb f g && wrap_eqb w v && Bool.eqb s t.

(** The generated table wires [n] exactly once and as expected. *)
Definition name_ok (tbl : list row) (n : string) : bool :=
  Nat.eqb (count_name n tbl) 1 &&
  match lookup n tbl, lookup n expected with
  | Some a, Some b => entry_eqb a b
  | _, _ => false
  end.

Definition names_ok (tbl : list row) (names : list string) : bool := forallb (name_ok tbl) names.
