(* C06: an independent, DECLARATIVE description of the documented version-1 layout, written from
   the module comment of bermuda/io/binary_output.py (not from Model/Binary.ser): inductive
   relations "value v is laid out as bytes bs", with little-endian numbers described digit by
   digit.  No encoder function is used; no proofs in this file.

     file   = magic AF 36 01 00 | version 01 | pool | records
     pool   = count (2 bytes LE) | text*           the sorted, duplicate-free set of all keys
     text   = FF FF (None)  |  length (2 bytes LE) | UTF-8 bytes
     record = 10 metadata  -- only when the metadata differs from the previous cell's --
            | 11/12/13 cell (Cell / CumulativeCell / IncrementalCell)
     metadata = text x5 (risk_basis country currency reinsurance_basis loss_definition)
              | float64 (NaN = None) | mapping details | mapping loss_details
     cell     = date x3 (period_start period_end evaluation_date) | mapping values
              | date prev_evaluation_date (IncrementalCell only)
     date     = year (2 bytes LE signed) | month | day
     mapping  = (key index (2 bytes LE) | tagged value)* | 88
     value    = 80 text | 81 int64 LE | 82 float64 | 83 bool | 84 (None) | 85 date
              | 86/87 ndim (1 byte) | dim (4 bytes LE)* | raw int64/float64 items *)
From Coq Require Import ZArith List Bool.
From Bermuda Require Import Lib.Bytes Lib.StrSort Model.Binary.
Import ListNotations.
Open Scope Z_scope.

(* w little-endian base-256 digits of n *)
Inductive LE : nat -> Z -> bytes -> Prop :=
| LE_nil : LE 0 0 []
| LE_cons w b n rest : 0 <= b < 256 -> LE w n rest -> LE (S w) (b + 256 * n) (b :: rest).

(* two's complement on w bytes *)
Definition twos (w : nat) (z : Z) : Z := if z <? 0 then z + 256 ^ Z.of_nat w else z.
Definition SLE (w : nat) (z : Z) (bs : bytes) : Prop := LE w (twos w z) bs.

Inductive LText : option str -> bytes -> Prop :=
| LText_none hd : SLE 2 (-1) hd -> LText None hd
| LText_some s hd : LE 2 (Z.of_nat (length s)) hd -> LText (Some s) (hd ++ s).

Inductive LDate : date3 -> bytes -> Prop :=
| LDate_i y m d hd : SLE 2 y hd -> LDate (y, m, d) (hd ++ [m; d]).

Inductive LDims : list Z -> bytes -> Prop :=
| LDims_nil : LDims [] []
| LDims_cons d r b bs : LE 4 d b -> LDims r bs -> LDims (d :: r) (b ++ bs).

Inductive LVal : gval -> bytes -> Prop :=
| LV_str s bs : LText (Some s) bs -> LVal (GStr s) (128 :: bs)
| LV_int z bs : SLE 8 z bs -> LVal (GInt z) (129 :: bs)
| LV_float f : LVal (GFloat f) (130 :: f)
| LV_bool (b : bool) : LVal (GBool b) [131; if b then 1 else 0]
| LV_none : LVal GNone [132]
| LV_date d bs : LDate d bs -> LVal (GDate d) (133 :: bs)
| LV_arr dt dims pl nd hd :
    LE 1 (Z.of_nat (length dims)) nd -> LDims dims hd ->
    LVal (GArr dt dims pl) ((match dt with DInt => 134 | DFloat => 135 end) :: nd ++ hd ++ pl).

Inductive LDict (pool : list str) : dict -> bytes -> Prop :=
| LD_end : LDict pool [] [136]
| LD_entry k v r i ib vb rb :
    nth_error pool i = Some k -> LE 2 (Z.of_nat i) ib -> LVal v vb -> LDict pool r rb ->
    LDict pool ((k, v) :: r) (ib ++ vb ++ rb).

Inductive LLimit : option bytes -> bytes -> Prop :=
| LLimit_none : LLimit None [0; 0; 0; 0; 0; 0; 248; 127]          (* quiet NaN *)
| LLimit_some f : LLimit (Some f) f.

Inductive LMeta (pool : list str) : meta -> bytes -> Prop :=
| LMeta_i m b1 b2 b3 b4 b5 bl bd bo :
    LText (m_risk_basis m) b1 -> LText (m_country m) b2 -> LText (m_currency m) b3 ->
    LText (m_reinsurance_basis m) b4 -> LText (m_loss_definition m) b5 ->
    LLimit (m_limit m) bl -> LDict pool (m_details m) bd -> LDict pool (m_loss_details m) bo ->
    LMeta pool m (b1 ++ b2 ++ b3 ++ b4 ++ b5 ++ bl ++ bd ++ bo).

Inductive LCell (pool : list str) : cell -> bytes -> Prop :=
| LCell_plain c d1 d2 d3 vb :
    c_kind c = KCell -> LDate (c_pstart c) d1 -> LDate (c_pend c) d2 -> LDate (c_eval c) d3 ->
    LDict pool (c_values c) vb -> LCell pool c (17 :: d1 ++ d2 ++ d3 ++ vb)
| LCell_cum c d1 d2 d3 vb :
    c_kind c = KCum -> LDate (c_pstart c) d1 -> LDate (c_pend c) d2 -> LDate (c_eval c) d3 ->
    LDict pool (c_values c) vb -> LCell pool c (18 :: d1 ++ d2 ++ d3 ++ vb)
| LCell_inc c p d1 d2 d3 vb pb :
    c_kind c = KInc -> c_prev c = Some p ->
    LDate (c_pstart c) d1 -> LDate (c_pend c) d2 -> LDate (c_eval c) d3 ->
    LDict pool (c_values c) vb -> LDate p pb -> LCell pool c (19 :: d1 ++ d2 ++ d3 ++ vb ++ pb).

(* records: a metadata record only when the metadata changes *)
Inductive LBody (pool : list str) : option meta -> list cell -> bytes -> Prop :=
| LB_nil prev : LBody pool prev [] []
| LB_same m c cs bc bs :
    c_meta c = m -> LCell pool c bc -> LBody pool (Some m) cs bs ->
    LBody pool (Some m) (c :: cs) (bc ++ bs)
| LB_change prev c cs bm bc bs :
    prev <> Some (c_meta c) -> LMeta pool (c_meta c) bm -> LCell pool c bc ->
    LBody pool (Some (c_meta c)) cs bs -> LBody pool prev (c :: cs) (16 :: bm ++ bc ++ bs).

Inductive LTexts : list str -> bytes -> Prop :=
| LTexts_nil : LTexts [] []
| LTexts_cons s r b bs : LText (Some s) b -> LTexts r bs -> LTexts (s :: r) (b ++ bs).

(* "the set of all distinct strings that show up as keys in cell.values, metadata.details or
   metadata.loss_details", explicitly sorted *)
Definition KeyOf (t : triangle) (k : str) : Prop :=
  exists c, In c t /\ (In k (map fst (c_values c)) \/ In k (map fst (m_details (c_meta c)))
                      \/ In k (map fst (m_loss_details (c_meta c)))).
Definition IsPool (t : triangle) (pool : list str) : Prop :=
  ssorted pool /\ forall k, In k pool <-> KeyOf t k.

Inductive Layout : triangle -> bytes -> Prop :=
| Layout_i t pool hd ps bb :
    IsPool t pool -> LE 2 (Z.of_nat (length pool)) hd -> LTexts pool ps -> LBody pool None t bb ->
    Layout t ([175; 54; 1; 0] ++ [1] ++ (hd ++ ps) ++ bb).
