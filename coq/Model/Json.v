(** C07 -- JSON / dict export and import (bermuda/io/json.py).  Executable definitions only.

    Wire level.  Dates are (y, m, d) triples; the ISO text of a date IS modelled (digits of
    strftime("%Y-%m-%d") as glibc prints them -- the year is NOT zero padded -- and a strict
    "DDDD-DD-DD" reading of strptime("%Y-%m-%d"); strptime's leniency on field widths is outside the
    model and never exercised by canonical text).  The JSON *text* layer (json.dumps / json.loads:
    tree <-> characters) is trusted; the model starts and stops at JSON trees.
    Numbers: ints are Z; a float is an opaque payload [flt] (the harness uses n/1024 dyadics), no
    proof looks inside it except int -> float conversion inside np.array of a mixed list.

    The decision-carrying tables (key names, key order, presence conditions, hook dispatch order and
    key tests, Metadata(...) keyword -> key -> default, cell-class choice) live in a [layout] value.
    The model INTERPRETS a layout; the theorems are about [std_layout]; T-json regenerates the layout
    from /repo on every run and GenProps/C07_json.v proves [GenJson.layout = std_layout].

    [Err OtherError] doubles as "outside the model" (AttributeError, shapes the model does not
    follow such as bool per_occurrence_limit or ragged lists); see the notes at each use. *)
From Coq Require Import ZArith List Bool String Ascii.
From Bermuda Require Import Model.Base Lib.Calendar.
Import ListNotations.
Local Open Scope Z_scope.

Definition str_of_string (x : string) : str :=
  List.map (fun a => Z.of_N (N_of_ascii a)) (list_ascii_of_string x).

(* ------------------------------------------------------------------ wire-level data *)
Definition ymd := (Z * Z * Z)%type.
Definition flt := Z.

Inductive dval := DStr (s : str) | DInt (z : Z) | DFloat (f : flt) | DBool (b : bool) | DNone.
Inductive cval :=
| CInt (z : Z) | CFloat (f : flt) | CBool (b : bool) | CNone
| CArrI (l : list Z)        (* 1-d int64 array *)
| CArrF (l : list flt).     (* 1-d float64 array *)
Inductive lim := LInt (z : Z) | LFloat (f : flt).

Record wmeta := mkWMeta {
  w_risk : option str; w_country : option str; w_currency : option str;
  w_reins : option str; w_lossdef : option str; w_limit : option lim;
  w_details : list (str * dval); w_loss_details : list (str * dval) }.

Record wcell := mkWCell {
  w_kind : kind; w_ps : ymd; w_pe : ymd; w_ev : ymd; w_prev : option ymd;
  w_meta : wmeta; w_vals : list (str * cval) }.

Definition with_meta (m : wmeta) (c : wcell) : wcell :=
  mkWCell (w_kind c) (w_ps c) (w_pe c) (w_ev c) (w_prev c) m (w_vals c).
(* the reader only builds CumulativeCell / IncrementalCell: a base-class Cell comes back as
   CumulativeCell, everything else unchanged *)
Definition retag_kind (k : kind) : kind := match k with KCell => KCum | k => k end.
Definition retag (c : wcell) : wcell :=
  mkWCell (retag_kind (w_kind c)) (w_ps c) (w_pe c) (w_ev c) (w_prev c) (w_meta c) (w_vals c).

(* ------------------------------------------------------------------ JSON trees *)
Inductive json :=
| JNull | JBool (b : bool) | JInt (z : Z) | JFloat (f : flt) | JStr (s : str)
| JArr (l : list json) | JObj (kv : list (str * json)).

(* ------------------------------------------------------------------ the layout description *)
Inductive mattr := ARisk | ACountry | ACurrency | AReins | ALossDef | ALimit | ADetails | ALossDetails.
Inductive mdefault := DfNone | DfStr (s : str) | DfEmptyDict.
Inductive action := AConcat | ACellSet | AObservation.
Inductive dattr := DPs | DPe | DEv | DPrev.

Record layout := mkLayout {
  L_slices : str;                          (* triangle_to_dict: the single top-level key *)
  L_meta_out : list (str * mattr);         (* Metadata.as_dict(): key order, attribute read *)
  L_always : list str;                     (* keys kept even when the value is None / {} *)
  L_cells : str;                           (* _slice_to_dict: key of the cell list (last) *)
  L_cell_out : list (str * dattr);         (* _cell_to_dict base_dict, in order *)
  L_prev_out : list (str * dattr);         (* added when isinstance(cell, IncrementalCell) *)
  L_values : str;                          (* values_dict key, merged last *)
  L_tolist : bool;                         (* ndarray -> .tolist(), everything else unchanged *)
  L_fmt_out : str;                         (* strftime format *)
  L_dispatch : list (list str * action);   (* object_hook: first entry whose keys are all present *)
  L_slices_in : str;                       (* sum(obj[...], []) *)
  L_meta_in : list (mattr * str * mdefault);   (* Metadata(kw = obj.get(key, default)) *)
  L_cells_in : str;                        (* obj[...] in _parse_cell_set *)
  L_values_in : str;                       (* obj[...].items() *)
  L_np_array : bool;                       (* list -> np.array(list), everything else unchanged *)
  L_inc_test : str;                        (* `key in obj.keys()` selects the first class *)
  L_class_if : kind; L_dates_if : list (dattr * str);      (* constructor keyword <- obj[key] *)
  L_class_else : kind; L_dates_else : list (dattr * str);
  L_fmt_in : str }.                        (* default date_format of the decoder / entry points *)

Definition k_slices := Eval compute in str_of_string "slices".
Definition k_cells := Eval compute in str_of_string "cells".
Definition k_ps := Eval compute in str_of_string "period_start".
Definition k_pe := Eval compute in str_of_string "period_end".
Definition k_ev := Eval compute in str_of_string "evaluation_date".
Definition k_prev := Eval compute in str_of_string "prev_evaluation_date".
Definition k_values := Eval compute in str_of_string "values".
Definition k_currency := Eval compute in str_of_string "currency".
Definition k_country := Eval compute in str_of_string "country".
Definition k_risk := Eval compute in str_of_string "risk_basis".
Definition k_reins := Eval compute in str_of_string "reinsurance_basis".
Definition k_lossdef := Eval compute in str_of_string "loss_definition".
Definition k_limit := Eval compute in str_of_string "per_occurrence_limit".
Definition k_details := Eval compute in str_of_string "details".
Definition k_loss_details := Eval compute in str_of_string "loss_details".
Definition s_accident := Eval compute in str_of_string "Accident".
Definition s_fmt := Eval compute in str_of_string "%Y-%m-%d".

Definition std_layout : layout := {|
  L_slices := k_slices;
  L_meta_out := [(k_currency, ACurrency); (k_country, ACountry); (k_risk, ARisk); (k_reins, AReins);
                 (k_lossdef, ALossDef); (k_limit, ALimit); (k_details, ADetails);
                 (k_loss_details, ALossDetails)];
  L_always := [k_risk];
  L_cells := k_cells;
  L_cell_out := [(k_ps, DPs); (k_pe, DPe); (k_ev, DEv)];
  L_prev_out := [(k_prev, DPrev)];
  L_values := k_values;
  L_tolist := true;
  L_fmt_out := s_fmt;
  L_dispatch := [([k_slices], AConcat); ([k_cells], ACellSet); ([k_ps; k_pe; k_values], AObservation)];
  L_slices_in := k_slices;
  L_meta_in := [(ARisk, k_risk, DfStr s_accident); (ACountry, k_country, DfNone);
                (ACurrency, k_currency, DfNone); (AReins, k_reins, DfNone);
                (ALossDef, k_lossdef, DfNone); (ALimit, k_limit, DfNone);
                (ADetails, k_details, DfEmptyDict); (ALossDetails, k_loss_details, DfEmptyDict)];
  L_cells_in := k_cells;
  L_values_in := k_values;
  L_np_array := true;
  L_inc_test := k_prev;
  L_class_if := KInc;
  L_dates_if := [(DPs, k_ps); (DPe, k_pe); (DEv, k_ev); (DPrev, k_prev)];
  L_class_else := KCum;
  L_dates_else := [(DPs, k_ps); (DPe, k_pe); (DEv, k_ev)];
  L_fmt_in := s_fmt |}.

(* ------------------------------------------------------------------ ISO dates *)
Definition dig (n : Z) : Z := 48 + n.
Definition dec2 (n : Z) : str := [dig (n / 10); dig (n mod 10)].
(* glibc strftime("%Y"): no zero padding *)
Definition dec_year (y : Z) : str :=
  if y <? 10 then [dig y]
  else if y <? 100 then [dig (y / 10); dig (y mod 10)]
  else if y <? 1000 then [dig (y / 100); dig ((y / 10) mod 10); dig (y mod 10)]
  else [dig (y / 1000); dig ((y / 100) mod 10); dig ((y / 10) mod 10); dig (y mod 10)].
Definition print_date (d : ymd) : str :=
  let '(y, m, dd) := d in dec_year y ++ 45 :: dec2 m ++ 45 :: dec2 dd.

Definition is_digit (c : Z) : bool := (48 <=? c) && (c <=? 57).
Definition valid_ymd (d : ymd) : bool :=
  let '(y, m, dd) := d in
  (1 <=? y) && (y <=? 9999) && (1 <=? m) && (m <=? 12) && (1 <=? dd) && (dd <=? days_in_month y m).
(* strptime(s, "%Y-%m-%d").date(), strict widths; ValueError otherwise *)
Definition parse_date (s : str) : result ymd :=
  match s with
  | [a; b; c; d; h1; e; f; h2; g; h] =>
      if forallb is_digit [a; b; c; d; e; f; g; h] && (h1 =? 45) && (h2 =? 45) then
        let r := (1000 * (a - 48) + 100 * (b - 48) + 10 * (c - 48) + (d - 48),
                  10 * (e - 48) + (f - 48), 10 * (g - 48) + (h - 48)) in
        if valid_ymd r then Ok r else Err ValueError
      else Err ValueError
  | _ => Err ValueError
  end.

Definition ymd_ltb (a b : ymd) : bool :=
  let '(y1, m1, d1) := a in let '(y2, m2, d2) := b in
  (y1 <? y2) || ((y1 =? y2) && ((m1 <? m2) || ((m1 =? m2) && (d1 <? d2)))).
Definition ymd_eqb (a b : ymd) : bool :=
  let '(y1, m1, d1) := a in let '(y2, m2, d2) := b in (y1 =? y2) && (m1 =? m2) && (d1 =? d2).
Definition ymd_leb (a b : ymd) : bool := negb (ymd_ltb b a).
Definition date_max : ymd := (9999, 12, 31).

(* the checks of Cell.__init__ / IncrementalCell.__init__ (all ValueError) *)
Definition cell_dates_ok (ps pe ev : ymd) (prev : option ymd) : bool :=
  ymd_leb ps pe && ymd_leb ps ev && negb (ymd_eqb ev date_max)
  && match prev with Some p => ymd_ltb p ev | None => true end.

(* ------------------------------------------------------------------ Python == on Metadata (groupby key) *)
Definition dval_pyeq (a b : dval) : bool :=
  match a, b with
  | DStr x, DStr y => str_eqb x y
  | DNone, DNone => true
  | DStr _, _ | _, DStr _ | DNone, _ | _, DNone => false
  | _, _ =>
      let n := fun v => match v with DInt z => 1024 * z | DFloat f => f
                                | DBool b => if b then 1024 else 0 | _ => 0 end in
      n a =? n b
  end.
Definition lim_n (l : lim) : Z := match l with LInt z => 1024 * z | LFloat f => f end.
Definition dict_pyeq (a b : list (str * dval)) : bool :=
  (Nat.eqb (List.length a) (List.length b))
  && forallb (fun kv => match assoc (fst kv) b with Some v => dval_pyeq (snd kv) v | None => false end) a.
Definition meta_pyeq (a b : wmeta) : bool :=
  opt_eqb str_eqb (w_risk a) (w_risk b) && opt_eqb str_eqb (w_country a) (w_country b)
  && opt_eqb str_eqb (w_currency a) (w_currency b) && opt_eqb str_eqb (w_reins a) (w_reins b)
  && opt_eqb str_eqb (w_lossdef a) (w_lossdef b)
  && opt_eqb (fun x y => lim_n x =? lim_n y) (w_limit a) (w_limit b)
  && dict_pyeq (w_details a) (w_details b) && dict_pyeq (w_loss_details a) (w_loss_details b).

(* tlz.groupby(lambda cell: cell.metadata, cells): groups in first-occurrence order, keyed by the
   first metadata seen; Triangle.slices; _slice_to_dict reads slice_.cells[0].metadata = that key *)
Fixpoint group_add (c : wcell) (gs : list (wmeta * list wcell)) : list (wmeta * list wcell) :=
  match gs with
  | [] => [(w_meta c, [c])]
  | (m, cs) :: r => if meta_pyeq m (w_meta c) then (m, cs ++ [c]) :: r else (m, cs) :: group_add c r
  end.
Definition groups (t : list wcell) : list (wmeta * list wcell) :=
  fold_left (fun gs c => group_add c gs) t [].

(* ------------------------------------------------------------------ encoder *)
Definition enc_cval (v : cval) : json :=
  match v with
  | CInt z => JInt z | CFloat f => JFloat f | CBool b => JBool b | CNone => JNull
  | CArrI l => JArr (map JInt l) | CArrF l => JArr (map JFloat l)
  end.
Definition enc_dval (v : dval) : json :=
  match v with
  | DStr s => JStr s | DInt z => JInt z | DFloat f => JFloat f | DBool b => JBool b | DNone => JNull
  end.
Definition enc_lim (l : lim) : json := match l with LInt z => JInt z | LFloat f => JFloat f end.
Definition enc_dict {V} (f : V -> json) (d : list (str * V)) : json :=
  JObj (map (fun kv => (fst kv, f (snd kv))) d).

(* the value as_dict() holds for an attribute, and whether it is "None or {}" *)
Definition attr_is_empty (a : mattr) (m : wmeta) : bool :=
  match a with
  | ARisk => match w_risk m with None => true | _ => false end
  | ACountry => match w_country m with None => true | _ => false end
  | ACurrency => match w_currency m with None => true | _ => false end
  | AReins => match w_reins m with None => true | _ => false end
  | ALossDef => match w_lossdef m with None => true | _ => false end
  | ALimit => match w_limit m with None => true | _ => false end
  | ADetails => match w_details m with [] => true | _ => false end
  | ALossDetails => match w_loss_details m with [] => true | _ => false end
  end.
Definition opt_json {A} (f : A -> json) (o : option A) : json :=
  match o with Some x => f x | None => JNull end.
Definition attr_json (a : mattr) (m : wmeta) : json :=
  match a with
  | ARisk => opt_json JStr (w_risk m) | ACountry => opt_json JStr (w_country m)
  | ACurrency => opt_json JStr (w_currency m) | AReins => opt_json JStr (w_reins m)
  | ALossDef => opt_json JStr (w_lossdef m) | ALimit => opt_json enc_lim (w_limit m)
  | ADetails => enc_dict enc_dval (w_details m)
  | ALossDetails => enc_dict enc_dval (w_loss_details m)
  end.
Definition str_mem (k : str) (l : list str) : bool := existsb (str_eqb k) l.
Definition enc_meta (L : layout) (m : wmeta) : list (str * json) :=
  flat_map (fun ka => if negb (attr_is_empty (snd ka) m) || str_mem (fst ka) (L_always L)
                      then [(fst ka, attr_json (snd ka) m)] else []) (L_meta_out L).

Definition date_attr (a : dattr) (c : wcell) : option ymd :=
  match a with DPs => Some (w_ps c) | DPe => Some (w_pe c) | DEv => Some (w_ev c) | DPrev => w_prev c end.
Definition enc_dates (tbl : list (str * dattr)) (c : wcell) : list (str * json) :=
  map (fun ka => (fst ka, match date_attr (snd ka) c with Some d => JStr (print_date d) | None => JNull end)) tbl.
Definition is_inc_kind (k : kind) : bool := match k with KInc => true | _ => false end.
Definition enc_cell (L : layout) (c : wcell) : json :=
  JObj (enc_dates (L_cell_out L) c
        ++ (if is_inc_kind (w_kind c) then enc_dates (L_prev_out L) c else [])
        ++ [(L_values L, enc_dict enc_cval (w_vals c))]).
Definition enc_slice (L : layout) (g : wmeta * list wcell) : json :=
  JObj (enc_meta L (fst g) ++ [(L_cells L, JArr (map (enc_cell L) (snd g)))]).
(* triangle_to_dict = what TriangleEncoder.default hands to json.dumps *)
Definition encode (L : layout) (t : list wcell) : json :=
  JObj [(L_slices L, JArr (map (enc_slice L) (groups t)))].

(* ------------------------------------------------------------------ decoder *)
(* Python values built by json.loads with an object_hook *)
Inductive pyv :=
| PNone | PBool (b : bool) | PInt (z : Z) | PFloat (f : flt) | PStr (s : str)
| PList (l : list pyv) | PDict (kv : list (str * pyv)) | PCell (c : wcell).

Definition dict_of_pairs {V} (kv : list (str * V)) : list (str * V) :=
  fold_left (fun acc p => dict_set (fst p) (snd p) acc) kv [].

Fixpoint dispatch (tbl : list (list str * action)) (obj : list (str * pyv)) : option action :=
  match tbl with
  | [] => None
  | (ks, a) :: r => if forallb (fun k => has_key k obj) ks then Some a else dispatch r obj
  end.

(* sum(x, []) *)
Fixpoint concat_lists (l : list pyv) : result (list pyv) :=
  match l with
  | [] => Ok []
  | PList a :: r => bind (concat_lists r) (fun b => Ok (a ++ b))
  | _ :: _ => Err TypeError
  end.
Definition sum_lists (v : pyv) : result pyv :=
  match v with
  | PList l => bind (concat_lists l) (fun r => Ok (PList r))
  | PStr [] | PDict [] => Ok (PList [])
  | _ => Err TypeError
  end.

Definition mattr_eqb (a b : mattr) : bool :=
  match a, b with
  | ARisk, ARisk | ACountry, ACountry | ACurrency, ACurrency | AReins, AReins | ALossDef, ALossDef
  | ALimit, ALimit | ADetails, ADetails | ALossDetails, ALossDetails => true
  | _, _ => false
  end.
Definition default_pyv (d : mdefault) : pyv :=
  match d with DfNone => PNone | DfStr s => PStr s | DfEmptyDict => PDict [] end.
(* dataclass default when the keyword is not passed at all *)
Definition class_default (a : mattr) : pyv :=
  match a with ARisk => PStr s_accident | ADetails | ALossDetails => PDict [] | _ => PNone end.
Definition get_attr (L : layout) (obj : list (str * pyv)) (a : mattr) : pyv :=
  match find (fun e => mattr_eqb (fst (fst e)) a) (L_meta_in L) with
  | Some (_, k, d) => match assoc k obj with Some v => v | None => default_pyv d end
  | None => class_default a
  end.

(* Metadata.__post_init__ type checks *)
Definition as_opt_str (v : pyv) : result (option str) :=
  match v with PNone => Ok None | PStr s => Ok (Some s) | _ => Err TypeError end.
Definition as_limit (v : pyv) : result (option lim) :=
  match v with
  | PNone => Ok None | PInt z => Ok (Some (LInt z)) | PFloat f => Ok (Some (LFloat f))
  | PBool _ => Err OtherError      (* accepted by the code (bool is an int); outside the model *)
  | _ => Err TypeError
  end.
Definition as_dval (v : pyv) : result dval :=
  match v with
  | PNone => Ok DNone | PBool b => Ok (DBool b) | PInt z => Ok (DInt z) | PFloat f => Ok (DFloat f)
  | PStr s => Ok (DStr s) | _ => Err TypeError
  end.
Fixpoint map_res {A B} (f : A -> result B) (l : list A) : result (list B) :=
  match l with
  | [] => Ok []
  | x :: r => bind (f x) (fun y => bind (map_res f r) (fun ys => Ok (y :: ys)))
  end.
Definition as_details (v : pyv) : result (list (str * dval)) :=
  match v with
  | PDict kv => map_res (fun p => bind (as_dval (snd p)) (fun d => Ok (fst p, d))) kv
  | _ => Err TypeError
  end.
Definition parse_meta (L : layout) (obj : list (str * pyv)) : result wmeta :=
  bind (as_opt_str (get_attr L obj ARisk)) (fun r =>
  bind (as_opt_str (get_attr L obj ACountry)) (fun co =>
  bind (as_opt_str (get_attr L obj ACurrency)) (fun cu =>
  bind (as_opt_str (get_attr L obj AReins)) (fun re =>
  bind (as_opt_str (get_attr L obj ALossDef)) (fun ld =>
  bind (as_limit (get_attr L obj ALimit)) (fun li =>
  bind (as_details (get_attr L obj ADetails)) (fun de =>
  bind (as_details (get_attr L obj ALossDetails)) (fun lde =>
  Ok (mkWMeta r co cu re ld li de lde))))))))).

(* [ob.replace(metadata=metadata) for ob in obj["cells"]] *)
Definition replace_meta (m : wmeta) (v : pyv) : result pyv :=
  match v with PCell c => Ok (PCell (with_meta m c)) | _ => Err OtherError (* AttributeError *) end.
Definition parse_cell_set (L : layout) (obj : list (str * pyv)) : result pyv :=
  bind (parse_meta L obj) (fun m =>
  match assoc (L_cells_in L) obj with
  | None => Err KeyError
  | Some (PList l) => bind (map_res (replace_meta m) l) (fun r => Ok (PList r))
  | Some (PStr []) | Some (PDict []) => Ok (PList [])
  | Some (PStr _) | Some (PDict _) => Err OtherError
  | Some _ => Err TypeError
  end).

(* np.array(list) for the list shapes the export produces; anything else is outside the model *)
Definition int64_ok (z : Z) : bool := (- 9223372036854775808 <=? z) && (z <=? 9223372036854775807).
Definition all_ints (l : list pyv) : option (list Z) :=
  fold_right (fun v acc => match v, acc with PInt z, Some r => if int64_ok z then Some (z :: r) else None
                                       | _, _ => None end) (Some []) l.
Definition all_nums (l : list pyv) : option (list flt) :=
  fold_right (fun v acc => match v, acc with
                           | PInt z, Some r => Some (1024 * z :: r)
                           | PFloat f, Some r => Some (f :: r)
                           | _, _ => None end) (Some []) l.
Definition np_array (l : list pyv) : result cval :=
  match l with
  | [] => Ok (CArrF [])                       (* np.array([]) is float64 *)
  | _ => match all_ints l with
         | Some zs => Ok (CArrI zs)
         | None => match all_nums l with Some fs => Ok (CArrF fs) | None => Err OtherError end
         end
  end.
(* first pass: the dict comprehension (np.array on lists) *)
Inductive preval := PvOk (v : cval) | PvBad.     (* PvBad: a str / dict / Cell: TypeError later *)
Definition conv_value (v : pyv) : result preval :=
  match v with
  | PList l => bind (np_array l) (fun a => Ok (PvOk a))
  | PInt z => Ok (PvOk (CInt z)) | PFloat f => Ok (PvOk (CFloat f)) | PBool b => Ok (PvOk (CBool b))
  | PNone => Ok (PvOk CNone)
  | _ => Ok PvBad
  end.
Definition check_value (p : str * preval) : result (str * cval) :=
  match snd p with PvOk v => Ok (fst p, v) | PvBad => Err TypeError end.

Definition parse_date_v (obj : list (str * pyv)) (k : str) : result ymd :=
  match assoc k obj with
  | None => Err KeyError
  | Some (PStr s) => parse_date s
  | Some _ => Err TypeError
  end.
Definition date_key (tbl : list (dattr * str)) (a : dattr) : option str :=
  match find (fun e => match fst e, a with DPs, DPs | DPe, DPe | DEv, DEv | DPrev, DPrev => true
                                   | _, _ => false end) tbl with
  | Some (_, k) => Some k | None => None end.
(* a constructor keyword that is not passed is a TypeError (missing required argument) *)
Definition date_arg (obj : list (str * pyv)) (tbl : list (dattr * str)) (a : dattr) : result ymd :=
  match date_key tbl a with Some k => parse_date_v obj k | None => Err TypeError end.

Definition parse_observation (L : layout) (obj : list (str * pyv)) : result pyv :=
  match assoc (L_values_in L) obj with
  | None => Err KeyError
  | Some (PDict vals) =>
      bind (map_res (fun p => bind (conv_value (snd p)) (fun v => Ok (fst p, v))) vals) (fun pre =>
      let inc := has_key (L_inc_test L) obj in
      let tbl := if inc then L_dates_if L else L_dates_else L in
      let k := if inc then L_class_if L else L_class_else L in
      bind (date_arg obj tbl DPs) (fun ps =>
      bind (date_arg obj tbl DPe) (fun pe =>
      bind (date_arg obj tbl DEv) (fun ev =>
      bind (if is_inc_kind k then bind (date_arg obj tbl DPrev) (fun p => Ok (Some p)) else Ok None)
        (fun prev =>
      bind (map_res check_value pre) (fun vals' =>
      if cell_dates_ok ps pe ev prev
      then Ok (PCell (mkWCell k ps pe ev prev
                        (mkWMeta (Some s_accident) None None None None None [] []) vals'))
      else Err ValueError))))))
  | Some _ => Err OtherError    (* .items() on a non-dict: AttributeError *)
  end.

Definition object_hook (L : layout) (obj : list (str * pyv)) : result pyv :=
  match dispatch (L_dispatch L) obj with
  | Some AConcat => match assoc (L_slices_in L) obj with Some v => sum_lists v | None => Err KeyError end
  | Some ACellSet => parse_cell_set L obj
  | Some AObservation => parse_observation L obj
  | None => Ok (PDict obj)
  end.

(* json.loads(text, object_hook=...) on the tree of the text: bottom-up, every object *)
Fixpoint hook (L : layout) (j : json) : result pyv :=
  match j with
  | JNull => Ok PNone | JBool b => Ok (PBool b) | JInt z => Ok (PInt z) | JFloat f => Ok (PFloat f)
  | JStr s => Ok (PStr s)
  | JArr l =>
      bind ((fix go (l : list json) : result (list pyv) :=
               match l with
               | [] => Ok []
               | x :: r => bind (hook L x) (fun v => bind (go r) (fun vs => Ok (v :: vs)))
               end) l) (fun vs => Ok (PList vs))
  | JObj kv =>
      bind ((fix go (kv : list (str * json)) : result (list (str * pyv)) :=
               match kv with
               | [] => Ok []
               | (k, x) :: r => bind (hook L x) (fun v => bind (go r) (fun vs => Ok ((k, v) :: vs)))
               end) kv) (fun members => object_hook L (dict_of_pairs members))
  end.

(* Triangle(cells) up to (not including) the sort: every element a Cell, one class *)
Fixpoint cells_of (l : list pyv) : result (list wcell) :=
  match l with
  | [] => Ok []
  | PCell c :: r => bind (cells_of r) (fun cs => Ok (c :: cs))
  | _ :: _ => Err TriangleError
  end.
(* all Cell, or all CumulativeCell, or all IncrementalCell *)
Definition one_class (cs : list wcell) : bool :=
  forallb (fun x => kind_eqb (w_kind x) KCell) cs || forallb (fun x => kind_eqb (w_kind x) KCum) cs
  || forallb (fun x => kind_eqb (w_kind x) KInc) cs.
(* json_string_to_triangle = Triangle(json.loads(...)): the list handed to Triangle() (which then
   sorts it -- C01) *)
Definition decode (L : layout) (j : json) : result (list wcell) :=
  bind (hook L j) (fun v =>
  match v with
  | PList l => bind (cells_of l) (fun cs => if one_class cs then Ok cs else Err TriangleError)
  | PDict [] | PStr [] => Ok []
  | PDict _ | PStr _ => Err TriangleError
  | _ => Err TypeError
  end).

(* ------------------------------------------------------------------ strict equalities (harness) *)
Definition dval_eqb (a b : dval) : bool :=
  match a, b with
  | DStr x, DStr y => str_eqb x y | DInt x, DInt y => x =? y | DFloat x, DFloat y => x =? y
  | DBool x, DBool y => Bool.eqb x y | DNone, DNone => true | _, _ => false
  end.
Definition cval_eqb (a b : cval) : bool :=
  match a, b with
  | CInt x, CInt y => x =? y | CFloat x, CFloat y => x =? y | CBool x, CBool y => Bool.eqb x y
  | CNone, CNone => true | CArrI x, CArrI y => list_eqb Z.eqb x y
  | CArrF x, CArrF y => list_eqb Z.eqb x y | _, _ => false
  end.
Definition lim_eqb (a b : lim) : bool :=
  match a, b with LInt x, LInt y => x =? y | LFloat x, LFloat y => x =? y | _, _ => false end.
Definition wmeta_eqb (a b : wmeta) : bool :=
  opt_eqb str_eqb (w_risk a) (w_risk b) && opt_eqb str_eqb (w_country a) (w_country b)
  && opt_eqb str_eqb (w_currency a) (w_currency b) && opt_eqb str_eqb (w_reins a) (w_reins b)
  && opt_eqb str_eqb (w_lossdef a) (w_lossdef b) && opt_eqb lim_eqb (w_limit a) (w_limit b)
  && list_eqb (pair_eqb str_eqb dval_eqb) (w_details a) (w_details b)
  && list_eqb (pair_eqb str_eqb dval_eqb) (w_loss_details a) (w_loss_details b).
Definition wcell_eqb (a b : wcell) : bool :=
  kind_eqb (w_kind a) (w_kind b) && ymd_eqb (w_ps a) (w_ps b) && ymd_eqb (w_pe a) (w_pe b)
  && ymd_eqb (w_ev a) (w_ev b) && opt_eqb ymd_eqb (w_prev a) (w_prev b)
  && wmeta_eqb (w_meta a) (w_meta b) && list_eqb (pair_eqb str_eqb cval_eqb) (w_vals a) (w_vals b).
Fixpoint json_eqb (a b : json) : bool :=
  match a, b with
  | JNull, JNull => true | JBool x, JBool y => Bool.eqb x y | JInt x, JInt y => x =? y
  | JFloat x, JFloat y => x =? y | JStr x, JStr y => str_eqb x y
  | JArr x, JArr y =>
      (fix go (x y : list json) : bool :=
         match x, y with [], [] => true | p :: r, q :: s => json_eqb p q && go r s | _, _ => false end) x y
  | JObj x, JObj y =>
      (fix go (x y : list (str * json)) : bool :=
         match x, y with
         | [], [] => true
         | (k, p) :: r, (k', q) :: s => str_eqb k k' && json_eqb p q && go r s
         | _, _ => false end) x y
  | _, _ => false
  end.

(* ------------------------------------------------------------------ well-formedness (Boolean) *)
Definition nodup_keys {V} (d : list (str * V)) : bool :=
  (fix go (l : list str) : bool :=
     match l with [] => true | k :: r => negb (str_mem k r) && go r end) (keys d).
(* the object_hook leaves a dict with these keys alone *)
Definition hook_inert (L : layout) (ks : list str) : bool :=
  forallb (fun e => negb (forallb (fun k => str_mem k ks) (fst e))) (L_dispatch L).
Definition wf_cval (v : cval) : bool :=
  match v with
  | CArrI l => negb (Nat.eqb (List.length l) 0) && forallb int64_ok l   (* np.array([]) is float64 *)
  | _ => true
  end.
Definition wf_dict {V} (L : layout) (d : list (str * V)) : bool :=
  nodup_keys d && hook_inert L (keys d).
Definition wf_meta (L : layout) (m : wmeta) : bool :=
  wf_dict L (w_details m) && wf_dict L (w_loss_details m).
Definition year_ok (d : ymd) : bool := let '(y, _, _) := d in 1000 <=? y.
Definition wf_date (d : ymd) : bool := valid_ymd d && year_ok d.
Definition wf_cell (L : layout) (c : wcell) : bool :=
  wf_date (w_ps c) && wf_date (w_pe c) && wf_date (w_ev c)
  && match w_prev c with Some p => wf_date p | None => true end
  && Bool.eqb (is_inc_kind (w_kind c)) (match w_prev c with Some _ => true | None => false end)
  && cell_dates_ok (w_ps c) (w_pe c) (w_ev c) (w_prev c)
  && wf_meta L (w_meta c)
  && wf_dict L (w_vals c) && forallb (fun kv => wf_cval (snd kv)) (w_vals c).
Definition wf_tri (L : layout) (t : list wcell) : bool :=
  forallb (wf_cell L) t && one_class t.

(* slices are contiguous and python-equal metadata are identical (true of every Triangle whose
   metadata are in canonical representation: the constructor sorts by metadata first) *)
Definition grouped (t : list wcell) : bool :=
  list_eqb wcell_eqb (flat_map snd (groups t)) t
  && forallb (fun g => forallb (fun c => wmeta_eqb (w_meta c) (fst g)) (snd g)) (groups t).

(* ------------------------------------------------------------------ Boolean equality of layouts *)
Definition dattr_eqb (a b : dattr) : bool :=
  match a, b with DPs, DPs | DPe, DPe | DEv, DEv | DPrev, DPrev => true | _, _ => false end.
Definition action_eqb (a b : action) : bool :=
  match a, b with AConcat, AConcat | ACellSet, ACellSet | AObservation, AObservation => true | _, _ => false end.
Definition mdefault_eqb (a b : mdefault) : bool :=
  match a, b with
  | DfNone, DfNone | DfEmptyDict, DfEmptyDict => true | DfStr x, DfStr y => str_eqb x y | _, _ => false
  end.
Definition layout_eqb (a b : layout) : bool :=
  str_eqb (L_slices a) (L_slices b)
  && list_eqb (fun x y => str_eqb (fst x) (fst y) && mattr_eqb (snd x) (snd y)) (L_meta_out a) (L_meta_out b)
  && list_eqb str_eqb (L_always a) (L_always b)
  && str_eqb (L_cells a) (L_cells b)
  && list_eqb (fun x y => str_eqb (fst x) (fst y) && dattr_eqb (snd x) (snd y)) (L_cell_out a) (L_cell_out b)
  && list_eqb (fun x y => str_eqb (fst x) (fst y) && dattr_eqb (snd x) (snd y)) (L_prev_out a) (L_prev_out b)
  && str_eqb (L_values a) (L_values b) && Bool.eqb (L_tolist a) (L_tolist b)
  && str_eqb (L_fmt_out a) (L_fmt_out b)
  && list_eqb (fun x y => list_eqb str_eqb (fst x) (fst y) && action_eqb (snd x) (snd y)) (L_dispatch a) (L_dispatch b)
  && str_eqb (L_slices_in a) (L_slices_in b)
  && list_eqb (fun x y => mattr_eqb (fst (fst x)) (fst (fst y)) && str_eqb (snd (fst x)) (snd (fst y))
                          && mdefault_eqb (snd x) (snd y)) (L_meta_in a) (L_meta_in b)
  && str_eqb (L_cells_in a) (L_cells_in b) && str_eqb (L_values_in a) (L_values_in b)
  && Bool.eqb (L_np_array a) (L_np_array b) && str_eqb (L_inc_test a) (L_inc_test b)
  && kind_eqb (L_class_if a) (L_class_if b)
  && list_eqb (fun x y => dattr_eqb (fst x) (fst y) && str_eqb (snd x) (snd y)) (L_dates_if a) (L_dates_if b)
  && kind_eqb (L_class_else a) (L_class_else b)
  && list_eqb (fun x y => dattr_eqb (fst x) (fst y) && str_eqb (snd x) (snd y)) (L_dates_else a) (L_dates_else b)
  && str_eqb (L_fmt_in a) (L_fmt_in b).
