(** C03 -- MORE public entry points written as explicit compositions of the kernels of Model/Heap.v
    (same conventions as Model/HeapApi.v: a Triangle is the list of references to its cells, every
    decision taken on coordinates / metadata / dates is an oracle on the immutable tag).
    Executable definitions only.

    period_merge (merge.py, with and without suffix), convert_currency (currency.py; one new cell-level
    kernel _convert_cell_currency), fill_forward_gaps (fill.py), backfill (backfill.py),
    Triangle.derive_metadata (triangle.py / cell.py). *)
From Coq Require Import ZArith List Bool PeanoNat.
From Bermuda Require Import Model.Base Model.Heap Model.HeapApi.
Import ListNotations.

(* what convert_currency decides for one slice, from its metadata *)
Inductive curdec :=
| CurNone                (* metadata.currency is None: ValueError *)
| CurSame                (* already the target currency: the slice's own cells *)
| CurNoRate              (* no exchange rate supplied: ValueError *)
| CurConvert (rate : Z). (* exchange_rates[metadata.currency] *)

Record tagfns2 := mkTagfns2 {
  pm_key : Z -> Z;           (* (period_start, period_end, metadata)      index of period_merge *)
  cur_dec : Z -> curdec;     (* decision of convert_currency, from the slice key *)
  cur_tag : Z -> Z;          (* the tag with metadata.currency replaced by the target *)
  is_cur : key -> bool;      (* k in CURRENCY_FIELDS *)
  lag_of : Z -> Z;           (* cell.dev_lag() *)
  bf_order : Z -> Z          (* (metadata, evaluation_date): the sort key of Triangle.period_rows *)
}.

(* d[k] on a defaultdict(list) / dict of groups *)
Fixpoint glookup (k : Z) (gs : list (Z * list val)) : option (list val) :=
  match gs with [] => None | (k', l) :: r => if (k =? k')%Z then Some l else glookup k r end.

(* ------------------------------------------------------------------ merge.py: period_merge *)
(* same cell type check (a read); both triangles grouped by (period, metadata); per tri1 group: the tri1
   cells themselves when tri2 has no cell there, ValueError when it has several, else
   _overwrite_values(cell, right_cell[0], suffix) for every cell of the group.
   [suffix = None] also stands for the falsy suffix "". *)
Definition api_period_merge (g : tagfns2) (same_type : bool) (suffix : option Z)
           (cells1 cells2 : list val) : M (list val) :=
  if negb same_type then raise ValueError
  else g1 <- group_cells (pm_key g) cells1 ;;
       g2 <- group_cells (pm_key g) cells2 ;;
       outs <- mapM (fun grp =>
                       match glookup (fst grp) g2 with
                       | None | Some [] => ret (snd grp)
                       | Some [rc] => mapM (fun c => overwrite_values c rc suffix) (snd grp)
                       | Some _ => raise ValueError
                       end) g1 ;;
       ret (concat outs).
(* MUTANT: _overwrite_values does cell1.values.update(replace_map); return cell1 *)
Definition api_period_merge_mutant (g : tagfns2) (same_type : bool) (suffix : option Z)
           (cells1 cells2 : list val) : M (list val) :=
  if negb same_type then raise ValueError
  else g1 <- group_cells (pm_key g) cells1 ;;
       g2 <- group_cells (pm_key g) cells2 ;;
       outs <- mapM (fun grp =>
                       match glookup (fst grp) g2 with
                       | None | Some [] => ret (snd grp)
                       | Some [rc] => mapM (fun c => overwrite_values_mutant c rc suffix) (snd grp)
                       | Some _ => raise ValueError
                       end) g1 ;;
       ret (concat outs).

(* ------------------------------------------------------------------ currency.py *)
(* converted_values = {k: v * exchange_rate if k in CURRENCY_FIELDS else v for k, v in cell.values.items()}
   return cell.replace(values=converted_values, metadata=replace(cell.metadata, currency=target))
   -- `v * rate` never writes (fresh array or number; None * rate is a TypeError); a non-currency entry
   is the very object held by the argument *)
Definition convert_value (c : cfg) (g : tagfns2) (rate : Z) (kv : key * val) : M (key * val) :=
  if is_cur g (fst kv) then r <- binop (mulop c) (snd kv) (PNum rate) ;; ret (fst kv, r) else ret kv.
Definition convert_cell_currency (c : cfg) (g : tagfns2) (cell : val) (rate : Z) : M val :=
  x <- get_cell cell ;;
  d <- get_dict (snd x) ;;
  nd <- mapM (convert_value c g rate) d ;;
  nv <- new_dict nd ;;
  replace cell [DValues nv; DTag (cur_tag g (fst x))].
(* MUTANT: `v *= exchange_rate` on the cell's own entries *)
Definition convert_cell_currency_mutant (c : cfg) (g : tagfns2) (cell : val) (rate : Z) : M val :=
  x <- get_cell cell ;;
  d <- get_dict (snd x) ;;
  nd <- mapM (fun kv => if is_cur g (fst kv)
                        then r <- iop (mulop c) (snd kv) (PNum rate) ;; ret (fst kv, r) else ret kv) d ;;
  nv <- new_dict nd ;;
  replace cell [DValues nv; DTag (cur_tag g (fst x))].
(* convert_currency: per slice (triangle.slices: groupby metadata) the decision; slices already in the
   target currency contribute their own cells *)
Definition api_convert_currency_gen (conv : val -> Z -> M val) (f : tagfns) (g : tagfns2) (cells : list val)
  : M (list val) :=
  slices <- group_cells (slice_key f) cells ;;
  outs <- mapM (fun s =>
                  match cur_dec g (fst s) with
                  | CurNone | CurNoRate => raise ValueError
                  | CurSame => ret (snd s)
                  | CurConvert rate => mapM (fun cell => conv cell rate) (snd s)
                  end) slices ;;
  ret (concat outs).
Definition api_convert_currency (f : tagfns) (g : tagfns2) (c : cfg) :=
  api_convert_currency_gen (convert_cell_currency c g) f g.
Definition api_convert_currency_mutant (f : tagfns) (g : tagfns2) (c : cfg) :=
  api_convert_currency_gen (convert_cell_currency_mutant c g) f g.

(* ------------------------------------------------------------------ fill.py: fill_forward_gaps *)
(* one (slice, period) row: period_cells = {cell.dev_lag(): cell}; for every missing lag (ascending; [plan] =
   the missing lags with the tag of the cell to create, computed from dates only)
       period_cells[lag] = period_cells[lag - eval_resolution].replace(evaluation_date=...)
   -- the new cell holds the SAME values dict as its source -- and with fill_with_none
       period_cells[lag] = period_cells[lag].replace(values={k: None for k in period_cells[lag].values}) *)
Definition fill_row (g : tagfns2) (fill_none : bool) (res : Z) (plan : list (Z * Z)) (row : list val)
  : M (list val) :=
  pc <- index_cells (lag_of g) row ;;
  pc' <- foldM (fun (pc : items) (lt : Z * Z) =>
                  match dget (fst lt - res)%Z pc with
                  | None => raise KeyError
                  | Some src =>
                      nc <- replace src [DTag (snd lt)] ;;
                      nc' <- (if fill_none
                              then d <- cell_items nc ;;
                                   nv <- new_dict (map (fun kv => (fst kv, PNone)) d) ;;
                                   replace nc [DValues nv]
                              else ret nc) ;;
                      ret (dset (fst lt) nc' pc)
                  end) plan pc ;;
  ret (map snd pc').
Definition api_fill_forward_gaps (f : tagfns) (g : tagfns2) (fill_none : bool) (res : Z)
           (plan : Z -> list (Z * Z)) (cells : list val) : M (list val) :=
  rows <- group_cells (row_key f) cells ;;
  outs <- mapM (fun r => fill_row g fill_none res (plan (fst r)) (snd r)) rows ;;
  ret (concat outs).
(* MUTANT: fill_with_none implemented as `for k in cell.values: cell.values[k] = None` on the new cell,
   whose values dict IS the source cell's *)
Definition fill_row_mutant (g : tagfns2) (fill_none : bool) (res : Z) (plan : list (Z * Z)) (row : list val)
  : M (list val) :=
  pc <- index_cells (lag_of g) row ;;
  pc' <- foldM (fun (pc : items) (lt : Z * Z) =>
                  match dget (fst lt - res)%Z pc with
                  | None => raise KeyError
                  | Some src =>
                      nc <- replace src [DTag (snd lt)] ;;
                      (if fill_none
                       then v <- cell_values nc ;; d <- get_dict v ;;
                            foldM (fun _ kv => dict_store v (fst kv) PNone) d tt
                       else ret tt) ;;;
                      ret (dset (fst lt) nc pc)
                  end) plan pc ;;
  ret (map snd pc').
Definition api_fill_forward_gaps_mutant (f : tagfns) (g : tagfns2) (fill_none : bool) (res : Z)
           (plan : Z -> list (Z * Z)) (cells : list val) : M (list val) :=
  rows <- group_cells (row_key f) cells ;;
  outs <- mapM (fun r => fill_row_mutant g fill_none res (plan (fst r)) (snd r)) rows ;;
  ret (concat outs).

(* ------------------------------------------------------------------ backfill.py *)
(* try: ... except ValueError: (break) *)
Definition try_value_error {A} (m : M A) : M (option A) :=
  fun h => match m h with
           | Ret h' a => Ret h' (Some a)
           | Raise h' e => if err_eqb e ValueError then Ret h' None else Raise h' e
           end.
(* period[0] of the row sorted by (metadata, evaluation_date) (stable: first of the minimal ones) *)
Definition pick_first (g : tagfns2) (row : list (Z * val)) : option (Z * val) :=
  fold_left (fun best tc => match best with
                            | None => Some tc
                            | Some b => if (bf_order g (fst tc) <? bf_order g (fst b))%Z then Some tc else best
                            end) row None.
(* while ...: additional_cells.append(first_cell.replace(evaluation_date=..., values=replacement_values.copy()));
   [tags] = the tags of the cells to create (dates only); a refused date (negative tag) ends the row *)
Fixpoint backfill_new (first : val) (repl : items) (tags : list Z) : M (list val) :=
  match tags with
  | [] => ret []
  | t :: r =>
      nv <- new_dict repl ;;
      o <- try_value_error (replace first [DTag t; DValues nv]) ;;
      match o with
      | None => ret []
      | Some nc => rest <- backfill_new first repl r ;; ret (nc :: rest)
      end
  end.
(* replacement_values = {k: 0 for k in first_cell.values}; for field in static_fields:
   replacement_values[field] = first_cell.values[field]   (a LOCAL dict; KeyError on a missing field;
   the static entries are the first cell's own objects) *)
Definition backfill_row (g : tagfns2) (statics : list key) (plan : Z -> list Z) (row : list val) : M (list val) :=
  tr <- mapM (fun c => x <- get_cell c ;; ret (fst x, c)) row ;;
  match pick_first g tr with
  | None => ret []
  | Some (t, first) =>
      d <- cell_items first ;;
      repl <- foldM (fun acc k => match dget k d with
                                  | Some v => ret (dset k v acc)
                                  | None => raise KeyError
                                  end) statics (map (fun kv => (fst kv, PNum 0)) d) ;;
      backfill_new first repl (plan t)
  end.
(* triangle + Triangle(additional_cells): the argument's own cells and the new ones *)
Definition api_backfill (f : tagfns) (g : tagfns2) (statics : list key) (plan : Z -> list Z) (cells : list val)
  : M (list val) :=
  rows <- group_cells (period_key f) cells ;;
  add <- mapM (fun r => backfill_row g statics plan (snd r)) rows ;;
  ret (cells ++ concat add).
(* MUTANT: the zeroing done in place: for k in first_cell.values: first_cell.values[k] = 0 (statics kept) *)
Definition backfill_row_mutant (g : tagfns2) (statics : list key) (plan : Z -> list Z) (row : list val)
  : M (list val) :=
  tr <- mapM (fun c => x <- get_cell c ;; ret (fst x, c)) row ;;
  match pick_first g tr with
  | None => ret []
  | Some (t, first) =>
      v <- cell_values first ;; d <- get_dict v ;;
      foldM (fun _ kv => if memk (fst kv) statics then ret tt else dict_store v (fst kv) (PNum 0)) d tt ;;;
      d' <- get_dict v ;;
      backfill_new first d' (plan t)
  end.
Definition api_backfill_mutant (f : tagfns) (g : tagfns2) (statics : list key) (plan : Z -> list Z)
           (cells : list val) : M (list val) :=
  rows <- group_cells (period_key f) cells ;;
  add <- mapM (fun r => backfill_row_mutant g statics plan (snd r)) rows ;;
  ret (cells ++ concat add).

(* ------------------------------------------------------------------ triangle.py / cell.py: derive_metadata *)
(* cell = self; for name, value: cell = cell._base_replace(metadata=new_metadata)  (validating constructor;
   the new cell holds the SAME values dict); [gs] = the effect of each definition on the tag *)
Definition derive_metadata_cell (gs : list (Z -> Z)) (cell : val) : M val :=
  foldM (fun c gf => x <- get_cell c ;; base_replace true c [DTag (gf (fst x))]) gs cell.
Definition api_derive_metadata (gs : list (Z -> Z)) (cells : list val) : M (list val) :=
  mapM (derive_metadata_cell gs) cells.
(* MUTANT: self._metadata = new_metadata; return self *)
Definition api_derive_metadata_mutant (gs : list (Z -> Z)) (cells : list val) : M (list val) :=
  mapM (fun cell => foldM (fun c gf => x <- get_cell c ;; base_replace_mutant c [DTag (gf (fst x))]) gs cell) cells.

(* ------------------------------------------------------------------ every entry point of this file *)
Inductive apicall2 :=
| APeriodMerge (same_type : bool) (suffix : option Z) (cells1 cells2 : list val)
| AConvertCurrency (cells : list val)
| AFillForwardGaps (fill_none : bool) (res : Z) (plan : Z -> list (Z * Z)) (cells : list val)
| ABackfill (statics : list key) (plan : Z -> list Z) (cells : list val)
| ADeriveMetadata (gs : list (Z -> Z)) (cells : list val).
Definition run_api2 (f : tagfns) (g : tagfns2) (c : cfg) (a : apicall2) : M res :=
  lift RVals
    match a with
    | APeriodMerge st s c1 c2 => api_period_merge g st s c1 c2
    | AConvertCurrency cells => api_convert_currency f g c cells
    | AFillForwardGaps fnone r plan cells => api_fill_forward_gaps f g fnone r plan cells
    | ABackfill statics plan cells => api_backfill f g statics plan cells
    | ADeriveMetadata gs cells => api_derive_metadata gs cells
    end.
Definition run_api2_mutant (f : tagfns) (g : tagfns2) (c : cfg) (a : apicall2) : M res :=
  lift RVals
    match a with
    | APeriodMerge st s c1 c2 => api_period_merge_mutant g st s c1 c2
    | AConvertCurrency cells => api_convert_currency_mutant f g c cells
    | AFillForwardGaps fnone r plan cells => api_fill_forward_gaps_mutant f g fnone r plan cells
    | ABackfill statics plan cells => api_backfill_mutant f g statics plan cells
    | ADeriveMetadata gs cells => api_derive_metadata_mutant gs cells
    end.
Definition api2_args (a : apicall2) : list val :=
  match a with
  | APeriodMerge _ _ c1 c2 => c1 ++ c2
  | AConvertCurrency cells | AFillForwardGaps _ _ _ cells | ABackfill _ _ cells | ADeriveMetadata _ cells => cells
  end.
(* comparison with the observed result of the real function *)
Definition agrees_api2 (f : tagfns) (g : tagfns2) (c : cfg) (exact : bool) (h : heap) (a : apicall2) (o : observed)
  : bool :=
  match run_api2 f g c a h, o with
  | Ret h' r, ObsRet s => frozen_b h h' && rsg_eqb exact (sig_res (length h) h' r) s
  | Raise h' e, ObsRaise e' => frozen_b h h' && err_eqb e e'
  | _, _ => false
  end.
Definition mutant_writes2 (f : tagfns) (g : tagfns2) (c : cfg) (h : heap) (a : apicall2) : bool :=
  match run_api2_mutant f g c a h with Ret h' _ | Raise h' _ => negb (frozen_b h h') end.
