(** C17 -- structural models of thin / bootstrap / moment_match.  Executable definitions only.

    RNG and distribution samplers are ORACLES: the drawn index vector [ndxs] (thin), the resampled
    age-to-age factors [fac] and the multiplication itself [mul] (bootstrap), the quantile / variate
    vector and the argsort permutation (maximum entropy, moment_match) are arguments; the structure
    theorems hold for every value of them.  The harness records the real draws and feeds them in. *)
From Coq Require Import ZArith List Bool PeanoNat Sorting.Mergesort Orders.
From Bermuda Require Import Model.Base.
Import ListNotations.

Definition triangle := list cell.
Definition set_vals (c : cell) (v : list (str * value)) : cell :=
  mkCell (ckind c) (ps c) (pe c) (ev c) (prev c) (cmeta c) v.
Definition set_meta (c : cell) (m : meta) : cell :=
  mkCell (ckind c) (ps c) (pe c) (ev c) (prev c) m (cvals c).
Definition map_vals (g : value -> value) (d : list (str * value)) : list (str * value) :=
  map (fun kv => (fst kv, g (snd kv))) d.
(* everything of a cell except its values *)
Definition same_frame (a b : cell) : Prop :=
  ckind a = ckind b /\ ps a = ps b /\ pe a = pe b /\ ev a = ev b /\ prev a = prev b /\ cmeta a = cmeta b.
Definition field (t : triangle) (i : nat) (k : str) : option value :=
  match nth_error t i with Some c => assoc k (cvals c) | None => None end.

(* ------------------------------------------------------------------ thin.py *)
(* Triangle.num_samples: arrays of size > 1 must agree; 1 if there is none *)
Definition arr_size (v : value) : list nat :=
  match v with VArr _ xs => if 1 <? length xs then [length xs] else [] | _ => [] end.
Definition sizes (t : triangle) : list nat :=
  flat_map (fun c => flat_map (fun kv => arr_size (snd kv)) (cvals c)) t.
Definition num_samples (t : triangle) : result nat :=
  match sizes t with
  | [] => Ok 1
  | n :: r => if forallb (Nat.eqb n) r then Ok n else Err ValueError
  end.
Definition take (xs : list Z) (ndxs : list nat) : list Z := map (fun i => nth i xs 0%Z) ndxs.
(* v[ndxs] if isinstance(v, np.ndarray) and len(v) > 1 else v *)
Definition thin_value (ndxs : list nat) (v : value) : value :=
  match v with VArr f xs => if 1 <? length xs then VArr f (take xs ndxs) else v | _ => v end.
Definition thin_cell (ndxs : list nat) (c : cell) : cell := set_vals c (map_vals (thin_value ndxs) (cvals c)).
(* ndxs = rng.choice(triangle.num_samples, num_samples, False), drawn ONCE *)
Definition thin (t : triangle) (k : nat) (ndxs : list nat) : result triangle :=
  bind (num_samples t)
       (fun n => if n <? k then Err ValueError
                 else if n =? k then Ok t
                 else Ok (map (thin_cell ndxs) t)).

(* ------------------------------------------------------------------ bootstrap.py: age-to-age skeleton *)
Section Develop.
  Variable mul : value -> cell -> str -> value.       (* v * resampled_atas[cell.dev_lag()][field][period_idx] *)
  Variable sel : str -> bool.                         (* the field is one of the resampled fields *)
  Definition truthy (o : option value) : bool :=
    match o with Some (VNum x) => negb (num_n x =? 0)%Z | Some (VArr _ (_ :: _)) => true | _ => false end.
  (* the earliest development cell of a period: no cell of the same period is evaluated earlier *)
  Definition is_first (t : triangle) (c : cell) : bool :=
    forallb (fun d => negb (same_period c d) || (ev c <=? ev d)%Z) t.
  (* values = {**cell.values, **{field: v * f if cell.values.get(field) else None for field, v in values.items()}} *)
  Definition develop_vals (c : cell) (carried : list (str * value)) : list (str * value) :=
    dict_union (cvals c)
               (map (fun kv => (fst kv, if truthy (assoc (fst kv) (cvals c)) then mul (snd kv) c (fst kv) else VNone))
                    (filter (fun kv => sel (fst kv)) carried)).
  Fixpoint develop_go (t : triangle) (carried : list (str * value)) (cells : list cell) : list cell :=
    match cells with
    | [] => []
    | c :: r =>
        if is_first t c then c :: develop_go t (cvals c) r
        else let v := develop_vals c carried in set_vals c v :: develop_go t v r
    end.
  Definition develop (t : triangle) : triangle := develop_go t [] t.
End Develop.
Definition BOOTSTRAP : str := [98; 111; 111; 116; 115; 116; 114; 97; 112]%Z.     (* "bootstrap" *)
Definition with_detail (i : Z) (c : cell) : cell :=
  let m := cmeta c in
  set_meta c (mkMeta (risk_basis m) (country m) (currency m) (reinsurance_basis m) (loss_definition m)
                     (per_occurrence_limit m) (dict_set BOOTSTRAP (MNum (num_of_int i)) (details m))
                     (loss_details m)).
(* replicate i of a triangle given as its slices (each slice developed with its own factors) *)
Definition replicate (sel : str -> bool) (muls : list (value -> cell -> str -> value)) (i : Z)
           (slices : list triangle) : triangle :=
  flat_map (fun ms => map (with_detail i) (develop (fst ms) sel (snd ms))) (combine muls slices).

(* ------------------------------------------------------------------ re-imposing a rank order *)
(* maximum_entropy_ensemble:  replicate = [q for _, q in sorted(zip(indices, sorted(quantiles)))]
   _sort_x_on_y_rank:         np.array(sorted(x))[rank_y],  rank_y[sort_y] = arange(n)
   Both put the r-th smallest new value at position perm[r], where perm is an argsort of the source. *)
Module ZOrder <: TotalLeBool.
  Definition t := Z.
  Definition leb := Z.leb.
  Theorem leb_total : forall a b, leb a b = true \/ leb b a = true.
  Proof. intros a b. unfold leb. destruct (Z.leb_spec a b); [left|right]; auto. apply Z.leb_le. apply Z.lt_le_incl. assumption. Qed.
End ZOrder.
Module ZSort := Sort ZOrder.
Fixpoint pos (p : nat) (perm : list nat) : nat :=
  match perm with [] => 0 | x :: r => if x =? p then 0 else S (pos p r) end.
Definition place (perm : list nat) (s : list Z) : list Z :=
  map (fun p => nth (pos p perm) s 0%Z) (seq 0 (length perm)).
Definition rerank (perm : list nat) (news : list Z) : list Z := place perm (ZSort.sort news).
Fixpoint sortedb (l : list Z) : bool :=
  match l with
  | a :: ((b :: _) as r) => (a <=? b)%Z && sortedb r
  | _ => true
  end.
Fixpoint nodupb (l : list nat) : bool :=
  match l with [] => true | x :: r => negb (existsb (Nat.eqb x) r) && nodupb r end.
(* perm is an argsort of y: a permutation of 0..n-1 along which y is non-decreasing *)
Definition valid_perm_b (y : list Z) (perm : list nat) : bool :=
  (length perm =? length y) && forallb (fun i => i <? length y) perm && nodupb perm
  && sortedb (map (fun i => nth i y 0%Z) perm).
(* the order relation of the property, as a Boolean on a source and an output *)
Definition rank_order_b (y out : list Z) : bool :=
  (length out =? length y) &&
  forallb (fun p => forallb (fun q => negb (nth p y 0 <? nth q y 0)%Z || (nth p out 0 <=? nth q out 0)%Z)
                            (seq 0 (length y))) (seq 0 (length y)).

(* ------------------------------------------------------------------ method_moments.py *)
(* _generate_samples: arrays are replaced by the re-ranked variates, everything else is returned as is.
   draws k i / perms k i : recorded sampler output and argsort for field k of cell i *)
Definition mm_value (perm : list nat) (draw : list Z) (v : value) : value :=
  match v with VArr _ xs => VArr true (rerank perm draw) | _ => v end.
Definition mm_cell (fields : list str) (perms : str -> list nat) (draws : str -> list Z) (c : cell) : cell :=
  set_vals c (map (fun kv => if existsb (str_eqb (fst kv)) fields
                             then (fst kv, mm_value (perms (fst kv)) (draws (fst kv)) (snd kv))
                             else kv) (cvals c)).
Definition moment_match (fields : list str) (perms : nat -> str -> list nat) (draws : nat -> str -> list Z)
           (t : triangle) : triangle :=
  map (fun ic => mm_cell fields (perms (fst ic)) (draws (fst ic)) (snd ic)) (combine (seq 0 (length t)) t).

(* ------------------------------------------------------------------ Boolean specs for the harness *)
Definition frame_eqb (a b : cell) : bool :=
  kind_eqb (ckind a) (ckind b) && (ps a =? ps b)%Z && (pe a =? pe b)%Z && (ev a =? ev b)%Z
  && opt_eqb Z.eqb (prev a) (prev b) && meta_seqb (cmeta a) (cmeta b).
Definition keys_eqb (a b : cell) : bool := list_eqb str_eqb (keys (cvals a)) (keys (cvals b)).
(* shape of a value: kind only *)
Definition vshape_eqb (a b : value) : bool :=
  match a, b with
  | VNum _, VNum _ | VNone, VNone => true
  | VArr _ xs, VArr _ ys => length xs =? length ys
  | _, _ => false
  end.
Definition cell_shape_eqb (a b : cell) : bool :=
  frame_eqb a b && list_eqb (pair_eqb str_eqb vshape_eqb) (cvals a) (cvals b).
