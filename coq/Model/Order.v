(** C01/C02 -- ordering and equality of Metadata, Cells and Triangles.  Executable definitions only.

    Python facts modelled here (trusted, validated by correspondence):
    - tuple comparison: the first position whose elements are not `==` decides, by `<` on that
      position; `<` between values of different kinds (str/number/date/None) raises TypeError
      (here: `None` of `option comparison`); `==` between different kinds is just False;
      bool is an int (True == 1 == 1.0);
    - `sorted(d.items())` on a dict (distinct keys) sorts by key;
    - dict `==` is insensitive to insertion order and compares values with `==`;
    - `sorted(list)` only calls `<`, is stable, and for a strict weak order returns the unique
      sorted arrangement (up to the input order of equivalent elements). *)
From Coq Require Import ZArith List Bool.
From Bermuda Require Import Model.Base.
Import ListNotations.
Local Open Scope Z_scope.

(* ---------- atoms: metadata detail values normalised so that Python `==` is Leibniz `=` ----- *)
Inductive atom := AS (s : str) | AN (n : Z) | AD (d : Z) | ANone.
Definition norm (v : mval) : atom :=
  match v with
  | MStr s => AS s
  | MNum x => AN (num_n x)
  | MBool b => AN (if b then 1024 else 0)
  | MDate d => AD d
  | MNone => ANone
  end.

(* ---------- comparison combinators.  A comparison is `A -> A -> option comparison`:
   Some c = comparable with outcome c;  None = TypeError ---------- *)
Definition ocmp (A : Type) := A -> A -> option comparison.
Definition total {A} (c : A -> A -> comparison) : ocmp A := fun a b => Some (c a b).
(* tuple of two elements: the first non-== position decides *)
Definition lex2 {A B} (oa : ocmp A) (ob : ocmp B) : ocmp (A * B) :=
  fun x y => match oa (fst x) (fst y) with Some Eq => ob (snd x) (snd y) | r => r end.
(* tuple / list / str of any length, lexicographic; a proper prefix is smaller *)
Fixpoint lexl {A} (o : ocmp A) (l1 l2 : list A) : option comparison :=
  match l1, l2 with
  | [], [] => Some Eq
  | [], _ :: _ => Some Lt
  | _ :: _, [] => Some Gt
  | a :: r, b :: s => match o a b with Some Eq => lexl o r s | c => c end
  end.
(* (x is not None, x or ""): None before every value, never equal to one *)
Definition opt_first {A} (o : ocmp A) : ocmp (option A) :=
  fun a b => match a, b with
             | None, None => Some Eq | None, Some _ => Some Lt | Some _, None => Some Gt
             | Some x, Some y => o x y end.
(* (x is None, 0 if x is None else x): None after every value *)
Definition opt_last {A} (o : ocmp A) : ocmp (option A) :=
  fun a b => match a, b with
             | None, None => Some Eq | None, Some _ => Some Gt | Some _, None => Some Lt
             | Some x, Some y => o x y end.

Definition zc : ocmp Z := total Z.compare.
Definition strc : ocmp str := lexl zc.                 (* Python str < : code-point = UTF-8 byte order *)
Definition atomc : ocmp atom :=
  fun a b => match a, b with
             | AS x, AS y => strc x y
             | AN x, AN y => zc x y
             | AD x, AD y => zc x y
             | ANone, ANone => Some Eq
             | _, _ => None
             end.
Definition itemc : ocmp (str * atom) := lex2 strc atomc.          (* a (key, value) 2-tuple *)
Definition itemsc : ocmp (list (str * atom)) := lexl itemc.       (* tuple(sorted(d.items())) *)
Definition str_ltb' (a b : str) : bool := match strc a b with Some Lt => true | _ => false end.

(* the comparison key of a Metadata: the 8-tuple built by Metadata.__lt__ *)
Record mkey := mkMkey {
  k_strs : list (option str);       (* risk_basis, country, currency, reinsurance_basis, loss_definition *)
  k_lim : option Z;                 (* per_occurrence_limit as n/1024 *)
  k_det : list (str * atom);        (* tuple(sorted(details.items())) *)
  k_ldet : list (str * atom) }.
Definition mkey_tuple (k : mkey) := (k_strs k, (k_lim k, (k_det k, k_ldet k))).
Definition mkeyc : ocmp mkey :=
  fun a b => lex2 (lexl (opt_first strc)) (lex2 (opt_last zc) (lex2 itemsc itemsc))
                  (mkey_tuple a) (mkey_tuple b).

(* sorted(d.items()): insertion sort by key *)
Fixpoint ins_item (x : str * atom) (l : list (str * atom)) : list (str * atom) :=
  match l with
  | [] => [x]
  | y :: r => match strc (fst x) (fst y) with Some Gt => y :: ins_item x r | _ => x :: l end
  end.
Definition sort_items (d : list (str * mval)) : list (str * atom) :=
  fold_right (fun kv acc => ins_item (fst kv, norm (snd kv)) acc) [] d.

Definition canonical_key (m : meta) : mkey :=
  mkMkey [risk_basis m; country m; currency m; reinsurance_basis m; loss_definition m]
         (option_map num_n (per_occurrence_limit m))
         (sort_items (details m)) (sort_items (loss_details m)).

(* Metadata.__lt__ / Metadata.__eq__ ; None = TypeError *)
Definition meta_cmp : ocmp meta := fun a b => mkeyc (canonical_key a) (canonical_key b).
Definition meta_lt (a b : meta) : option bool :=
  match meta_cmp a b with Some Lt => Some true | Some _ => Some false | None => None end.

(* decidable equality of keys = Python `==` of Metadata (dict order-insensitive, numeric ==) *)
Definition atom_eqb (a b : atom) : bool :=
  match a, b with
  | AS x, AS y => str_eqb x y | AN x, AN y => x =? y | AD x, AD y => x =? y
  | ANone, ANone => true | _, _ => false
  end.
Definition mkey_eqb (a b : mkey) : bool :=
  list_eqb (opt_eqb str_eqb) (k_strs a) (k_strs b) && opt_eqb Z.eqb (k_lim a) (k_lim b)
  && list_eqb (pair_eqb str_eqb atom_eqb) (k_det a) (k_det b)
  && list_eqb (pair_eqb str_eqb atom_eqb) (k_ldet a) (k_ldet b).
Definition meta_pyeq (a b : meta) : bool := mkey_eqb (canonical_key a) (canonical_key b).

(* ---------- cells ---------- *)
(* the date part of the tuple built by Cell.__lt__ / IncrementalCell.__lt__ *)
Definition cell_dates (c : cell) : list Z :=
  [ps c; pe c; ev c] ++ match prev c with Some p => [p] | None => [] end.
(* (metadata, period_start, period_end, evaluation_date[, prev]) < (...) *)
Definition cell_tuple (c : cell) := (canonical_key (cmeta c), cell_dates c).
Definition cell_cmp : ocmp cell := fun a b => lex2 mkeyc (lexl zc) (cell_tuple a) (cell_tuple b).
Definition cell_ltb (a b : cell) : bool :=
  match cell_cmp a b with Some Lt => true | _ => false end.

(* sorted(cells): stable insertion sort that only uses `<` *)
Fixpoint ins_cell (x : cell) (l : list cell) : list cell :=
  match l with
  | [] => [x]
  | y :: r => if cell_ltb x y then x :: l else y :: ins_cell x r   (* after its equivalents: stable *)
  end.
Definition sort_cells (l : list cell) : list cell := fold_left (fun acc c => ins_cell c acc) l [].

(* Triangle.__init__: one cell class, then sort *)
Definition same_kind (l : list cell) : bool :=
  match l with
  | [] => true
  | c :: r => forallb (fun d => kind_eqb (ckind d) (ckind c)) r
  end.
Definition mk_triangle (l : list cell) : result (list cell) :=
  if same_kind l then Ok (sort_cells l) else Err TriangleError.

(* the constructor's date rules (Cell.__init__ / IncrementalCell.__init__) *)
Definition cell_valid (c : cell) : bool :=
  (ps c <=? pe c) && (ps c <=? ev c)
  && match ckind c, prev c with
     | KInc, Some p => p <? ev c
     | KInc, None => false
     | _, Some _ => false
     | _, None => true
     end.

(* canonical form of a Triangle's cell list *)
Fixpoint sorted_cells (l : list cell) : bool :=
  match l with
  | [] => true
  | a :: r => match r with [] => true | b :: _ => negb (cell_ltb b a) && sorted_cells r end
  end.
Definition wf_triangle (l : list cell) : bool :=
  same_kind l && forallb cell_valid l && sorted_cells l.

(* ---------- Cell.__eq__ / Triangle.__eq__ / hash keys (C02) ---------- *)
(* values_eq: same key set; np.array_equal per key: numeric equality and equal shape
   (a number equals only a number -- or a length-... see Proofs: scalar vs 1-element array is
   array_equal = True in NumPy when shapes broadcast? NO: array_equal requires equal shape, and
   a scalar has shape () while a 1-d array has shape (n,), so they differ). *)
Definition value_pyeq (a b : value) : bool :=
  match a, b with
  | VNum x, VNum y => num_n x =? num_n y
  | VNone, VNone => true
  | VArr _ xs, VArr _ ys => list_eqb Z.eqb xs ys
  | _, _ => false
  end.
Fixpoint ins_str (x : str) (l : list str) : list str :=
  match l with
  | [] => [x]
  | y :: r => match strc x y with Some Gt => y :: ins_str x r | _ => x :: l end
  end.
Definition sort_strs (l : list str) : list str := fold_right ins_str [] l.
Definition values_pyeq (v1 v2 : list (str * value)) : bool :=
  list_eqb str_eqb (sort_strs (keys v1)) (sort_strs (keys v2))
  && forallb (fun kv => match assoc (fst kv) v2 with
                        | Some w => value_pyeq (snd kv) w
                        | None => false
                        end) v1.
(* isinstance(self, other.__class__) or isinstance(other, self.__class__), for cells of one basis:
   Cell and CumulativeCell are interchangeable, IncrementalCell only matches IncrementalCell
   (an IncrementalCell IS a Cell, so Cell == IncrementalCell passes the class test and then fails
   or errors on prev; across bases the property does not apply) *)
Definition basis_eqb (a b : kind) : bool := Bool.eqb (match a with KInc => true | _ => false end)
                                                     (match b with KInc => true | _ => false end).
Definition cell_pyeq (a b : cell) : bool :=
  basis_eqb (ckind a) (ckind b)
  && (ps a =? ps b) && (pe a =? pe b) && (ev a =? ev b)
  && meta_pyeq (cmeta a) (cmeta b) && values_pyeq (cvals a) (cvals b)
  && opt_eqb Z.eqb (prev a) (prev b).
Fixpoint tri_pyeq (l1 l2 : list cell) : bool :=
  match l1, l2 with
  | [], [] => true
  | a :: r, b :: s => cell_pyeq a b && tri_pyeq r s
  | _, _ => false
  end.
