(** C02 -- class compatibility and hash keys.  Executable definitions only.
    (cell_pyeq / values_pyeq / tri_pyeq / meta_pyeq live in Model/Order.v.)

    Python facts modelled (trusted): `x == y` implies `hash(x) == hash(y)` for int / float / bool /
    str / date / None / tuples / frozensets of such; hash(np.int64(n)) == hash(n).  So "equal hashes"
    is modelled as "equal hash KEYS", the key being the hashed tuple with every component normalised
    up to `==` (numbers to their value, dicts to their sorted items). *)
From Coq Require Import ZArith List Bool.
From Bermuda Require Import Model.Base Model.Order.
Import ListNotations.
Local Open Scope Z_scope.

(* isinstance(<instance of a>, <class b>) *)
Definition sub_kind (a b : kind) : bool :=
  match a, b with
  | _, KCell => true
  | KCum, KCum => true
  | KInc, KInc => true
  | _, _ => false
  end.
Definition class_compat (a b : kind) : bool := sub_kind a b || sub_kind b a.

(* components of the tuple hashed by Cell.__hash__ (in source order) *)
Inductive hcomp := HBasis | HClassName | HPs | HPe | HEv | HMeta | HValues | HPrev.

Inductive nvalue := NVnum (n : Z) | NVnone | NVarr (xs : list Z).
Definition nval (v : value) : nvalue :=
  match v with VNum x => NVnum (num_n x) | VNone => NVnone | VArr _ xs => NVarr xs end.
Definition nitem (kv : str * value) : str * nvalue := (fst kv, nval (snd kv)).

(* tuple(sorted(value_hashes)): a canonical arrangement of the (key, value) hashes; we sort the
   normalised items by key (keys of a dict are distinct) *)
Fixpoint ins_nitem (x : str * nvalue) (l : list (str * nvalue)) : list (str * nvalue) :=
  match l with
  | [] => [x]
  | y :: r => match strc (fst x) (fst y) with Some Lt => x :: l | _ => y :: ins_nitem x r end
  end.
Definition sort_nitems (d : list (str * value)) : list (str * nvalue) :=
  fold_left (fun acc kv => ins_nitem (nitem kv) acc) d [].

Inductive hv :=
| HVclass (k : kind) | HVbasis (incremental : bool) | HVz (z : Z) | HVkey (k : mkey)
| HVvals (l : list (str * nvalue)) | HVopt (o : option Z).

Definition cell_hash_comp (c : cell) (h : hcomp) : hv :=
  match h with
  | HBasis => HVbasis (is_inc c)
  | HClassName => HVclass (ckind c)
  | HPs => HVz (ps c) | HPe => HVz (pe c) | HEv => HVz (ev c)
  | HMeta => HVkey (canonical_key (cmeta c))
  | HValues => HVvals (sort_nitems (cvals c))
  | HPrev => HVopt (prev c)
  end.
(* Cell.__hash__ ; IncrementalCell.__hash__ = hash((Cell.__hash__(self), prev)) *)
Definition cell_hash_key (comps : list hcomp) (c : cell) : list hv :=
  map (cell_hash_comp c) comps ++ (if is_inc c then [HVopt (prev c)] else []).
(* the class name must not be hashed raw (Cell and CumulativeCell are ==) and everything that
   __eq__ ignores must be absent; what __eq__ compares may be present *)
Definition hash_comps_ok (comps : list hcomp) : bool :=
  forallb (fun h => match h with HClassName => false | _ => true end) comps.
(* distinct bases hash differently only if the basis (or prev) is hashed -- not required for the
   hash/eq contract, recorded for information *)
Definition tri_hash_key (comps : list hcomp) (t : list cell) : list (list hv) := map (cell_hash_key comps) t.

(* ---------- collections.abc.Set mixins on top of __contains__ / __iter__ / __len__ and
   _from_iterable = Triangle(generator)  (documented definitions) ---------- *)
Definition tri_contains (t : list cell) (c : cell) : bool := existsb (fun d => cell_pyeq d c) t.
Definition tri_le (a b : list cell) : bool :=                    (* a <= b *)
  (Nat.leb (length a) (length b)) && forallb (tri_contains b) a.
Definition tri_and_cells (a b : list cell) : list cell := filter (tri_contains a) b.   (* a & b *)
Definition tri_sub_cells (a b : list cell) : list cell :=                              (* a - b *)
  filter (fun c => negb (tri_contains b c)) a.
