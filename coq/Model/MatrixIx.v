(** C14 -- array data frame and Matrix forms (month-aligned triangles).  Executable definitions only.
    Mirrors bermuda/io/array.py (triangle_to_array_data_frame / array_data_frame_to_triangle),
    bermuda/matrix/index.py (MatrixIndex.from_triangle / _resolve_exp_ndx / _resolve_dev_ndx) and
    bermuda/io/matrix.py (triangle_to_matrix / matrix_to_triangle).

    Dates are ordinals; month arithmetic is Lib.Calendar (month_id / month_start / month_end / addm),
    which C12 ties to date_utils.  The dense numpy array is abstracted to a finite map
    (slice, field, period, dev) -> number with default NaN. *)
From Coq Require Import ZArith List Bool.
From Bermuda Require Import Model.Base Lib.Calendar Model.Frame.
Import ListNotations.
Local Open Scope Z_scope.

(* ====================================================================================== *)
(** * Array data frame: a `period` column and one column per integer development lag *)
Record aframe := mkAF { af_lags : list Z; af_rows : list (date * list (option Z)) }.

Definition period_eqb (a b : date * date) : bool := (fst a =? fst b) && (snd a =? snd b).
Definition has_field (f : str) (c : cell) : bool := has_key f (cvals c).
Definition cell_lag (c : cell) : Z := lag_months (pe c) (ev c).      (* int(cell.dev_lag()) *)
Definition scalar_of (ov : option value) : option Z :=
  match ov with Some (VNum x) => Some (num_n x) | _ => None end.

(* triangle_to_array_data_frame(triangle, field); `t` is the sorted cell list of the triangle *)
Definition to_array (t : list cell) (f : str) : result aframe :=
  if negb (Nat.eqb (List.length (dedup meta_seqb (map cmeta t))) 1) && negb (Nat.eqb (List.length t) 0)
  then Err ValueError
  else if tri_is_inc t then Err ValueError
  else
    let rows := group_by period_eqb period (filter (has_field f) t) in
    let lags := dedup Z.eqb (flat_map (fun g => map cell_lag (snd g)) rows) in
    Ok (mkAF lags
          (map (fun g => (fst (fst g),
                          map (fun h => match filter (fun c => cell_lag c =? h) (snd g) with
                                        | [] => None
                                        | c :: r => scalar_of (assoc f (cvals (last r c)))   (* later cell overwrites *)
                                        end) lags)) rows)).

(* array_data_frame_to_triangle(df, field, period_resolution=r, metadata=m), integer column
   names, dev lag counted from the period end. *)
(* period_resolution=None: round(calculate_dev_lag(period[0], period[1])) between two month starts
   (after the G5 repair) = difference of the month ids *)
Definition infer_resolution (af : aframe) : result Z :=
  match af_rows af with
  | r0 :: r1 :: _ => Ok (month_id (fst r1) - month_id (fst r0))
  | _ => Err ValueError
  end.
Definition from_array (af : aframe) (f : str) (r : Z) (m : meta) : list cell :=
  flat_map (fun row =>
        let ps := fst row in
        let pe := addm ps r - 1 in
        flat_map (fun hv => match snd hv with
                            | Some x => [mkCell KCum ps pe (addm pe (fst hv)) None m [(f, VNum (Num true x))]]
                            | None => []
                            end) (combine (af_lags af) (snd row))) (af_rows af).

(* ====================================================================================== *)
(** * MatrixIndex *)
Inductive stepkind := SMin | SDev | SExp.     (* min(dev_res, exp_res) | dev_res | exp_res *)
Record matrix_spec := mkMSpec {
  ms_resolve_step : stepkind;     (* ndx_resolution of MatrixIndex._resolve_dev_ndx *)
  ms_inverse_step : stepkind;     (* step of dev_lags in matrix_to_triangle *)
  ms_rich_inverse_step : stepkind (* step of dev_lags in rich_matrix_to_triangle *)
}.
Definition stepkind_eqb (a b : stepkind) : bool :=
  match a, b with SMin, SMin | SDev, SDev | SExp, SExp => true | _, _ => false end.

Record mindex := mkIx {
  ix_slices : list meta; ix_fields : list str;
  exp_origin : Z; exp_res : Z; dev_origin : Z; dev_res : Z }.

Definition step_of (k : stepkind) (ix : mindex) : Z :=
  match k with SMin => Z.min (dev_res ix) (exp_res ix) | SDev => dev_res ix | SExp => exp_res ix end.

Definition list_min (d : Z) (l : list Z) : Z := fold_left Z.min l d.
Definition list_max (d : Z) (l : list Z) : Z := fold_left Z.max l d.
(* _multi_gcd(_diff(sorted(xs))) for distinct xs = gcd of the offsets from the minimum *)
Definition gcd_offsets (l : list Z) : Z :=
  match l with [] => 0 | x :: r => let m := list_min x r in fold_left (fun g y => Z.gcd g (y - m)) l 0 end.

Definition resolve_exp (ix : mindex) (d : date) : result Z :=
  let n := (month_id d - exp_origin ix) / exp_res ix in
  if n <? 0 then Err OtherError else Ok n.
Definition resolve_dev (k : stepkind) (ix : mindex) (lag : Z) : result Z :=
  let n := Z.quot (lag - dev_origin ix) (step_of k ix) in      (* int(float / step) truncates *)
  if n <? 0 then Err OtherError else Ok n.
Definition unresolve_dev (k : stepkind) (ix : mindex) (n : Z) : Z := dev_origin ix + n * step_of k ix.
Definition unresolve_exp_start (ix : mindex) (n : Z) : date := month_start (exp_origin ix + n * exp_res ix).
Definition unresolve_exp_end (ix : mindex) (n : Z) : date := month_end (exp_origin ix + (n + 1) * exp_res ix - 1).

Fixpoint index_of {A} (eqb : A -> A -> bool) (a : A) (l : list A) : option Z :=
  match l with
  | [] => None
  | x :: r => if eqb a x then Some 0 else option_map Z.succ (index_of eqb a r)
  end.

Definition index_from_triangle (t : list cell) (fields : list str) : result mindex :=
  match t with
  | [] => Err ValueError                         (* min([]) *)
  | c0 :: _ =>
      let starts := map (fun c => month_id (ps c)) t in
      let nexts := map (fun c => month_id (pe c) + 1) t in
      let lags := map cell_lag t in
      let evs := map (fun c => month_id (ev c)) t in
      let dr := gcd_offsets evs in
      if dr =? 0 then Err OtherError               (* "Must supply eval_resolution ..." *)
      else if match fields with [] => true | _ => false end then Err OtherError
      else Ok (mkIx (dedup meta_seqb (map cmeta t)) fields
                    (list_min (month_id (ps c0)) starts) (gcd_offsets (starts ++ nexts))
                    (list_min (cell_lag c0) lags) dr)
  end.

(* ====================================================================================== *)
(** * triangle_to_matrix / matrix_to_triangle *)
Definition mkey := (Z * Z * Z * Z)%type.
Definition mkey_eqb (a b : mkey) : bool :=
  let '(a1, a2, a3, a4) := a in let '(b1, b2, b3, b4) := b in
  (a1 =? b1) && (a2 =? b2) && (a3 =? b3) && (a4 =? b4).
Record matrix := mkMat {
  m_index : mindex; m_incremental : bool;
  m_np : Z; m_nd : Z;                       (* data.shape[2], data.shape[3] *)
  m_data : list (mkey * Z) }.               (* most recent write first; absent = NaN *)
Fixpoint mlookup (k : mkey) (d : list (mkey * Z)) : option Z :=
  match d with [] => None | (k', v) :: r => if mkey_eqb k k' then Some v else mlookup k r end.

Definition month_aligned_cell (c : cell) : bool :=
  is_month_start (ps c) && is_month_end (pe c) && is_month_end (ev c).
Definition plen (c : cell) : Z := period_length (ps c) (pe c).
(* is_semi_regular: pairwise disjoint periods of one common length *)
Definition disjoint_or_same (a b : cell) : bool :=
  same_period a b || (pe a <? ps b) || (pe b <? ps a).
Definition semi_regular (t : list cell) : bool :=
  match t with
  | [] => true
  | c0 :: _ => forallb (fun c => plen c =? plen c0) t
               && forallb (fun a => forallb (disjoint_or_same a) t) t
  end.

Section Matrix.
  Variable msp : matrix_spec.

  Definition write_cell (ix : mindex) (acc : result (list (mkey * Z))) (c : cell) : result (list (mkey * Z)) :=
    fold_left (fun acc fv =>
      bind acc (fun d =>
      match index_of str_eqb (fst fv) (ix_fields ix) with
      | None => Ok d                                   (* `if field in fields` *)
      | Some fi =>
          match index_of meta_seqb (cmeta c) (ix_slices ix) with
          | None => Err KeyError
          | Some si =>
              bind (resolve_exp ix (ps c)) (fun p =>
              bind (resolve_dev (ms_resolve_step msp) ix (cell_lag c)) (fun dv =>
              match snd fv with
              | VNum x => Ok (((si, fi, p, dv), num_n x) :: d)
              | VArr _ [x] => Ok (((si, fi, p, dv), x) :: d)
              | _ => Err TypeError                     (* float(array) / float(None) *)
              end))
          end
      end)) (cvals c) acc.

  Definition triangle_to_matrix (t : list cell) (fields : list str) : result matrix :=
    if negb (forallb month_aligned_cell t) then Err OtherError
    else if negb (semi_regular t) then Err OtherError
    else
      bind (index_from_triangle t fields) (fun ix =>
      match t with
      | [] => Err ValueError
      | c0 :: _ =>
          let last_start := list_max (ps c0) (map ps t) in
          let max_lag := list_max (cell_lag c0) (map cell_lag t) in
          bind (resolve_exp ix last_start) (fun mp =>
          bind (resolve_dev (ms_resolve_step msp) ix max_lag) (fun md =>
          bind (fold_left (write_cell ix) t (Ok [])) (fun d =>
          Ok (mkMat ix (tri_is_inc t) (mp + 1) (md + 1) d))))
      end).

  Definition zrange (n : Z) : list Z := map Z.of_nat (seq 0 (Z.to_nat n)).

  Definition matrix_cell (k : stepkind) (mat : matrix) (si : Z) (m : meta) (j kk : Z) : list cell :=
    let ix := m_index mat in
    let vals := flat_map (fun fi_f => match mlookup (si, fst fi_f, j, kk) (m_data mat) with
                                      | Some x => [(snd fi_f, VNum (Num true x))]
                                      | None => []
                                      end)
                         (combine (zrange (Z.of_nat (List.length (ix_fields ix)))) (ix_fields ix)) in
    match vals with
    | [] => []
    | _ =>
        let ps := unresolve_exp_start ix j in
        let pe := unresolve_exp_end ix j in
        let ev := addm pe (unresolve_dev k ix kk) in
        if m_incremental mat then
          let pv := if kk =? 0 then ps - 1 else addm pe (unresolve_dev k ix (kk - 1)) in
          [mkCell KInc ps pe ev (Some pv) m vals]
        else [mkCell KCum ps pe ev None m vals]
    end.

  Definition matrix_to_triangle_with (k : stepkind) (mat : matrix) : list cell :=
    let ix := m_index mat in
    flat_map (fun si_m =>
      flat_map (fun j =>
        flat_map (fun kk => matrix_cell k mat (fst si_m) (snd si_m) j kk) (zrange (m_nd mat)))
        (zrange (m_np mat)))
      (combine (zrange (Z.of_nat (List.length (ix_slices ix)))) (ix_slices ix)).
  Definition matrix_to_triangle (mat : matrix) : list cell :=
    matrix_to_triangle_with (ms_inverse_step msp) mat.

  Definition matrix_round_trip (t : list cell) (fields : list str) : result (list cell) :=
    bind (triangle_to_matrix t fields) (fun m => Ok (matrix_to_triangle m)).
End Matrix.

(* coordinates of a cell rebuilt from its indices (what one matrix entry turns back into) *)
Definition cell_coords_from_index (k : stepkind) (ix : mindex) (p d : Z) : date * date * date :=
  let pe := unresolve_exp_end ix p in
  (unresolve_exp_start ix p, pe, addm pe (unresolve_dev k ix d)).

(** "index and inverse use the same step" *)
Definition matrix_spec_ok (m : matrix_spec) : bool :=
  stepkind_eqb (ms_resolve_step m) (ms_inverse_step m)
  && stepkind_eqb (ms_resolve_step m) (ms_rich_inverse_step m).
