(** C17 -- the thin model of Model/Resample.v PARAMETRISED by a description [thin_desc] of what
    bermuda/utils/thin.py says (extracted on every run by translate/t_resample.py into
    build/C17/GenResample.v).  Definitions only.

    DECISIONS interpreted by [thinD]: the if / elif / else chain of thin() (which comparison of
    triangle.num_samples with the argument refuses and with what class, which returns the argument itself,
    in which order), and the guards of _thin_cell's `v[ndxs] if <guards> else v`.
    RECOGNISED FORMS compared only: how the index vector is drawn (population, size, replace flag, ONE
    rng.choice call outside any loop), that _thin_cell maps EVERY item of cell.values with the key
    unchanged, and the canonical text of the rest ([td_shape]). *)
From Coq Require Import ZArith List Bool PeanoNat String.
From Bermuda Require Import Model.Base Model.Resample.
Import ListNotations.
Local Notation length := Datatypes.length.

Inductive cmp := CLt | CLe | CGt | CGe | CEq | CNe.
Inductive operand := ONum (* triangle.num_samples *) | OArg (* the num_samples argument *).
Inductive branch :=
| BrRefuse (c : cmp) (a b : operand) (e : err)    (* if a <c> b: raise e *)
| BrIdent (c : cmp) (a b : operand)               (* if a <c> b: return triangle *)
| BrDraw.                                         (* draw ndxs; return Triangle([_thin_cell(cell, ndxs) ...]) *)
Inductive guard := GIsArray | GNdimPos | GLenGt (n : nat).

Record thin_desc := mkThinDesc {
  td_branches : list branch;
  td_pop : operand;               (* rng.choice(<pop>, <size>, <replace>) *)
  td_size : operand;
  td_replace : bool;
  td_draws : nat;                 (* number of rng.choice calls in thin() *)
  td_draw_in_loop : bool;         (* ... one of them inside a loop / comprehension *)
  td_guards : list guard;         (* _thin_cell, source order *)
  td_all_values : bool;           (* {k: ... for k, v in cell.values.items()}: every item, key unchanged, no filter *)
  td_shape : list (string * string)
}.

Definition cmp_eval (c : cmp) (a b : nat) : bool :=
  match c with
  | CLt => a <? b | CLe => a <=? b | CGt => b <? a | CGe => b <=? a | CEq => a =? b | CNe => negb (a =? b)
  end.
Definition opv (o : operand) (n k : nat) : nat := match o with ONum => n | OArg => k end.

Fixpoint run_branches (brs : list branch) (n k : nat) (t drawn : triangle) : result triangle :=
  match brs with
  | [] => Err OtherError                                   (* falls off the chain: returns None *)
  | BrRefuse c a b e :: r => if cmp_eval c (opv a n k) (opv b n k) then Err e else run_branches r n k t drawn
  | BrIdent c a b :: r => if cmp_eval c (opv a n k) (opv b n k) then Ok t else run_branches r n k t drawn
  | BrDraw :: _ => Ok drawn
  end.

Definition guard_arr (xs : list Z) (g : guard) : bool :=
  match g with GIsArray => true | GNdimPos => true | GLenGt n => n <? length xs end.
(* on a scalar: isinstance(...) is False; without that guard v.ndim / len(v) / v[ndxs] raise -- VNone stands for it *)
Definition guard_scalar (g : guard) : bool := match g with GIsArray => false | _ => true end.
Definition thin_valueD (gs : list guard) (ndxs : list nat) (v : value) : value :=
  match v with
  | VArr f xs => if forallb (guard_arr xs) gs then VArr f (take xs ndxs) else v
  | _ => if forallb guard_scalar gs then VNone else v
  end.
Definition thin_cellD (gs : list guard) (ndxs : list nat) (c : cell) : cell :=
  set_vals c (map_vals (thin_valueD gs ndxs) (cvals c)).
Definition thinD (d : thin_desc) (t : triangle) (k : nat) (ndxs : list nat) : result triangle :=
  bind (num_samples t)
       (fun n => run_branches (td_branches d) n k t (map (thin_cellD (td_guards d) ndxs) t)).

(* ------------------------------------------------------------------ the side condition *)
Definition err_is_value (e : err) : bool := match e with ValueError => true | _ => false end.
(* refuses exactly when n < k, with ValueError *)
Definition refuse_ok (b : branch) : bool :=
  match b with
  | BrRefuse CLt ONum OArg e | BrRefuse CGt OArg ONum e => err_is_value e
  | _ => false
  end.
Definition ident_ok (b : branch) : bool :=
  match b with BrIdent CEq ONum OArg | BrIdent CEq OArg ONum => true | _ => false end.
Definition branches_ok (brs : list branch) : bool :=
  match brs with
  | [r; i; BrDraw] => (refuse_ok r && ident_ok i) || (ident_ok r && refuse_ok i)
  | _ => false
  end.
Definition guard_tail_ok (g : guard) : bool :=
  match g with GNdimPos => true | GLenGt 1 => true | _ => false end.
Definition is_len1 (g : guard) : bool := match g with GLenGt 1 => true | _ => false end.
(* isinstance first, then v.ndim > 0 (len() of a 0-d array raises), then len(v) > 1 somewhere after it *)
Definition guards_ok (gs : list guard) : bool :=
  match gs with
  | GIsArray :: GNdimPos :: r => forallb guard_tail_ok r && existsb is_len1 r
  | _ => false
  end.
Definition operand_eqb (a b : operand) : bool :=
  match a, b with ONum, ONum | OArg, OArg => true | _, _ => false end.

Definition thin_shape_ref : list (string * string) := [
  ("thin.draw"%string,
   "l0 = np.random.default_rng(p2) ; l1 = l0.choice(POP, SIZE, REPLACE) ; return Triangle([_thin_cell(l2, l1) for l2 in p0])"%string);
  ("_thin_cell"%string,
   "return p0.replace(values={l0: l1[p1] if GUARDS else l1 for l0, l1 in p0.values.items()})"%string)].

Definition thin_spec_ok (d : thin_desc) : bool :=
  branches_ok (td_branches d) && guards_ok (td_guards d)
  && operand_eqb (td_pop d) ONum && operand_eqb (td_size d) OArg && negb (td_replace d)
  && (td_draws d =? 1) && negb (td_draw_in_loop d) && td_all_values d
  && list_eqb (pair_eqb String.eqb String.eqb) (td_shape d) thin_shape_ref.

(* ------------------------------------------------------------------ method_moments._sort_x_on_y_rank *)
(* which parameter is sorted, which parameter's argsort gives the ranks, whether the sort is reversed; the rest
   (rank_y = inverse permutation of y.argsort(), result = np.array(sorted(x))[rank_y]) is a recognised form.
   rerankD takes an argsort and the vector of BOTH parameters and uses what the description says. *)
Record rank_desc := mkRankDesc {
  rk_sorted_arg : nat;
  rk_rank_arg : nat;
  rk_reverse : bool;
  rk_shape : string
}.
Definition rerankD (d : rank_desc) (p0 p1 : list nat) (a0 a1 : list Z) : list Z :=
  let srt := ZSort.sort (if rk_sorted_arg d =? 0 then a0 else a1) in
  place (if rk_rank_arg d =? 0 then p0 else p1) (if rk_reverse d then rev srt else srt).
Definition rank_shape_ref : string :=
  "l0 = RANK_ARG.argsort() ; l1 = np.empty_like(l0) ; l1[l0] = np.arange(len(RANK_ARG)) ; return np.array(sorted(SORTED_ARG))[l1]"%string.
Definition rank_spec_ok (d : rank_desc) : bool :=
  (rk_sorted_arg d =? 0) && (rk_rank_arg d =? 1) && negb (rk_reverse d) && String.eqb (rk_shape d) rank_shape_ref.
