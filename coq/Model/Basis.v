(** C04 -- cumulative <-> incremental conversion.  Executable model of
      bermuda/utils/basis.py : to_incremental, to_cumulative, _values_diff, _values_add
      bermuda/base/incremental.py, bermuda/base/cell.py : the constructor validation that the
      conversion re-runs for every cell it builds.
    Definitions only (proofs: Proofs/Basis*.v, theorems: Props/C04.v).

    What is modelled, and how (see also the header of harness/c04.py):
    - A triangle is the list `Triangle.cells` (already sorted by the Triangle constructor).
    - `tlz.groupby(lambda ob: (ob.period, ob.metadata), cells)`  = [group_cells]: groups in
      first-occurrence order, members in input order (dict of lists, `append`).  Keys are compared
      with the strict structural equality of Base.v ([same_key]); Python uses Metadata.__eq__/
      __hash__ -- on the generated inputs (metadata that are `==` are printed identically; the harness
      asserts it) both agree.
    - `tlz.valmap(sorted, groups)` = [sort_row]: stable insertion sort by Cell.__lt__ /
      IncrementalCell.__lt__ *restricted to one group*, where metadata and period are equal, i.e. by
      evaluation_date (then prev_evaluation_date for incremental cells).
    - the loops of to_incremental / to_cumulative = [row_to_incremental] / [row_to_cumulative], cell
      by cell in the order the code evaluates (values first, then the constructor's validation), the
      first exception wins; rows are processed in group order, the first failing row wins.
    - `Triangle(result_cells)`: the final sort is NOT modelled (the metadata order belongs to C01).
      The model returns the rows concatenated in group order.  For an input that is sorted by
      (metadata, period_start, period_end, evaluation_date[, prev]) -- every Triangle is -- that
      list is already sorted, so it is what the constructor keeps; the correspondence check compares
      it position by position with the implementation's `result.cells` on every run.
    - cell values: dict key *order* of the result is not modelled: `_values_diff/_values_add`
      iterate over a Python `set` of keys (hash order).  Convention: every value dict is represented
      by its association list sorted by key (the harness prints inputs and outputs that way; dict
      equality and the property are insensitive to key order).  The model iterates over the keys of
      the first argument, which keeps a sorted list sorted.
    - number arithmetic: `num` (n/1024, exact); NumPy semantics of `a - b`, `a + b` for
      scalar/array combinations incl. broadcasting of length-1 arrays ([val_op]); `None` operands
      raise TypeError, non-broadcastable lengths raise ValueError -- as CPython/NumPy 1.26 do.
    - the four decision-carrying constants (carried field of _values_diff and of _values_add, the
      two day offsets of the chain ends) are a parameter [bdesc]; [std_desc] is what C04 states, and
      translate/t_basis.py re-extracts it from the source on every run (GenProps/C04_gen.v). *)
From Coq Require Import ZArith List Bool.
From Bermuda Require Import Model.Base.
Import ListNotations.
Local Open Scope Z_scope.

(* ------------------------------------------------------------------ description from the AST *)
Record bdesc := mkBdesc {
  carry_d : str;        (* _values_diff: the key whose value is copied instead of subtracted *)
  carry_a : str;        (* _values_add : the key whose value is copied instead of added *)
  off_first : Z;        (* to_incremental: prev of a row's first increment = period_start + off_first *)
  off_check : Z }.      (* to_cumulative : requires prev(first) + off_check = period_start *)

Definition EP : str := [101;97;114;110;101;100;95;112;114;101;109;105;117;109]. (* "earned_premium" *)
Definition std_desc : bdesc := mkBdesc EP EP (-1) 1.
Definition spec_ok (d : bdesc) : bool :=
  str_eqb (carry_d d) EP && str_eqb (carry_a d) EP && (off_first d =? -1) && (off_check d =? 1).

(* ------------------------------------------------------------------ value arithmetic *)
Fixpoint zmap2 (f : Z -> Z -> Z) (xs ys : list Z) : list Z :=
  match xs, ys with
  | x :: xr, y :: yr => f x y :: zmap2 f xr yr
  | _, _ => []
  end.

(* NumPy broadcasting of two 1-d arrays *)
Definition arr_op (f : Z -> Z -> Z) (xs ys : list Z) : result (list Z) :=
  if Nat.eqb (length xs) (length ys) then Ok (zmap2 f xs ys)
  else match xs, ys with
       | [x], _ => Ok (map (fun y => f x y) ys)
       | _, [y] => Ok (map (fun x => f x y) xs)
       | _, _ => Err ValueError
       end.

(* a `op` b for op in {+,-}; f is the operation on the scaled integers *)
Definition val_op (f : Z -> Z -> Z) (a b : value) : result value :=
  match a, b with
  | VNum x, VNum y => Ok (VNum (Num (num_isf x || num_isf y) (f (num_n x) (num_n y))))
  | VNum x, VArr g ys => Ok (VArr (num_isf x || g) (map (fun y => f (num_n x) y) ys))
  | VArr g xs, VNum y => Ok (VArr (g || num_isf y) (map (fun x => f x (num_n y)) xs))
  | VArr g xs, VArr h ys => bind (arr_op f xs ys) (fun zs => Ok (VArr (g || h) zs))
  | _, _ => Err TypeError
  end.
Definition val_sub := val_op Z.sub.
Definition val_add := val_op Z.add.

Fixpoint mapM {A B} (f : A -> result B) (l : list A) : result (list B) :=
  match l with
  | [] => Ok []
  | a :: r => bind (f a) (fun b => bind (mapM f r) (fun bs => Ok (b :: bs)))
  end.

Definition subset_keys (a b : list (str * value)) : bool :=
  forallb (fun k => has_key k b) (keys a).

(* shared shape of _values_diff / _values_add:
     if set(first) ^ set(second): raise TriangleError
     {k: second[k] if k == carry else op(first[k], second[k]) for k in first} *)
Definition values_combine (carry : str) (op : value -> value -> result value)
           (first second : list (str * value)) : result (list (str * value)) :=
  if subset_keys first second && subset_keys second first then
    mapM (fun kv =>
            match assoc (fst kv) second with
            | None => Err KeyError
            | Some s => if str_eqb (fst kv) carry then Ok (fst kv, s)
                        else bind (op (snd kv) s) (fun v => Ok (fst kv, v))
            end) first
  else Err TriangleError.

(* ------------------------------------------------------------------ cells *)
Definition DATE_MAX : Z := 3652059.        (* datetime.date.max.toordinal() *)
(* Cell.__init__ date validation *)
Definition cell_dates_ok (s e v : date) : bool :=
  (s <=? e) && (s <=? v) && negb (v =? DATE_MAX).
Definition mk_cum (s e v : date) (m : meta) (vs : list (str * value)) : result cell :=
  if cell_dates_ok s e v then Ok (mkCell KCum s e v None m vs) else Err ValueError.
(* IncrementalCell.__init__: Cell validation, then evaluation_date <= prev -> ValueError *)
Definition mk_inc (s e p v : date) (m : meta) (vs : list (str * value)) : result cell :=
  if cell_dates_ok s e v && (p <? v) then Ok (mkCell KInc s e v (Some p) m vs) else Err ValueError.

Definition retag_cum (c : cell) : cell :=
  mkCell KCum (ps c) (pe c) (ev c) None (cmeta c) (cvals c).
Definition retag_inc (p : date) (c : cell) : cell :=
  mkCell KInc (ps c) (pe c) (ev c) (Some p) (cmeta c) (cvals c).

(* ------------------------------------------------------------------ grouping and row order *)
Definition same_key (a b : cell) : bool :=
  (ps a =? ps b) && (pe a =? pe b) && meta_seqb (cmeta a) (cmeta b).

(* d[key(c)].append(c) on an insertion-ordered dict of lists *)
Fixpoint group_insert (c : cell) (gs : list (list cell)) : list (list cell) :=
  match gs with
  | [] => [[c]]
  | g :: r => match g with
              | [] => g :: group_insert c r
              | h :: _ => if same_key h c then (g ++ [c]) :: r else g :: group_insert c r
              end
  end.
Definition group_cells (cells : list cell) : list (list cell) :=
  fold_left (fun gs c => group_insert c gs) cells [].

Definition prevz (c : cell) : Z := match prev c with Some p => p | None => 0 end.
(* a < b inside one group: (evaluation_date[, prev_evaluation_date]) *)
Definition row_ltb (a b : cell) : bool :=
  (ev a <? ev b) || ((ev a =? ev b) && is_inc a && (prevz a <? prevz b)).
Fixpoint row_insert (x : cell) (l : list cell) : list cell :=
  match l with
  | [] => [x]
  | y :: t => if row_ltb y x then y :: row_insert x t else x :: l
  end.
Definition sort_row (l : list cell) : list cell := fold_right row_insert [] l.

(* Triangle.is_incremental *)
Definition is_incremental (cells : list cell) : bool :=
  match cells with c :: _ => is_inc c | [] => false end.

Section WithDesc.
Variable d : bdesc.

Definition values_diff (prev_values next_values : list (str * value)) :=
  values_combine (carry_d d) (fun p n => val_sub n p) prev_values next_values.
Definition values_add (curr_values next_values : list (str * value)) :=
  values_combine (carry_a d) (fun c n => val_add c n) curr_values next_values.

(* `for prev_cell, next_cell in zip(cells[:-1], cells[1:])` of to_incremental; the period and
   metadata are those of the group key *)
Fixpoint inc_tail (s e : date) (m : meta) (pev : date) (pvals : list (str * value))
         (rest : list cell) : result (list cell) :=
  match rest with
  | [] => Ok []
  | n :: r =>
      bind (values_diff pvals (cvals n)) (fun vs =>
      bind (mk_inc s e pev (ev n) m vs) (fun c =>
      bind (inc_tail s e m (ev n) (cvals n) r) (fun cs => Ok (c :: cs))))
  end.
Definition row_to_incremental (row : list cell) : result (list cell) :=
  match row with
  | [] => Ok []                                   (* groupby never yields an empty group *)
  | c0 :: rest =>
      bind (mk_inc (ps c0) (pe c0) (ps c0 + off_first d) (ev c0) (cmeta c0) (cvals c0)) (fun c =>
      bind (inc_tail (ps c0) (pe c0) (cmeta c0) (ev c0) (cvals c0) rest) (fun cs => Ok (c :: cs)))
  end.

(* `for cell in cells[1:]` of to_cumulative *)
Fixpoint cum_tail (s e : date) (m : meta) (cur_ev : date) (cur_vals : list (str * value))
         (rest : list cell) : result (list cell) :=
  match rest with
  | [] => Ok []
  | n :: r =>
      match prev n with
      | None => Err OtherError                    (* AttributeError; excluded by the Triangle invariant *)
      | Some p =>
          if negb (p =? cur_ev) then Err TriangleError else
          bind (values_add cur_vals (cvals n)) (fun vs =>
          bind (mk_cum s e (ev n) m vs) (fun c =>
          bind (cum_tail s e m (ev n) vs r) (fun cs => Ok (c :: cs))))
      end
  end.
Definition row_to_cumulative (row : list cell) : result (list cell) :=
  match row with
  | [] => Ok []
  | c0 :: rest =>
      match prev c0 with
      | None => Err OtherError
      | Some p0 =>
          if negb (p0 + off_check d =? ps c0) then Err TriangleError else
          bind (mk_cum (ps c0) (pe c0) (ev c0) (cmeta c0) (cvals c0)) (fun c =>
          bind (cum_tail (ps c0) (pe c0) (cmeta c0) (ev c0) (cvals c0) rest) (fun cs => Ok (c :: cs)))
      end
  end.

Definition rows_of (cells : list cell) : list (list cell) := map sort_row (group_cells cells).

Definition to_incremental (cells : list cell) : result (list cell) :=
  if is_incremental cells then Ok cells
  else bind (mapM row_to_incremental (rows_of cells)) (fun rows => Ok (concat rows)).
Definition to_cumulative (cells : list cell) : result (list cell) :=
  if negb (is_incremental cells) then Ok cells
  else bind (mapM row_to_cumulative (rows_of cells)) (fun rows => Ok (concat rows)).

(* ------------------------------------------------------------------ hypotheses, as Booleans *)
(* prev (cumulative so far / previous cumulative) and next value of one field.
   mono = false: the difference/sum is defined and keeps the shape (None-free, same scalar/array
   class, equal lengths);  mono = true: additionally "float stays float" (int -> float allowed),
   which is what makes  a + (b - a)  and  (a + b) - a  reproduce b with its Python type. *)
Definition val_compatb (mono : bool) (a b : value) : bool :=
  match a, b with
  | VNum x, VNum y => implb mono (implb (num_isf x) (num_isf y))
  | VArr f xs, VArr g ys => implb mono (implb f g) && Nat.eqb (length xs) (length ys)
  | _, _ => false
  end.
Fixpoint vals_compatb (mono : bool) (carry : str) (p n : list (str * value)) : bool :=
  match p, n with
  | [], [] => true
  | (k, a) :: p', (k', b) :: n' =>
      str_eqb k k' && (str_eqb k carry || val_compatb mono a b) && vals_compatb mono carry p' n'
  | _, _ => false
  end.
Fixpoint nodupb (l : list str) : bool :=
  match l with
  | [] => true
  | k :: r => negb (existsb (str_eqb k) r) && nodupb r
  end.

(* cells of one row after the first: same (period, metadata), valid dates, evaluation dates
   strictly increasing, one field list, values compatible link by link *)
Fixpoint cum_tail_okb (mono : bool) (c0 p : cell) (rest : list cell) : bool :=
  match rest with
  | [] => true
  | n :: r =>
      negb (is_inc n) && same_key c0 n && cell_dates_ok (ps n) (pe n) (ev n) && (ev p <? ev n)
      && vals_compatb mono (carry_d d) (cvals p) (cvals n) && cum_tail_okb mono c0 n r
  end.
Definition cum_row_okb (mono : bool) (row : list cell) : bool :=
  match row with
  | [] => false
  | c0 :: rest =>
      negb (is_inc c0) && cell_dates_ok (ps c0) (pe c0) (ev c0) && nodupb (keys (cvals c0))
      && cum_tail_okb mono c0 c0 rest
  end.

(* complete incremental row: chain starts the day before period_start and is contiguous *)
Fixpoint inc_tail_okb (c0 p : cell) (rest : list cell) : bool :=
  match rest with
  | [] => true
  | n :: r =>
      is_inc n && same_key c0 n && cell_dates_ok (ps n) (pe n) (ev n)
      && opt_eqb Z.eqb (prev n) (Some (ev p)) && (ev p <? ev n)
      && vals_compatb true (carry_a d) (cvals p) (cvals n) && inc_tail_okb c0 n r
  end.
Definition inc_row_okb (row : list cell) : bool :=
  match row with
  | [] => false
  | c0 :: rest =>
      is_inc c0 && cell_dates_ok (ps c0) (pe c0) (ev c0) && nodupb (keys (cvals c0))
      && opt_eqb Z.eqb (prev c0) (Some (ps c0 - 1)) && inc_tail_okb c0 c0 rest
  end.

(* a triangle presented as its rows: non-empty rows, one key per row, keys pairwise distinct *)
Definition row_key_okb (row : list cell) : bool :=
  match row with [] => false | c0 :: rest => forallb (same_key c0) rest end.
Fixpoint heads_distinctb (rows : list (list cell)) : bool :=
  match rows with
  | [] => true
  | r :: rs =>
      match r with
      | [] => false
      | h :: _ => forallb (fun r' => match r' with [] => false | h' :: _ => negb (same_key h' h) end) rs
      end && heads_distinctb rs
  end.
Definition rows_okb (rows : list (list cell)) : bool :=
  forallb row_key_okb rows && heads_distinctb rows.

(* ------------------------------------------------------------------ executable specification *)
(* structure of the increments of one row, judged on ANY candidate output `out`:
   one increment per cell; prev = preceding evaluation date (period_start - 1 for the first);
   values = consecutive differences except earned_premium (copied); kind/period/metadata. *)
Definition inc_value_okb (pvals : option (list (str * value))) (nvals : list (str * value))
           (kv : str * value) : bool :=
  match assoc (fst kv) nvals with
  | None => false
  | Some nv =>
      match pvals with
      | None => value_seqb (snd kv) nv
      | Some pv =>
          if str_eqb (fst kv) EP then value_seqb (snd kv) nv
          else match assoc (fst kv) pv with
               | None => false
               | Some a => match val_sub nv a with Ok v => value_seqb (snd kv) v | Err _ => false end
               end
      end
  end.
Definition inc_cell_okb (pdate : date) (pvals : option (list (str * value))) (n o : cell) : bool :=
  kind_eqb (ckind o) KInc && (ps o =? ps n) && (pe o =? pe n) && (ev o =? ev n)
  && meta_seqb (cmeta o) (cmeta n) && opt_eqb Z.eqb (prev o) (Some pdate)
  && list_eqb str_eqb (keys (cvals o)) (keys (cvals n))
  && forallb (inc_value_okb pvals (cvals n)) (cvals o).
Fixpoint inc_tail_structb (p : cell) (rest out : list cell) : bool :=
  match rest, out with
  | [], [] => true
  | n :: r, o :: os => inc_cell_okb (ev p) (Some (cvals p)) n o && inc_tail_structb n r os
  | _, _ => false
  end.
Definition inc_row_structb (row out : list cell) : bool :=
  match row, out with
  | [], [] => true
  | c0 :: rest, o :: os => inc_cell_okb (ps c0 - 1) None c0 o && inc_tail_structb c0 rest os
  | _, _ => false
  end.
Fixpoint rows_structb (rows outs : list (list cell)) : bool :=
  match rows, outs with
  | [], [] => true
  | r :: rs, o :: os => inc_row_structb r o && rows_structb rs os
  | _, _ => false
  end.

End WithDesc.

(* ------------------------------------------------------------------ verdicts used by the harness
   (evaluated by coqc on the IMPLEMENTATION's outputs) *)
Definition cells_eqb := list_eqb cell_seqb.
Definition res_eqb := result_eqb cells_eqb.
Definition keyset_eqb (a b : list (str * value)) : bool := subset_keys a b && subset_keys b a.

(* cumulative case: t, inc = impl to_incremental t, back = impl to_cumulative inc.
   If every row of t satisfies the hypotheses of the theorems, inc must have the proved structure
   and back must be retag t.  If the first row that does not is one whose first defect is a pair of
   consecutive cells with different key sets, the only acceptable outcome is TriangleError. *)
Definition cum_hyp (mono : bool) (t : list cell) : bool :=
  let rows := rows_of t in
  negb (is_incremental t) && rows_okb rows && forallb (cum_row_okb std_desc mono) rows
  && cells_eqb (concat rows) t.
Fixpoint cum_keys_brokenb (c0 p : cell) (rest : list cell) : bool :=
  match rest with
  | [] => false
  | n :: r =>
      if negb (keyset_eqb (cvals p) (cvals n)) then true
      else if cum_tail_okb std_desc false c0 p [n] then cum_keys_brokenb c0 n r else false
  end.
Fixpoint first_bad_cum_is_keys (rows : list (list cell)) : bool :=
  match rows with
  | [] => false
  | r :: rs =>
      if cum_row_okb std_desc false r then first_bad_cum_is_keys rs
      else match r with
           | [] => false
           | c0 :: rest => negb (is_inc c0) && cell_dates_ok (ps c0) (pe c0) (ev c0)
                           && nodupb (keys (cvals c0)) && cum_keys_brokenb c0 c0 rest
           end
  end.
Definition spec_cum (t : list cell) (inc back : result (list cell)) : bool :=
  implb (cum_hyp false t)
        (match inc with
         | Ok i => (match t with [] => true | _ :: _ => is_incremental i end)
                   && rows_structb (rows_of t) (rows_of i) && cells_eqb (concat (rows_of i)) i
         | Err _ => false
         end)
  && implb (cum_hyp true t) (res_eqb back (Ok (map retag_cum t)))
  && implb (negb (is_incremental t) && first_bad_cum_is_keys (rows_of t))
           (res_eqb inc (Err TriangleError)).

(* incremental case: x, cum = impl to_cumulative x, back = impl to_incremental cum.
   Complete rows: cum holds cumulative cells at the same coordinates of which x are the increments,
   and back = x.  If the first row that is not complete has a broken chain (first prev, a removed or
   shifted link) or inconsistent key sets as its first defect, the only acceptable outcome is
   TriangleError. *)
Definition inc_hyp (x : list cell) : bool :=
  let rows := rows_of x in
  is_incremental x && rows_okb rows && forallb (inc_row_okb std_desc) rows
  && cells_eqb (concat rows) x.
Fixpoint chain_brokenb (c0 p : cell) (rest : list cell) : bool :=
  match rest with
  | [] => false
  | n :: r =>
      match prev n with
      | None => false
      | Some pn =>
          if negb (pn =? ev p) then true
          else if negb (keyset_eqb (cvals p) (cvals n)) then true
          else if inc_tail_okb std_desc c0 p [n] then chain_brokenb c0 n r else false
      end
  end.
Definition row_brokenb (row : list cell) : bool :=
  match row with
  | [] => false
  | c0 :: rest =>
      match prev c0 with
      | None => false
      | Some p0 =>
          if negb (p0 + 1 =? ps c0) then true
          else is_inc c0 && cell_dates_ok (ps c0) (pe c0) (ev c0) && nodupb (keys (cvals c0))
               && chain_brokenb c0 c0 rest
      end
  end.
Fixpoint first_bad_is_broken (rows : list (list cell)) : bool :=
  match rows with
  | [] => false
  | r :: rs => if inc_row_okb std_desc r then first_bad_is_broken rs else row_brokenb r
  end.
Definition spec_inc (x : list cell) (cum back : result (list cell)) : bool :=
  implb (inc_hyp x)
        (match cum with
         | Ok c => negb (is_incremental c) && forallb (fun y => kind_eqb (ckind y) KCum) c
                   && rows_structb (rows_of c) (rows_of x) && cells_eqb (concat (rows_of c)) c
                   && res_eqb back (Ok x)
         | Err _ => false
         end)
  && implb (is_incremental x && first_bad_is_broken (rows_of x))
           (res_eqb cum (Err TriangleError)).
