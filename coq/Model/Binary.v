(* Executable model of bermuda's binary codec (bermuda/io/binary.py, binary_output.py,
   binary_input.py), wire level.  One function per _write_* / _read_* function.

   Python stream semantics that are modelled literally
     - stream.read(n) returns fewer bytes at EOF ([read_upto]); struct.unpack on a short read
       raises struct.error ([read_exact]/[fixedp]);
     - stream.peek(1)[:1] in _read_dict (first byte of the rest, b"" at EOF);
     - the marker loop of _read_triangle stops on an absent or unknown marker byte;
     - _read_generic_value falls through to None on an absent/unknown type tag;
     - _read_string: length -1 is None, a short read is decoded as it is (UTF-8 validity only);
     - _read_float: NaN is None;  datetime.date(...) validates; Cell/IncrementalCell validate;
     - np.frombuffer(...).reshape(shape) fails unless exactly 8*prod(shape) bytes were read.
   Strings are opaque UTF-8 byte lists, floats opaque 8-byte strings, array payloads raw bytes.
   No proofs in this file. *)
From Coq Require Import ZArith List Bool.
From Bermuda Require Import Lib.Bytes Lib.BinParse Lib.Utf8 Lib.StrSort.
Import ListNotations.
Open Scope Z_scope.

(* ------------------------------------------------------------------ constants (binary.py) *)
Definition MAGIC : bytes := [175; 54; 1; 0].          (* struct.pack("<L", 0x0136AF) *)
Definition VERSION : Z := 1.
Definition T_STRING : Z := 128.
Definition T_INT : Z := 129.
Definition T_FLOAT : Z := 130.
Definition T_BOOL : Z := 131.
Definition T_NONE : Z := 132.
Definition T_DATE : Z := 133.
Definition T_INT_ARRAY : Z := 134.
Definition T_FLOAT_ARRAY : Z := 135.
Definition DICT_END : Z := 136.
Definition R_METADATA : Z := 16.
Definition R_CELL : Z := 17.
Definition R_CUM : Z := 18.
Definition R_INC : Z := 19.

(* ------------------------------------------------------------------ wire-level data *)
Definition date3 := (Z * Z * Z)%type.                 (* (year, month, day) as '<hBB' carries them *)
Inductive dtype := DInt | DFloat.
Inductive gval :=
| GStr (s : str)
| GBool (b : bool)
| GInt (z : Z)
| GFloat (f : bytes)                                   (* 8 opaque bytes *)
| GDate (d : date3)
| GNone
| GArr (dt : dtype) (dims : list Z) (payload : bytes).
Definition dict := list (str * gval).                  (* insertion ordered, keys unique *)

Record meta := mkMeta {
  m_risk_basis : option str;
  m_country : option str;
  m_currency : option str;
  m_reinsurance_basis : option str;
  m_loss_definition : option str;
  m_limit : option bytes;                              (* per_occurrence_limit: None or 8 bytes *)
  m_details : dict;
  m_loss_details : dict }.

Inductive ckind := KCell | KCum | KInc.
Record cell := mkCell {
  c_kind : ckind;
  c_pstart : date3;
  c_pend : date3;
  c_eval : date3;
  c_values : dict;
  c_prev : option date3;                               (* Some iff KInc *)
  c_meta : meta }.
Definition triangle := list cell.                      (* cells in stored (sorted) order *)
Definition cells (t : triangle) : list cell := t.

(* ------------------------------------------------------------------ dates *)
Definition is_leap (y : Z) : bool := ((y mod 4 =? 0) && negb (y mod 100 =? 0)) || (y mod 400 =? 0).
Definition days_in_month (y m : Z) : Z :=
  if m =? 2 then (if is_leap y then 29 else 28)
  else if (m =? 4) || (m =? 6) || (m =? 9) || (m =? 11) then 30 else 31.
Definition date_okb (d : date3) : bool :=
  let '(y, m, dd) := d in
  (1 <=? y) && (y <=? 9999) && (1 <=? m) && (m <=? 12) && (1 <=? dd) && (dd <=? days_in_month y m).
Definition date_ltb (a b : date3) : bool :=
  let '(y1, m1, d1) := a in let '(y2, m2, d2) := b in
  (y1 <? y2) || ((y1 =? y2) && ((m1 <? m2) || ((m1 =? m2) && (d1 <? d2)))).
Definition date_eqb (a b : date3) : bool :=
  let '(y1, m1, d1) := a in let '(y2, m2, d2) := b in (y1 =? y2) && (m1 =? m2) && (d1 =? d2).
Definition date_leb (a b : date3) : bool := date_ltb a b || date_eqb a b.
Definition DATE_MAX : date3 := (9999, 12, 31).

(* ------------------------------------------------------------------ structural equality *)
Fixpoint zlist_eqb (a b : list Z) : bool :=
  match a, b with
  | [], [] => true
  | x :: a', y :: b' => (x =? y) && zlist_eqb a' b'
  | _, _ => false
  end.
Definition ostr_eqb (a b : option str) : bool :=
  match a, b with Some x, Some y => zlist_eqb x y | None, None => true | _, _ => false end.
Definition dtype_eqb (a b : dtype) : bool :=
  match a, b with DInt, DInt | DFloat, DFloat => true | _, _ => false end.
Definition gval_eqb (a b : gval) : bool :=
  match a, b with
  | GStr x, GStr y => zlist_eqb x y
  | GBool x, GBool y => Bool.eqb x y
  | GInt x, GInt y => x =? y
  | GFloat x, GFloat y => zlist_eqb x y
  | GDate x, GDate y => date_eqb x y
  | GNone, GNone => true
  | GArr t1 d1 p1, GArr t2 d2 p2 => dtype_eqb t1 t2 && zlist_eqb d1 d2 && zlist_eqb p1 p2
  | _, _ => false
  end.
Fixpoint dict_eqb (a b : dict) : bool :=
  match a, b with
  | [], [] => true
  | (k1, v1) :: a', (k2, v2) :: b' => zlist_eqb k1 k2 && gval_eqb v1 v2 && dict_eqb a' b'
  | _, _ => false
  end.
(* the writer's `prev_metadata != cell.metadata`, taken structurally (see Props/C05.v for the
   class of inputs on which Python's == is coarser) *)
Definition meta_eqb (a b : meta) : bool :=
  ostr_eqb (m_risk_basis a) (m_risk_basis b) && ostr_eqb (m_country a) (m_country b)
  && ostr_eqb (m_currency a) (m_currency b)
  && ostr_eqb (m_reinsurance_basis a) (m_reinsurance_basis b)
  && ostr_eqb (m_loss_definition a) (m_loss_definition b)
  && ostr_eqb (m_limit a) (m_limit b)
  && dict_eqb (m_details a) (m_details b) && dict_eqb (m_loss_details a) (m_loss_details b).
Definition ometa_eqb (a : option meta) (b : meta) : bool :=
  match a with Some x => meta_eqb x b | None => false end.
Definition ckind_eqb (a b : ckind) : bool :=
  match a, b with KCell, KCell | KCum, KCum | KInc, KInc => true | _, _ => false end.
Definition odate_eqb (a b : option date3) : bool :=
  match a, b with Some x, Some y => date_eqb x y | None, None => true | _, _ => false end.
Definition cell_eqb (a b : cell) : bool :=
  ckind_eqb (c_kind a) (c_kind b) && date_eqb (c_pstart a) (c_pstart b)
  && date_eqb (c_pend a) (c_pend b) && date_eqb (c_eval a) (c_eval b)
  && dict_eqb (c_values a) (c_values b) && odate_eqb (c_prev a) (c_prev b)
  && meta_eqb (c_meta a) (c_meta b).
Fixpoint cells_eqb (a b : list cell) : bool :=
  match a, b with
  | [], [] => true
  | x :: a', y :: b' => cell_eqb x y && cells_eqb a' b'
  | _, _ => false
  end.

(* ================================================================== writer (binary_output.py) *)
Definition NAN_BYTES : bytes := [0; 0; 0; 0; 0; 0; 248; 127].     (* struct.pack("<d", math.nan) *)

(* _write_string *)
Definition enc_str (o : option str) : bytes :=
  match o with
  | None => le_enc 2 (of_s16 (-1))                      (* struct.pack("<h", -1) *)
  | Some s => le_enc 2 (Z.of_nat (length s)) ++ s       (* struct.pack("<H", len) + bytes *)
  end.
(* _write_date : struct.pack("<hBB", y, m, d) *)
Definition enc_date (d : date3) : bytes := let '(y, m, dd) := d in le_enc 2 (of_s16 y) ++ [m; dd].
(* _write_float *)
Definition enc_limit (o : option bytes) : bytes := match o with None => NAN_BYTES | Some f => f end.

Definition prodZ (l : list Z) : Z := fold_right Z.mul 1 l.
Fixpoint enc_dims (dims : list Z) : bytes :=
  match dims with [] => [] | d :: r => le_enc 4 d ++ enc_dims r end.
Definition arr_tag (dt : dtype) : Z := match dt with DFloat => T_FLOAT_ARRAY | DInt => T_INT_ARRAY end.
(* _write_array (after the tag) *)
Definition enc_arr (dims : list Z) (payload : bytes) : bytes :=
  le_enc 1 (Z.of_nat (length dims)) ++ enc_dims dims ++ payload.

(* _write_generic_value *)
Definition enc_gval (v : gval) : bytes :=
  match v with
  | GStr s => T_STRING :: enc_str (Some s)
  | GBool b => T_BOOL :: le_enc 1 (if b then 1 else 0)
  | GInt z => T_INT :: le_enc 8 (of_s64 z)
  | GFloat f => T_FLOAT :: f
  | GArr dt dims pl => arr_tag dt :: enc_arr dims pl
  | GDate d => T_DATE :: enc_date d
  | GNone => [T_NONE]
  end.

(* _write_dict *)
Fixpoint enc_dict (pool : list str) (d : dict) : bytes :=
  match d with
  | [] => [DICT_END]
  | (k, v) :: r => le_enc 2 (index_of k pool) ++ enc_gval v ++ enc_dict pool r
  end.

(* _write_metadata (after the marker byte) *)
Definition enc_meta (pool : list str) (m : meta) : bytes :=
  enc_str (m_risk_basis m) ++ enc_str (m_country m) ++ enc_str (m_currency m)
  ++ enc_str (m_reinsurance_basis m) ++ enc_str (m_loss_definition m)
  ++ enc_limit (m_limit m) ++ enc_dict pool (m_details m) ++ enc_dict pool (m_loss_details m).

Definition cell_tag (k : ckind) : Z := match k with KCell => R_CELL | KCum => R_CUM | KInc => R_INC end.
(* _write_cell (after the marker byte) *)
Definition enc_cell (pool : list str) (c : cell) : bytes :=
  enc_date (c_pstart c) ++ enc_date (c_pend c) ++ enc_date (c_eval c)
  ++ enc_dict pool (c_values c)
  ++ match c_kind c, c_prev c with KInc, Some p => enc_date p | _, _ => [] end.

(* _write_string_pool : sorted set of all field names and detail / loss_detail keys *)
Definition dict_keys (d : dict) : list str := map fst d.
Definition meta_keys (m : meta) : list str := dict_keys (m_details m) ++ dict_keys (m_loss_details m).
Definition all_keys (t : triangle) : list str :=
  flat_map (fun c => dict_keys (c_values c)) t ++ flat_map (fun c => meta_keys (c_meta c)) t.
Definition pool_of (t : triangle) : list str := sort_dedup (all_keys t).
Fixpoint enc_strs (l : list str) : bytes :=
  match l with [] => [] | s :: r => enc_str (Some s) ++ enc_strs r end.
Definition enc_pool (pool : list str) : bytes :=
  le_enc 2 (of_s16 (Z.of_nat (length pool))) ++ enc_strs pool.      (* struct.pack("<h", len) *)

(* the cell loop of _write_triangle *)
Fixpoint enc_body (pool : list str) (prev : option meta) (t : list cell) : bytes :=
  match t with
  | [] => []
  | c :: cs =>
    (if ometa_eqb prev (c_meta c) then [] else R_METADATA :: enc_meta pool (c_meta c))
    ++ (cell_tag (c_kind c) :: enc_cell pool c) ++ enc_body pool (Some (c_meta c)) cs
  end.

(* _write_triangle *)
Definition ser (t : triangle) : bytes :=
  let pool := pool_of t in MAGIC ++ [VERSION] ++ enc_pool pool ++ enc_body pool None t.

(* ------------------------------------------------------------------ the writer, parametrised by
   the metadata test.  _write_triangle skips the metadata record when
   `prev_metadata != cell.metadata` is False, where prev_metadata is the PREVIOUS CELL's metadata
   and `!=` is Python's (dataclass) equality.  [ser] above instantiates the test with structural
   equality; [ser_py] below with a wire-level model of Python's ==. *)
Definition same_meta (meq : meta -> meta -> bool) (prev : option meta) (m : meta) : bool :=
  match prev with Some p => meq p m | None => false end.
Fixpoint enc_body_with (meq : meta -> meta -> bool) (pool : list str) (prev : option meta)
         (t : list cell) : bytes :=
  match t with
  | [] => []
  | c :: cs =>
    (if same_meta meq prev (c_meta c) then [] else R_METADATA :: enc_meta pool (c_meta c))
    ++ (cell_tag (c_kind c) :: enc_cell pool c) ++ enc_body_with meq pool (Some (c_meta c)) cs
  end.
Definition ser_with (meq : meta -> meta -> bool) (t : triangle) : bytes :=
  let pool := pool_of t in MAGIC ++ [VERSION] ++ enc_pool pool ++ enc_body_with meq pool None t.

(* what a reader gets back: a cell whose metadata record was skipped carries the metadata of the
   last record written (the first representation of its run of ==-equal metadata).
   prev = writer state (previous cell's metadata), cur = reader state (last record read) *)
Definition set_meta (c : cell) (m : meta) : cell :=
  mkCell (c_kind c) (c_pstart c) (c_pend c) (c_eval c) (c_values c) (c_prev c) m.
Definition cur_meta (cur : option meta) : meta :=
  match cur with Some m => m | None => mkMeta (Some [65; 99; 99; 105; 100; 101; 110; 116]) None None None None None [] [] end.
Fixpoint rep_with (meq : meta -> meta -> bool) (prev cur : option meta) (t : list cell) : list cell :=
  match t with
  | [] => []
  | c :: cs =>
    if same_meta meq prev (c_meta c)
    then set_meta c (cur_meta cur) :: rep_with meq (Some (c_meta c)) cur cs
    else c :: rep_with meq (Some (c_meta c)) (Some (c_meta c)) cs
  end.

(* ---- Python's == on metadata, wire level.  Numbers compare by value across bool/int/float
   (True == 1 == 1.0, 0.0 == -0.0, nan != nan); str, date, None only equal their own kind;
   dicts are compared as sets of items. *)
Inductive nkey := NFin (m e : Z) | NInf (neg : bool) | NNaN.        (* m * 2^e, m odd (or 0,0) *)
Fixpoint norm2 (fuel : nat) (m e : Z) : Z * Z :=
  match fuel with
  | O => (m, e)
  | S f => if m =? 0 then (0, 0) else if Z.even m then norm2 f (m / 2) (e + 1) else (m, e)
  end.
Definition nkey_fin (m e : Z) : nkey := let (m', e') := norm2 64 m e in NFin m' e'.
Definition nkey_of_f64 (f : bytes) : nkey :=
  let bits := le_dec f in
  let neg := 9223372036854775808 <=? bits in
  let ex := (bits / 4503599627370496) mod 2048 in
  let mant := bits mod 4503599627370496 in
  let sgn := if neg then -1 else 1 in
  if ex =? 2047 then (if mant =? 0 then NInf neg else NNaN)
  else if ex =? 0 then nkey_fin (sgn * mant) (-1074)
  else nkey_fin (sgn * (4503599627370496 + mant)) (ex - 1075).
Definition nkey_eqb (a b : nkey) : bool :=
  match a, b with
  | NFin m e, NFin m' e' => (m =? m') && (e =? e')
  | NInf x, NInf y => Bool.eqb x y
  | _, _ => false
  end.
Definition nkey_of_gval (v : gval) : option nkey :=
  match v with
  | GBool b => Some (nkey_fin (if b then 1 else 0) 0)
  | GInt z => Some (nkey_fin z 0)
  | GFloat f => Some (nkey_of_f64 f)
  | _ => None
  end.
Definition gval_pyeqb (a b : gval) : bool :=
  match nkey_of_gval a, nkey_of_gval b with
  | Some x, Some y => nkey_eqb x y
  | None, None =>
    match a, b with
    | GStr x, GStr y => zlist_eqb x y
    | GDate x, GDate y => date_eqb x y
    | GNone, GNone => true
    | _, _ => false                                       (* arrays: not comparable with == *)
    end
  | _, _ => false
  end.
Fixpoint dict_get (k : str) (d : dict) : option gval :=
  match d with [] => None | (k', v) :: r => if str_eqb k' k then Some v else dict_get k r end.
Definition dict_pyeqb (a b : dict) : bool :=
  (Z.of_nat (length a) =? Z.of_nat (length b))
  && forallb (fun kv => match dict_get (fst kv) b with
                        | Some w => gval_pyeqb (snd kv) w
                        | None => false
                        end) a.
Definition limit_pyeqb (a b : option bytes) : bool :=
  match a, b with
  | None, None => true
  | Some f, Some g => nkey_eqb (nkey_of_f64 f) (nkey_of_f64 g)
  | _, _ => false
  end.
Definition meta_pyeqb (a b : meta) : bool :=
  ostr_eqb (m_risk_basis a) (m_risk_basis b) && ostr_eqb (m_country a) (m_country b)
  && ostr_eqb (m_currency a) (m_currency b)
  && ostr_eqb (m_reinsurance_basis a) (m_reinsurance_basis b)
  && ostr_eqb (m_loss_definition a) (m_loss_definition b)
  && limit_pyeqb (m_limit a) (m_limit b)
  && dict_pyeqb (m_details a) (m_details b) && dict_pyeqb (m_loss_details a) (m_loss_details b).

(* the faithful writer and what comes back from it *)
Definition ser_py : triangle -> bytes := ser_with meta_pyeqb.
Definition rep_py (t : triangle) : list cell := rep_with meta_pyeqb None None t.
(* triangles on which Python's == and structural equality agree along the stored order: nothing
   is collapsed by the writer *)
Definition coherentb (t : triangle) : bool := cells_eqb (rep_py t) t.
(* every metadata is == to itself (fails only for NaN detail floats, where Python relies on object
   identity) *)
Definition pyeq_reflb (t : triangle) : bool :=
  forallb (fun c => meta_pyeqb (c_meta c) (c_meta c)) t.

(* ================================================================== reader (binary_input.py) *)
Definition dec_u8 : parser Z := fixedp 1 (fun bs => ROk (le_dec bs)).
Definition dec_u16 : parser Z := fixedp 2 (fun bs => ROk (le_dec bs)).
Definition dec_i16 : parser Z := fixedp 2 (fun bs => ROk (to_s16 (le_dec bs))).
Definition dec_u32 : parser Z := fixedp 4 (fun bs => ROk (le_dec bs)).
Definition dec_i64 : parser Z := fixedp 8 (fun bs => ROk (to_s64 (le_dec bs))).
Definition dec_f64 : parser bytes := fixedp 8 (fun bs => ROk bs).
Definition dec_bool : parser bool := fixedp 1 (fun bs => ROk (negb (le_dec bs =? 0))).

(* math.isnan on the 8 little-endian bytes of a binary64 *)
Definition is_nanb (f : bytes) : bool :=
  match f with
  | [b0; b1; b2; b3; b4; b5; b6; b7] =>
    (b7 mod 128 =? 127) && (240 <=? b6)
    && negb ((b6 =? 240) && (b0 =? 0) && (b1 =? 0) && (b2 =? 0) && (b3 =? 0) && (b4 =? 0) && (b5 =? 0))
  | _ => false
  end.

(* _read_float *)
Definition dec_limit : parser (option bytes) :=
  fixedp 8 (fun bs => ROk (if is_nanb bs then None else Some bs)).

(* _read_date : struct.unpack("<hBB", stream.read(4)) then datetime.date(y, m, d) *)
Definition dec_date : parser date3 :=
  fixedp 4 (fun bs =>
    match bs with
    | [b0; b1; m; d] =>
      let y := to_s16 (le_dec [b0; b1]) in
      if date_okb (y, m, d) then ROk (y, m, d) else RErr EValue
    | _ => RErr EStruct
    end).

(* _read_string *)
Definition dec_str : parser (option str) :=
  bind dec_i16 (fun len =>
    if len =? -1 then ret None
    else if len <? 0 then fail EValue                    (* read(negative) raises ValueError *)
    else pmapr (fun bs => if utf8_valid bs then ROk (Some bs) else RErr EUnicode) (read_upto len)).

Fixpoint dec_dims (n : nat) : parser (list Z) :=
  match n with
  | O => ret []
  | S n' => bind dec_u32 (fun d => pmap (cons d) (dec_dims n'))
  end.

(* _read_array *)
Definition dec_arr (dt : dtype) : parser gval :=
  bind dec_u8 (fun nd =>
  bind (dec_dims (Z.to_nat nd)) (fun dims =>
  pmapr (fun pl =>
           if (Z.of_nat (length pl) =? 8 * prodZ dims) && (nd <=? 32)
           then ROk (GArr dt dims pl) else RErr EValue)
        (read_upto (8 * prodZ dims)))).

(* _read_generic_value : an absent or unknown tag falls through to None *)
Definition dec_gval : parser gval := fun s =>
  match s with
  | [] => Ok GNone []
  | t :: r =>
    if t =? T_STRING then pmap (fun o => match o with Some x => GStr x | None => GNone end) dec_str r
    else if t =? T_BOOL then pmap GBool dec_bool r
    else if t =? T_INT then pmap GInt dec_i64 r
    else if t =? T_FLOAT then pmap GFloat dec_f64 r
    else if t =? T_INT_ARRAY then dec_arr DInt r
    else if t =? T_FLOAT_ARRAY then dec_arr DFloat r
    else if t =? T_DATE then pmap GDate dec_date r
    else Ok GNone r
  end.

(* string_pool[key_ndx] ; a None pool entry (length -1) cannot be a model key: EType *)
Definition pool_get (pool : list (option str)) (i : Z) : result str :=
  match nth_error pool (Z.to_nat i) with
  | None => RErr EIndex
  | Some None => RErr EType
  | Some (Some k) => ROk k
  end.

(* result[key] = value *)
Fixpoint dict_set (d : dict) (k : str) (v : gval) : dict :=
  match d with
  | [] => [(k, v)]
  | (k', v') :: r => if str_eqb k' k then (k', v) :: r else (k', v') :: dict_set r k v
  end.

(* _read_dict : while stream.peek(1)[:1] != DICT_END *)
Fixpoint dec_dict (pool : list (option str)) (fuel : nat) (acc : dict) (s : bytes) {struct fuel}
  : res dict :=
  match fuel with
  | O => Err EFuel
  | S fuel' =>
    match s with
    | [] => Err EStruct                                  (* peek gives b"", unpack of read(2) fails *)
    | b :: r =>
      if b =? DICT_END then Ok acc r
      else bind dec_u16 (fun i =>
             match pool_get pool i with
             | RErr e => fail e
             | ROk k => bind dec_gval (fun v => dec_dict pool fuel' (dict_set acc k v))
             end) s
    end
  end.

(* the loop can run at most once per remaining byte: fuel = remaining length + 1 never runs out *)
Definition dec_dict_top (pool : list (option str)) : parser dict :=
  fun s => dec_dict pool (S (length s)) [] s.

(* _read_metadata ; Metadata.__post_init__ accepts every value the reader can produce *)
Definition dec_meta (pool : list (option str)) : parser meta :=
  bind dec_str (fun rb => bind dec_str (fun co => bind dec_str (fun cu =>
  bind dec_str (fun re => bind dec_str (fun ld => bind dec_limit (fun lim =>
  bind (dec_dict_top pool) (fun de =>
  pmap (fun lo => mkMeta rb co cu re ld lim de lo) (dec_dict_top pool)))))))).

Definition cellval_okb (v : gval) : bool := match v with GStr _ | GDate _ => false | _ => true end.
Definition default_meta : meta :=
  mkMeta (Some [65; 99; 99; 105; 100; 101; 110; 116]) None None None None None [] [].  (* "Accident" *)

(* Cell.__init__ / IncrementalCell.__init__ validation *)
Definition mk_cell (k : ckind) (ps pe ev : date3) (vals : dict) (prev : option date3)
           (cur : option meta) : result cell :=
  if negb (forallb (fun kv => cellval_okb (snd kv)) vals) then RErr EType
  else if date_ltb pe ps then RErr EValue
  else if date_ltb ev ps then RErr EValue
  else if date_eqb ev DATE_MAX then RErr EValue
  else if match prev with Some p => date_leb ev p | None => false end then RErr EValue
  else ROk (mkCell k ps pe ev vals prev (match cur with Some m => m | None => default_meta end)).

(* _read_cell *)
Definition dec_cell (pool : list (option str)) (marker : Z) (cur : option meta)
  : parser cell :=
  bind dec_date (fun ps => bind dec_date (fun pe => bind dec_date (fun ev =>
    if marker =? R_CUM then
      pmapr (fun vals => mk_cell KCum ps pe ev vals None cur) (dec_dict_top pool)
    else if marker =? R_INC then
      bind (dec_dict_top pool) (fun vals =>
        pmapr (fun pv => mk_cell KInc ps pe ev vals (Some pv) cur) dec_date)
    else
      pmapr (fun vals => mk_cell KCell ps pe ev vals None cur) (dec_dict_top pool)))).

Fixpoint dec_strs (n : nat) : parser (list (option str)) :=
  match n with
  | O => ret []
  | S n' => bind dec_str (fun s => pmap (cons s) (dec_strs n'))
  end.
(* _read_string_pool *)
Definition dec_pool : parser (list (option str)) := bind dec_u16 (fun n => dec_strs (Z.to_nat n)).

(* what the marker loop returns when stream.read(1) is empty.  [raise_eof = false] is a plain
   file (read returns b"" and the loop breaks).  [raise_eof = true] models a truncated gzip
   member: the decompressor delivers a prefix of the plaintext and RAISES when asked for more. *)
Definition at_end (raise_eof : bool) (cs : list cell) : res (list cell) :=
  if raise_eof then Err EEof else Ok cs [].

(* the while-loop of _read_triangle *)
Fixpoint dec_body (raise_eof : bool) (pool : list (option str)) (fuel : nat)
         (cur : option meta) (acc : list cell) (s : bytes) {struct fuel} : res (list cell) :=
  match fuel with
  | O => Err EFuel
  | S f =>
    match s with
    | [] => at_end raise_eof (rev acc)
    | m :: r =>
      if m =? R_METADATA then
        bind (dec_meta pool) (fun md => dec_body raise_eof pool f (Some md) acc) r
      else if (m =? R_CELL) || (m =? R_CUM) || (m =? R_INC) then
        bind (dec_cell pool m cur) (fun c => dec_body raise_eof pool f cur (c :: acc)) r
      else Ok (rev acc) r                                (* unknown marker: break *)
    end
  end.

(* _read_triangle, up to (not including) the final Triangle(cells) *)
Definition parse_gen (raise_eof : bool) (bs : bytes) : result (list cell) :=
  let g := S (length bs) in
  let (mg, r) := take 4 bs in
  if negb (zlist_eqb mg MAGIC) then RErr EValue
  else match r with
       | [] => RErr EValue
       | v :: r2 =>
         if negb (v =? VERSION) then RErr EValue
         else match dec_pool r2 with
              | Err e => RErr e
              | Ok pool r3 =>
                match dec_body raise_eof pool g None [] r3 with
                | Ok cs _ => ROk cs
                | Err e => RErr e
                end
              end
       end.
Definition parse : bytes -> result (list cell) := parse_gen false.

(* ================================================================== well-formedness *)
Fixpoint nodupb (l : list str) : bool :=
  match l with [] => true | h :: t => negb (existsb (str_eqb h) t) && nodupb t end.

Definition strb (s : str) : bool := bytesb s && utf8_valid s && (Z.of_nat (length s) <=? 32767).
Definition ostrb (o : option str) : bool := match o with None => true | Some s => strb s end.
Definition f64b (f : bytes) : bool := bytesb f && (Z.of_nat (length f) =? 8).
Definition dimsb (dims : list Z) : bool :=
  forallb (fun d => (0 <=? d) && (d <? 4294967296)) dims && (Z.of_nat (length dims) <=? 32).
Definition gvalb (v : gval) : bool :=
  match v with
  | GStr s => strb s
  | GBool _ => true
  | GInt z => (-9223372036854775808 <=? z) && (z <? 9223372036854775808)
  | GFloat f => f64b f
  | GDate d => date_okb d
  | GNone => true
  | GArr _ dims pl => dimsb dims && bytesb pl && (Z.of_nat (length pl) =? 8 * prodZ dims)
  end.
Definition dictb (d : dict) : bool :=
  forallb (fun kv => strb (fst kv) && gvalb (snd kv)) d && nodupb (dict_keys d).
Definition metaval_okb (v : gval) : bool := match v with GArr _ _ _ => false | _ => true end.
Definition limitb (o : option bytes) : bool :=
  match o with None => true | Some f => f64b f && negb (is_nanb f) end.
Definition metab (m : meta) : bool :=
  ostrb (m_risk_basis m) && ostrb (m_country m) && ostrb (m_currency m)
  && ostrb (m_reinsurance_basis m) && ostrb (m_loss_definition m) && limitb (m_limit m)
  && dictb (m_details m) && forallb (fun kv => metaval_okb (snd kv)) (m_details m)
  && dictb (m_loss_details m) && forallb (fun kv => metaval_okb (snd kv)) (m_loss_details m).
Definition prevb (c : cell) : bool :=
  match c_kind c, c_prev c with
  | KInc, Some p => date_okb p && date_ltb p (c_eval c)
  | KInc, None => false
  | _, Some _ => false
  | _, None => true
  end.
Definition cellb (c : cell) : bool :=
  date_okb (c_pstart c) && date_okb (c_pend c) && date_okb (c_eval c)
  && date_leb (c_pstart c) (c_pend c) && date_leb (c_pstart c) (c_eval c)
  && negb (date_eqb (c_eval c) DATE_MAX)
  && dictb (c_values c) && forallb (fun kv => cellval_okb (snd kv)) (c_values c)
  && prevb c && metab (c_meta c).
(* the documented pool-size bound: the pool length is written with "<h" *)
Definition POOL_MAX : Z := 32767.
Definition wfb (t : triangle) : bool :=
  forallb cellb t && (Z.of_nat (length (pool_of t)) <=? POOL_MAX).
Definition wf (t : triangle) : Prop := wfb t = true.

(* no dictionary of t uses a key whose pool index has low byte 0x88 (finding F9) *)
Definition no88_dictb (pool : list str) (d : dict) : bool :=
  forallb (fun kv => negb (index_of (fst kv) pool mod 256 =? DICT_END)) d.
Definition no88_cellb (pool : list str) (c : cell) : bool :=
  no88_dictb pool (c_values c) && no88_dictb pool (m_details (c_meta c))
  && no88_dictb pool (m_loss_details (c_meta c)).
Definition no_0x88_keyb (t : triangle) : bool := forallb (no88_cellb (pool_of t)) t.
Definition no_0x88_key (t : triangle) : Prop := no_0x88_keyb t = true.

(* ================================================================== compression dispatch *)
(* triangle_to_binary / binary_to_triangle : which flavour is written / read.  The extension only
   produces warnings when `compress` is given explicitly (True or False are both honoured, on the
   write and on the read side); `compress=None` on the read side infers the flavour from the
   extension and refuses (ValueError) an unknown one. *)
Inductive ext := ExtTrib | ExtTribc | ExtOther.
Definition conventional_ext (compress : bool) : ext := if compress then ExtTribc else ExtTrib.
Definition write_flavour (compress : bool) (e : ext) : bool := compress.
Definition read_flavour (compress : option bool) (e : ext) : result bool :=
  match compress with
  | Some c => ROk c
  | None => match e with ExtTrib => ROk false | ExtTribc => ROk true | ExtOther => RErr EValue end
  end.

(* result comparison helpers used by the generated correspondence cases *)
Definition result_cells_eqb (a b : result (list cell)) : bool :=
  match a, b with
  | ROk x, ROk y => cells_eqb x y
  | RErr _, RErr _ => true
  | _, _ => false
  end.
Definition err_code (e : err) : Z :=
  match e with EValue => 1 | EStruct => 2 | EIndex => 3 | EType => 4 | EUnicode => 5 | EFuel => 6
          | EEof => 7 end.
(* strict comparison, error class included *)
Definition result_eqb (a b : result (list cell)) : bool :=
  match a, b with
  | ROk x, ROk y => cells_eqb x y
  | RErr e, RErr f => err_code e =? err_code f
  | _, _ => false
  end.
Fixpoint failing (i : Z) (l : list bool) : list Z :=
  match l with [] => [] | b :: r => if b then failing (i + 1) r else i :: failing (i + 1) r end.
(* outcome of parsing a prefix, relative to the original cells: -e for Err e,
   k >= 0 for Ok (firstn k t), -100 for Ok of anything else *)
Fixpoint prefix_len (cs t : list cell) (k : Z) : Z :=
  match cs, t with
  | [], _ => k
  | c :: cs', d :: t' => if cell_eqb c d then prefix_len cs' t' (k + 1) else -100
  | _ :: _, [] => -100
  end.
Definition outcome (t : triangle) (r : result (list cell)) : Z :=
  match r with RErr e => - err_code e | ROk cs => prefix_len cs t 0 end.
Fixpoint outcomes_from (raise_eof : bool) (t : triangle) (pre : bytes) (rest : bytes) (acc : list Z)
  : list Z :=
  (* outcomes of parsing every strict prefix pre, pre+1, ... of pre ++ rest (reversed prefix
     kept in [pre] to stay linear per step) *)
  match rest with
  | [] => rev acc
  | b :: rest' =>
    outcomes_from raise_eof t (b :: pre) rest' (outcome t (parse_gen raise_eof (rev pre)) :: acc)
  end.
Definition cut_outcomes (raise_eof : bool) (t : triangle) (bs : bytes) : list Z :=
  outcomes_from raise_eof t [] bs [].
Fixpoint diff_indices (i : Z) (a b : list Z) : list Z :=
  match a, b with
  | [], [] => []
  | x :: a', y :: b' => if x =? y then diff_indices (i + 1) a' b' else i :: diff_indices (i + 1) a' b'
  | _, _ => [i]
  end.
