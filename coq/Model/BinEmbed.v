(* Embedding of the structural model's cells (Model/Base.v: dates as proleptic Gregorian ordinals,
   numbers as n/1024 with an int/float flag, 1-d arrays) into the wire-level cells of
   Model/Binary.v.  Used to state C06's "same bytes whatever the order in which the cells were
   supplied" on top of C01's sorting theorem.

   What the embedding abstracts
     - binary64: the 8-byte encoding of the float n/1024 is a PARAMETER [fenc : Z -> bytes]
       (the codec treats floats as opaque bytes; nothing below depends on which bytes they are);
     - ints are Num false (1024*i) and become GInt (n / 1024); a 1-d array of k entries becomes a
       GArr with shape [k] and the concatenated item encodings as payload;
     - dates: ordinal -> (y, m, d) by CPython's _ord2ymd (Lib/Calendar.ymd_of_ord);
     - Base has no n-d arrays, bool cell values or array-valued details: the image of the
       embedding is a sub-lattice of the wire types.
   Executable definitions only. *)
From Coq Require Import ZArith List Bool.
From Bermuda Require Import Lib.Bytes Lib.StrSort Model.Binary.
From Bermuda Require Lib.Calendar Model.Base.
Import ListNotations.
Open Scope Z_scope.

Section Embed.
  Variable fenc : Z -> bytes.                       (* struct.pack("<d", n / 1024) *)

  Definition w_date (o : Z) : date3 := Calendar.ymd_of_ord o.
  Definition w_num (x : Base.num) : gval :=
    if Base.num_isf x then GFloat (fenc (Base.num_n x)) else GInt (Base.num_n x / 1024).
  Definition w_mval (v : Base.mval) : gval :=
    match v with
    | Base.MStr s => GStr s
    | Base.MNum x => w_num x
    | Base.MBool b => GBool b
    | Base.MDate d => GDate (w_date d)
    | Base.MNone => GNone
    end.
  Definition w_item (isf : bool) (n : Z) : bytes :=
    if isf then fenc n else le_enc 8 (of_s64 (n / 1024)).
  Definition w_value (v : Base.value) : gval :=
    match v with
    | Base.VNum x => w_num x
    | Base.VNone => GNone
    | Base.VArr isf xs =>
      GArr (if isf then DFloat else DInt) [Z.of_nat (length xs)] (flat_map (w_item isf) xs)
    end.
  Definition w_limit (o : option Base.num) : option bytes :=
    match o with Some x => Some (fenc (Base.num_n x)) | None => None end.
  Definition w_meta (m : Base.meta) : meta :=
    mkMeta (Base.risk_basis m) (Base.country m) (Base.currency m) (Base.reinsurance_basis m)
           (Base.loss_definition m) (w_limit (Base.per_occurrence_limit m))
           (map (fun kv => (fst kv, w_mval (snd kv))) (Base.details m))
           (map (fun kv => (fst kv, w_mval (snd kv))) (Base.loss_details m)).
  Definition w_kind (k : Base.kind) : ckind :=
    match k with Base.KCell => KCell | Base.KCum => KCum | Base.KInc => KInc end.
  Definition wire_of_base (c : Base.cell) : cell :=
    mkCell (w_kind (Base.ckind c)) (w_date (Base.ps c)) (w_date (Base.pe c)) (w_date (Base.ev c))
           (map (fun kv => (fst kv, w_value (snd kv))) (Base.cvals c))
           (match Base.prev c with Some p => Some (w_date p) | None => None end)
           (w_meta (Base.cmeta c)).
End Embed.
