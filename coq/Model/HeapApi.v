(** C03 -- PUBLIC entry points written as explicit compositions of the kernels of Model/Heap.v,
    mirroring the source.  Executable definitions only.

    A Triangle argument is represented by the list of references to its cells (triangle.cells, in
    triangle order).  The Triangle object and its `_cells` list are never written by these functions
    (they are only iterated); the result is the list handed to `Triangle(...)`, whose `sorted` builds a
    new list (not modelled; the harness compares result cells as a bag).
    Grouping / indexing / filtering decisions depend only on the immutable part of a cell, here its
    [tag]; the functions that read coordinates, metadata and dates off a tag are ORACLES ([tagfns]):
    every theorem holds for every choice of them. *)
From Coq Require Import ZArith List Bool PeanoNat.
From Bermuda Require Import Model.Base Model.Heap.
Import ListNotations.

Record tagfns := mkTagfns {
  row_key : Z -> Z;          (* (period, metadata)                 tlz.groupby in to_incremental / to_cumulative *)
  coord_key : Z -> Z;        (* (period, evaluation_date[, prev])  tlz.groupby in summarize *)
  pair_key : Z -> Z;         (* (metadata, period, evaluation_date[, prev])   index of join / blend *)
  coalesce_key : Z -> Z;     (* (metadata, period, evaluation_date) *)
  slice_key : Z -> Z;        (* metadata *)
  period_key : Z -> Z;       (* period *)
  ev_of : Z -> Z;            (* evaluation date, for "latest cell of the period" *)
  window_key : Z -> Z;       (* (aggregation window, evaluation_date) *)
  sum_tag : Z -> Z;          (* coordinates + common metadata of a summary cell, from its group key *)
  win_tag : Z -> Z           (* coordinates of an aggregated cell, from its group key *)
}.

(* tlz.groupby / defaultdict(list): groups in first-occurrence order, members in input order *)
Fixpoint ginsert (k : Z) (c : val) (gs : list (Z * list val)) : list (Z * list val) :=
  match gs with
  | [] => [(k, [c])]
  | (k', l) :: r => if (k =? k')%Z then (k', l ++ [c]) :: r else (k', l) :: ginsert k c r
  end.
Definition group_cells (key : Z -> Z) (cells : list val) : M (list (Z * list val)) :=
  foldM (fun gs c => x <- get_cell c ;; ret (ginsert (key (fst x)) c gs)) cells [].
(* {key(cell): cell for cell in tri}: first-occurrence order, last cell wins *)
Definition index_cells (key : Z -> Z) (cells : list val) : M items :=
  foldM (fun ix c => x <- get_cell c ;; ret (dset (key (fst x)) c ix)) cells [].

(* ------------------------------------------------------------------ basis.py *)
(* to_incremental(triangle): the argument itself if already incremental; else per (period, metadata)
   row: deepcopy of the first cell, _values_diff along the row *)
Definition api_to_incremental (f : tagfns) (c : cfg) (is_inc : bool) (cells : list val) : M (list val) :=
  if is_inc then ret cells
  else gs <- group_cells (row_key f) cells ;;
       rows <- mapM (fun g => to_incremental_row c (snd g)) gs ;;
       ret (concat rows).
(* to_cumulative(triangle): the argument itself if not incremental; else per row: deepcopy of the first
   cell's values, a deepcopy of that for the first output cell, the running total chained by _values_add *)
Definition api_to_cumulative (f : tagfns) (c : cfg) (is_inc : bool) (cells : list val) : M (list val) :=
  if negb is_inc then ret cells
  else gs <- group_cells (row_key f) cells ;;
       rows <- mapM (fun g => to_cumulative_row c (snd g)) gs ;;
       ret (concat rows).

(* ------------------------------------------------------------------ summarize.py *)
(* summarize: _metadata_gcd (reads metadata only; refuses inconsistent risk basis / currency), groupby
   coordinates, one new cell per group with values=summarize_cell_values(cells, ...) *)
Definition api_summarize (f : tagfns) (c : cfg) (gcd_ok prem : bool) (cells : list val) : M (list val) :=
  if negb gcd_ok then raise TriangleError
  else gs <- group_cells (coord_key f) cells ;;
       mapM (fun g => d <- summarize_cell_values c (snd g) prem ;;
                      nv <- new_dict d ;; new_cell true (sum_tag f (fst g)) nv) gs.
(* blend(triangles, method="mixture"): equal lengths, index every triangle, for every coordinate of the
   first one collect the matching cells (ValueError if one is missing) and blend_cells them *)
Definition api_blend (f : tagfns) (c : cfg) (tris : list (list val)) (picks : list nat) : M (list val) :=
  match tris with
  | [] => raise IndexError
  | t0 :: rest =>
      if negb (forallb (fun t => length t =? length t0) rest) then raise ValueError
      else ixs <- mapM (index_cells (pair_key f)) tris ;;
           match ixs with
           | [] => raise IndexError
           | ix0 :: _ =>
               mapM (fun kc =>
                       cs <- mapM (fun ix => match dget (fst kc) ix with
                                             | Some x => ret x
                                             | None => raise ValueError
                                             end) ixs ;;
                       blend_cells c cs picks) ix0
           end
  end.

(* ------------------------------------------------------------------ triangle.py *)
Definition api_select (cells : list val) (ks : list key) : M (list val) := mapM (fun c => select c ks) cells.
Definition api_derive_fields (cells : list val) (defs : items) : M (list val) :=
  mapM (fun c => derive_fields c defs) cells.
Definition api_replace (cells : list val) (defs : list defn) : M (list val) :=
  mapM (fun c => replace c defs) cells.

(* ------------------------------------------------------------------ merge.py / join.py *)
(* merge(tri1, tri2, join_type): join = both triangles indexed by (metadata, coordinates), the union of
   the keys, pairs (left or None, right or None) filtered by the join type; then _merge_cell_pair.
   kl / kr / km: keep left-only / right-only / matched pairs
   (full TTT, left TFT, right FTT, inner FFT, left_anti TFF, right_anti FTF) *)
Definition opt_cell (o : option val) : val := match o with Some c => c | None => PNone end.
Definition join_pairs (f : tagfns) (kl kr km : bool) (cells1 cells2 : list val) : M (list (val * val)) :=
  ix1 <- index_cells (pair_key f) cells1 ;; ix2 <- index_cells (pair_key f) cells2 ;;
  let coords := dedup (map fst ix1 ++ map fst ix2) [] in
  let pairs := map (fun k => (opt_cell (dget k ix1), opt_cell (dget k ix2))) coords in
  ret (filter (fun p => match fst p, snd p with PNone, _ => kr | _, PNone => kl | _, _ => km end) pairs).
Definition api_merge (f : tagfns) (kl kr km : bool) (cells1 cells2 : list val) : M (list val) :=
  ps <- join_pairs f kl kr km cells1 cells2 ;;
  mapM (fun p => merge_cell_pair (fst p) (snd p)) ps.
(* coalesce(triangles): cells grouped by (metadata, period, evaluation_date) over all triangles in order;
   the FIRST cell of every group is returned -- the argument's own cell objects *)
Definition api_coalesce (f : tagfns) (tris : list (list val)) : M (list val) :=
  gs <- group_cells (coalesce_key f) (concat tris) ;;
  ret (flat_map (fun g => match snd g with [] => [] | c :: _ => [c] end) gs).

(* ------------------------------------------------------------------ fields.py *)
(* add_statics(triangle, source, statics): per slice; the source cell of a period is the one with the latest
   evaluation date (sorted(...)[-1]); cells without a source slice / source period are returned themselves *)
Definition pick_source (f : tagfns) (t : Z) (src : list (Z * val)) : option (Z * val) :=
  fold_left (fun best ts =>
               if (slice_key f (fst ts) =? slice_key f t)%Z && (period_key f (fst ts) =? period_key f t)%Z
               then match best with
                    | None => Some ts
                    | Some b => if (ev_of f (fst b) <=? ev_of f (fst ts))%Z then Some ts else best
                    end
               else best) src None.
Definition api_add_statics (f : tagfns) (cells source : list val) (fields : list key) : M (list val) :=
  src <- mapM (fun s => x <- get_cell s ;; ret (fst x, s)) source ;;
  mapM (fun c => x <- get_cell c ;;
                 match pick_source f (fst x) src with
                 | Some ts => add_statics c (snd ts) fields
                 | None => ret c
                 end) cells.

(* ------------------------------------------------------------------ thin.py *)
(* n = triangle.num_samples (a read); ndxs = the recorded draw *)
Definition api_thin (n k : nat) (cells : list val) (ndxs : list nat) : M (list val) :=
  if n <? k then raise ValueError
  else if n =? k then ret cells
  else mapM (fun c => thin_cell c ndxs) cells.

(* ------------------------------------------------------------------ aggregate.py *)
(* _aggregate_period on one slice: cells piled by (window, evaluation_date); every pile summarised *)
Definition api_aggregate_period (f : tagfns) (c : cfg) (prem : bool) (cells : list val) : M (list val) :=
  gs <- group_cells (window_key f) cells ;;
  mapM (fun g => aggregate_group c (win_tag f (fst g)) (snd g) prem) gs.
(* aggregate(triangle, period_resolution, eval_resolution): to_cumulative if incremental; per slice the
   evaluation-date filter ([keep_eval], a read) and _aggregate_period; sum of the slices; to_incremental
   again if the argument was incremental *)
Definition api_aggregate (f : tagfns) (c : cfg) (is_inc prem : bool) (keep_eval : Z -> bool)
           (cells : list val) : M (list val) :=
  cum <- api_to_cumulative f c is_inc cells ;;
  slices <- group_cells (slice_key f) cum ;;
  agg <- mapM (fun g =>
                 kept <- foldM (fun acc x => t <- get_cell x ;;
                                            ret (if keep_eval (fst t) then acc ++ [x] else acc)) (snd g) [] ;;
                 api_aggregate_period f c prem kept) slices ;;
  api_to_incremental f c (negb is_inc) (concat agg).

(* ------------------------------------------------------------------ every modelled entry point *)
Inductive apicall :=
| AToIncremental (is_inc : bool) (cells : list val)
| AToCumulative (is_inc : bool) (cells : list val)
| ASummarize (gcd_ok prem : bool) (cells : list val)
| ABlend (tris : list (list val)) (picks : list nat)
| ASelect (cells : list val) (ks : list key)
| ADeriveFields (cells : list val) (defs : items)
| AReplace (cells : list val) (defs : list defn)
| AMerge (kl kr km : bool) (cells1 cells2 : list val)
| ACoalesce (tris : list (list val))
| AAddStatics (cells source : list val) (fields : list key)
| AThin (n k : nat) (cells : list val) (ndxs : list nat)
| AAggregatePeriod (prem : bool) (cells : list val)
| AAggregate (is_inc prem : bool) (keep_eval : Z -> bool) (cells : list val).
Definition run_api (f : tagfns) (c : cfg) (a : apicall) : M res :=
  lift RVals
    match a with
    | AToIncremental i cells => api_to_incremental f c i cells
    | AToCumulative i cells => api_to_cumulative f c i cells
    | ASummarize g p cells => api_summarize f c g p cells
    | ABlend tris picks => api_blend f c tris picks
    | ASelect cells ks => api_select cells ks
    | ADeriveFields cells defs => api_derive_fields cells defs
    | AReplace cells defs => api_replace cells defs
    | AMerge kl kr km c1 c2 => api_merge f kl kr km c1 c2
    | ACoalesce tris => api_coalesce f tris
    | AAddStatics cells source fields => api_add_statics f cells source fields
    | AThin n k cells ndxs => api_thin n k cells ndxs
    | AAggregatePeriod p cells => api_aggregate_period f c p cells
    | AAggregate i p keep cells => api_aggregate f c i p keep cells
    end.
(* the arguments of an entry point: the cells of its triangle(s) *)
Definition api_args (a : apicall) : list val :=
  match a with
  | AToIncremental _ cells | AToCumulative _ cells | ASummarize _ _ cells | ASelect cells _
  | AReplace cells _ | AThin _ _ cells _ | AAggregatePeriod _ cells | AAggregate _ _ _ cells => cells
  | ADeriveFields cells defs => cells ++ map snd defs
  | ABlend tris _ | ACoalesce tris => concat tris
  | AMerge _ _ _ c1 c2 => c1 ++ c2
  | AAddStatics cells source _ => cells ++ source
  end.
(* comparison with the observed result of the real function *)
Definition agrees_api (f : tagfns) (c : cfg) (exact : bool) (h : heap) (a : apicall) (o : observed) : bool :=
  match run_api f c a h, o with
  | Ret h' r, ObsRet s => frozen_b h h' && rsg_eqb exact (sig_res (length h) h' r) s
  | Raise h' e, ObsRaise e' => frozen_b h h' && err_eqb e e'
  | _, _ => false
  end.
