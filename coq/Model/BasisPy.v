(** C04 -- grouping by Python `==` of Metadata.
    The code groups cells with `tlz.groupby(lambda ob: (ob.period, ob.metadata), ...)`, i.e. by
    Metadata.__eq__/__hash__; the group key that is kept (and written into every result cell) is the
    FIRST (period, metadata) pair met for that class.  Metadata that are `==` need not be identical
    objects: detail keys may have been inserted in another order, 7 == 7.0, and every cell may carry
    its own object.  Model/Basis.v groups by structural equality; [py_normalise] replaces the
    metadata of every cell by that of the first cell of the list with the same period and `==`
    metadata ([Order.meta_pyeq]), after which both groupings coincide.  The faithful model of the
    code on arbitrary inputs is therefore [to_incremental_py] / [to_cumulative_py]; on inputs whose
    `==` metadata are identical ([BasisCanon.meta_separated]) normalisation is the identity
    (Proofs/BasisCanon.v: py_normalise_separated) and the theorems of Props/C04.v apply verbatim. *)
From Coq Require Import ZArith List Bool.
From Bermuda Require Import Model.Base Model.Order Model.Basis.
Import ListNotations.
Local Open Scope Z_scope.

Definition same_row_py (c c' : cell) : bool :=
  (ps c' =? ps c) && (pe c' =? pe c) && meta_pyeq (cmeta c') (cmeta c).
Definition rep_meta (t : list cell) (c : cell) : meta :=
  match find (same_row_py c) t with Some c' => cmeta c' | None => cmeta c end.
Definition set_meta (m : meta) (c : cell) : cell :=
  mkCell (ckind c) (ps c) (pe c) (ev c) (prev c) m (cvals c).
Definition py_normalise (t : list cell) : list cell := map (fun c => set_meta (rep_meta t c) c) t.

Definition to_incremental_py (d : bdesc) (t : list cell) : result (list cell) :=
  if is_incremental t then Ok t else to_incremental d (py_normalise t).
Definition to_cumulative_py (d : bdesc) (t : list cell) : result (list cell) :=
  if negb (is_incremental t) then Ok t else to_cumulative d (py_normalise t).
