(** C15 -- extension operators.  Executable definitions only.

    Mirrors bermuda/utils/extend.py (make_right_triangle, make_right_diagonal,
    _fix_prev_evaluation_date), fill.py (fill_forward_gaps), backfill.py (backfill) on month-aligned
    triangles (Calendar.addm / lag_months = add_months / dev_lag_months there, C12) and, for the right
    triangle, on day units.  A triangle is its sorted cell list t.cells.

    Ordering of results.  Every operator ends in Triangle(...), i.e. a stable sort by
    (metadata, period_start, period_end, evaluation_date[, prev]).  Metadata.__lt__ belongs to C01, so
    the model produces the cells slice by slice in the order of [metadata t] (= ascending for a sorted
    input), period by period, evaluation date ascending -- which IS the sorted order for a sorted input
    without duplicate coordinates.  The tie compares the lists position by position.

    Incremental right triangle / diagonal: the code converts the new cumulative cells with
    to_incremental (first prev = period_start - 1 day, then chained) and _fix_prev_evaluation_date
    re-links the first new cell of each (slice, period) to the observed right-edge cell.  The model
    states the resulting chain directly ([chain (ev edge) row]); the tie runs the real pipeline. *)
From Coq Require Import ZArith List Bool.
From Bermuda Require Import Lib.Calendar Model.Base Model.Accessors.
Import ListNotations.
Local Open Scope Z_scope.

(* ------------------------------------------------------------------ rows and right edge *)
Definition in_period (p : Z * Z) (c : cell) : bool := zpair_eqb p (period c).
(* cells of one slice grouped by period, periods ascending; each row keeps t's order (ev ascending) *)
Definition rows_of (s : list cell) : list (list cell) :=
  map (fun p => filter (in_period p) s) (periods s).
(* row[-1] after sorting by evaluation date: the latest cell, the later one on ties *)
Definition later (b c : cell) : cell := if ev b <=? ev c then c else b.
Definition edge_of (row : list cell) : option cell :=
  match row with [] => None | c :: r => Some (fold_left later r c) end.
Definition edges (s : list cell) : list cell :=
  flat_map (fun row => match edge_of row with Some e => [e] | None => [] end) (rows_of s).
Definition slices (t : list cell) : list (list cell) := map (fun m => slice_cells m t) (metadata t).
Definition right_edge (t : list cell) : list cell := flat_map edges (slices t).

Definition is_incremental (t : list cell) : bool :=
  match t with c :: _ => is_inc c | [] => false end.          (* F16: empty triangle -> False *)

(* ------------------------------------------------------------------ to_cumulative can be applied *)
Definition keyset_eqb (a b : list (str * value)) : bool :=
  forallb (fun k => has_key k b) (keys a) && forallb (fun k => has_key k a) (keys b).
Fixpoint chain_ok (prev_ev : Z) (prev_vals : list (str * value)) (row : list cell) : bool :=
  match row with
  | [] => true
  | c :: r => opt_eqb Z.eqb (prev c) (Some prev_ev) && keyset_eqb prev_vals (cvals c)
              && chain_ok (ev c) (cvals c) r
  end.
Definition row_cum_ok (row : list cell) : bool :=
  match row with
  | [] => true
  | c :: r => opt_eqb Z.eqb (option_map (fun d => d + 1) (prev c)) (Some (ps c))
              && chain_ok (ev c) (cvals c) r
  end.
Definition to_cum_ok (t : list cell) : bool :=
  forallb (fun s => forallb row_cum_ok (rows_of s)) (slices t).

(* ------------------------------------------------------------------ new cells *)
Definition add_lag (u : unit_) (pe_ lag : Z) : Z :=
  match u with UDay => pe_ + lag | UMonth => addm pe_ lag end.
Definition new_cell (e : cell) (d : Z) : cell := mkCell KCum (ps e) (pe e) d None (cmeta e) [].
(* incremental chain: prev of the first new cell = evaluation date of the observed edge cell *)
Fixpoint chain (prev_ev : Z) (row : list cell) : list cell :=
  match row with
  | [] => []
  | c :: r => mkCell KInc (ps c) (pe c) (ev c) (Some prev_ev) (cmeta c) (cvals c) :: chain (ev c) r
  end.
(* incremental input goes through to_cumulative, which rebuilds every cell of a (period, slice) group
   with the group KEY's metadata: the metadata object of the group's first cell (Python-equal to the
   others, possibly spelled differently: 7 vs 7.0, dict order) *)
Definition set_meta (m : meta) (c : cell) : cell :=
  mkCell (ckind c) (ps c) (pe c) (ev c) (prev c) m (cvals c).
Definition row_head (s : list cell) (e : cell) : cell :=
  match filter (in_period (period e)) s with c :: _ => c | [] => e end.
Definition finish_row (inc : bool) (hd_ e : cell) (row : list cell) : list cell :=
  if inc then chain (ev e) (map (set_meta (cmeta hd_)) row) else row.

(* ------------------------------------------------------------------ make_right_triangle *)
(* decision token: `if dev_lag > cell.dev_lag(unit)` *)
Definition lag_above (edge_lag lag : Z) : bool := lag >? edge_lag.
Definition rt_row_with (above : Z -> Z -> bool) (u : unit_) (lags : list Z) (e : cell) : list cell :=
  map (fun l => new_cell e (add_lag u (pe e) l)) (filter (above (cell_lag u e)) lags).
Definition rt_row := rt_row_with lag_above.
Definition slice_lags (u : unit_) (lags : option (list Z)) (s : list cell) : list Z :=
  match lags with None => dev_lags u s | Some l => isort l end.
Definition rt_slice (inc : bool) (u : unit_) (lags : option (list Z)) (s : list cell) : list cell :=
  flat_map (fun e => finish_row inc (row_head s e) e (rt_row u (slice_lags u lags s) e)) (edges s).
Definition make_right_triangle (u : unit_) (lags : option (list Z)) (t : list cell) : result (list cell) :=
  let inc := is_incremental t in
  if inc && negb (to_cum_ok t) then Err TriangleError
  else Ok (flat_map (rt_slice inc u lags) (slices t)).

(* ------------------------------------------------------------------ make_right_diagonal *)
Definition max_ev (s : list cell) : Z :=
  match s with [] => 0 | c :: r => list_max (map ev r) (ev c) end.
Definition rd_row (dates : list Z) (e : cell) : list cell :=
  map (new_cell e) (filter (fun d => ps e <=? d) dates).            (* eval_date >= cell.period_start *)
Definition rd_dates (dates : list Z) (hist : bool) (s : list cell) : list Z :=
  isort (if hist then dates else filter (fun d => max_ev s <? d) dates).   (* eval_date > max_eval *)
Definition rd_slice (inc : bool) (dates : list Z) (hist : bool) (s : list cell) : list cell :=
  flat_map (fun e => finish_row inc (row_head s e) e (rd_row (rd_dates dates hist s) e)) (edges s).
(* replace(prev_evaluation_date=edge.ev) re-validates: evaluation_date > prev_evaluation_date *)
Definition rd_relink_ok (dates : list Z) (hist : bool) (s : list cell) : bool :=
  forallb (fun e => match rd_row (rd_dates dates hist s) e with
                    | [] => true | c :: _ => ev e <? ev c end) (edges s).
Definition make_right_diagonal (dates : list Z) (hist : bool) (t : list cell) : result (list cell) :=
  let inc := is_incremental t in
  if inc && negb (to_cum_ok t) then Err TriangleError
  else if inc && negb (forallb (rd_relink_ok dates hist) (slices t)) then Err ValueError
  else Ok (flat_map (rd_slice inc dates hist) (slices t)).

(* ------------------------------------------------------------------ fill_forward_gaps *)
Definition mlag (c : cell) : Z := lag_months (pe c) (ev c).            (* cell.dev_lag() *)
Definition set_ev (c : cell) (d : Z) : cell :=
  mkCell (ckind c) (ps c) (pe c) d (prev c) (cmeta c) (cvals c).
Definition none_values (c : cell) : cell :=
  mkCell (ckind c) (ps c) (pe c) (ev c) (prev c) (cmeta c) (map (fun kv => (fst kv, VNone)) (cvals c)).
(* dict keyed by lag *)
Fixpoint zget (k : Z) (d : list (Z * cell)) : option cell :=
  match d with [] => None | (k', v) :: r => if k =? k' then Some v else zget k r end.
Fixpoint zset (k : Z) (v : cell) (d : list (Z * cell)) : list (Z * cell) :=
  match d with
  | [] => [(k, v)]
  | (k', v') :: r => if k =? k' then (k', v) :: r else (k', v') :: zset k v r
  end.
Definition fill_cell (none : bool) (src : cell) (lag : Z) : cell :=
  let c := set_ev src (addm (pe src) lag) in if none then none_values c else c.
(* range(int(first), int(last + res), res) for res > 0 *)
Definition required_lags (first last res : Z) : list Z :=
  if last <? first then []
  else map (fun k => first + Z.of_nat k * res) (seq 0 (Z.to_nat ((last - first + res - 1) / res + 1))).
Definition fill_step (res : Z) (none : bool) (d : result (list (Z * cell))) (lag : Z)
  : result (list (Z * cell)) :=
  match d with
  | Err e => Err e
  | Ok d =>
      match zget lag d with
      | Some _ => Ok d                                     (* not a new lag *)
      | None => match zget (lag - res) d with
                | Some src => Ok (zset lag (fill_cell none src lag) d)
                | None => Err KeyError
                end
      end
  end.
(* stable insertion sort of a row by evaluation date *)
Fixpoint ins_ev (c : cell) (l : list cell) : list cell :=
  match l with [] => [c] | d :: r => if ev d <=? ev c then d :: ins_ev c r else c :: l end.
Definition sort_ev (l : list cell) : list cell := fold_left (fun acc c => ins_ev c acc) l [].
Definition fill_row (res : Z) (none : bool) (row : list cell) : result (list cell) :=
  match row with
  | [] => Ok []
  | c0 :: _ =>
      let d0 := fold_left (fun d c => zset (mlag c) c d) row [] in
      let last := mlag (last row c0) in
      match fold_left (fill_step res none) (required_lags (mlag c0) last res) (Ok d0) with
      | Ok d => Ok (sort_ev (map snd d))
      | Err e => Err e
      end
  end.
Fixpoint concat_results (l : list (result (list cell))) : result (list cell) :=
  match l with
  | [] => Ok []
  | Ok a :: r => match concat_results r with Ok b => Ok (a ++ b) | Err e => Err e end
  | Err e :: _ => Err e
  end.
Definition all_rows (t : list cell) : list (list cell) := flat_map rows_of (slices t).
Definition fill_forward_gaps (res_opt : option Z) (none : bool) (t : list cell) : result (list cell) :=
  match t with
  | [] => Ok []
  | _ =>
      let res := match res_opt with
                 | Some r => Ok (Some r)
                 | None => eval_date_resolution t
                 end in
      match res with
      | Err e => Err e
      | Ok None => Err TypeError                        (* lag + None *)
      | Ok (Some r) =>
          if r =? 0 then Err ValueError                 (* range() step 0 *)
          else if r <? 0 then Ok t
          else concat_results (map (fill_row r none) (all_rows t))
      end
  end.

(* ------------------------------------------------------------------ backfill *)
Definition zero := VNum (Num false 0).
Fixpoint set_statics (statics : list str) (src vals : list (str * value)) : result (list (str * value)) :=
  match statics with
  | [] => Ok vals
  | f :: r => match assoc f src with
              | Some v => set_statics r src (dict_set f v vals)
              | None => Err KeyError                     (* first_cell.values[field] *)
              end
  end.
Definition backfill_values (statics : list str) (c : cell) : result (list (str * value)) :=
  set_statics statics (cvals c) (map (fun kv => (fst kv, zero)) (cvals c)).
(* the constructor's checks that can fail when the evaluation date moves back *)
Definition valid_back (c : cell) (d : Z) : bool :=
  (ps c <=? d) && match prev c with Some p => p <? d | None => true end.
Fixpoint take_while {A} (f : A -> bool) (l : list A) : list A :=
  match l with [] => [] | x :: r => if f x then x :: take_while f r else [] end.
(* lags current - res, current - 2 res, ... while >= max(min_dev_lag, min_allowed) *)
Definition back_lags (current res bound : Z) : list Z :=
  if current - res <? bound then []
  else map (fun k => current - (Z.of_nat k + 1) * res) (seq 0 (Z.to_nat ((current - res - bound) / res + 1))).
Definition backfill_cells (res bound : Z) (vals : list (str * value)) (c : cell) : list cell :=
  let ds := take_while (valid_back c) (map (fun l => addm (pe c) l) (back_lags (mlag c) res bound)) in
  rev (map (fun d => mkCell (ckind c) (ps c) (pe c) d (prev c) (cmeta c) vals) ds).
Fixpoint bf_go (res bound : Z) (statics : list str) (seen : list (Z * Z)) (t : list cell)
  : result (list cell) :=
  match t with
  | [] => Ok []
  | c :: r =>
      if existsb (zpair_eqb (period c)) seen then
        match bf_go res bound statics seen r with Ok l => Ok (c :: l) | Err e => Err e end
      else
        match backfill_values statics c with
        | Err e => Err e
        | Ok vals =>
            match bf_go res bound statics (period c :: seen) r with
            | Ok l => Ok (backfill_cells res bound vals c ++ c :: l)
            | Err e => Err e
            end
        end
  end.
Definition backfill (statics : list str) (res_opt : option Z) (min_lag : Z) (t : list cell)
  : result (list cell) :=
  match period_resolution t with
  | Err e => Err e
  | Ok None => Err TypeError
  | Ok (Some pres) =>
      let res := match res_opt with Some r => Ok (Some r) | None => eval_date_resolution t end in
      match res with
      | Err e => Err e
      | Ok None =>                                      (* first period row: values first, then lag - None *)
          match periods t with
          | [] => Ok t
          | p :: _ => match filter (in_period p) t with
                      | [] => Ok t
                      | c :: _ => match backfill_values statics c with
                                  | Err e => Err e
                                  | Ok _ => Err TypeError
                                  end
                      end
          end
      | Ok (Some r) =>
          if r <=? 0 then Err OtherError                (* the loop would not terminate: not modelled *)
          else bf_go r (Z.max min_lag (- pres + 1)) statics [] t
      end
  end.

(* ------------------------------------------------------------------ executable specifications
   evaluated by the tie on the IMPLEMENTATION's outputs *)
Definition coord_eqb (a b : cell) : bool :=
  meta_pyeq (cmeta a) (cmeta b) && zpair_eqb (period a) (period b) && (ev a =? ev b).
Definition occupied (t : list cell) (c : cell) : bool := existsb (coord_eqb c) t.
Definition row_of_cell (t : list cell) (c : cell) : list cell :=
  filter (fun d => meta_pyeq (cmeta c) (cmeta d) && zpair_eqb (period c) (period d)) t.
Definition latest_ev (row : list cell) : Z := match row with [] => 0 | c :: r => list_max (map ev r) (ev c) end.
Definition list_min (l : list Z) (d : Z) : Z := fold_left Z.min l d.
Definition earliest_ev (row : list cell) : Z := match row with [] => 0 | c :: r => list_min (map ev r) (ev c) end.
Definition empty_vals (c : cell) : bool := match cvals c with [] => true | _ => false end.
(* observed cells survive unchanged *)
Definition keeps_observed_b (t out : list cell) : bool := forallb (fun c => existsb (cell_seqb c) out) t.
(* right triangle / diagonal: only new cells, each strictly after its row's latest observation,
   carrying the row's metadata, empty values, same basis *)
Definition right_new_cells_b (t out : list cell) : bool :=
  forallb (fun c =>
    negb (occupied t c)
    && match row_of_cell t c with
       | [] => false
       | d :: _ as row => (latest_ev row <? ev c)
                          && meta_seqb (cmeta c) (cmeta (if is_incremental t then d else fold_left later row d))
       end
    && empty_vals c && Bool.eqb (is_inc c) (is_incremental t)) out.
(* the lags supplied for each edge cell are exactly the wanted lags above the edge lag *)
Definition right_lags_exact_b (u : unit_) (lags : option (list Z)) (t out : list cell) : bool :=
  forallb (fun s =>
    forallb (fun e =>
      let got := sort_u Z.ltb (map (cell_lag u) (row_of_cell out e)) in
      let want := sort_u Z.ltb (filter (lag_above (cell_lag u e)) (slice_lags u lags s)) in
      list_eqb Z.eqb got want) (edges s)) (slices t).
(* incremental chain: within each new row, prev of the first = the edge's evaluation date, then
   prev = previous evaluation date *)
Fixpoint chained_b (prev_ev : Z) (row : list cell) : bool :=
  match row with [] => true | c :: r => opt_eqb Z.eqb (prev c) (Some prev_ev) && chained_b (ev c) r end.
Definition right_chain_b (t out : list cell) : bool :=
  if is_incremental t then
    forallb (fun e => chained_b (ev e) (row_of_cell out e)) (right_edge t)
  else forallb (fun c => match prev c with None => true | Some _ => false end) out.

(* ------------------------------------------------------------------ descriptions of the decision
   tokens regenerated from the source by translate/t_acc.py (GenExt.v) *)
Inductive lag_operand := WantedLag | EdgeLag.
Record lagcmp_desc := mkLagCmp { lc_left : lag_operand; lc_op : cmpop; lc_right : lag_operand }.
Definition eval_lag_operand (o : lag_operand) (edge_lag lag : Z) : Z :=
  match o with WantedLag => lag | EdgeLag => edge_lag end.
Definition eval_lagcmp (d : lagcmp_desc) (edge_lag lag : Z) : bool :=
  eval_cmpop (lc_op d) (eval_lag_operand (lc_left d) edge_lag lag) (eval_lag_operand (lc_right d) edge_lag lag).
(* the two spellings of `dev_lag > cell.dev_lag(unit)` *)
Definition lagcmp_spec_ok (d : lagcmp_desc) : bool :=
  match d with
  | mkLagCmp WantedLag CGt EdgeLag | mkLagCmp EdgeLag CLt WantedLag => true
  | _ => false
  end.
(* right_edge takes row[-1] *)
Definition edge_index_ok (i : Z) : bool := i =? -1.
