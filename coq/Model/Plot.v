(** C20 -- plot data (bermuda/plot.py: build_plot_data, FieldSummary, COMMON_METRIC_DICT).
    Executable definitions only, exact arithmetic over Q.

    What is modelled: the record list (one record per cell, in cell order, with _core_plot_data
    coordinates), the per-row (cell, prev, next) evaluation of the metric table, scalar / sample
    summaries (mean, median, min, max, quantiles with NumPy's default linear interpolation).
    Not modelled: sd (irrational; numeric check only), tooltip / unit / last_lag / resolution entries,
    keep_samples, flat=True, Altair.  Division by a zero denominator inside a sample array (NumPy gives
    inf/nan) and empty sample arrays (np.min raises) are outside the model: evaluation yields None.

    The decision-carrying tables come from T-plot as a [pdesc]: dataclass field order, the literal of
    FieldSummary.quantiles(), the positional argument order of from_metric, the metric lambdas as
    expression trees, which row iterator build_plot_data uses, the coordinate keys. *)
From Coq Require Import ZArith QArith Qabs Qround List Bool String Ascii.
From Bermuda Require Import Model.Base.
Import ListNotations.
Local Open Scope Q_scope.

Definition str_of_string (x : string) : str :=
  List.map (fun a => Z.of_N (N_of_ascii a)) (list_ascii_of_string x).

(* ------------------------------------------------------------------ data *)
Inductive pval := PNum (q : Q) | PArr (l : list Q) | PNoneV.
Record pcell := mkPCell {
  pc_slice : Z;            (* which metadata (slice) the cell belongs to *)
  pc_ps : Z; pc_pe : Z; pc_ev : Z;      (* ordinals *)
  pc_lag : Q;              (* cell.dev_lag() -- date arithmetic is C12's subject; an input here *)
  pc_vals : list (str * pval) }.

(* ------------------------------------------------------------------ description (generated) *)
Inductive who := Cur | Prev | Next.
Inductive bop := OAdd | OSub | OMul | ODiv.
Inductive mexpr := MField (w : who) (f : str) | MConst (z : Z) | MBin (op : bop) (a b : mexpr).
Inductive stat := SMean | SMedian | SStd | SMin | SMax.
Inductive farg := FName | FMetric | FStat (s : stat) | FStarQuantiles.
Record pdesc := mkPDesc {
  D_fields : list str;                       (* FieldSummary dataclass fields, in order *)
  D_probs : list Q;                          (* the literal returned by FieldSummary.quantiles() *)
  D_args : list farg;                        (* positional arguments of cls(...) in from_metric *)
  D_metrics : list (str * (nat * mexpr));    (* COMMON_METRIC_DICT: name, lambda arity, body *)
  D_rows : str;                              (* the Triangle attribute the rows come from *)
  D_core : list (str * str);                 (* _core_plot_data: record key, cell attribute/method *)
  D_records_over : str }.                    (* what `plot_data` iterates over *)

(* ------------------------------------------------------------------ statistics over Q *)
Fixpoint qinsert (x : Q) (l : list Q) : list Q :=
  match l with [] => [x] | y :: r => if Qle_bool x y then x :: l else y :: qinsert x r end.
Definition qsort (l : list Q) : list Q := fold_right qinsert [] l.

(* piecewise-linear interpolation through the sorted sample at (fractional) position h >= 0:
   NumPy's default ("linear") method: s[floor h] + (h - floor h) * (s[floor h + 1] - s[floor h]) *)
Fixpoint interp (s : list Q) (h : Q) : Q :=
  match s with
  | [] => 0
  | a :: r => match r with
              | [] => a
              | b :: _ => if Qle_bool 1 h then interp r (h - 1) else a + h * (b - a)
              end
  end.
Definition qlen (l : list Q) : Q := inject_Z (Z.of_nat (List.length l)).
(* np.quantile(xs, p) *)
Definition quantile (xs : list Q) (p : Q) : Q := interp (qsort xs) ((qlen xs - 1) * p).
Definition qsum (l : list Q) : Q := fold_right Qplus 0 l.
Definition mean (xs : list Q) : Q := qsum xs / qlen xs.
Definition median (xs : list Q) : Q := quantile xs (1 # 2).
Definition qmin (xs : list Q) : Q := quantile xs 0.
Definition qmax (xs : list Q) : Q := quantile xs 1.

(* ------------------------------------------------------------------ bindings of summary fields *)
Inductive bound := BName | BMetric | BStat (s : stat) | BQuant (p : Q).
Definition expand (d : pdesc) : list bound :=
  flat_map (fun a => match a with
                     | FName => [BName] | FMetric => [BMetric] | FStat s => [BStat s]
                     | FStarQuantiles => map BQuant (D_probs d) end) (D_args d).
Definition bindings (d : pdesc) : list (str * bound) := combine (D_fields d) (expand d).

(* the number written in a field name: "q2_5" -> 2.5 % = 1/40, "q50" -> 1/2 *)
Definition is_digit (c : Z) : bool := (48 <=? c)%Z && (c <=? 57)%Z.
Fixpoint digits_val (acc : Z) (l : list Z) : option (Z * list Z) :=   (* value, rest *)
  match l with
  | c :: r => if is_digit c then digits_val (10 * acc + (c - 48))%Z r else Some (acc, l)
  | [] => Some (acc, [])
  end.
Fixpoint pow10 (n : nat) : Z := match n with O => 1%Z | S k => (10 * pow10 k)%Z end.
Definition label_prob (name : str) : option Q :=
  match name with
  | 113%Z :: c :: r =>          (* 'q' digit... *)
      if is_digit c then
        match digits_val 0%Z (c :: r) with
        | Some (i, []) => Some (inject_Z i / 100)
        | Some (i, 95%Z :: f) =>          (* '_' fractional digits *)
            match f with
            | [] => None
            | _ => if forallb is_digit f then
                     match digits_val 0%Z f with
                     | Some (fr, []) => Some ((inject_Z i + inject_Z fr / inject_Z (pow10 (List.length f))) / 100)
                     | _ => None end
                   else None
            end
        | _ => None
        end
      else None
  | _ => None
  end.
Definition stat_name (s : stat) : str :=
  match s with
  | SMean => str_of_string "mean" | SMedian => str_of_string "median" | SStd => str_of_string "sd"
  | SMin => str_of_string "min" | SMax => str_of_string "max"
  end.
Definition is_stat_field (f : str) : bool :=
  existsb (fun s => str_eqb f (stat_name s)) [SMean; SMedian; SStd; SMin; SMax]
  || match label_prob f with Some _ => true | None => false end.
Definition binding_ok (b : str * bound) : bool :=
  match snd b with
  | BName => str_eqb (fst b) (str_of_string "field")
  | BMetric => str_eqb (fst b) (str_of_string "metric")
  | BStat s => str_eqb (fst b) (stat_name s)
  | BQuant p => match label_prob (fst b) with
                | Some l => Qeq_bool l p && Qle_bool 0 p && Qle_bool p 1
                | None => false end
  end.
(* every positional argument lands on the field whose name states what it is; every statistic field
   of the dataclass is filled *)
Definition labels_ok (d : pdesc) : bool :=
  forallb binding_ok (bindings d)
  && forallb (fun f => negb (is_stat_field f) || existsb (fun b => str_eqb f (fst b)) (bindings d)) (D_fields d)
  && (List.length (expand d) <=? List.length (D_fields d))%nat.

(* value of one summary field of a sample array (sd is not modelled) *)
Definition bound_value (xs : list Q) (b : bound) : option Q :=
  match b with
  | BStat SMean => Some (mean xs) | BStat SMedian => Some (median xs) | BStat SMin => Some (qmin xs)
  | BStat SMax => Some (qmax xs) | BQuant p => Some (quantile xs p) | _ => None
  end.
Definition summary_field (d : pdesc) (xs : list Q) (f : str) : option Q :=
  match assoc f (bindings d) with Some b => bound_value xs b | None => None end.
Definition summarise (d : pdesc) (xs : list Q) : list (str * Q) :=
  flat_map (fun b => match bound_value xs (snd b) with Some v => [(fst b, v)] | None => [] end) (bindings d).

(* ------------------------------------------------------------------ metric evaluation *)
Definition field_of (c : option pcell) (f : str) : option pval :=
  match c with
  | None => None                                   (* None["x"]: TypeError -> no summary *)
  | Some c => match assoc f (pc_vals c) with
              | Some PNoneV | None => None         (* KeyError / arithmetic on None -> no summary *)
              | Some v => Some v end
  end.
Definition qop (op : bop) (a b : Q) : option Q :=
  match op with
  | OAdd => Some (a + b) | OSub => Some (a - b) | OMul => Some (a * b)
  | ODiv => if Qeq_bool b 0 then None else Some (a / b)
  end.
Fixpoint opt_all {A} (l : list (option A)) : option (list A) :=
  match l with
  | [] => Some []
  | Some x :: r => match opt_all r with Some xs => Some (x :: xs) | None => None end
  | None :: _ => None
  end.
Fixpoint zip_with {A} (f : A -> A -> option A) (a b : list A) : option (list (option A)) :=
  match a, b with
  | [], [] => Some []
  | x :: r, y :: s => match zip_with f r s with Some t => Some (f x y :: t) | None => None end
  | _, _ => None
  end.
Definition vop (op : bop) (a b : pval) : option pval :=
  match a, b with
  | PNum x, PNum y => option_map PNum (qop op x y)
  | PNum x, PArr l => option_map PArr (opt_all (map (fun y => qop op x y) l))
  | PArr l, PNum y => option_map PArr (opt_all (map (fun x => qop op x y) l))
  | PArr l1, PArr l2 => match zip_with (qop op) l1 l2 with
                        | Some r => option_map PArr (opt_all r) | None => None end
  | _, _ => None
  end.
Fixpoint eval (e : mexpr) (c : pcell) (p n : option pcell) : option pval :=
  match e with
  | MField Cur f => field_of (Some c) f
  | MField Prev f => field_of p f
  | MField Next f => field_of n f
  | MConst z => Some (PNum (inject_Z z))
  | MBin op a b => match eval a c p n, eval b c p n with
                   | Some x, Some y => vop op x y | _, _ => None end
  end.

(* the entries of one metric's summary that the model determines, in dataclass order *)
Definition metric_summary (d : pdesc) (v : option pval) : option (list (str * Q)) :=
  match v with
  | Some (PNum q) => Some [(stat_name SMean, q)]
  | Some (PArr [x]) => Some [(stat_name SMean, x)]
  | Some (PArr (x :: y :: r)) => Some (summarise d (x :: y :: r))
  | _ => None
  end.
Definition snake (name : str) : str :=
  map (fun c => if (c =? 32)%Z then 95%Z else if (65 <=? c)%Z && (c <=? 90)%Z then (c + 32)%Z else c) name.
Definition cell_summaries (d : pdesc) (c : pcell) (p n : option pcell) : list (str * list (str * Q)) :=
  flat_map (fun m => match metric_summary d (eval (snd (snd m)) c p n) with
                     | Some s => [(snake (fst m), s)] | None => [] end) (D_metrics d).

(* ------------------------------------------------------------------ rows and neighbours *)
Definition by_slice (d : pdesc) : bool := str_eqb (D_rows d) (str_of_string "slice_period_rows").
Definition same_row (bs : bool) (a b : pcell) : bool :=
  (if bs then (pc_slice a =? pc_slice b)%Z else true) && (pc_ps a =? pc_ps b)%Z && (pc_pe a =? pc_pe b)%Z.
Fixpoint row_add (bs : bool) (c : pcell) (rows : list (list pcell)) : list (list pcell) :=
  match rows with
  | [] => [[c]]
  | r :: rest => match r with
                 | [] => [c] :: rest
                 | h :: _ => if same_row bs h c then (r ++ [c]) :: rest else r :: row_add bs c rest
                 end
  end.
Definition group_rows (bs : bool) (t : list pcell) : list (list pcell) :=
  fold_left (fun rows c => row_add bs c rows) t [].
(* sorted(row, key=evaluation_date): stable insertion sort *)
Fixpoint ev_insert (c : pcell) (l : list pcell) : list pcell :=
  match l with [] => [c] | y :: r => if (pc_ev c <? pc_ev y)%Z then c :: l else y :: ev_insert c r end.
Definition ev_sort (l : list pcell) : list pcell := fold_left (fun acc c => ev_insert c acc) l [].
Definition rows (d : pdesc) (t : list pcell) : list (list pcell) := map ev_sort (group_rows (by_slice d) t).
(* zip(row, [None, *row[:-1]], [*row[1:], None]) *)
Fixpoint triples_from (prev : option pcell) (row : list pcell) : list (pcell * option pcell * option pcell) :=
  match row with
  | [] => []
  | c :: r => (c, prev, match r with [] => None | n :: _ => Some n end) :: triples_from (Some c) r
  end.
Definition all_triples (d : pdesc) (t : list pcell) : list (pcell * option pcell * option pcell) :=
  flat_map (triples_from None) (rows d t).

(* ------------------------------------------------------------------ records *)
Definition pval_eqb (a b : pval) : bool :=
  match a, b with
  | PNum x, PNum y => Qeq_bool x y | PNoneV, PNoneV => true
  | PArr x, PArr y => list_eqb Qeq_bool x y | _, _ => false
  end.
Definition pcell_eqb (a b : pcell) : bool :=      (* Cell.__eq__: coordinates, metadata, values *)
  (pc_slice a =? pc_slice b)%Z && (pc_ps a =? pc_ps b)%Z && (pc_pe a =? pc_pe b)%Z && (pc_ev a =? pc_ev b)%Z
  && list_eqb (pair_eqb str_eqb pval_eqb) (pc_vals a) (pc_vals b).
(* field_summaries is a dict keyed by the cell: the last entry with an equal key wins *)
Fixpoint lookup_last {V} (c : pcell) (tbl : list (pcell * V)) (dflt : V) : V :=
  match tbl with
  | [] => dflt
  | (k, v) :: r => lookup_last c r (if pcell_eqb c k then v else dflt)
  end.
Definition summary_table (d : pdesc) (t : list pcell) : list (pcell * list (str * list (str * Q))) :=
  map (fun x => let '(c, p, n) := x in (c, cell_summaries d c p n)) (all_triples d t).
Record precord := mkRec {
  r_ps : Z; r_pe : Z; r_ev : Z; r_lag : Q;
  r_summaries : list (str * list (str * Q)) }.
Definition build_plot_data (d : pdesc) (t : list pcell) : list precord :=
  let tbl := summary_table d t in
  map (fun c => mkRec (pc_ps c) (pc_pe c) (pc_ev c) (pc_lag c) (lookup_last c tbl [])) t.

(* ------------------------------------------------------------------ the standard description *)
Definition STR := str_of_string.
Definition fld (w : who) (x : string) : mexpr := MField w (STR x).
Definition ratio100 (loss : string) : mexpr :=
  MBin ODiv (MBin OMul (MConst 100) (fld Cur loss)) (fld Cur "earned_premium").
Definition ata (loss : string) : mexpr := MBin ODiv (fld Next loss) (fld Cur loss).
Definition std_desc : pdesc := {|
  D_fields := map STR ["field"; "metric"; "mean"; "median"; "sd"; "min"; "max"; "q2_5"; "q5"; "q10"; "q20";
                     "q50"; "q80"; "q90"; "q95"; "q97_5"; "is_forecast"; "keep_samples"]%string;
  D_probs := [25 # 1000; 5 # 100; 1 # 10; 2 # 10; 5 # 10; 8 # 10; 9 # 10; 95 # 100; 975 # 1000];
  D_args := [FName; FMetric; FStat SMean; FStat SMedian; FStat SStd; FStat SMin; FStat SMax; FStarQuantiles];
  D_metrics := [
    (STR "Paid Loss Ratio", (1%nat, ratio100 "paid_loss"));
    (STR "Reported Loss Ratio", (1%nat, ratio100 "reported_loss"));
    (STR "Incurred Loss Ratio", (1%nat, ratio100 "incurred_loss"));
    (STR "Paid Loss", (1%nat, fld Cur "paid_loss"));
    (STR "Reported Loss", (1%nat, fld Cur "reported_loss"));
    (STR "Incurred Loss", (1%nat, fld Cur "incurred_loss"));
    (STR "Earned Premium", (1%nat, fld Cur "earned_premium"));
    (STR "Reported Claims", (1%nat, fld Cur "reported_claims"));
    (STR "Paid ATA", (3%nat, ata "paid_loss"));
    (STR "Reported ATA", (3%nat, ata "reported_loss"));
    (STR "Paid Incremental ATA", (3%nat, MBin OSub (ata "paid_loss") (MConst 1)));
    (STR "Reported Incremental ATA", (3%nat, MBin OSub (ata "reported_loss") (MConst 1)))];
  D_rows := STR "slice_period_rows";
  D_core := [(STR "period_start", STR "period_start"); (STR "period_end", STR "period_end");
             (STR "evaluation_date", STR "evaluation_date"); (STR "dev_lag", STR "dev_lag()")];
  D_records_over := STR "triangle" |}.

(* ------------------------------------------------------------------ Boolean equality of descriptions *)
Definition who_eqb (a b : who) : bool :=
  match a, b with Cur, Cur | Prev, Prev | Next, Next => true | _, _ => false end.
Definition bop_eqb (a b : bop) : bool :=
  match a, b with OAdd, OAdd | OSub, OSub | OMul, OMul | ODiv, ODiv => true | _, _ => false end.
Fixpoint mexpr_eqb (a b : mexpr) : bool :=
  match a, b with
  | MField w f, MField w' f' => who_eqb w w' && str_eqb f f'
  | MConst x, MConst y => (x =? y)%Z
  | MBin o x y, MBin o' x' y' => bop_eqb o o' && mexpr_eqb x x' && mexpr_eqb y y'
  | _, _ => false
  end.
Definition stat_eqb (a b : stat) : bool :=
  match a, b with SMean, SMean | SMedian, SMedian | SStd, SStd | SMin, SMin | SMax, SMax => true | _, _ => false end.
Definition farg_eqb (a b : farg) : bool :=
  match a, b with
  | FName, FName | FMetric, FMetric | FStarQuantiles, FStarQuantiles => true
  | FStat x, FStat y => stat_eqb x y | _, _ => false
  end.
Definition metrics_eqb (a b : list (str * (nat * mexpr))) : bool :=
  list_eqb (fun x y => str_eqb (fst x) (fst y) && Nat.eqb (fst (snd x)) (fst (snd y))
                       && mexpr_eqb (snd (snd x)) (snd (snd y))) a b.
Definition core_eqb (a b : list (str * str)) : bool :=
  list_eqb (fun x y => str_eqb (fst x) (fst y) && str_eqb (snd x) (snd y)) a b.

(* ------------------------------------------------------------------ comparison with the implementation *)
Definition eps : Q := 1 # 1000000000.
Definition close (a b : Q) : bool := Qle_bool (Qabs (a - b)) (eps * (1 + Qabs a)).
Definition stats_close (exact : bool) (m i : list (str * Q)) : bool :=
  list_eqb (fun x y => str_eqb (fst x) (fst y) && (if exact then Qeq_bool (snd x) (snd y) else close (snd x) (snd y))) m i.
(* plain pass-through of a scalar field is compared exactly *)
Definition summaries_close (m i : list (str * list (str * Q))) : bool :=
  list_eqb (fun x y => str_eqb (fst x) (fst y) && stats_close false (snd x) (snd y)) m i.
Definition record_close (m i : precord) : bool :=
  (r_ps m =? r_ps i)%Z && (r_pe m =? r_pe i)%Z && (r_ev m =? r_ev i)%Z && Qeq_bool (r_lag m) (r_lag i)
  && summaries_close (r_summaries m) (r_summaries i).
Definition records_close (m i : list precord) : bool := list_eqb record_close m i.
