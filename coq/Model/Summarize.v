(** Executable model of bermuda/utils/summarize.py: summarize, summarize_cell_values,
    _non_loss_distinct_indices, _conforming_sum, _metadata_gcd, _details_gcd, _metadata_attr_gcd,
    and of bermuda/base/metadata.py: common_metadata / _first_if_equal (+ Triangle.common_metadata).
    Definitions only (proofs: Proofs/Summarize*.v).

    The rule registry SUMMARIZE_DEFAULTS / NON_LOSS_METRICS is a PARAMETER (`rules`, `nl`): the
    concrete table is generated from /repo at check time by translate/t_rules.py (GenRules.v).

    Ratio fields (RWAvg) divide; they are kept SYMBOLIC: the model takes an oracle
    [wavg : transform -> list value -> list value -> result value] standing for
    _conforming_weighted_average(values, weights, post_transform).  Every theorem holds for every
    oracle; which key and which weight key are handed to the oracle is what is proved.  The
    numerical value is checked in the harness against exact rational arithmetic (1e-9 relative).

    Python sets (value_keys, common_keys) have no modelled iteration order: the model uses
    first-occurrence order and all comparisons of value dicts / detail dicts are order-insensitive. *)
From Coq Require Import ZArith List Bool.
From Bermuda Require Import Model.Base.
Import ListNotations.
Local Open Scope Z_scope.

(* ------------------------------------------------------------------ rule table *)
Inductive transform := TId | TExpLog.      (* TExpLog: log (wavg (exp values) weights) *)
Inductive rule :=
| RSum (key : str)                                  (* _conforming_sum(vd[key]) *)
| RWAvg (key weight : str) (tr : transform)         (* _conforming_weighted_average(vd[key], vd[weight]) *)
| ROther.                                           (* anything the prober could not classify *)
Definition rule_table := list (str * rule).

Definition transform_eqb (a b : transform) : bool :=
  match a, b with TId, TId | TExpLog, TExpLog => true | _, _ => false end.
Definition rule_eqb (a b : rule) : bool :=
  match a, b with
  | RSum k, RSum k' => str_eqb k k'
  | RWAvg k w t, RWAvg k' w' t' => str_eqb k k' && str_eqb w w' && transform_eqb t t'
  | ROther, ROther => true
  | _, _ => false
  end.

(* str.lower() restricted to ASCII letters (every registered name is ASCII) *)
Definition lower (s : str) : str :=
  map (fun b => if (65 <=? b) && (b <=? 90) then b + 32 else b) s.

Definition mem_str (k : str) (l : list str) : bool := existsb (str_eqb k) l.

(* ------------------------------------------------------------------ _conforming_sum *)
Definition zip_add (xs ys : list Z) : list Z := map (fun p => fst p + snd p) (combine xs ys).

(* one step  `total += val`  of _conforming_sum (shape check first, then numpy's in-place
   casting rule: an int64 array cannot absorb a float) *)
Definition value_add (total v : value) : result value :=
  match v with
  | VNone => Ok total
  | VNum b =>
      match total with
      | VNum a => Ok (VNum (num_add a b))
      | VArr f xs => if negb f && num_isf b then Err TypeError
                     else Ok (VArr f (map (fun x => x + num_n b) xs))
      | VNone => Err OtherError
      end
  | VArr g ys =>
      match total with
      | VNum a => Ok (VArr (num_isf a || g) (map (fun y => num_n a + y) ys))
      | VArr f xs => if negb (Nat.eqb (length xs) (length ys)) then Err ValueError
                     else if negb f && g then Err TypeError
                     else Ok (VArr f (zip_add xs ys))
      | VNone => Err OtherError
      end
  end.

Definition vzero : value := VNum (Num false 0).
Fixpoint sum_from (total : value) (vals : list value) : result value :=
  match vals with
  | [] => Ok total
  | v :: r => match value_add total v with Ok t' => sum_from t' r | Err e => Err e end
  end.
Definition conforming_sum (vals : list value) : result value := sum_from vzero vals.

(* ------------------------------------------------------------------ summarize_cell_values *)
Fixpoint nodup_str (l : list str) : list str :=
  match l with
  | [] => []
  | k :: r => k :: filter (fun k' => negb (str_eqb k' k)) (nodup_str r)
  end.
(* value_keys = set(k for cell in cells for k in cell.values)  -- first-occurrence order *)
Definition union_keys (cells : list cell) : list str :=
  nodup_str (flat_map (fun c => keys (cvals c)) cells).
(* cell_raw_values[key] = [cell.values.get(key, None) for cell in cells] *)
Definition getv (k : str) (c : cell) : value :=
  match assoc k (cvals c) with Some v => v | None => VNone end.
Definition raw (k : str) (cells : list cell) : list value := map (getv k) cells.

(* Python == on metadata values: bool/int/float compare numerically, None == None *)
Definition mval_num (v : mval) : option Z :=
  match v with MNum x => Some (num_n x) | MBool b => Some (if b then 1024 else 0) | _ => None end.
Definition mval_pyeq (a b : mval) : bool :=
  match mval_num a, mval_num b with
  | Some x, Some y => x =? y
  | None, None =>
      match a, b with
      | MStr x, MStr y => str_eqb x y
      | MDate x, MDate y => x =? y
      | MNone, MNone => true
      | _, _ => false
      end
  | _, _ => false
  end.
(* dict == dict : same key set, values == *)
Definition dict_pyeq (a b : list (str * mval)) : bool :=
  Nat.eqb (length a) (length b)
  && forallb (fun kv => match assoc (fst kv) b with Some v => mval_pyeq (snd kv) v | None => false end) a.
Definition opt_pyeq {A} (eqb : A -> A -> bool) (a b : option A) : bool := opt_eqb eqb a b.

(* replace(meta, loss_details={}, per_occurrence_limit=max_limit) == ... : the limit is the same
   in every generic metadata, so it and loss_details play no part in the comparison *)
Definition generic_meta_pyeq (a b : meta) : bool :=
  opt_eqb str_eqb (risk_basis a) (risk_basis b) && opt_eqb str_eqb (country a) (country b)
  && opt_eqb str_eqb (currency a) (currency b)
  && opt_eqb str_eqb (reinsurance_basis a) (reinsurance_basis b)
  && opt_eqb str_eqb (loss_definition a) (loss_definition b)
  && dict_pyeq (details a) (details b).

(* _non_loss_distinct_indices: indices whose generic metadata was not seen before *)
Fixpoint distinct_idx_from (i : nat) (seen : list meta) (cells : list cell) : list nat :=
  match cells with
  | [] => []
  | c :: r => if existsb (generic_meta_pyeq (cmeta c)) seen then distinct_idx_from (S i) seen r
              else i :: distinct_idx_from (S i) (seen ++ [cmeta c]) r
  end.
Definition non_loss_distinct_indices (cells : list cell) : list nat := distinct_idx_from O [] cells.
(* [elem for idx, elem in enumerate(values) if idx in non_loss_indices] *)
Fixpoint select_idx_from {A} (i : nat) (idxs : list nat) (l : list A) : list A :=
  match l with
  | [] => []
  | a :: r => if existsb (Nat.eqb i) idxs then a :: select_idx_from (S i) idxs r
              else select_idx_from (S i) idxs r
  end.

Fixpoint map_result {A B} (f : A -> result B) (l : list A) : result (list B) :=
  match l with
  | [] => Ok []
  | a :: r => match f a with
              | Err e => Err e
              | Ok b => match map_result f r with Ok bs => Ok (b :: bs) | Err e => Err e end
              end
  end.

Section WithOracle.
  Variable wavg : transform -> list value -> list value -> result value.
  Variable rules : rule_table.
  Variable nl : list str.                     (* NON_LOSS_METRICS *)

  Definition lookup_rule (k : str) : option rule := assoc (lower k) rules.

  (* agg_fns[key.lower()](cell_raw_values): vd[k'] raises KeyError for a key no cell holds *)
  Definition vd (vkeys : list str) (cells : list cell) (k : str) : result (list value) :=
    if mem_str k vkeys then Ok (raw k cells) else Err KeyError.
  Definition eval_rule (r : rule) (vkeys : list str) (cells : list cell) : result value :=
    match r with
    | RSum k => bind (vd vkeys cells k) conforming_sum
    | RWAvg k w tr => bind (vd vkeys cells k) (fun vs => bind (vd vkeys cells w) (fun ws => wavg tr vs ws))
    | ROther => Err OtherError
    end.
  Definition eval_key (vkeys : list str) (cells : list cell) (k : str) : result (str * value) :=
    match lookup_rule k with
    | None => Err TriangleError
    | Some r => bind (eval_rule r vkeys cells) (fun v => Ok (k, v))
    end.
  Definition keys_registered (vkeys : list str) : bool :=
    forallb (fun k => match lookup_rule k with Some _ => true | None => false end) vkeys.

  Definition summarize_cell_values (prem : bool) (cells : list cell) : result (list (str * value)) :=
    let vkeys := union_keys cells in
    if negb (keys_registered vkeys) then Err TriangleError
    else if prem then map_result (eval_key vkeys cells) vkeys
    else
      let loss_keys := filter (fun k => negb (mem_str k nl)) vkeys in
      let non_loss_keys := filter (fun k => mem_str k nl) vkeys in
      let idxs := non_loss_distinct_indices cells in
      bind (map_result (eval_key vkeys cells) loss_keys) (fun loss =>
      bind (map_result (fun k => match select_idx_from O idxs (raw k cells) with
                                 | v :: _ => Ok (k, v)
                                 | [] => Err IndexError
                                 end) non_loss_keys) (fun nonloss =>
      Ok (loss ++ nonloss))).

  (* ---------------------------------------------------------------- metadata gcd *)
  (* _metadata_attr_gcd: first value if every cell's value == it, else None *)
  Definition attr_gcd {A} (eqb : A -> A -> bool) (vals : list (option A)) : option A :=
    match vals with
    | [] => None
    | v0 :: _ => if forallb (fun v => opt_pyeq eqb v v0) vals then v0 else None
    end.
  (* _details_gcd *)
  Definition detail_shared (others : list (list (str * mval))) (kv : str * mval) : bool :=
    forallb (fun d => match assoc (fst kv) d with Some v => mval_pyeq v (snd kv) | None => false end) others
    && negb (mval_seqb (snd kv) MNone).
  Definition details_gcd (dicts : list (list (str * mval))) : list (str * mval) :=
    match dicts with
    | [] => []
    | d0 :: others => filter (detail_shared others) d0
    end.
  (* has_consistent_X: len({cell.metadata.X for cell in cells}) == 1 *)
  Definition consistent {A} (eqb : A -> A -> bool) (vals : list (option A)) : bool :=
    match vals with
    | [] => false
    | v0 :: r => forallb (fun v => opt_eqb eqb v v0) r
    end.
  Definition metadata_gcd (t : list cell) : result meta :=
    let ms := map cmeta t in
    if negb (consistent str_eqb (map risk_basis ms)) then Err TriangleError
    else if negb (consistent str_eqb (map currency ms)) then Err TriangleError
    else match ms with
         | [] => Err IndexError
         | m0 :: _ =>
             Ok (mkMeta (risk_basis m0)
                        (attr_gcd str_eqb (map country ms))
                        (currency m0)
                        (attr_gcd str_eqb (map reinsurance_basis ms))
                        (attr_gcd str_eqb (map loss_definition ms))
                        (attr_gcd num_eqb (map per_occurrence_limit ms))
                        (details_gcd (map details ms))
                        (details_gcd (map loss_details ms)))
         end.

  (* ---------------------------------------------------------------- summarize *)
  Definition coord := (Z * Z * Z * option Z)%type.     (* period, evaluation date, prev *)
  Definition coord_eqb (a b : coord) : bool :=
    let '(a1, a2, a3, a4) := a in let '(b1, b2, b3, b4) := b in
    (a1 =? b1) && (a2 =? b2) && (a3 =? b3) && opt_eqb Z.eqb a4 b4.
  Definition coord_of (inc : bool) (c : cell) : coord :=
    (ps c, pe c, ev c, if inc then prev c else None).

  (* tlz.groupby: dict of lists, keys in first-occurrence order, members in input order *)
  Fixpoint gb_insert {K A} (eqb : K -> K -> bool) (k : K) (a : A) (d : list (K * list A)) : list (K * list A) :=
    match d with
    | [] => [(k, [a])]
    | (k', l) :: r => if eqb k k' then (k', l ++ [a]) :: r else (k', l) :: gb_insert eqb k a r
    end.
  Definition groupby {K A} (eqb : K -> K -> bool) (key : A -> K) (l : list A) : list (K * list A) :=
    fold_left (fun d a => gb_insert eqb (key a) a d) l [].

  Definition tri_is_incremental (t : list cell) : bool :=
    match t with c :: _ => is_inc c | [] => false end.

  Definition summary_cell (inc : bool) (m : meta) (k : coord) (vals : list (str * value)) : cell :=
    let '(s, e, v, p) := k in
    mkCell (if inc then KInc else KCum) s e v (if inc then p else None) m vals.

  Definition summarize (prem : bool) (t : list cell) : result (list cell) :=
    bind (metadata_gcd t) (fun m =>
    let inc := tri_is_incremental t in
    map_result (fun g => bind (summarize_cell_values (if inc then true else prem) (snd g))
                              (fun vals => Ok (summary_cell inc m (fst g) vals)))
               (groupby coord_eqb (coord_of inc) t)).

  (* ---------------------------------------------------------------- metadata.common_metadata *)
  Definition first_if_equal {A} (eqb : A -> A -> bool) (a b : option A) : option A :=
    if opt_pyeq eqb a b then a else None.
  Definition common_metadata (m1 m2 : meta) : meta :=
    mkMeta (first_if_equal str_eqb (risk_basis m1) (risk_basis m2))
           (first_if_equal str_eqb (country m1) (country m2))
           (first_if_equal str_eqb (currency m1) (currency m2))
           (first_if_equal str_eqb (reinsurance_basis m1) (reinsurance_basis m2))
           (first_if_equal str_eqb (loss_definition m1) (loss_definition m2))
           (first_if_equal num_eqb (per_occurrence_limit m1) (per_occurrence_limit m2))
           (filter (fun kv => match assoc (fst kv) (details m2) with
                              | Some v => mval_pyeq (snd kv) v | None => false end) (details m1))
           (* loss_details values are taken from meta2 *)
           (flat_map (fun kv => match assoc (fst kv) (loss_details m2) with
                                | Some v => if mval_pyeq (snd kv) v then [(fst kv, v)] else []
                                | None => [] end) (loss_details m1)).
  (* Triangle.common_metadata over the sorted list of distinct metadata *)
  Definition tri_common_metadata (metas : list meta) : option meta :=
    match metas with
    | [] => None
    | m0 :: r => Some (fold_left common_metadata r m0)
    end.
End WithOracle.

(* oracle used by the correspondence run: ratio results are masked (VNone on both sides); only
   the refusals of _conforming_weighted_average that do not depend on numerics are modelled *)
Definition arr_lens (vs : list value) : list nat :=
  flat_map (fun v => match v with VArr _ xs => [length xs] | _ => [] end) vs.
Definition same_lens (ls : list nat) : bool :=
  match ls with [] => true | n :: r => forallb (Nat.eqb n) r end.
Definition wavg_mask (tr : transform) (vals weights : list value) : result value :=
  let none v := match v with VNone => true | _ => false end in
  let isarr v := match v with VArr _ _ => true | _ => false end in
  if negb (same_lens (arr_lens (vals ++ weights))) then Err ValueError
  else match tr with
  | TExpLog => if existsb none vals then Err TypeError
               else if existsb isarr vals && negb (forallb isarr vals) then Err ValueError
               else if existsb none weights then Err TypeError else Ok VNone
  | TId => if existsb (fun p => negb (none (fst p)) && none (snd p)) (combine vals weights)
           then Err TypeError else Ok VNone
  end.

(* ------------------------------------------------------------------ order-insensitive comparisons *)
Fixpoint remove_first {A} (p : A -> bool) (l : list A) : option (list A) :=
  match l with
  | [] => None
  | a :: r => if p a then Some r
              else match remove_first p r with Some r' => Some (a :: r') | None => None end
  end.
Fixpoint multiset_eqb {A} (eqb : A -> A -> bool) (l1 l2 : list A) : bool :=
  match l1 with
  | [] => match l2 with [] => true | _ => false end
  | a :: r => match remove_first (eqb a) l2 with
              | Some l2' => multiset_eqb eqb r l2'
              | None => false
              end
  end.
Definition vals_ueqb (a b : list (str * value)) : bool := multiset_eqb (pair_eqb str_eqb value_seqb) a b.
Definition det_ueqb (a b : list (str * mval)) : bool := multiset_eqb (pair_eqb str_eqb mval_seqb) a b.
Definition meta_ueqb (a b : meta) : bool :=
  opt_eqb str_eqb (risk_basis a) (risk_basis b) && opt_eqb str_eqb (country a) (country b)
  && opt_eqb str_eqb (currency a) (currency b)
  && opt_eqb str_eqb (reinsurance_basis a) (reinsurance_basis b)
  && opt_eqb str_eqb (loss_definition a) (loss_definition b)
  && opt_eqb num_seqb (per_occurrence_limit a) (per_occurrence_limit b)
  && det_ueqb (details a) (details b) && det_ueqb (loss_details a) (loss_details b).
Definition cell_ueqb (a b : cell) : bool :=
  kind_eqb (ckind a) (ckind b) && (ps a =? ps b) && (pe a =? pe b) && (ev a =? ev b)
  && opt_eqb Z.eqb (prev a) (prev b) && meta_ueqb (cmeta a) (cmeta b)
  && vals_ueqb (cvals a) (cvals b).
Definition cells_ueqb (a b : list cell) : bool := multiset_eqb cell_ueqb a b.
(* exceptions raised while evaluating rules depend on set iteration order when several apply:
   every class other than TriangleError is compared as one class *)
Definition err_loose (a b : err) : bool :=
  match a, b with
  | TriangleError, TriangleError => true
  | TriangleError, _ | _, TriangleError => false
  | _, _ => true
  end.
Definition result_ueqb (a b : result (list cell)) : bool :=
  match a, b with
  | Ok x, Ok y => cells_ueqb x y
  | Err x, Err y => err_loose x y
  | _, _ => false
  end.

(* ------------------------------------------------------------------ executable specification *)
(* the property as a Boolean function of the input and ANY candidate output *)
Section Spec.
  Variable wavg : transform -> list value -> list value -> result value.
  Variable rules : rule_table.
  Variable nl : list str.

  Definition group_of (inc : bool) (k : coord) (t : list cell) : list cell :=
    filter (fun c => coord_eqb (coord_of inc c) k) t.
  Fixpoint nodupb {A} (eqb : A -> A -> bool) (l : list A) : bool :=
    match l with [] => true | a :: r => negb (existsb (eqb a) r) && nodupb eqb r end.

  (* what the property prescribes for key k of the cell summarising group g *)
  Definition expected_value (prem : bool) (g : list cell) (k : str) : option (result value) :=
    match assoc (lower k) rules with
    | Some (RSum k') =>
        if negb prem && mem_str k nl then Some (Ok (match g with c :: _ => getv k c | [] => VNone end))
        else if str_eqb k' k then Some (conforming_sum (raw k g)) else None
    | Some (RWAvg a w tr) =>
        if negb prem && mem_str k nl then Some (Ok (match g with c :: _ => getv k c | [] => VNone end))
        else if mem_str a (union_keys g) && mem_str w (union_keys g) then Some (wavg tr (raw a g) (raw w g)) else None
    | _ => None
    end.
  Definition values_ok (prem : bool) (g : list cell) (vals : list (str * value)) : bool :=
    nodupb str_eqb (keys vals)
    && forallb (fun k => mem_str k (keys vals)) (union_keys g)
    && forallb (fun kv => mem_str (fst kv) (union_keys g)
                          && match expected_value prem g (fst kv) with
                             | Some (Ok v) =>
                                 value_seqb v (snd kv)
                                 (* summarize_premium=False: the property allows ANY existing cell's value
                                    (the code, and the model, take the first cell's) *)
                                 || (negb prem && mem_str (fst kv) nl
                                     && existsb (fun c => value_seqb (getv (fst kv) c) (snd kv)) g)
                             | _ => false
                             end) vals.
  Definition summ_spec_b (prem : bool) (t : list cell) (out : list cell) : bool :=
    let inc := tri_is_incremental t in
    let prem' := if inc then true else prem in
    match metadata_gcd t with
    | Err _ => false
    | Ok m =>
        nodupb coord_eqb (map (coord_of inc) out)
        && forallb (fun c => existsb (fun o => coord_eqb (coord_of inc o) (coord_of inc c)) out) t
        && forallb (fun o =>
             let g := group_of inc (coord_of inc o) t in
             match g with [] => false | _ :: _ => true end
             && kind_eqb (ckind o) (if inc then KInc else KCum)
             && (if inc then true else match prev o with None => true | Some _ => false end)
             && meta_ueqb (cmeta o) m
             && values_ok prem' g (cvals o)) out
    end.
End Spec.

(* ------------------------------------------------------------------ the documented registry
   (property C09: losses, premiums, exposures, claim counts, *_loss_developed, *_loss_prior are
   summed under THEIR OWN key; ratio fields are the documented weighted averages; NON_LOSS_METRICS
   are the premium/exposure-type fields).  [table_ok] is the Boolean side condition that the
   generated table must satisfy (GenProps/C09_rules.v discharges it by vm_compute). *)
Definition additive_fields : list str := [
  (* paid_loss *) [112;97;105;100;95;108;111;115;115];
  (* reported_loss *) [114;101;112;111;114;116;101;100;95;108;111;115;115];
  (* incurred_loss *) [105;110;99;117;114;114;101;100;95;108;111;115;115];
  (* reported_claims *) [114;101;112;111;114;116;101;100;95;99;108;97;105;109;115];
  (* open_claims *) [111;112;101;110;95;99;108;97;105;109;115];
  (* closed_claims *) [99;108;111;115;101;100;95;99;108;97;105;109;115];
  (* closed_with_pay_claims *) [99;108;111;115;101;100;95;119;105;116;104;95;112;97;121;95;99;108;97;105;109;115];
  (* reported_count *) [114;101;112;111;114;116;101;100;95;99;111;117;110;116];
  (* open_count *) [111;112;101;110;95;99;111;117;110;116];
  (* closed_count *) [99;108;111;115;101;100;95;99;111;117;110;116];
  (* closed_with_pay_count *) [99;108;111;115;101;100;95;119;105;116;104;95;112;97;121;95;99;111;117;110;116];
  (* earned_premium *) [101;97;114;110;101;100;95;112;114;101;109;105;117;109];
  (* used_earned_premium *) [117;115;101;100;95;101;97;114;110;101;100;95;112;114;101;109;105;117;109];
  (* earned_exposure *) [101;97;114;110;101;100;95;101;120;112;111;115;117;114;101];
  (* written_premium *) [119;114;105;116;116;101;110;95;112;114;101;109;105;117;109];
  (* written_exposure *) [119;114;105;116;116;101;110;95;101;120;112;111;115;117;114;101];
  (* incurred_loss_developed *) [105;110;99;117;114;114;101;100;95;108;111;115;115;95;100;101;118;101;108;111;112;101;100];
  (* paid_loss_developed *) [112;97;105;100;95;108;111;115;115;95;100;101;118;101;108;111;112;101;100];
  (* reported_loss_developed *) [114;101;112;111;114;116;101;100;95;108;111;115;115;95;100;101;118;101;108;111;112;101;100];
  (* incurred_loss_prior *) [105;110;99;117;114;114;101;100;95;108;111;115;115;95;112;114;105;111;114];
  (* paid_loss_prior *) [112;97;105;100;95;108;111;115;115;95;112;114;105;111;114];
  (* reported_loss_prior *) [114;101;112;111;114;116;101;100;95;108;111;115;115;95;112;114;105;111;114]].
Definition ratio_fields : list (str * rule) := [
  (* implied_atu by reported_loss *) ([105;109;112;108;105;101;100;95;97;116;117], RWAvg [105;109;112;108;105;101;100;95;97;116;117] [114;101;112;111;114;116;101;100;95;108;111;115;115] TId);
  (* bf_weight by reported_loss *) ([98;102;95;119;101;105;103;104;116], RWAvg [98;102;95;119;101;105;103;104;116] [114;101;112;111;114;116;101;100;95;108;111;115;115] TId);
  (* geometric_weight by reported_loss *) ([103;101;111;109;101;116;114;105;99;95;119;101;105;103;104;116], RWAvg [103;101;111;109;101;116;114;105;99;95;119;101;105;103;104;116] [114;101;112;111;114;116;101;100;95;108;111;115;115] TId);
  (* log_industry_lr by earned_premium *) ([108;111;103;95;105;110;100;117;115;116;114;121;95;108;114], RWAvg [108;111;103;95;105;110;100;117;115;116;114;121;95;108;114] [101;97;114;110;101;100;95;112;114;101;109;105;117;109] TExpLog)].
Definition documented_non_loss : list str := [
  (* earned_premium *) [101;97;114;110;101;100;95;112;114;101;109;105;117;109];
  (* used_earned_premium *) [117;115;101;100;95;101;97;114;110;101;100;95;112;114;101;109;105;117;109];
  (* earned_exposure *) [101;97;114;110;101;100;95;101;120;112;111;115;117;114;101];
  (* written_premium *) [119;114;105;116;116;101;110;95;112;114;101;109;105;117;109];
  (* written_exposure *) [119;114;105;116;116;101;110;95;101;120;112;111;115;117;114;101];
  (* implied_atu *) [105;109;112;108;105;101;100;95;97;116;117];
  (* bf_weight *) [98;102;95;119;101;105;103;104;116];
  (* geometric_weight *) [103;101;111;109;101;116;114;105;99;95;119;101;105;103;104;116]].
Definition rule_is (rules : rule_table) (k : str) (r : rule) : bool :=
  match assoc k rules with Some r' => rule_eqb r' r | None => false end.
Definition table_ok (rules : rule_table) (nl : list str) : bool :=
  forallb (fun k => rule_is rules k (RSum k)) additive_fields
  && forallb (fun kr => rule_is rules (fst kr) (snd kr)) ratio_fields
  && forallb (fun k => mem_str k documented_non_loss) nl
  && forallb (fun k => mem_str k nl) documented_non_loss.
