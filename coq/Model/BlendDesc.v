(** C16 -- the blend model of Model/Blend.v PARAMETRISED by a description [blend_desc] of what
    bermuda/utils/summarize.py says (extracted on every run by translate/t_blend.py into
    build/C16/GenBlend.v).  Definitions only.

    A description has two parts:
    - DECISIONS the model below is parametrised by (interpreted): the accepted method names, the ordered
      validations of blend() with their error classes, whether the dict weights are transposed to one
      vector per cell, the error class for a missing coordinate, the method -> helper dispatch of
      blend_samples, which refusals of blend_samples / _linear_blend / _mixture_blend / blend_cells are
      present and what they raise, whether np.random.choice is given p=weights (its own argument checks),
      and which cell's header the result keeps;
    - RECOGNISED FORMS ([bd_shape]): canonical text (locals inlined, parameters numbered) of the
      expressions whose meaning the hand-written model fixes (coordinate keys, the matrix product of
      _linear_blend, the arguments of np.random.choice, the masked assignment of _mixture_blend, ...);
      [blend_spec_ok] compares them literally with the forms the model was written against. *)
From Coq Require Import ZArith QArith Qabs List Bool String.
From Bermuda Require Import Model.Base Model.Blend.
Import ListNotations.
Local Open Scope Q_scope.
Local Notation length := Datatypes.length.

Inductive helper := HMixture | HLinear | HOther.
Inductive bcheck := CkIsList | CkSingle | CkMethod | CkLengths | CkCellType.
Inductive pform := PWeights | PAbsent.

Record blend_desc := mkBlendDesc {
  bd_methods : list str;               (* get_args(BLEND_METHOD_TYPE) *)
  bd_checks : list (bcheck * err);     (* blend(): validations before the coordinate index, source order *)
  bd_dict_transposed : bool;           (* np.concatenate(list(weights_2d.values())).T *)
  bd_dict_len_err : option err;        (* len(weight_list) not in {1, n_cells} *)
  bd_missing_err : err;                (* except KeyError: raise <this> *)
  bd_dispatch : list (str * helper);   (* blend_samples: method == "<name>" -> helper *)
  bd_dispatch_else : err;
  bd_len_err : option err;             (* blend_samples: len(weights) != len(values) *)
  bd_linlen_err : option err;          (* _linear_blend: len(val) != S and len(val) != 1 *)
  bd_sum_err : option err;             (* _mixture_blend: round(sum(weights), 6) != 1 *)
  bd_choice_p : pform;                 (* np.random.choice(..., p=weights) *)
  bd_fieldset_err : option err;        (* blend_cells: set(cell.values.keys()) != fields *)
  bd_mixtype_err : option err;         (* blend_cells: mixture and not all isinstance(...) *)
  bd_mixscalar_err : option err;       (* blend_cells: mixture, scalar, any(val != field_vals[0]) *)
  bd_header_from : nat;                (* cells[<k>].replace(values=clean_values) *)
  bd_shape : list (string * string)    (* recognised forms: (function, canonical text) *)
}.

Definition MIXTURE : str := [109;105;120;116;117;114;101]%Z.
Definition LINEAR : str := [108;105;110;101;97;114]%Z.
Definition name_of (m : method) : option str :=
  match m with MMixture => Some MIXTURE | MLinear => Some LINEAR | MBad => None end.

(* an optional refusal: absent from the source = never refuses *)
Definition opt_refuse {A} (c : option err) (cond : bool) (k : result A) : result A :=
  match c with Some e => if cond then Err e else k | None => k end.

Section D.
Variable d : blend_desc.

Definition linear_blendD (vs : list (list Q)) (ws : list Q) : result (list Q) :=
  let S := max_len vs in
  opt_refuse (bd_linlen_err d) (negb (forallb (fun v => (length v =? S)%nat || (length v =? 1)%nat) vs))
             (Ok (map (linear_at ws vs) (seq 0 S))).

Definition mixture_blendD (vals : list value) (ws : list Q) (dr : list nat) : result (list Q) :=
  opt_refuse (bd_sum_err d) (negb (Qle_bool (Qabs (qsum ws - 1)) qtol))
  (match vals with
   | [] => Err IndexError
   | VNone :: _ => Err IndexError
   | VNum _ :: _ => Err OtherError
   | VArr _ x0 :: _ =>
       let S := length x0 in
       if match bd_choice_p d with PWeights => negb (probs_ok ws) | PAbsent => false end then Err ValueError
       else if negb (draw_ok (length vals) S dr) then Err OtherError
       else if negb (forallb (fun v => (length (arr_of v) =? S)%nat) vals) then Err IndexError
       else Ok (map (mixture_at (map arr_of vals) dr) (seq 0 S))
   end).

Definition blend_samplesD (dr : list nat) (vals : list value) (w : option (list Q)) (m : method)
  : result (list Q) :=
  let ws := match w with None => uniform (length vals) | Some ws => ws end in
  opt_refuse (bd_len_err d) (negb (length ws =? length vals)%nat)
  (match name_of m with
   | None => Err (bd_dispatch_else d)
   | Some s =>
       match assoc s (bd_dispatch d) with
       | Some HMixture => mixture_blendD vals ws dr
       | Some HLinear => match all_some (map samples vals) with
                         | None => Err TypeError
                         | Some vs => linear_blendD vs ws
                         end
       | _ => Err (bd_dispatch_else d)
       end
   end).

Definition blend_fieldD (dr : list nat) (cells : list cell) (w : option (list Q)) (m : method) (f : str)
  : result qval :=
  match all_some (map (fun c => assoc f (cvals c)) cells) with
  | None => Err KeyError
  | Some [] => Err IndexError
  | Some (v0 :: rest) =>
      opt_refuse (bd_mixtype_err d) (is_mixture m && negb (forallb (fun v => (vtype v =? vtype v0)%nat) rest))
        (if is_mixture m && is_scalar v0
         then opt_refuse (bd_mixscalar_err d) (existsb (fun v => negb (val_pyeq v v0)) rest) (Ok (QKeep v0))
         else bind (blend_samplesD dr (v0 :: rest) w m) (fun xs => Ok (QArr xs)))
  end.

Definition blend_cellsD (fo : list str -> list str) (draw : str -> list nat) (cells : list cell)
           (w : option (list Q)) (m : method) : result qcell :=
  match cells with
  | [] => Err IndexError
  | c0 :: rest =>
      let ks := keys (cvals c0) in
      opt_refuse (bd_fieldset_err d) (negb (forallb (fun c => keyset_eqb ks (keys (cvals c))) rest))
        (bind (map_result (fun f => bind (blend_fieldD (draw f) cells w m f) (fun v => Ok (f, v))) (fo ks))
              (fun vs => Ok (mkQCell (hdr (nth (bd_header_from d) cells c0)) vs)))
  end.

Definition weight_listD (w : weights) (n_cells : nat) : result (list (option (list Q))) :=
  match w with
  | WNone => Ok (repeat None n_cells)
  | WList ws => Ok (repeat (Some ws) n_cells)
  | WOther => Err TypeError
  | WDict rows =>
      match rows with
      | [] => Err ValueError
      | r0 :: _ =>
          if negb (forallb (fun r => (length r =? length r0)%nat) rows) then Err ValueError
          else let cols := if bd_dict_transposed d then transpose (length r0) rows else rows in
               opt_refuse (bd_dict_len_err d) (negb (length cols =? 1)%nat && negb (length cols =? n_cells)%nat)
                 (if (length cols =? 1)%nat
                  then Ok (repeat (Some (hd [] cols)) n_cells)
                  else Ok (map Some cols))
      end
  end.

Fixpoint blend_loopD (fo : list str -> list str) (draw : nat -> str -> list nat) (i : nat)
         (idx0 : list (coord * cell)) (wl : list (option (list Q)))
         (idxs : list (list (coord * cell))) (m : method) : result (list qcell) :=
  match idx0, wl with
  | (k, _) :: r, w :: wr =>
      match all_some (map (cd_get k) idxs) with
      | None => Err (bd_missing_err d)
      | Some cells =>
          bind (blend_cellsD fo (draw i) cells w m)
               (fun c => bind (blend_loopD fo draw (S i) r wr idxs m) (fun cs => Ok (c :: cs)))
      end
  | _, _ => Ok []
  end.

(* one validation of blend(): Some e = refuses with e.  Errors that come from evaluating the test itself
   (weights[0] of an empty list, triangles[0] of an empty list, tri.cells[0] of an empty triangle) are fixed. *)
Definition run_check (ck : bcheck) (e : err) (tris : list (list cell)) (w : weights) (m : method) : option err :=
  match ck with
  | CkIsList => None                                     (* the model's argument is always a list *)
  | CkSingle =>
      match w with
      | WList ws =>
          if (length tris <=? 1)%nat then
            match ws with
            | [] => Some IndexError
            | w0 :: _ => if Qeq_bool w0 1 then None else Some e
            end
          else None
      | _ => None
      end
  | CkMethod =>
      match name_of m with
      | Some s => if existsb (str_eqb s) (bd_methods d) then None else Some e
      | None => Some e
      end
  | CkLengths =>
      match tris with
      | [] => Some IndexError
      | t0 :: rest => if negb (forallb (fun t => (length t =? length t0)%nat) rest) then Some e else None
      end
  | CkCellType =>
      match tris with
      | [] => Some IndexError
      | t0 :: rest =>
          if (length t0 =? 0)%nat && negb (length rest =? 0)%nat then Some IndexError
          else if negb (forallb (fun t => okind_eqb (first_kind t) (first_kind t0)) rest) then Some e else None
      end
  end.
Fixpoint first_refusal (cks : list (bcheck * err)) (tris : list (list cell)) (w : weights) (m : method)
  : option err :=
  match cks with
  | [] => None
  | (ck, e) :: r => match run_check ck e tris w m with Some x => Some x | None => first_refusal r tris w m end
  end.

Definition blendD (fo : list str -> list str) (draw : nat -> str -> list nat)
           (tris : list (list cell)) (w : weights) (m : method) : result (list qcell) :=
  match first_refusal (bd_checks d) tris w m with
  | Some e => Err e
  | None =>
      match tris with
      | [] => Err IndexError
      | t0 :: _ =>
          bind (weight_listD w (length t0))
               (fun wl => blend_loopD fo draw O (index_tri t0) wl (map index_tri tris) m)
      end
  end.
End D.

(* ------------------------------------------------------------------ the side condition *)
Definition helper_eqb (a b : helper) : bool :=
  match a, b with HMixture, HMixture | HLinear, HLinear | HOther, HOther => true | _, _ => false end.
Definition bcheck_eqb (a b : bcheck) : bool :=
  match a, b with
  | CkIsList, CkIsList | CkSingle, CkSingle | CkMethod, CkMethod | CkLengths, CkLengths
  | CkCellType, CkCellType => true
  | _, _ => false
  end.
Definition pform_eqb (a b : pform) : bool :=
  match a, b with PWeights, PWeights | PAbsent, PAbsent => true | _, _ => false end.

(* the forms the hand-written model (Model/Blend.v) was written against; text produced by
   translate/t_blend.py (docstrings and messages dropped, single-assignment pure locals inlined, parameters
   numbered p0.., other locals l0.. in order of appearance, the decisions above masked out) *)
Definition shape_ref : list (string * string) := [
  ("blend"%string,
   "if p0[0].is_incremental: l1 = [{(l2.metadata, l2.period, l2.evaluation_date, l2.prev_evaluation_date): l2 for l2 in l0} for l0 in p0] else: l1 = [{(l2.metadata, l2.period, l2.evaluation_date): l2 for l2 in l0} for l0 in p0] ; if p1 is None: l3 = [None] * len(p0[0]) elif isinstance(p1, dict): l4 = {l5: np.atleast_2d(l6) for l5, l6 in p1.items()} l3 = [l7 for l7 in DICT_WEIGHT_VECTORS(np.concatenate(list(l4.values())))] if len(l3) == 1: l3 = l3 * len(p0[0]) elif isinstance(p1, list): l3 = [p1] * len(p0[0]) else: raise TypeError ; l8 = [] ; for l9, l10 in zip(l1[0], l3): try: l11 = [l12[l9] for l12 in l1] except KeyError: raise MISSING_COORDINATE l8.append(blend_cells(l11, l10, p2, p3)) ; return Triangle(l8)"%string);
  ("blend_cells"%string,
   "for l0 in p0[1:]: pass ; l1 = {} ; for l2 in set(p0[0].values.keys()): l3 = [l0[l2] for l0 in p0] if p2 == 'mixture' and np.isscalar(l3[0]): l1[l2] = l3[0] else: l1[l2] = blend_samples(l3, p1, p2, p3) ; return p0[HEADER_FROM].replace(values=l1) ## p2 == 'mixture' and (not all([isinstance(l0, type(l3[0])) for l0 in l3[1:]])) ## any([l0 != l3[0] for l0 in l3[1:]])"%string);
  ("blend_samples"%string,
   "if p1 is None: p1 = np.repeat(1 / len(p0), len(p0)) else: p1 = np.asarray(p1) ; DISPATCH"%string);
  ("_linear_blend"%string,
   "p0 = [[l0] if np.ndim(l0) == 0 else l0 for l0 in p0] ; if np.ndim(p1) == 1: p1 = np.array(p1).reshape((len(p0), 1)) ; l1 = np.empty((max((len(l0) for l0 in p0)), len(p0))) ; for l2, l3 in enumerate(p0): if len(l3) == 1: l1[:, l2] = np.tile(l3, max((len(l0) for l0 in p0))) else: l1[:, l2] = l3 ; return (l1 @ p1).reshape((max((len(l0) for l0 in p0)),))"%string);
  ("_mixture_blend"%string,
   "np.random.seed(p2) ; l0 = np.random.choice(range(len(p0)), np.shape(p0[0])[0], p=CHOICE_P) ; l1 = np.empty((np.shape(p0[0])[0],)) ; for l2, l3 in enumerate(p0): l1[l0 == l2] = l3[l0 == l2] ; return l1"%string)].

Definition shape_ok (sh : list (string * string)) : bool :=
  list_eqb (pair_eqb String.eqb String.eqb) sh shape_ref.

Definition checks_ref : list (bcheck * err) :=
  [(CkIsList, TypeError); (CkSingle, ValueError); (CkMethod, ValueError); (CkLengths, ValueError);
   (CkCellType, ValueError)].

(* decisions: what the theorems of Props/C16.v need of them *)
Definition decisions_ok (a : blend_desc) : bool :=
  (length (bd_methods a) =? 2)%nat
  && existsb (str_eqb MIXTURE) (bd_methods a) && existsb (str_eqb LINEAR) (bd_methods a)
  && list_eqb (pair_eqb bcheck_eqb err_eqb) (bd_checks a) checks_ref
  && Bool.eqb (bd_dict_transposed a) true
  && opt_eqb err_eqb (bd_dict_len_err a) (Some ValueError)
  && err_eqb (bd_missing_err a) ValueError
  && opt_eqb helper_eqb (assoc MIXTURE (bd_dispatch a)) (Some HMixture)
  && opt_eqb helper_eqb (assoc LINEAR (bd_dispatch a)) (Some HLinear)
  && (length (bd_dispatch a) =? 2)%nat
  && err_eqb (bd_dispatch_else a) ValueError
  && opt_eqb err_eqb (bd_len_err a) (Some ValueError)
  && opt_eqb err_eqb (bd_linlen_err a) (Some ValueError)
  && opt_eqb err_eqb (bd_sum_err a) (Some ValueError)
  && pform_eqb (bd_choice_p a) PWeights
  && opt_eqb err_eqb (bd_fieldset_err a) (Some ValueError)
  && opt_eqb err_eqb (bd_mixtype_err a) (Some TypeError)
  && opt_eqb err_eqb (bd_mixscalar_err a) (Some ValueError)
  && (bd_header_from a =? 0)%nat.

Definition blend_spec_ok (a : blend_desc) : bool := decisions_ok a && shape_ok (bd_shape a).
