(** C14 -- tables (lists of rows) and the wide / long data-frame forms of a triangle.
    Executable definitions only.  Mirrors bermuda/io/data_frame_output.py and data_frame_input.py
    at the level of *tables*: a table is a list of rows, a row maps column names to
    str | number | NaN | date.  The pandas layer (CSV text, dtype inference, PeriodIndex) is not
    modelled; numbers in a table carry no int/float flag (pandas decides) and come back as floats.

    The decision-carrying parts of the readers (which columns take part in grouping, the column
    constants, whether the rows of a group are sorted by `scenario`) are *parameters* (frame_spec);
    the concrete value is generated from /repo by translate/t_frame.py (GenFrame.v). *)
From Coq Require Import ZArith List Bool String Ascii.
From Bermuda Require Import Model.Base.
Import ListNotations.
Local Open Scope Z_scope.

(* ---------- column names ---------- *)
Definition bs (x : string) : str := map (fun a => Z.of_nat (nat_of_ascii a)) (list_ascii_of_string x).
Definition c_ps := bs "period_start".
Definition c_pe := bs "period_end".
Definition c_ev := bs "evaluation_date".
Definition c_prev := bs "prev_evaluation_date".
Definition c_scenario := bs "scenario".
Definition c_field := bs "field".
Definition c_value := bs "value".
Definition c_risk_basis := bs "risk_basis".
Definition c_country := bs "country".
Definition c_currency := bs "currency".
Definition c_reinsurance_basis := bs "reinsurance_basis".
Definition c_loss_definition := bs "loss_definition".
Definition c_pol := bs "per_occurrence_limit".
Definition s_accident := bs "Accident".

(* ---------- tables ---------- *)
Inductive tval := TStr (s : str) | TNum (n1024 : Z) | TNaN | TDate (d : date).
Definition tval_eqb (a b : tval) : bool :=
  match a, b with
  | TStr x, TStr y => str_eqb x y
  | TNum x, TNum y => x =? y
  | TNaN, TNaN => true                 (* groupby(dropna=False): NaN is one key *)
  | TDate x, TDate y => x =? y
  | _, _ => false
  end.
Definition is_nan (v : tval) : bool := match v with TNaN => true | _ => false end.
Definition row := list (str * tval).
Definition table := list row.
Definition get (k : str) (r : row) : tval := match assoc k r with Some v => v | None => TNaN end.
Definition columns (tbl : table) : list str := match tbl with [] => [] | r :: _ => keys r end.
Definition mem (k : str) (l : list str) : bool := existsb (str_eqb k) l.
Definition key := list tval.
Definition key_eqb (a b : key) : bool := list_eqb tval_eqb a b.
Definition row_key (kc : list str) (r : row) : key := map (fun c => get c r) kc.
Definition drop_col (k : str) (r : row) : row := filter (fun kv => negb (str_eqb (fst kv) k)) r.

(* first-occurrence de-duplication and grouping (dict-of-lists grouping: groups in order of first
   occurrence, members in table order).  pandas returns the groups sorted by key instead; the
   order of the groups is irrelevant because Triangle(...) sorts the cells. *)
Section Group.
  Context {K : Type} (eqb : K -> K -> bool).
  Fixpoint dedup (l : list K) : list K :=
    match l with
    | [] => []
    | k :: r => k :: filter (fun x => negb (eqb x k)) (dedup r)
    end.
  Definition group_by {A} (kf : A -> K) (l : list A) : list (K * list A) :=
    map (fun k => (k, filter (fun a => eqb (kf a) k) l)) (dedup (map kf l)).
End Group.

(* ---------- the decision-carrying description extracted from the source ---------- *)
Inductive keypart := KCol (c : str) | KOpt (c : str) | KDetail | KLoss.
(* KCol c : literal column name in the groupby list;  KOpt c : `c` taken iff present in df.columns
   (from `[col for col in METADATA_COLUMNS[a:b] if col in df.columns]`);  KDetail / KLoss :
   `+ detail_cols` / `+ loss_detail_cols` *)
Record frame_spec := mkSpec {
  fs_index_cum : list str;          (* INDEX_CUM_COLUMNS *)
  fs_index : list str;              (* INDEX_COLUMNS *)
  fs_meta : list str;               (* METADATA_COLUMNS *)
  fs_core : list str;               (* CORE_SET *)
  fs_wide_key : list keypart;       (* df.groupby([...]) of wide_data_frame_to_triangle *)
  fs_long_key : list keypart;       (* df.groupby([...]) of long_data_frame_to_triangle *)
  fs_wide_sort : list str;          (* sort_values([...]) applied to a group of > 1 rows (wide) *)
  fs_long_sort : list str;          (* same, long *)
  fs_meta_attr : list (str * str)   (* (column, Metadata attribute) pairs of _create_metadata *)
}.
Definition keypart_eqb (a b : keypart) : bool :=
  match a, b with
  | KCol x, KCol y | KOpt x, KOpt y => str_eqb x y
  | KDetail, KDetail | KLoss, KLoss => true
  | _, _ => false
  end.
Definition key_cols (parts : list keypart) (cols dcols lcols : list str) : list str :=
  flat_map (fun p => match p with
                     | KCol c => [c]
                     | KOpt c => if mem c cols then [c] else []
                     | KDetail => dcols
                     | KLoss => lcols
                     end) parts.

(* ---------- stable sort of the rows of one group by the scenario column ---------- *)
Definition scen (r : row) : Z := match get c_scenario r with TNum n => n | _ => 0 end.
Fixpoint insert_row (r : row) (l : list row) : list row :=
  match l with
  | [] => [r]
  | x :: t => if scen r <=? scen x then r :: x :: t else x :: insert_row r t
  end.
Definition sort_scen (l : list row) : list row := fold_right insert_row [] l.

(* ---------- metadata of a row (_create_metadata / _clean_list_column: NaN -> default) ---------- *)
Definition str_or (v : tval) (dflt : option str) : option str :=
  match v with TStr s => Some s | _ => dflt end.
Definition num_or (v : tval) (dflt : option num) : option num :=
  match v with TNum n => Some (Num true n) | _ => dflt end.
Definition mval_of (v : tval) : option mval :=
  match v with
  | TStr s => Some (MStr s) | TNum n => Some (MNum (Num true n)) | TDate d => Some (MDate d)
  | TNaN => None
  end.
Definition details_of (cols : list str) (r : row) : list (str * mval) :=
  flat_map (fun c => match mval_of (get c r) with Some v => [(c, v)] | None => [] end) cols.
(* default metadata = Metadata(): risk_basis "Accident", everything else None / {} *)
Definition meta_of_row (pure_dcols lcols : list str) (r : row) : meta :=
  mkMeta (str_or (get c_risk_basis r) (Some s_accident))
         (str_or (get c_country r) None) (str_or (get c_currency r) None)
         (str_or (get c_reinsurance_basis r) None) (str_or (get c_loss_definition r) None)
         (num_or (get c_pol r) None)
         (details_of pure_dcols r) (details_of lcols r).

Definition date_of (v : tval) : result date := match v with TDate d => Ok d | _ => Err OtherError end.
Fixpoint map_result {A B} (f : A -> result B) (l : list A) : result (list B) :=
  match l with
  | [] => Ok []
  | a :: r => bind (f a) (fun b => bind (map_result f r) (fun bs => Ok (b :: bs)))
  end.
Fixpoint all_nums (vs : list tval) : option (list Z) :=
  match vs with
  | [] => Some []
  | TNum n :: r => match all_nums r with Some xs => Some (n :: xs) | None => None end
  | _ :: _ => None
  end.

(* value of one field column over the (sorted) rows of one group -- wide reader, incl. the F15
   repair (a field missing in every scenario row is absent) *)
Definition field_value (g : list row) (f : str) : result (option value) :=
  match map (get f) g with
  | [] => Ok None
  | [v] => Ok (match v with TNum n => Some (VNum (Num true n)) | _ => None end)
  | vs => if forallb is_nan vs then Ok None
          else match all_nums vs with
               | Some xs => Ok (Some (VArr true xs))
               | None => Err OtherError          (* object array with Nones: not modelled *)
               end
  end.
Fixpoint values_of (g : list row) (fields : list str) : result (list (str * value)) :=
  match fields with
  | [] => Ok []
  | f :: r => bind (field_value g f) (fun ov =>
              bind (values_of g r) (fun rest =>
              Ok (match ov with Some v => (f, v) :: rest | None => rest end)))
  end.

Section Readers.
  Variable sp : frame_spec.

  Definition sort_group (cols : list str) (scols : list str) (g : list row) : result (list row) :=
    match g with
    | _ :: _ :: _ =>
        if mem c_scenario scols then
          if mem c_scenario cols then Ok (sort_scen g) else Err OtherError   (* KeyError -> Exception *)
        else Ok g        (* no sort in the source: rows stay in table order *)
    | _ => Ok g
    end.

  Definition wide_cell_of_group (fields pure_dcols lcols cols : list str) (g : list row) : result cell :=
    match g with
    | [] => Err OtherError
    | r0 :: _ =>
        bind (date_of (get c_ps r0)) (fun ps =>
        bind (date_of (get c_pe r0)) (fun pe =>
        bind (date_of (get c_ev r0)) (fun ev =>
        bind (sort_group cols (fs_wide_sort sp) g) (fun g' =>
        bind (values_of g' fields) (fun vals =>
        Ok (mkCell KCum ps pe ev None (meta_of_row pure_dcols lcols r0) vals))))))
    end.

  (* one IncrementalCell per row, no grouping (np.array(v[i]) of the non-missing fields) *)
  Definition wide_inc_cell_of_row (fields pure_dcols lcols : list str) (r : row) : result cell :=
    bind (date_of (get c_ps r)) (fun ps =>
    bind (date_of (get c_pe r)) (fun pe =>
    bind (date_of (get c_ev r)) (fun ev =>
    bind (date_of (get c_prev r)) (fun pv =>
    bind (values_of [r] fields) (fun vals =>
    Ok (mkCell KInc ps pe ev (Some pv) (meta_of_row pure_dcols lcols r) vals)))))).

  Definition not_in (l : list str) (c : str) : bool := negb (mem c l).

  (** wide_data_frame_to_triangle(df, field_cols=fields, detail_cols=None, loss_detail_cols=lcols);
      the result is the list of cells handed to Triangle(...) (which sorts them) *)
  Definition from_wide_rows (fields lcols : list str) (tbl : table) : result (list cell) :=
    let cols := columns tbl in
    if negb (forallb (fun c => mem c cols) (fs_index_cum sp)) then Err OtherError else
    let dcols := filter (fun c => not_in (fs_core sp) c && not_in fields c) cols in
    if negb (forallb (fun c => mem c dcols) lcols) then Err OtherError else
    let pure := filter (not_in lcols) dcols in
    if mem c_prev cols then map_result (wide_inc_cell_of_row fields pure lcols) tbl
    else
      let kc := key_cols (fs_wide_key sp) cols dcols lcols in
      map_result (fun kg => wide_cell_of_group fields pure lcols cols (snd kg))
                 (group_by key_eqb (row_key kc) tbl).

  (* ----- long reader ----- *)
  Definition long_value_of_group (cols : list str) (g : list row) : result value :=
    match g with
    | [] => Err OtherError
    | [r] => match get c_value r with TNum n => Ok (VNum (Num true n)) | _ => Err OtherError end
    | r :: _ =>
        bind (sort_group cols (fs_long_sort sp) g) (fun g' =>
        if mem c_scenario cols && forallb (fun x => is_nan (get c_scenario x)) g'
        then match get c_value (hd r g') with TNum n => Ok (VNum (Num true n)) | _ => Err OtherError end
        else match all_nums (map (get c_value) g') with
             | Some xs => Ok (VArr true xs)
             | None => Err OtherError
             end)
    end.

  Definition same_index (c : cell) (k : kind) (ps pe ev : date) (pv : option date) (m : meta) : bool :=
    kind_eqb (ckind c) k && (ps =? Base.ps c) && (pe =? Base.pe c) && (ev =? Base.ev c)
    && opt_eqb Z.eqb pv (prev c) && meta_seqb m (cmeta c).

  (* cells[index].values[field] = value  /  cells[index] = Cell(values={field: value}) *)
  Fixpoint add_field (k : kind) (ps pe ev : date) (pv : option date) (m : meta) (f : str) (v : value)
           (acc : list cell) : result (list cell) :=
    match acc with
    | [] => Ok [mkCell k ps pe ev pv m [(f, v)]]
    | c :: r =>
        if same_index c k ps pe ev pv m then
          if has_key f (cvals c) then Err OtherError     (* "Field ... is already present" *)
          else Ok (mkCell k ps pe ev pv (cmeta c) (cvals c ++ [(f, v)]) :: r)
        else bind (add_field k ps pe ev pv m f v r) (fun r' => Ok (c :: r'))
    end.

  Definition field_of (r : row) : result str :=
    match get c_field r with TStr s => Ok s | _ => Err OtherError end.

  Definition long_step_group (pure lcols cols : list str) (acc : result (list cell)) (g : list row)
    : result (list cell) :=
    bind acc (fun cells =>
    match g with
    | [] => Err OtherError
    | r0 :: _ =>
        bind (date_of (get c_ps r0)) (fun ps =>
        bind (date_of (get c_pe r0)) (fun pe =>
        bind (date_of (get c_ev r0)) (fun ev =>
        bind (field_of r0) (fun f =>
        bind (long_value_of_group cols g) (fun v =>
        add_field KCum ps pe ev None (meta_of_row pure lcols r0) f v cells)))))
    end).

  Definition long_step_inc_row (pure lcols : list str) (acc : result (list cell)) (r : row)
    : result (list cell) :=
    bind acc (fun cells =>
    bind (date_of (get c_ps r)) (fun ps =>
    bind (date_of (get c_pe r)) (fun pe =>
    bind (date_of (get c_ev r)) (fun ev =>
    bind (date_of (get c_prev r)) (fun pv =>
    bind (field_of r) (fun f =>
    match get c_value r with
    | TNum n => add_field KInc ps pe ev (Some pv) (meta_of_row pure lcols r) f (VNum (Num true n)) cells
    | _ => Err OtherError
    end)))))).

  (** long_data_frame_to_triangle(df, loss_detail_cols=lcols); the CSV entry point passes [] *)
  Definition from_long_rows (lcols : list str) (tbl : table) : result (list cell) :=
    let cols := columns tbl in
    if negb (forallb (fun c => mem c cols) (fs_index_cum sp) && mem c_field cols && mem c_value cols)
    then Err OtherError else
    let pure := filter (fun c => not_in (fs_core sp) c && not_in [c_field; c_value] c && not_in lcols c) cols in
    if mem c_prev cols then fold_left (long_step_inc_row pure lcols) tbl (Ok [])
    else
      let kc := key_cols (fs_long_key sp) cols pure lcols in
      fold_left (long_step_group pure lcols cols) (map snd (group_by key_eqb (row_key kc) tbl)) (Ok []).
End Readers.

(* ====================================================================================== *)
(** * Writers: triangle_to_wide_data_frame / triangle_to_long_data_frame *)
Definition ostr (o : option str) : tval := match o with Some s => TStr s | None => TNaN end.
Definition onum (o : option num) : tval := match o with Some x => TNum (num_n x) | None => TNaN end.
Definition tval_of_mval (v : mval) : tval :=
  match v with
  | MStr s => TStr s | MNum x => TNum (num_n x) | MDate d => TDate d
  | MBool _ => TNaN      (* bool details are outside the model (see from-side: not reconstructed) *)
  | MNone => TNaN
  end.
(* Metadata.as_flat_dict: the six attributes, then details, then loss_details.  Name collisions
   between these groups (later wins in Python) are outside the model: `names_ok` excludes them. *)
Definition attr_dict (m : meta) : list (str * tval) :=
  [(c_currency, ostr (currency m)); (c_country, ostr (country m)); (c_risk_basis, ostr (risk_basis m));
   (c_reinsurance_basis, ostr (reinsurance_basis m)); (c_loss_definition, ostr (loss_definition m));
   (c_pol, onum (per_occurrence_limit m))].
Definition tdict (d : list (str * mval)) : list (str * tval) := map (fun kv => (fst kv, tval_of_mval (snd kv))) d.
Definition flat_dict (m : meta) : list (str * tval) :=
  attr_dict m ++ tdict (details m) ++ tdict (loss_details m).
Definition nonnan_keys (d : list (str * tval)) : list str :=
  keys (filter (fun kv => negb (is_nan (snd kv))) d).
(* _all_metadata_names: names whose value is not None in some cell (model order: first occurrence
   over the cells of attributes, then details, then loss details; Python's set order is arbitrary
   and irrelevant because rows are accessed by column name) *)
Definition attr_names (t : list cell) : list str :=
  dedup str_eqb (flat_map (fun c => nonnan_keys (attr_dict (cmeta c))) t).
Definition detail_names (t : list cell) : list str :=
  dedup str_eqb (flat_map (fun c => nonnan_keys (tdict (details (cmeta c)))) t).
Definition loss_names (t : list cell) : list str :=
  dedup str_eqb (flat_map (fun c => nonnan_keys (tdict (loss_details (cmeta c)))) t).
Definition meta_names (t : list cell) : list str := attr_names t ++ detail_names t ++ loss_names t.
Definition field_names (t : list cell) : list str := dedup str_eqb (flat_map (fun c => keys (cvals c)) t).

Definition meta_cols (names : list str) (m : meta) : row :=
  map (fun n => (n, get n (flat_dict m))) names.

(* _common_field_length over the given field names *)
Definition vsize (ov : option value) : Z :=
  match ov with Some (VArr _ xs) => Z.of_nat (List.length xs) | _ => 1 end.
Definition common_len (c : cell) (names : list str) : result nat :=
  let sizes := map (fun f => vsize (assoc f (cvals c))) names in
  match dedup Z.eqb (filter (fun n => negb (n =? 1)) sizes) with
  | [] => match sizes with [] => Err ValueError | _ => Ok 1%nat end
  | [n] => Ok (Z.to_nat n)
  | _ => Err ValueError
  end.
(* entry of one field in scenario ndx: value[ndx] for arrays of size > 1, float(value) otherwise *)
Definition field_entry (ov : option value) (ndx : nat) : tval :=
  match ov with
  | Some (VNum x) => TNum (num_n x)
  | Some (VArr _ [x]) => TNum x
  | Some (VArr _ xs) => match nth_error xs ndx with Some x => TNum x | None => TNaN end
  | Some VNone | None => TNaN
  end.
Definition base_cols (has_prev : bool) (c : cell) : row :=
  [(c_ps, TDate (ps c)); (c_pe, TDate (pe c)); (c_ev, TDate (ev c))]
  ++ (if has_prev then [(c_prev, match prev c with Some d => TDate d | None => TNaN end)] else []).

Definition wide_rows_of_cell (has_prev : bool) (mnames fnames : list str) (c : cell) : result (list row) :=
  bind (common_len c fnames) (fun n =>
  Ok (map (fun ndx =>
        base_cols has_prev c ++ [(c_scenario, TNum (1024 * (Z.of_nat ndx + 1)))]
        ++ map (fun f => (f, field_entry (assoc f (cvals c)) ndx)) fnames
        ++ meta_cols mnames (cmeta c)) (seq 0 n))).

Fixpoint concat_result {A} (l : list (result (list A))) : result (list A) :=
  match l with
  | [] => Ok []
  | x :: r => bind x (fun a => bind (concat_result r) (fun b => Ok (a ++ b)))
  end.

(* _drop_constant_scenario: all equal to the first (NaN != NaN) or all null *)
Definition scen_eq_first (a b : tval) : bool :=
  match a, b with TNum x, TNum y => x =? y | _, _ => false end.
Definition drop_constant_scenario (rows : table) : result table :=
  match rows with
  | [] => Err KeyError                    (* pd.DataFrame([])["scenario"] *)
  | r0 :: _ =>
      let sv := map (get c_scenario) rows in
      if forallb (scen_eq_first (get c_scenario r0)) sv || forallb is_nan sv
      then Ok (map (drop_col c_scenario) rows) else Ok rows
  end.

Definition tri_is_inc (t : list cell) : bool := match t with c :: _ => is_inc c | [] => false end.

(* `fn`, `dn`, `ln`: the enumeration of the triangle's field names, detail names and loss-detail
   names.  The code enumerates Python sets (`list(set)`): the order is arbitrary, so the model takes it
   as a parameter and the theorems hold for every enumeration. *)
Definition to_wide_rows (fn dn ln : list str) (t : list cell) : result table :=
  let mn := attr_names t ++ dn ++ ln in
  bind (concat_result (map (wide_rows_of_cell (tri_is_inc t) mn fn) t)) drop_constant_scenario.

(* long: one row per scenario index and field of the cell; scenario is NaN for Python-number
   fields, ndx+1 for array fields *)
Definition is_scalar (v : value) : bool := match v with VNum _ => true | _ => false end.
Definition not_none (kv : str * value) : bool := match snd kv with VNone => false | _ => true end.
Definition long_rows_of_cell (has_prev : bool) (mnames : list str) (c : cell) : result (list row) :=
  bind (common_len c (keys (cvals c))) (fun n =>
  Ok (flat_map (fun ndx =>
        map (fun fv =>
          base_cols has_prev c ++ meta_cols mnames (cmeta c)
          ++ [(c_scenario, if is_scalar (snd fv) then TNaN else TNum (1024 * (Z.of_nat ndx + 1)));
              (c_field, TStr (fst fv)); (c_value, field_entry (Some (snd fv)) ndx)])
          (filter not_none (cvals c))) (seq 0 n))).

Definition to_long_rows (dn ln : list str) (t : list cell) : result table :=
  let mn := attr_names t ++ dn ++ ln in
  bind (concat_result (map (long_rows_of_cell (tri_is_inc t) mn) t)) drop_constant_scenario.

(* ====================================================================================== *)
(** * What a round trip returns: every number as a float *)
Definition fl_num (x : num) : num := Num true (num_n x).
Definition fl_mval (v : mval) : mval := match v with MNum x => MNum (fl_num x) | _ => v end.
Definition fl_dict (d : list (str * mval)) : list (str * mval) := map (fun kv => (fst kv, fl_mval (snd kv))) d.
Definition fl_value (v : value) : value :=
  match v with VNum x => VNum (fl_num x) | VArr _ xs => VArr true xs | VNone => VNone end.
Definition fl_meta (m : meta) : meta :=
  mkMeta (risk_basis m) (country m) (currency m) (reinsurance_basis m) (loss_definition m)
         (option_map fl_num (per_occurrence_limit m)) (fl_dict (details m)) (fl_dict (loss_details m)).
(* through the long CSV entry point loss_details come back as details *)
Definition fl_meta_merged (m : meta) : meta :=
  mkMeta (risk_basis m) (country m) (currency m) (reinsurance_basis m) (loss_definition m)
         (option_map fl_num (per_occurrence_limit m)) (fl_dict (details m) ++ fl_dict (loss_details m)) [].
Definition fl_cell (c : cell) : cell :=
  mkCell (ckind c) (ps c) (pe c) (ev c) (prev c) (fl_meta (cmeta c))
         (map (fun kv => (fst kv, fl_value (snd kv))) (cvals c)).
Definition fl_cell_merged (c : cell) : cell :=
  mkCell (ckind c) (ps c) (pe c) (ev c) (prev c) (fl_meta_merged (cmeta c))
         (map (fun kv => (fst kv, fl_value (snd kv))) (cvals c)).
Definition floatify (t : list cell) : list cell := map fl_cell t.
Definition floatify_merged (t : list cell) : list cell := map fl_cell_merged t.

(* multiset comparison of cell lists (the implementation's result went through Triangle(...)) *)
Definition count_cell (c : cell) (l : list cell) : nat := List.length (filter (cell_seqb c) l).
Definition cells_perm_eqb (a b : list cell) : bool :=
  Nat.eqb (List.length a) (List.length b) && forallb (fun c => Nat.eqb (count_cell c a) (count_cell c b)) a.
Definition result_cells_eqb (a b : result (list cell)) : bool := result_eqb cells_perm_eqb a b.

(* table comparison up to column order (rows in order) *)
Definition row_equiv (a b : row) : bool :=
  Nat.eqb (List.length a) (List.length b)
  && forallb (fun kv => match assoc (fst kv) b with Some v => tval_eqb (snd kv) v | None => false end) a.
Definition table_equiv (a b : table) : bool := list_eqb row_equiv a b.
Definition result_table_eqb (a b : result table) : bool := result_eqb table_equiv a b.

(* ====================================================================================== *)
(** * Side condition on the extracted description under which the round-trip theorems hold *)
Definition meta_col_names : list str :=
  [c_risk_basis; c_country; c_currency; c_reinsurance_basis; c_loss_definition; c_pol].
Definition covers (parts : list keypart) (c : str) : bool :=
  existsb (keypart_eqb (KCol c)) parts || existsb (keypart_eqb (KOpt c)) parts.
Definition part_allowed (allowed : list str) (p : keypart) : bool :=
  match p with KCol c | KOpt c => mem c allowed | KDetail | KLoss => true end.
Definition frame_spec_ok (sp : frame_spec) : bool :=
  list_eqb str_eqb (fs_index_cum sp) [c_ps; c_pe; c_ev]
  && list_eqb str_eqb (fs_index sp) [c_ps; c_pe; c_ev; c_prev]
  && list_eqb str_eqb (fs_meta sp) meta_col_names
  && forallb (fun c => mem c (fs_core sp)) ([c_ps; c_pe; c_ev; c_prev] ++ meta_col_names ++ [c_scenario])
  && forallb (fun c => mem c ([c_ps; c_pe; c_ev; c_prev] ++ meta_col_names ++ [c_scenario])) (fs_core sp)
  (* the grouping key covers every coordinate and every metadata column that can distinguish two
     slices, and nothing that varies inside a cell *)
  && forallb (covers (fs_wide_key sp)) ([c_ps; c_pe; c_ev] ++ meta_col_names)
  && existsb (keypart_eqb KDetail) (fs_wide_key sp)
  && forallb (part_allowed ([c_ps; c_pe; c_ev] ++ meta_col_names)) (fs_wide_key sp)
  && forallb (covers (fs_long_key sp)) ([c_ps; c_pe; c_ev; c_field] ++ meta_col_names)
  && existsb (keypart_eqb KDetail) (fs_long_key sp) && existsb (keypart_eqb KLoss) (fs_long_key sp)
  && forallb (part_allowed ([c_ps; c_pe; c_ev; c_field] ++ meta_col_names)) (fs_long_key sp)
  (* sample order is restored from the scenario column *)
  && list_eqb str_eqb (fs_wide_sort sp) [c_scenario] && list_eqb str_eqb (fs_long_sort sp) [c_scenario]
  (* each metadata column feeds the attribute of the same name *)
  && list_eqb (pair_eqb str_eqb str_eqb) (fs_meta_attr sp) (map (fun c => (c, c)) meta_col_names).

(* ====================================================================================== *)
(** * The hypotheses of the round-trip theorems, as Boolean functions (evaluated on every
      correspondence case so that the generated stream provably lies inside them) *)
Definition scalar_cell (c : cell) : bool := forallb (fun kv => is_scalar (snd kv)) (cvals c).
Definition sample_cell (c : cell) : bool :=
  match cvals c with
  | (_, VArr _ xs) :: _ =>
      (2 <=? List.length xs)%nat
      && forallb (fun kv => match snd kv with
                            | VArr _ ys => Nat.eqb (List.length ys) (List.length xs)
                            | _ => false
                            end) (cvals c)
  | _ => false
  end.
Definition mval_ok (v : mval) : bool := match v with MStr _ | MNum _ => true | _ => false end.
Definition meta_ok (m : meta) : bool :=
  match risk_basis m with Some _ => true | None => false end
  && forallb (fun kv => mval_ok (snd kv)) (details m) && forallb (fun kv => mval_ok (snd kv)) (loss_details m).
(* the key list `ks` lists its names in the order of `universe` *)
Definition ordered_in (universe ks : list str) : bool :=
  list_eqb str_eqb ks (filter (fun k => mem k ks) universe).
Fixpoint nodup_b {A} (eqb : A -> A -> bool) (l : list A) : bool :=
  match l with [] => true | a :: r => negb (existsb (eqb a) r) && nodup_b eqb r end.
Definition reserved_names : list str :=
  [c_ps; c_pe; c_ev; c_prev] ++ meta_col_names ++ [c_scenario; c_field; c_value].
Definition names_ok (fn dn ln : list str) : bool :=
  nodup_b str_eqb (reserved_names ++ fn ++ dn ++ ln).
(* coordinates + metadata as the round trip sees them *)
Definition same_coords (a b : cell) : bool :=
  (ps a =? ps b) && (pe a =? pe b) && (ev a =? ev b) && opt_eqb Z.eqb (prev a) (prev b)
  && meta_seqb (fl_meta (cmeta a)) (fl_meta (cmeta b)).
Definition cell_shape_ok (fn dn ln : list str) (c : cell) : bool :=
  negb (match cvals c with [] => true | _ => false end)
  && nodup_b str_eqb (keys (cvals c))
  && nodup_b str_eqb (keys (details (cmeta c))) && nodup_b str_eqb (keys (loss_details (cmeta c)))
  && meta_ok (cmeta c)
  && ordered_in fn (keys (cvals c))
  && ordered_in dn (keys (details (cmeta c)))
  && ordered_in ln (keys (loss_details (cmeta c))).
Definition cum_ok (c : cell) : bool :=
  match ckind c, prev c with KCum, None => scalar_cell c || sample_cell c | _, _ => false end.
Definition inc_ok (c : cell) : bool :=
  match ckind c, prev c with KInc, Some _ => scalar_cell c | _, _ => false end.
Definition frame_hyps (fn dn ln : list str) (t : list cell) : bool :=
  negb (match t with [] => true | _ => false end)
  && names_ok fn dn ln && forallb (cell_shape_ok fn dn ln) t && nodup_b same_coords t
  && (forallb cum_ok t || forallb inc_ok t).
