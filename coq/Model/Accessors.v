(** C13 -- descriptive accessors and the triangle taxonomy.  Executable definitions only.

    Mirrors bermuda/triangle.py (metadata, periods, evaluation_dates, evaluation_date, dev_lags, fields,
    field_cell_counts, field_slice_counts, num_samples, experience_gaps, common_metadata,
    metadata_differences, is_disjoint, is_semi_regular, is_regular), bermuda/date_utils.py
    (period_resolution, eval_date_resolution, _multi_gcd, _diff) and bermuda/base/metadata.py
    (common_metadata, metadata_diff, _first_if_equal).

    A triangle is its cell list [t.cells] (sorted by the implementation: C01).
    Python [sorted(set(xs))] is [sort_u ltb xs] (insertion sort dropping duplicates) for the orders
    owned here: dates/ints ([Z.ltb]), periods ([pair_ltb], tuple order), strings ([str_ltb]).
    [metadata] is the duplicate-free list of the cells' metadata in first-occurrence order (= sorted
    order when the cells are sorted metadata-major, which is a hypothesis of the sortedness theorem:
    Metadata.__lt__ is owned by C01).
    Month unit: only on month-aligned cells, where dev_lag_months is the integer [lag_months]
    (C12: lag_month_ends_exact). *)
From Coq Require Import ZArith List Bool.
From Bermuda Require Import Lib.Calendar Model.Base.
Import ListNotations.
Local Open Scope Z_scope.

(* ------------------------------------------------------------------ sorted(set(...)) *)
Section SortU.
  Context {A : Type} (ltb : A -> A -> bool).
  Fixpoint insert_u (x : A) (l : list A) : list A :=
    match l with
    | [] => [x]
    | y :: r => if ltb x y then x :: y :: r else if ltb y x then y :: insert_u x r else y :: r
    end.
  Definition sort_u (l : list A) : list A := fold_right insert_u [] l.
End SortU.

Definition pair_ltb (a b : Z * Z) : bool :=
  if fst a <? fst b then true else if fst b <? fst a then false else snd a <? snd b.

(* first-occurrence de-duplication w.r.t. an equivalence test (set(...) / groupby keys) *)
Section Dedup.
  Context {A : Type} (eqb : A -> A -> bool).
  Fixpoint dedup (l : list A) : list A :=
    match l with
    | [] => []
    | x :: r => x :: filter (fun y => negb (eqb x y)) (dedup r)
    end.
End Dedup.

(* ------------------------------------------------------------------ Python == on metadata *)
(* numbers / bools compare by value (True == 1 == 1.0); everything else by kind and content *)
Definition mval_numval (v : mval) : option Z :=
  match v with
  | MBool b => Some (if b then 1024 else 0)
  | MNum x => Some (num_n x)
  | _ => None
  end.
Definition mval_pyeq (a b : mval) : bool :=
  match mval_numval a, mval_numval b with
  | Some x, Some y => x =? y
  | None, None =>
      match a, b with
      | MStr x, MStr y => str_eqb x y
      | MDate x, MDate y => x =? y
      | MNone, MNone => true
      | _, _ => false
      end
  | _, _ => false
  end.
Definition omval_pyeq (a b : option mval) : bool := opt_eqb mval_pyeq a b.
(* dict == dict : same key set, equal values (keys unique) *)
Definition dict_pyeq (a b : list (str * mval)) : bool :=
  forallb (fun k => omval_pyeq (assoc k a) (assoc k b)) (keys a ++ keys b).
Definition ostr_eqb := opt_eqb str_eqb.
Definition onum_pyeq := opt_eqb num_eqb.
Definition meta_pyeq (a b : meta) : bool :=
  ostr_eqb (risk_basis a) (risk_basis b) && ostr_eqb (country a) (country b)
  && ostr_eqb (currency a) (currency b) && ostr_eqb (reinsurance_basis a) (reinsurance_basis b)
  && ostr_eqb (loss_definition a) (loss_definition b)
  && onum_pyeq (per_occurrence_limit a) (per_occurrence_limit b)
  && dict_pyeq (details a) (details b) && dict_pyeq (loss_details a) (loss_details b).

(* ------------------------------------------------------------------ the simple accessors *)
Inductive unit_ := UDay | UMonth.
Definition cell_lag (u : unit_) (c : cell) : Z :=
  match u with UDay => ev c - pe c | UMonth => lag_months (pe c) (ev c) end.

Definition metadata (t : list cell) : list meta := dedup meta_pyeq (map cmeta t).
Definition periods (t : list cell) : list (Z * Z) := sort_u pair_ltb (map period t).
Definition evaluation_dates (t : list cell) : list Z := sort_u Z.ltb (map ev t).
Definition dev_lags (u : unit_) (t : list cell) : list Z := sort_u Z.ltb (map (cell_lag u) t).
Definition fields (t : list cell) : list str :=
  sort_u str_ltb (flat_map (fun c => keys (cvals c)) t).

Definition list_max (l : list Z) (d : Z) : Z := fold_left Z.max l d.
(* max(self.evaluation_dates); TriangleEmptyError <: TriangleError on the empty triangle *)
Definition evaluation_date (t : list cell) : result Z :=
  match evaluation_dates t with
  | [] => Err TriangleError
  | d :: r => Ok (list_max r d)
  end.

Definition count {A} (f : A -> bool) (l : list A) : Z := Z.of_nat (length (filter f l)).
Definition field_cell_counts (t : list cell) : list (str * Z) :=
  map (fun f => (f, count (fun c => has_key f (cvals c)) t)) (fields t).
(* slices = groupby metadata; slc.fields contains f iff some cell of the slice has f *)
Definition slice_cells (m : meta) (t : list cell) : list cell :=
  filter (fun c => meta_pyeq m (cmeta c)) t.
Definition field_slice_counts (t : list cell) : list (str * Z) :=
  map (fun f => (f, count (fun m => existsb (fun c => has_key f (cvals c)) (slice_cells m t))
                           (metadata t))) (fields t).

(* num_samples: arrays of size > 1 must agree *)
Definition value_size (v : value) : option Z :=
  match v with
  | VArr _ xs => let n := Z.of_nat (length xs) in if 1 <? n then Some n else None
  | _ => None
  end.
Fixpoint ns_scan (acc : option Z) (vs : list value) : result (option Z) :=
  match vs with
  | [] => Ok acc
  | v :: r =>
      match value_size v with
      | None => ns_scan acc r
      | Some n =>
          match acc with
          | None => ns_scan (Some n) r
          | Some m => if m =? n then ns_scan acc r else Err ValueError
          end
      end
  end.
Definition all_values (t : list cell) : list value := flat_map (fun c => map snd (cvals c)) t.
Definition num_samples (t : list cell) : result Z :=
  match ns_scan None (all_values t) with
  | Ok None => Ok 1
  | Ok (Some n) => Ok n
  | Err e => Err e
  end.

(* experience_gaps: scan of adjacent sorted periods *)
Fixpoint gaps_of (ps : list (Z * Z)) : list (Z * Z) :=
  match ps with
  | a :: (b :: _) as r =>
      let cont := snd a + 1 in
      if fst b =? cont then gaps_of r else (cont, fst b - 1) :: gaps_of r
  | _ => []
  end.
Definition experience_gaps (t : list cell) : list (Z * Z) := gaps_of (periods t).

(* ------------------------------------------------------------------ metadata algebra *)
Definition first_if_equal {A} (eqb : A -> A -> bool) (a b : option A) : option A :=
  if opt_eqb eqb a b then a else None.
(* details: {k: meta1.details[k] for k in common keys if meta1.details[k] == meta2.details[k]};
   loss_details takes the value from meta2.  Key order of the result is the iteration order of a
   Python set (unspecified): results are compared up to key order. *)
Definition common_dict (take_second : bool) (d1 d2 : list (str * mval)) : list (str * mval) :=
  flat_map (fun kv =>
    match assoc (fst kv) d2 with
    | Some v2 => if mval_pyeq (snd kv) v2 then [(fst kv, if take_second then v2 else snd kv)] else []
    | None => []
    end) d1.
Definition common_metadata2 (m1 m2 : meta) : meta :=
  mkMeta (first_if_equal str_eqb (risk_basis m1) (risk_basis m2))
         (first_if_equal str_eqb (country m1) (country m2))
         (first_if_equal str_eqb (currency m1) (currency m2))
         (first_if_equal str_eqb (reinsurance_basis m1) (reinsurance_basis m2))
         (first_if_equal str_eqb (loss_definition m1) (loss_definition m2))
         (first_if_equal num_eqb (per_occurrence_limit m1) (per_occurrence_limit m2))
         (common_dict false (details m1) (details m2))
         (common_dict true (loss_details m1) (loss_details m2)).
Definition common_of (ms : list meta) : result meta :=
  match ms with
  | [] => Err IndexError                       (* metas[0] on the empty triangle *)
  | m :: r => Ok (fold_left common_metadata2 r m)
  end.
Definition common_metadata (t : list cell) : result meta := common_of (metadata t).

Definition none_if_some {A B} (core : option A) (x : option B) : option B :=
  match core with None => x | Some _ => None end.
Definition metadata_diff (core m : meta) : meta :=
  mkMeta (none_if_some (risk_basis core) (risk_basis m))
         (none_if_some (country core) (country m))
         (none_if_some (currency core) (currency m))
         (none_if_some (reinsurance_basis core) (reinsurance_basis m))
         (none_if_some (loss_definition core) (loss_definition m))
         (none_if_some (per_occurrence_limit core) (per_occurrence_limit m))
         (filter (fun kv => negb (has_key (fst kv) (details core))) (details m))
         (filter (fun kv => negb (has_key (fst kv) (loss_details core))) (loss_details m)).
Definition metadata_differences (t : list cell) : list meta :=
  match common_metadata t with
  | Ok c => map (metadata_diff c) (metadata t)
  | Err _ => []                                (* empty triangle: the comprehension never runs *)
  end.

(* putting a difference back on top of the common part *)
Definition or_else {A} (a b : option A) : option A := match a with Some _ => a | None => b end.
Definition recombine (core d : meta) : meta :=
  mkMeta (or_else (risk_basis core) (risk_basis d)) (or_else (country core) (country d))
         (or_else (currency core) (currency d))
         (or_else (reinsurance_basis core) (reinsurance_basis d))
         (or_else (loss_definition core) (loss_definition d))
         (or_else (per_occurrence_limit core) (per_occurrence_limit d))
         (details core ++ details d) (loss_details core ++ loss_details d).

(* ------------------------------------------------------------------ taxonomy *)
(* decision token of is_disjoint: `if prev_end >= next_start: return False` *)
Definition overlap_adjacent (prev next : Z * Z) : bool := snd prev >=? fst next.
Fixpoint adj_ok (bad : Z * Z -> Z * Z -> bool) (ps : list (Z * Z)) : bool :=
  match ps with
  | a :: (b :: _) as r => if bad a b then false else adj_ok bad r
  | _ => true
  end.
Definition is_disjoint_with (bad : Z * Z -> Z * Z -> bool) (t : list cell) : bool :=
  match t with [] => true | _ => adj_ok bad (periods t) end.
Definition is_disjoint (t : list cell) : bool := is_disjoint_with overlap_adjacent t.
Definition is_slicewise_disjoint (t : list cell) : bool :=
  forallb (fun m => is_disjoint (slice_cells m t)) (metadata t).

(* closed intervals [s1,e1], [s2,e2] share a day *)
Definition overlap (p q : Z * Z) : bool := (fst p <=? snd q) && (fst q <=? snd p).

(* diff_fn of is_semi_regular: months: dev_lag_months(start - 1 day, stop) (integer on month-aligned
   periods); days: start - stop (only compared for equality) *)
Definition plen (u : unit_) (p : Z * Z) : Z :=
  match u with UDay => fst p - snd p | UMonth => lag_months (fst p - 1) (snd p) end.
Definition is_semi_regular (u : unit_) (t : list cell) : bool :=
  if negb (is_disjoint t) then false else
  match periods t with
  | [] => true
  | p0 :: r => forallb (fun p => plen u p =? plen u p0) r
  end.

(* for prv, nxt in zip(l[1:-1], l[2:]): adjacent pairs of l[1:] *)
Fixpoint const_step (d : Z) (l : list Z) : bool :=
  match l with
  | a :: (b :: _) as r => if b - a =? d then const_step d r else false
  | _ => true
  end.
Definition is_regular (u : unit_) (t : list cell) : bool :=
  if negb (is_semi_regular u t) then false else
  match dev_lags u t with
  | l0 :: ((l1 :: _) as r) => const_step (l1 - l0) r
  | _ => true
  end.

(* ------------------------------------------------------------------ resolutions *)
Fixpoint diffs (xs : list Z) : list Z :=                       (* _diff *)
  match xs with
  | a :: (b :: _) as r => (b - a) :: diffs r
  | _ => []
  end.
(* _multi_gcd; list(set(xs)) has an unspecified order -- modelled by the sorted order, the theorem
   shows the value does not depend on it.  [] cannot occur behind the `if not diffs` guard. *)
Definition multi_gcd (xs : list Z) : result Z :=
  match sort_u Z.ltb xs with
  | [] => Err IndexError
  | [x] => Ok x
  | x :: y :: r => Ok (fold_left Z.gcd r (Z.gcd x y))
  end.
Definition resolution_of (months : list Z) : result (option Z) :=
  match diffs months with
  | [] => Ok None
  | ds => match multi_gcd ds with Ok g => Ok (Some g) | Err e => Err e end
  end.
Definition period_resolution (t : list cell) : result (option Z) :=
  match periods t with
  | [] => Err ValueError                       (* zip of no periods cannot be unpacked into two names *)
  | ps => resolution_of (sort_u Z.ltb (map (fun p => month_id (fst p)) ps
                                        ++ map (fun p => month_id (snd p) + 1) ps))
  end.
(* month ids of the (distinct, sorted) evaluation dates, NOT de-duplicated: two dates in one month
   give a zero difference *)
Fixpoint isort_ins (x : Z) (l : list Z) : list Z :=
  match l with [] => [x] | y :: r => if x <=? y then x :: l else y :: isort_ins x r end.
Definition isort (l : list Z) : list Z := fold_right isort_ins [] l.
Definition eval_date_resolution (t : list cell) : result (option Z) :=
  resolution_of (isort (map month_id (evaluation_dates t))).

(* ------------------------------------------------------------------ comparison helpers for the tie *)
(* strict on kinds/values, insensitive to dict key order (set-iteration order is unspecified) *)
Definition dict_oeqb (a b : list (str * mval)) : bool :=
  (length a =? length b)%nat
  && forallb (fun kv => match assoc (fst kv) b with Some v => mval_seqb (snd kv) v | None => false end) a.
Definition meta_oeqb (a b : meta) : bool :=
  opt_eqb str_eqb (risk_basis a) (risk_basis b) && opt_eqb str_eqb (country a) (country b)
  && opt_eqb str_eqb (currency a) (currency b)
  && opt_eqb str_eqb (reinsurance_basis a) (reinsurance_basis b)
  && opt_eqb str_eqb (loss_definition a) (loss_definition b)
  && opt_eqb num_seqb (per_occurrence_limit a) (per_occurrence_limit b)
  && dict_oeqb (details a) (details b) && dict_oeqb (loss_details a) (loss_details b).
Definition zpair_eqb (a b : Z * Z) : bool := (fst a =? fst b) && (snd a =? snd b).
Definition oz_eqb := opt_eqb Z.eqb.
Definition strz_eqb (a b : str * Z) : bool := str_eqb (fst a) (fst b) && (snd a =? snd b).

(* ------------------------------------------------------------------ executable specifications
   (evaluated on the IMPLEMENTATION's outputs by the tie; the theorems of Proofs/Accessors*.v show
   the model satisfies them) *)
Section Spec.
  Context {A : Type} (ltb eqb : A -> A -> bool).
  Fixpoint sorted_b (l : list A) : bool :=
    match l with a :: (b :: _) as r => ltb a b && sorted_b r | _ => true end.
  Definition mem_b (x : A) (l : list A) : bool := existsb (eqb x) l.
  (* out is strictly sorted and has exactly the elements of xs *)
  Definition image_spec_b (xs out : list A) : bool :=
    sorted_b out && forallb (fun x => mem_b x out) xs && forallb (fun y => mem_b y xs) out.
End Spec.

Definition disjoint_spec_b (t : list cell) : bool :=
  let ps := map period t in
  forallb (fun p => forallb (fun q => zpair_eqb p q || negb (overlap p q)) ps) ps.
Definition equal_lengths_b (u : unit_) (t : list cell) : bool :=
  match t with [] => true | c :: _ => forallb (fun d => plen u (period d) =? plen u (period c)) t end.
Definition const_spacing_b (u : unit_) (t : list cell) : bool :=
  match dev_lags u t with
  | l0 :: l1 :: _ => forallb (fun d => d =? l1 - l0) (diffs (dev_lags u t))
  | _ => true
  end.
(* g is THE greatest common divisor of the gaps: divides all, and is a multiple of ... (checked by
   g >= 0, g | every gap, and gcd-fold = g) *)
Definition gcd_spec_b (gaps : list Z) (g : Z) : bool :=
  (0 <=? g) && forallb (fun x => if g =? 0 then x =? 0 else x mod g =? 0) gaps
  && (fold_right Z.gcd 0 gaps =? g).

(* ------------------------------------------------------------------ descriptions of the decision
   tokens that translate/t_acc.py regenerates from the source on every run (GenAcc.v) *)
Inductive operand := PrevStart | PrevEnd | NextStart | NextEnd.
Inductive cmpop := CGe | CGt | CLe | CLt | CEq | CNe.
Record cmp_desc := mkCmp { c_left : operand; c_op : cmpop; c_right : operand }.
Definition eval_operand (o : operand) (p n : Z * Z) : Z :=
  match o with PrevStart => fst p | PrevEnd => snd p | NextStart => fst n | NextEnd => snd n end.
Definition eval_cmpop (o : cmpop) (a b : Z) : bool :=
  match o with
  | CGe => a >=? b | CGt => a >? b | CLe => a <=? b | CLt => a <? b | CEq => a =? b | CNe => negb (a =? b)
  end.
Definition eval_cmp (d : cmp_desc) (p n : Z * Z) : bool :=
  eval_cmpop (c_op d) (eval_operand (c_left d) p n) (eval_operand (c_right d) p n).
(* the two spellings of `prev_end >= next_start` *)
Definition cmp_spec_ok (d : cmp_desc) : bool :=
  match d with
  | mkCmp PrevEnd CGe NextStart | mkCmp NextStart CLe PrevEnd => true
  | _ => false
  end.

Inductive redop := OpGcd | OpMin | OpMax.
Record red_desc := mkRed { r_op : redop; r_single : nat; r_seed_a : nat; r_seed_b : nat; r_from : nat }.
Definition eval_redop (o : redop) : Z -> Z -> Z :=
  match o with OpGcd => Z.gcd | OpMin => Z.min | OpMax => Z.max end.
Definition multi_gcd_gen (d : red_desc) (xs : list Z) : result Z :=
  let u := sort_u Z.ltb xs in
  match u with
  | [] => Err IndexError
  | [_] => match nth_error u (r_single d) with Some x => Ok x | None => Err IndexError end
  | _ => match nth_error u (r_seed_a d), nth_error u (r_seed_b d) with
         | Some a, Some b => Ok (fold_left (eval_redop (r_op d)) (skipn (r_from d) u) (eval_redop (r_op d) a b))
         | _, _ => Err IndexError
         end
  end.
Definition red_spec_ok (d : red_desc) : bool :=
  match d with
  | mkRed OpGcd O O (S O) (S (S O)) | mkRed OpGcd O (S O) O (S (S O)) => true
  | _ => false
  end.

Inductive binop := BSub | BAdd.
Inductive side := After | Before.
Record diff_d := mkDiff { d_op : binop; d_left : side }.
Definition diff_spec_ok (d : diff_d) : bool :=
  match d with mkDiff BSub After => true | _ => false end.
Definition eval_diff (d : diff_d) (before after : Z) : Z :=
  let '(l, r) := match d_left d with After => (after, before) | Before => (before, after) end in
  match d_op d with BSub => l - r | BAdd => l + r end.
Fixpoint diffs_gen (d : diff_d) (xs : list Z) : list Z :=
  match xs with
  | a :: (b :: _) as r => eval_diff d a b :: diffs_gen d r
  | _ => []
  end.
