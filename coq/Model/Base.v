(** Shared data model for the structural properties (C01, C02, C04, C08-C11, C13, C15 ...).
    Executable definitions only.

    Conventions (DESIGN.md §3):
    - str   = UTF-8 bytes; Python's str order is code-point order = bytewise lexicographic order.
    - date  = proleptic Gregorian ordinal (date.toordinal()); comparisons and +-days are Z arithmetic.
    - num   = a Python number.  `Num f n` denotes the value n / 1024; f = true for float, false for
              int (an int i is Num false (1024*i)).  The harness only feeds dyadic values on which
              binary64 addition/subtraction is exact, so +,- are exact integer arithmetic on n and
              numeric equality (100 == 100.0) is equality of n.
    - dict  = association list in insertion order with unique keys. *)
From Coq Require Import ZArith List Bool.
Import ListNotations.
Local Open Scope Z_scope.

Definition str := list Z.
Definition date := Z.

Inductive num := Num (is_float : bool) (n1024 : Z).
Definition num_n (x : num) : Z := let 'Num _ n := x in n.
Definition num_isf (x : num) : bool := let 'Num f _ := x in f.
Definition num_eqb (a b : num) : bool := num_n a =? num_n b.          (* Python == on numbers *)
Definition num_ltb (a b : num) : bool := num_n a <? num_n b.
Definition num_add (a b : num) : num := Num (num_isf a || num_isf b) (num_n a + num_n b).
Definition num_sub (a b : num) : num := Num (num_isf a || num_isf b) (num_n a - num_n b).
Definition num_of_int (i : Z) : num := Num false (1024 * i).

(** metadata detail values: str | float | int | bool | date | None  (ndarray not modelled) *)
Inductive mval :=
| MStr (s : str) | MNum (x : num) | MBool (b : bool) | MDate (d : date) | MNone.

(** cell values: number | None | 1-d numpy array (is_float = float64, else int64; entries n/1024) *)
Inductive value :=
| VNum (x : num) | VNone | VArr (is_float : bool) (xs : list Z).

Record meta := mkMeta {
  risk_basis : option str;
  country : option str;
  currency : option str;
  reinsurance_basis : option str;
  loss_definition : option str;
  per_occurrence_limit : option num;
  details : list (str * mval);
  loss_details : list (str * mval) }.

Inductive kind := KCell | KCum | KInc.      (* Cell | CumulativeCell | IncrementalCell *)

Record cell := mkCell {
  ckind : kind;
  ps : date;               (* period_start *)
  pe : date;               (* period_end *)
  ev : date;               (* evaluation_date *)
  prev : option date;      (* prev_evaluation_date: Some _ iff ckind = KInc *)
  cmeta : meta;
  cvals : list (str * value) }.

Definition default_meta : meta :=
  mkMeta (Some [65;99;99;105;100;101;110;116]) None None None None None [] [].  (* "Accident" *)

(** exceptions, compared by class only *)
Inductive err := TriangleError | ValueError | TypeError | IndexError | KeyError | OtherError.
Inductive result (A : Type) := Ok (a : A) | Err (e : err).
Arguments Ok {A} a.
Arguments Err {A} e.
Definition bind {A B} (r : result A) (f : A -> result B) : result B :=
  match r with Ok a => f a | Err e => Err e end.

(* ---------- structural (Leibniz-style) boolean equalities, used to compare model and
   implementation outputs strictly (kinds, key order, float-vs-int all matter) ---------- *)
Fixpoint list_eqb {A} (eqb : A -> A -> bool) (l1 l2 : list A) : bool :=
  match l1, l2 with
  | [], [] => true
  | a :: r1, b :: r2 => eqb a b && list_eqb eqb r1 r2
  | _, _ => false
  end.
Definition str_eqb (a b : str) : bool := list_eqb Z.eqb a b.
Definition opt_eqb {A} (eqb : A -> A -> bool) (a b : option A) : bool :=
  match a, b with Some x, Some y => eqb x y | None, None => true | _, _ => false end.
Definition num_seqb (a b : num) : bool := Bool.eqb (num_isf a) (num_isf b) && (num_n a =? num_n b).
Definition mval_seqb (a b : mval) : bool :=
  match a, b with
  | MStr x, MStr y => str_eqb x y
  | MNum x, MNum y => num_seqb x y
  | MBool x, MBool y => Bool.eqb x y
  | MDate x, MDate y => x =? y
  | MNone, MNone => true
  | _, _ => false
  end.
Definition value_seqb (a b : value) : bool :=
  match a, b with
  | VNum x, VNum y => num_seqb x y
  | VNone, VNone => true
  | VArr f xs, VArr g ys => Bool.eqb f g && list_eqb Z.eqb xs ys
  | _, _ => false
  end.
Definition pair_eqb {A B} (ea : A -> A -> bool) (eb : B -> B -> bool) (x y : A * B) : bool :=
  ea (fst x) (fst y) && eb (snd x) (snd y).
Definition kind_eqb (a b : kind) : bool :=
  match a, b with KCell, KCell | KCum, KCum | KInc, KInc => true | _, _ => false end.
Definition meta_seqb (a b : meta) : bool :=
  opt_eqb str_eqb (risk_basis a) (risk_basis b) && opt_eqb str_eqb (country a) (country b)
  && opt_eqb str_eqb (currency a) (currency b)
  && opt_eqb str_eqb (reinsurance_basis a) (reinsurance_basis b)
  && opt_eqb str_eqb (loss_definition a) (loss_definition b)
  && opt_eqb num_seqb (per_occurrence_limit a) (per_occurrence_limit b)
  && list_eqb (pair_eqb str_eqb mval_seqb) (details a) (details b)
  && list_eqb (pair_eqb str_eqb mval_seqb) (loss_details a) (loss_details b).
Definition cell_seqb (a b : cell) : bool :=
  kind_eqb (ckind a) (ckind b) && (ps a =? ps b) && (pe a =? pe b) && (ev a =? ev b)
  && opt_eqb Z.eqb (prev a) (prev b) && meta_seqb (cmeta a) (cmeta b)
  && list_eqb (pair_eqb str_eqb value_seqb) (cvals a) (cvals b).
Definition err_eqb (a b : err) : bool :=
  match a, b with
  | TriangleError, TriangleError | ValueError, ValueError | TypeError, TypeError
  | IndexError, IndexError | KeyError, KeyError | OtherError, OtherError => true
  | _, _ => false
  end.
Definition result_eqb {A} (eqb : A -> A -> bool) (a b : result A) : bool :=
  match a, b with Ok x, Ok y => eqb x y | Err x, Err y => err_eqb x y | _, _ => false end.

(* ---------- small dict helpers (association lists) ---------- *)
Fixpoint assoc {V} (k : str) (d : list (str * V)) : option V :=
  match d with
  | [] => None
  | (k', v) :: r => if str_eqb k k' then Some v else assoc k r
  end.
Definition keys {V} (d : list (str * V)) : list str := map fst d.
Definition has_key {V} (k : str) (d : list (str * V)) : bool :=
  match assoc k d with Some _ => true | None => false end.
(* d[k] = v  (keeps the position of an existing key, appends a new one -- Python dict) *)
Fixpoint dict_set {V} (k : str) (v : V) (d : list (str * V)) : list (str * V) :=
  match d with
  | [] => [(k, v)]
  | (k', v') :: r => if str_eqb k k' then (k', v) :: r else (k', v') :: dict_set k v r
  end.
(* {**a, **b} *)
Definition dict_union {V} (a b : list (str * V)) : list (str * V) :=
  fold_left (fun acc kv => dict_set (fst kv) (snd kv) acc) b a.

(* bytewise lexicographic order on strings = Python's str < *)
Fixpoint str_ltb (a b : str) : bool :=
  match a, b with
  | [], [] => false
  | [], _ :: _ => true
  | _ :: _, [] => false
  | x :: r, y :: s => if x <? y then true else if y <? x then false else str_ltb r s
  end.

(* indices of the failing entries of a list of booleans (correspondence files print this) *)
Fixpoint failing_from (i : nat) (l : list bool) : list nat :=
  match l with
  | [] => []
  | b :: r => if b then failing_from (S i) r else i :: failing_from (S i) r
  end.
Definition failing (l : list bool) : list nat := failing_from O l.

(* coordinates *)
Definition is_inc (c : cell) : bool := match ckind c with KInc => true | _ => false end.
Definition period (c : cell) : date * date := (ps c, pe c).
Definition same_period (a b : cell) : bool := (ps a =? ps b) && (pe a =? pe b).
