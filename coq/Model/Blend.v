(** C16 -- executable model of bermuda/utils/summarize.py: blend, blend_cells, blend_samples,
    _linear_blend, _mixture_blend, over exact rationals (QArith).  Definitions only.

    What is an ORACLE here (an explicit argument; every theorem quantifies over it):
    - [fo : list str -> list str]   iteration order of Python's [set(cells[0].values.keys())]
                                    (blend_cells loops over a set); a permutation of its argument.
    - [draw : nat -> str -> list nat]  the index vector [np.random.choice(range(M), S, p=w)] drawn for
                                    the field [f] of the [i]-th blended cell (canonical cell order).
    Numbers: a cell value n/1024 (Base.num / VArr entries) is the rational n # 1024; weights are Q.
    Results are stated up to [==] (Qeq); nothing is reduced with Qred.
    Coordinates are compared with the strict structural equalities of Base.v (the harness never
    generates metadata that are Python-equal but structurally different). *)
From Coq Require Import ZArith QArith Qabs List Bool.
From Bermuda Require Import Model.Base.
Import ListNotations.
Local Open Scope Q_scope.

(* ------------------------------------------------------------------ numbers *)
Definition q_of_n (n : Z) : Q := Qmake n 1024.

(* a value seen as the list the code works with: scalar -> [v]; array -> its entries; None -> len() fails *)
Definition samples (v : value) : option (list Q) :=
  match v with
  | VNum x => Some [q_of_n (num_n x)]
  | VArr _ xs => Some (map q_of_n xs)
  | VNone => None
  end.

Fixpoint qsum (l : list Q) : Q := match l with [] => 0 | x :: r => x + qsum r end.
Fixpoint dot (ws vs : list Q) : Q :=
  match ws, vs with w :: ws', v :: vs' => w * v + dot ws' vs' | _, _ => 0 end.

Fixpoint all_some {A} (l : list (option A)) : option (list A) :=
  match l with
  | [] => Some []
  | None :: _ => None
  | Some a :: r => match all_some r with Some r' => Some (a :: r') | None => None end
  end.

(* sequential map over a list, the first error wins (Python evaluation order) *)
Fixpoint map_result {A B} (f : A -> result B) (l : list A) : result (list B) :=
  match l with
  | [] => Ok []
  | a :: r => bind (f a) (fun b => bind (map_result f r) (fun bs => Ok (b :: bs)))
  end.

(* ------------------------------------------------------------------ coordinates *)
(* the dictionary key of blend(): (metadata, period, evaluation_date[, prev_evaluation_date]);
   prev is None for non-incremental cells, so it can always be part of the key *)
Record coord := mkCoord { k_meta : meta; k_ps : date; k_pe : date; k_ev : date; k_prev : option date }.
Definition coord_of (c : cell) : coord := mkCoord (cmeta c) (ps c) (pe c) (ev c) (prev c).
Definition coord_eqb (a b : coord) : bool :=
  meta_seqb (k_meta a) (k_meta b) && (k_ps a =? k_ps b)%Z && (k_pe a =? k_pe b)%Z
  && (k_ev a =? k_ev b)%Z && opt_eqb Z.eqb (k_prev a) (k_prev b).

(* Python dict keyed by coordinates: d[k] = c keeps position and key object of an existing key *)
Fixpoint cd_set (k : coord) (c : cell) (d : list (coord * cell)) : list (coord * cell) :=
  match d with
  | [] => [(k, c)]
  | (k', c') :: r => if coord_eqb k k' then (k', c) :: r else (k', c') :: cd_set k c r
  end.
Fixpoint cd_get (k : coord) (d : list (coord * cell)) : option cell :=
  match d with
  | [] => None
  | (k', c) :: r => if coord_eqb k k' then Some c else cd_get k r
  end.
(* {coordinate: cell for cell in tri} *)
Definition index_tri (t : list cell) : list (coord * cell) :=
  fold_left (fun acc c => cd_set (coord_of c) c acc) t [].

(* the part of a cell that cells[0].replace(values=...) keeps *)
Definition hdr (c : cell) : cell := mkCell (ckind c) (ps c) (pe c) (ev c) (prev c) (cmeta c) [].

(* ------------------------------------------------------------------ results *)
Inductive qval :=
| QKeep (v : value)        (* the original Python object passed through (mixture, equal scalars) *)
| QArr (xs : list Q)       (* a float64 array *)
| QOther.                  (* anything else the implementation might return; never produced here *)
Record qcell := mkQCell { qhdr : cell; qvals : list (str * qval) }.

Inductive method := MMixture | MLinear | MBad.      (* MBad: a string that is not a blend method *)
Definition is_mixture (m : method) : bool := match m with MMixture => true | _ => false end.

(* the `weights` argument *)
Inductive weights :=
| WNone
| WList (ws : list Q)
| WDict (rows : list (list Q))   (* dict values in insertion order; each np.atleast_2d(v): scalar -> [w] *)
| WOther.                        (* any other type (tuple, ndarray, ...) *)

(* ------------------------------------------------------------------ _linear_blend *)
Definition pick (v : list Q) (k : nat) : Q := match v with [x] => x | _ => nth k v 0 end.
Definition max_len (vs : list (list Q)) : nat := fold_right (fun v m => Nat.max (length v) m) O vs.
Definition linear_at (ws : list Q) (vs : list (list Q)) (k : nat) : Q := dot ws (map (fun v => pick v k) vs).
Definition linear_blend (vs : list (list Q)) (ws : list Q) : result (list Q) :=
  let S := max_len vs in
  if forallb (fun v => (length v =? S)%nat || (length v =? 1)%nat) vs
  then Ok (map (linear_at ws vs) (seq 0 S))
  else Err ValueError.

(* ------------------------------------------------------------------ _mixture_blend *)
Definition qtol : Q := Qmake 1 100000000.
(* round(sum(w), 6) == 1 and np.random.choice's own checks (p >= 0, |sum p - 1| <= sqrt(eps)):
   every failure is a ValueError; sums between 1e-8 and 1.5e-8 away from 1 are not generated *)
Definition probs_ok (ws : list Q) : bool :=
  Qle_bool (Qabs (qsum ws - 1)) qtol && forallb (fun w => Qle_bool 0 w) ws.
Definition draw_ok (M S : nat) (d : list nat) : bool :=
  (length d =? S)%nat && forallb (fun j => (j <? M)%nat) d.
Definition arr_of (v : value) : list Q := match samples v with Some l => l | None => [] end.
Definition mixture_at (arrs : list (list Q)) (d : list nat) (k : nat) : Q :=
  nth k (nth (nth k d O) arrs []) 0.
Definition mixture_blend (vals : list value) (ws : list Q) (d : list nat) : result (list Q) :=
  if negb (Qle_bool (Qabs (qsum ws - 1)) qtol) then Err ValueError       (* round(sum(weights), 6) != 1 *)
  else match vals with
  | [] => Err IndexError
  | VNone :: _ => Err IndexError                                          (* np.shape(None)[0] *)
  | VNum _ :: _ => Err OtherError                                         (* unreachable from blend_cells *)
  | VArr _ x0 :: _ =>
      let S := length x0 in
      if negb (probs_ok ws) then Err ValueError                           (* np.random.choice(p=...) *)
      else if negb (draw_ok (length vals) S d) then Err OtherError        (* oracle is not a choice() result *)
      else if negb (forallb (fun v => (length (arr_of v) =? S)%nat) vals) then Err IndexError
      else Ok (map (mixture_at (map arr_of vals) d) (seq 0 S))
  end.

(* ------------------------------------------------------------------ blend_samples *)
Definition uniform (M : nat) : list Q := repeat (Qmake 1 (Pos.of_nat M)) M.
Definition blend_samples (d : list nat) (vals : list value) (w : option (list Q)) (m : method)
  : result (list Q) :=
  let ws := match w with None => uniform (length vals) | Some ws => ws end in
  if negb (length ws =? length vals)%nat then Err ValueError
  else match m with
  | MMixture => mixture_blend vals ws d
  | MLinear => match all_some (map samples vals) with
               | None => Err TypeError                                   (* len(None) *)
               | Some vs => linear_blend vs ws
               end
  | MBad => Err ValueError
  end.

(* ------------------------------------------------------------------ blend_cells *)
(* type(v): int | float | ndarray | NoneType *)
Definition vtype (v : value) : nat :=
  match v with VNum (Num false _) => 0 | VNum (Num true _) => 1 | VArr _ _ => 2 | VNone => 3 end%nat.
Definition is_scalar (v : value) : bool := match v with VNum _ => true | _ => false end.
Definition val_pyeq (a b : value) : bool :=
  match a, b with VNum x, VNum y => num_eqb x y | _, _ => false end.
Definition keyset_eqb (a b : list str) : bool :=
  (length a =? length b)%nat && forallb (fun k => existsb (str_eqb k) b) a.

Definition blend_field (d : list nat) (cells : list cell) (w : option (list Q)) (m : method) (f : str)
  : result qval :=
  match all_some (map (fun c => assoc f (cvals c)) cells) with
  | None => Err KeyError
  | Some [] => Err IndexError
  | Some (v0 :: rest) =>
      if is_mixture m && negb (forallb (fun v => (vtype v =? vtype v0)%nat) rest) then Err TypeError
      else if is_mixture m && is_scalar v0 then
        if existsb (fun v => negb (val_pyeq v v0)) rest then Err ValueError else Ok (QKeep v0)
      else bind (blend_samples d (v0 :: rest) w m) (fun xs => Ok (QArr xs))
  end.

Definition blend_cells (fo : list str -> list str) (draw : str -> list nat) (cells : list cell)
           (w : option (list Q)) (m : method) : result qcell :=
  match cells with
  | [] => Err IndexError
  | c0 :: rest =>
      let ks := keys (cvals c0) in
      if negb (forallb (fun c => keyset_eqb ks (keys (cvals c))) rest) then Err ValueError
      else bind (map_result (fun f => bind (blend_field (draw f) cells w m f) (fun v => Ok (f, v))) (fo ks))
                (fun vs => Ok (mkQCell (hdr c0) vs))
  end.

(* ------------------------------------------------------------------ blend *)
Definition transpose (n : nat) (rows : list (list Q)) : list (list Q) :=
  map (fun j => map (fun r => nth j r 0) rows) (seq 0 n).

(* one weight vector per cell, in the order of the first triangle's cells *)
Definition weight_list (w : weights) (n_cells : nat) : result (list (option (list Q))) :=
  match w with
  | WNone => Ok (repeat None n_cells)
  | WList ws => Ok (repeat (Some ws) n_cells)
  | WOther => Err TypeError
  | WDict rows =>
      match rows with
      | [] => Err ValueError                                             (* np.concatenate([]) *)
      | r0 :: _ =>
          if negb (forallb (fun r => (length r =? length r0)%nat) rows) then Err ValueError
          else let cols := transpose (length r0) rows in
               if negb (length cols =? 1)%nat && negb (length cols =? n_cells)%nat then Err ValueError
               else if (length cols =? 1)%nat
                    then Ok (repeat (Some (hd [] cols)) n_cells)
                    else Ok (map Some cols)
      end
  end.

Fixpoint blend_loop (fo : list str -> list str) (draw : nat -> str -> list nat) (i : nat)
         (idx0 : list (coord * cell)) (wl : list (option (list Q)))
         (idxs : list (list (coord * cell))) (m : method) : result (list qcell) :=
  match idx0, wl with
  | (k, _) :: r, w :: wr =>
      match all_some (map (cd_get k) idxs) with
      | None => Err ValueError                       (* KeyError -> "identical set of coordinates" *)
      | Some cells =>
          bind (blend_cells fo (draw i) cells w m)
               (fun c => bind (blend_loop fo draw (S i) r wr idxs m) (fun cs => Ok (c :: cs)))
      end
  | _, _ => Ok []
  end.

Definition first_kind (t : list cell) : option kind := match t with [] => None | c :: _ => Some (ckind c) end.
Definition okind_eqb (a b : option kind) : bool := opt_eqb kind_eqb a b.

(* the single-triangle sanity check (only meaningful for list weights: fix of F14) *)
Definition single_check (tris : list (list cell)) (w : weights) : option err :=
  match w with
  | WList ws =>
      if (length tris <=? 1)%nat then
        match ws with
        | [] => Some IndexError
        | w0 :: _ => if Qeq_bool w0 1 then None else Some ValueError
        end
      else None
  | _ => None
  end.

Definition blend (fo : list str -> list str) (draw : nat -> str -> list nat)
           (tris : list (list cell)) (w : weights) (m : method) : result (list qcell) :=
  match single_check tris w with
  | Some e => Err e
  | None =>
  match m with
  | MBad => Err ValueError
  | _ =>
  match tris with
  | [] => Err IndexError
  | t0 :: rest =>
      let n := length t0 in
      if negb (forallb (fun t => (length t =? n)%nat) rest) then Err ValueError
      else if (n =? 0)%nat && negb (length rest =? 0)%nat then Err IndexError   (* tri.cells[0] *)
      else if negb (forallb (fun t => okind_eqb (first_kind t) (first_kind t0)) rest) then Err ValueError
      else bind (weight_list w n)
                (fun wl => blend_loop fo draw O (index_tri t0) wl (map index_tri tris) m)
  end end end.

(* ------------------------------------------------------------------ comparison with the implementation *)
Definition qclose (tol a b : Q) : bool := Qle_bool (Qabs (a - b)) (tol * Qabs a).
Fixpoint qlist_close (tol : Q) (a b : list Q) : bool :=
  match a, b with
  | [], [] => true
  | x :: r, y :: s => qclose tol x y && qlist_close tol r s
  | _, _ => false
  end.
Definition qval_close (tol : Q) (a b : qval) : bool :=
  match a, b with
  | QKeep x, QKeep y => value_seqb x y
  | QArr x, QArr y => qlist_close tol x y
  | _, _ => false
  end.
Definition qcell_close (tol : Q) (a b : qcell) : bool :=
  cell_seqb (qhdr a) (qhdr b)
  && list_eqb (fun x y => str_eqb (fst x) (fst y) && qval_close tol (snd x) (snd y)) (qvals a) (qvals b).
Definition qresult_close (tol : Q) (a b : result (list qcell)) : bool :=
  result_eqb (list_eqb (qcell_close tol)) a b.

(* field-order oracle given as a table  keys -> iteration order  (identity when absent) *)
Fixpoint fo_table (tbl : list (list str * list str)) (ks : list str) : list str :=
  match tbl with
  | [] => ks
  | (a, o) :: r => if list_eqb str_eqb a ks then o else fo_table r ks
  end.
(* draw oracle given as a table  (cell index, field) -> index vector  ([] when absent) *)
Fixpoint draw_table (tbl : list (nat * str * list nat)) (i : nat) (f : str) : list nat :=
  match tbl with
  | [] => []
  | (j, g, d) :: r => if (i =? j)%nat && str_eqb f g then d else draw_table r i f
  end.
