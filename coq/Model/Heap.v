(** C03 -- a store with OBJECT IDENTITY and statement-level models of the mutation-prone kernels
    of bermuda, written with Python's rebinding vs in-place rules.  Executable definitions only.

    Store.      [heap = list obj]; a location is an index; allocation appends (so "allocated after the
                call began" = index >= length of the initial heap).  Objects: NumPy 1-d arrays [OArr],
                dicts [ODict] (association list in insertion order), cells [OCell tag values]
                ([tag] stands for the immutable part: class, dates, metadata; [values] is the
                reference held in [cell._values]).  Numbers and None are immutable values, not objects.
    Python rules modelled.
                [a + b], [a - b], [a * b], [a / b]     never write; a fresh array or a number   [binop]
                [t += b]  t an immutable number        rebinding: t = t + b                     [iop]
                [t += b]  t an array object            writes the object t in place, t unchanged [iop]
                [{**a, **b}], dict/list comprehension, [copy.deepcopy], [v[ndxs]] (fancy index)  allocate
                [d[k] = v], [d.update(..)]             write the dict object d in place          [dict_store]
    Convention. A dict that is a *local created in the function* is held as a Gallina association list
                until it escapes (is passed to a constructor / another kernel / returned inside a cell),
                at which point it is allocated.  In-place operations on its *entries* still go through
                the store ([iop]), which is where an aliasing bug would show.
    Not modelled: NumPy views (basic slices, .T, frombuffer), dtype casting rules, 0-d arrays,
                user callables passed to replace/derive_fields (constants only). *)
From Coq Require Import ZArith List Bool PeanoNat.
From Bermuda Require Import Model.Base.
Import ListNotations.

Definition loc := nat.
Definition key := Z.
Inductive val := PNone | PNum (z : Z) | PRef (l : loc).
Inductive obj :=
| OArr (xs : list Z)
| ODict (d : list (key * val))
| OCell (tag : Z) (vals : val).
Definition heap := list obj.

Inductive outcome (A : Type) := Ret (h : heap) (a : A) | Raise (h : heap) (e : err).
Arguments Ret {A} h a.
Arguments Raise {A} h e.
Definition M (A : Type) := heap -> outcome A.
Definition ret {A} (a : A) : M A := fun h => Ret h a.
Definition mbind {A B} (m : M A) (f : A -> M B) : M B :=
  fun h => match m h with Ret h' a => f a h' | Raise h' e => Raise h' e end.
Definition raise {A} (e : err) : M A := fun h => Raise h e.
Notation "x <- m ;; k" := (mbind m (fun x => k)) (at level 61, m at next level, right associativity).
Notation "m ;;; k" := (mbind m (fun _ => k)) (at level 61, right associativity).

(* ------------------------------------------------------------------ the four store primitives *)
Definition alloc (o : obj) : M loc := fun h => Ret (h ++ [o]) (length h).
Definition deref (l : loc) : M obj :=
  fun h => match nth_error h l with Some o => Ret h o | None => Raise h OtherError end.
Fixpoint upd (h : heap) (l : loc) (o : obj) : heap :=
  match h, l with
  | [], _ => []
  | _ :: r, O => o :: r
  | x :: r, S l' => x :: upd r l' o
  end.
(* the ONLY primitive that changes an existing object *)
Definition store (l : loc) (o : obj) : M unit :=
  fun h => match nth_error h l with Some _ => Ret (upd h l o) tt | None => Raise h OtherError end.

Fixpoint foldM {A B} (f : B -> A -> M B) (xs : list A) (b : B) : M B :=
  match xs with [] => ret b | x :: r => b' <- f b x ;; foldM f r b' end.
Fixpoint mapM {A B} (f : A -> M B) (xs : list A) : M (list B) :=
  match xs with [] => ret [] | x :: r => y <- f x ;; ys <- mapM f r ;; ret (y :: ys) end.

(* ------------------------------------------------------------------ dict helpers (Z keys) *)
Definition items := list (key * val).
Fixpoint dget (k : key) (d : items) : option val :=
  match d with [] => None | (k', v) :: r => if (k =? k')%Z then Some v else dget k r end.
Fixpoint dset (k : key) (v : val) (d : items) : items :=
  match d with
  | [] => [(k, v)]
  | (k', v') :: r => if (k =? k')%Z then (k', v) :: r else (k', v') :: dset k v r
  end.
Definition dunion (a b : items) : items := fold_left (fun acc kv => dset (fst kv) (snd kv) acc) b a.
Definition memk (k : key) (ks : list key) : bool := existsb (Z.eqb k) ks.
Definition dselect (ks : list key) (d : items) : items := filter (fun kv => memk (fst kv) ks) d.
Fixpoint dedup (ks : list key) (seen : list key) : list key :=
  match ks with
  | [] => []
  | k :: r => if memk k seen then dedup r seen else k :: dedup r (k :: seen)
  end.
Definition same_keys (a b : items) : bool :=
  forallb (fun kv => memk (fst kv) (map fst b)) a && forallb (fun kv => memk (fst kv) (map fst a)) b.
Definition EP : key := 0%Z.                                  (* "earned_premium" *)

(* ------------------------------------------------------------------ looking at a value *)
Inductive pv := PVNone | PVNum (z : Z) | PVArr (l : loc) (xs : list Z) | PVOther.
Definition view (v : val) : M pv :=
  match v with
  | PNone => ret PVNone
  | PNum z => ret (PVNum z)
  | PRef l => o <- deref l ;; ret (match o with OArr xs => PVArr l xs | _ => PVOther end)
  end.
Definition get_dict (v : val) : M items :=
  match v with
  | PRef l => o <- deref l ;; match o with ODict d => ret d | _ => raise TypeError end
  | _ => raise TypeError
  end.
Definition get_cell (v : val) : M (Z * val) :=
  match v with
  | PRef l => o <- deref l ;; match o with OCell t vs => ret (t, vs) | _ => raise OtherError end
  | _ => raise OtherError
  end.
Definition cell_values (c : val) : M val := x <- get_cell c ;; ret (snd x).
Definition cell_items (c : val) : M items := v <- cell_values c ;; get_dict v.
(* d[k] = v on the dict OBJECT d (in place) *)
Definition dict_store (dv : val) (k : key) (v : val) : M unit :=
  match dv with
  | PRef l => d <- get_dict dv ;; store l (ODict (dset k v d))
  | _ => raise TypeError
  end.

(* ------------------------------------------------------------------ NumPy arithmetic *)
Fixpoint zipw (op : Z -> Z -> Z) (xs ys : list Z) : list Z :=
  match xs, ys with x :: r, y :: s => op x y :: zipw op r s | _, _ => [] end.
Definition bcast (op : Z -> Z -> Z) (xs ys : list Z) : option (list Z) :=
  if length xs =? length ys then Some (zipw op xs ys)
  else match xs, ys with
       | [x], _ => Some (map (op x) ys)
       | _, [y] => Some (map (fun x => op x y) xs)
       | _, _ => None
       end.
Definition new_arr (xs : list Z) : M val := l <- alloc (OArr xs) ;; ret (PRef l).
(* a `op` b : never writes; the result is a number or a FRESH array *)
Definition binop (op : Z -> Z -> Z) (a b : val) : M val :=
  x <- view a ;; y <- view b ;;
  match x, y with
  | PVNum p, PVNum q => ret (PNum (op p q))
  | PVNum p, PVArr _ ys => new_arr (map (op p) ys)
  | PVArr _ xs, PVNum q => new_arr (map (fun x => op x q) xs)
  | PVArr _ xs, PVArr _ ys =>
      match bcast op xs ys with Some zs => new_arr zs | None => raise ValueError end
  | _, _ => raise TypeError
  end.
(* t `op`= b : returns the new binding of the name t.  An array object is written IN PLACE (the
   output shape is the target's); an immutable number is rebound to t `op` b. *)
Definition iop (op : Z -> Z -> Z) (t b : val) : M val :=
  x <- view t ;;
  match x with
  | PVArr l xs =>
      y <- view b ;;
      match y with
      | PVNum q => store l (OArr (map (fun x => op x q) xs)) ;;; ret t
      | PVArr _ ys =>
          if (length xs =? length ys) || (length ys =? 1)
          then match bcast op xs ys with
               | Some zs => store l (OArr zs) ;;; ret t
               | None => raise ValueError
               end
          else raise ValueError
      | _ => raise TypeError
      end
  | _ => binop op t b
  end.

(* ------------------------------------------------------------------ summarize.py *)
(* the shape guard of _conforming_sum/_conforming_weighted_average followed by `total += x` *)
Definition guarded_iadd (total v x : val) : M val :=
  a <- view total ;; b <- view v ;;
  match a, b with
  | PVArr _ xs, PVArr _ ys => if length xs =? length ys then iop Z.add total x else raise ValueError
  | PVArr _ _, PVOther => raise OtherError          (* val.shape: AttributeError *)
  | _, _ => iop Z.add total x
  end.
Definition csum_step (total v : val) : M val :=
  match v with PNone => ret total | _ => guarded_iadd total v v end.
(* def _conforming_sum(values): total = 0; for val in values: ...; total += val; return total *)
Definition conforming_sum (values : list val) : M val := foldM csum_step values (PNum 0).
(* MUTANT: total = values[0]; for val in values[1:]: ... *)
Definition conforming_sum_mutant (values : list val) : M val :=
  match values with [] => ret (PNum 0) | v0 :: r => foldM csum_step r v0 end.

Record cfg := mkCfg {
  mulop : Z -> Z -> Z;                 (* numeric payload of * and / (irrelevant to every theorem) *)
  divop : Z -> Z -> Z;
  post : option (Z -> Z);              (* post_transform: None = identity lambda, Some f = np.log-like *)
  known : key -> bool;                 (* key.lower() in agg_fns *)
  non_loss : key -> bool;              (* key in NON_LOSS_METRICS *)
  wavg : key -> option key;            (* weighted-average rule: the weight key *)
  chain_ok : Z -> Z -> bool;           (* cell.prev_evaluation_date == current_evaluation_date, on tags *)
  first_ok : Z -> bool;                (* prev_evaluation_date + 1 day == period_start, on the tag *)
  set_order : list key -> list key     (* iteration order of `set(cells[0].values.keys())`: hash order, an oracle *)
}.

Fixpoint zip {A B} (xs : list A) (ys : list B) : list (A * B) :=
  match xs, ys with x :: r, y :: s => (x, y) :: zip r s | _, _ => [] end.
Definition cwa_step (c : cfg) (total : val) (vw : val * val) : M val :=
  match fst vw with
  | PNone => ret total
  | v => a <- view total ;; b <- view v ;;
         match a, b with
         | PVArr _ xs, PVArr _ ys =>
             if length xs =? length ys
             then p <- binop (mulop c) v (snd vw) ;; iop Z.add total p
             else raise ValueError
         | PVArr _ _, PVOther => raise OtherError
         | _, _ => p <- binop (mulop c) v (snd vw) ;; iop Z.add total p
         end
  end.
(* total / s : number / 0 raises ZeroDivisionError, arrays do not *)
Definition py_div (c : cfg) (total s : val) : M val :=
  x <- view total ;; y <- view s ;;
  match x, y with
  | PVNum _, PVNum 0 => raise OtherError
  | _, _ => binop (divop c) total s
  end.
Definition py_sum_not_none (ws : list val) : M val :=
  foldM (fun acc w => match w with PNone => ret acc | _ => binop Z.add acc w end) ws (PNum 0).
Definition apply_post (c : cfg) (q : val) : M val :=
  match post c with
  | None => ret q
  | Some f => x <- view q ;;
              match x with
              | PVNum z => ret (PNum (f z))
              | PVArr _ xs => new_arr (map f xs)
              | _ => raise TypeError
              end
  end.
Definition conforming_weighted_average (c : cfg) (values weights : list val) : M val :=
  total <- foldM (cwa_step c) (zip values weights) (PNum 0) ;;
  s <- py_sum_not_none weights ;;
  q <- py_div c total s ;;
  apply_post c q.
Definition conforming_weighted_average_mutant (c : cfg) (values weights : list val) : M val :=
  match values, weights with
  | v0 :: vr, _ :: wr =>
      total <- foldM (cwa_step c) (zip vr wr) v0 ;;
      s <- py_sum_not_none weights ;; q <- py_div c total s ;; apply_post c q
  | _, _ => ret (PNum 0)
  end.

(* summarize_cell_values(cells, summarize_premium): returns a NEW dict (held as a local) *)
Definition raw_of (ds : list items) (k : key) : list val :=
  map (fun d => match dget k d with Some v => v | None => PNone end) ds.
Definition agg_key_gen (sumf : list val -> M val) (c : cfg) (ds : list items) (ks : list key) (k : key)
  : M (key * val) :=
  match wavg c k with
  | None => s <- sumf (raw_of ds k) ;; ret (k, s)
  | Some wk =>
      if memk wk ks
      then s <- conforming_weighted_average c (raw_of ds k) (raw_of ds wk) ;; ret (k, s)
      else raise KeyError
  end.
Definition agg_key := agg_key_gen conforming_sum.
Definition summarize_cell_values_gen (sumf : list val -> M val) (c : cfg) (cells : list val)
           (summarize_premium : bool) : M items :=
  ds <- mapM cell_items cells ;;
  let ks := dedup (flat_map (map fst) ds) [] in
  if negb (forallb (known c) ks) then raise TriangleError
  else if summarize_premium then mapM (agg_key_gen sumf c ds ks) ks
  else
    loss <- mapM (agg_key_gen sumf c ds ks) (filter (fun k => negb (non_loss c k)) ks) ;;
    (* cell_non_loss_values[key][0]: the very object held by the first cell *)
    ret (loss ++ map (fun k => (k, hd PNone (raw_of ds k))) (filter (non_loss c) ks)).
Definition summarize_cell_values := summarize_cell_values_gen conforming_sum.

(* ------------------------------------------------------------------ base/cell.py *)
Definition check_values (vals : val) : M unit :=
  d <- get_dict vals ;;
  foldM (fun _ kv => x <- view (snd kv) ;;
                     match x with PVOther => raise TypeError | _ => ret tt end) d tt.
(* Cell(..., values=vals, _skip_validation=not validate); tag < 0 stands for inconsistent dates *)
Definition new_cell (validate : bool) (tag : Z) (vals : val) : M val :=
  (if validate
   then check_values vals ;;; (if (tag <? 0)%Z then raise ValueError else ret tt)
   else ret tt) ;;;
  vals' <- match vals with
           | PNone => l <- alloc (ODict []) ;; ret (PRef l)     (* values if values is not None else {} *)
           | _ => ret vals
           end ;;
  l <- alloc (OCell tag vals') ;; ret (PRef l).
Inductive defn := DTag (t : Z) | DValues (v : val).
Definition apply_def (c : Z * val) (d : defn) : Z * val :=
  match d with DTag t => (t, snd c) | DValues v => (fst c, v) end.
(* attrs = {k[1:]: v for k, v in self.__dict__.items()}; attrs.update(definitions); self.__class__( **attrs )
   -- attrs is a local dict; the new cell holds the SAME values object unless it is overridden *)
Definition base_replace (validate : bool) (self : val) (defs : list defn) : M val :=
  c <- get_cell self ;;
  let c' := fold_left apply_def defs c in
  new_cell validate (fst c') (snd c').
Definition replace (self : val) (defs : list defn) : M val :=
  c <- foldM (fun cell d => base_replace false cell [d]) defs self ;;
  base_replace true c [].
Definition new_dict (d : items) : M val := l <- alloc (ODict d) ;; ret (PRef l).
Definition select (self : val) (ks : list key) : M val :=
  d <- cell_items self ;; nv <- new_dict (dselect ks d) ;; replace self [DValues nv].
(* for name, value: cell = cell.replace(values={**cell.values, **{name: value}}) *)
Definition derive_fields (self : val) (defs : items) : M val :=
  foldM (fun cell kv => d <- cell_items cell ;; nv <- new_dict (dunion d [kv]) ;;
                        replace cell [DValues nv]) defs self.
(* MUTANT: self._values.update({name: value}) *)
Definition derive_fields_mutant (self : val) (defs : items) : M val :=
  foldM (fun cell kv => v <- cell_values cell ;; dict_store v (fst kv) (snd kv) ;;; ret cell) defs self.
Definition add_statics (self source : val) (fields : list key) : M val :=
  sd <- cell_items source ;; d <- cell_items self ;;
  nv <- new_dict (dunion d (dselect fields sd)) ;; replace self [DValues nv].
(* MUTANT: self._values.update(static_fields); return self *)
Definition add_statics_mutant (self source : val) (fields : list key) : M val :=
  sd <- cell_items source ;; v <- cell_values self ;;
  foldM (fun _ kv => dict_store v (fst kv) (snd kv)) (dselect fields sd) tt ;;; ret self.

(* ------------------------------------------------------------------ merge.py *)
Definition merge_cell_pair (c1 c2 : val) : M val :=
  match c1, c2 with
  | PNone, _ => ret c2
  | _, PNone => ret c1
  | _, _ => d1 <- cell_items c1 ;; d2 <- cell_items c2 ;;
            nv <- new_dict (dunion d1 d2) ;; replace c1 [DValues nv]
  end.
(* MUTANT: cell1.values.update(cell2.values); return cell1 *)
Definition merge_cell_pair_mutant (c1 c2 : val) : M val :=
  match c1, c2 with
  | PNone, _ => ret c2
  | _, PNone => ret c1
  | _, _ => v1 <- cell_values c1 ;; d2 <- cell_items c2 ;;
            foldM (fun _ kv => dict_store v1 (fst kv) (snd kv)) d2 tt ;;; ret c1
  end.
Definition overwrite_values (c1 c2 : val) (suffix : option Z) : M val :=
  d2 <- cell_items c2 ;;
  let replace_map := match suffix with
                     | Some s => map (fun kv => ((fst kv + s)%Z, snd kv)) d2    (* f"{k}{suffix}" *)
                     | None => d2
                     end in
  d1 <- cell_items c1 ;; nv <- new_dict (dunion d1 replace_map) ;; replace c1 [DValues nv].

(* ------------------------------------------------------------------ thin.py *)
Fixpoint take_ndxs (xs : list Z) (ndxs : list nat) : option (list Z) :=
  match ndxs with
  | [] => Some []
  | i :: r => match nth_error xs i, take_ndxs xs r with
              | Some x, Some ys => Some (x :: ys)
              | _, _ => None
              end
  end.
(* k: v[ndxs] if isinstance(v, np.ndarray) and len(v) > 1 else v    (fancy indexing copies) *)
Definition thin_value (ndxs : list nat) (kv : key * val) : M (key * val) :=
  x <- view (snd kv) ;;
  match x with
  | PVArr _ xs =>
      if 1 <? length xs
      then match take_ndxs xs ndxs with
           | Some ys => a <- new_arr ys ;; ret (fst kv, a)
           | None => raise IndexError
           end
      else ret kv
  | _ => ret kv
  end.
Definition thin_cell (cell : val) (ndxs : list nat) : M val :=
  d <- cell_items cell ;; nd <- mapM (thin_value ndxs) d ;;
  nv <- new_dict nd ;; replace cell [DValues nv].
(* MUTANT: for k, v in cell.values.items(): cell.values[k] = v[ndxs]; return cell *)
Definition thin_cell_mutant (cell : val) (ndxs : list nat) : M val :=
  v <- cell_values cell ;; d <- get_dict v ;; nd <- mapM (thin_value ndxs) d ;;
  foldM (fun _ kv => dict_store v (fst kv) (snd kv)) nd tt ;;; ret cell.

(* ------------------------------------------------------------------ basis.py *)
(* {k: next[k] if k == "earned_premium" else curr[k] (+|-) next[k] for k in curr_keys} *)
(* `for k in curr_keys` iterates a SET (set_order): with several offending keys the first one decides
   which refusal is raised *)
Definition values_combine (c : cfg) (op : Z -> Z -> Z) (swap : bool) (a next : val) : M items :=
  da <- get_dict a ;; dn <- get_dict next ;;
  if negb (same_keys da dn) then raise TriangleError
  else mapM (fun k =>
               match dget k da, dget k dn with
               | Some av, Some nv => if (k =? EP)%Z then ret (k, nv)
                                     else r <- (if swap then binop op nv av else binop op av nv) ;;
                                          ret (k, r)
               | _, _ => raise KeyError
               end) (set_order c (map fst da)).
Definition values_add (c : cfg) (cur next : val) : M val := d <- values_combine c Z.add false cur next ;; new_dict d.
Definition values_diff (c : cfg) (prev next : val) : M val := d <- values_combine c Z.sub true prev next ;; new_dict d.
(* copy.deepcopy of a values dict *)
Definition deepcopy_items (v : val) : M items :=
  d <- get_dict v ;;
  mapM (fun kv => x <- view (snd kv) ;;
                  match x with
                  | PVArr _ xs => a <- new_arr xs ;; ret (fst kv, a)
                  | PVOther => raise TypeError
                  | _ => ret kv
                  end) d.
Definition deepcopy_dict (v : val) : M val := d <- deepcopy_items v ;; new_dict d.
(* one (period, metadata) row of to_cumulative; tags carry the dates *)
Definition cum_step (c : cfg) (st : val * Z * list val) (cell : val) : M (val * Z * list val) :=
  let '(cur, cur_tag, out) := st in
  x <- get_cell cell ;;
  if negb (chain_ok c cur_tag (fst x)) then raise TriangleError
  else cur' <- values_add c cur (snd x) ;;
       nc <- new_cell true (fst x) cur' ;;
       ret (cur', fst x, out ++ [nc]).
Definition to_cumulative_row (c : cfg) (cells : list val) : M (list val) :=
  match cells with
  | [] => ret []
  | c0 :: rest =>
      x0 <- get_cell c0 ;;
      if negb (first_ok c (fst x0)) then raise TriangleError
      else cur <- deepcopy_dict (snd x0) ;;              (* current_values = copy.deepcopy(cells[0].values) *)
           v0 <- deepcopy_dict cur ;;                    (* values=copy.deepcopy(current_values) *)
           n0 <- new_cell true (fst x0) v0 ;;
           st <- foldM (cum_step c) rest (cur, fst x0, [n0]) ;;
           ret (snd st)
  end.
(* MUTANT: current_values = cells[0].values (deepcopy dropped) and the accumulation done with
   `current_values[k] += cell.values[k]` *)
Definition cum_step_mutant (c : cfg) (st : val * Z * list val) (cell : val) : M (val * Z * list val) :=
  let '(cur, cur_tag, out) := st in
  x <- get_cell cell ;;
  if negb (chain_ok c cur_tag (fst x)) then raise TriangleError
  else dn <- get_dict (snd x) ;;
       foldM (fun _ kv => d <- get_dict cur ;;
                          match dget (fst kv) d with
                          | None => raise KeyError
                          | Some t => t' <- iop Z.add t (snd kv) ;; dict_store cur (fst kv) t'
                          end) dn tt ;;;
       snap <- deepcopy_dict cur ;;
       nc <- new_cell true (fst x) snap ;;
       ret (cur, fst x, out ++ [nc]).
Definition to_cumulative_row_mutant (c : cfg) (cells : list val) : M (list val) :=
  match cells with
  | [] => ret []
  | c0 :: rest =>
      x0 <- get_cell c0 ;;
      if negb (first_ok c (fst x0)) then raise TriangleError
      else v0 <- deepcopy_dict (snd x0) ;;
           n0 <- new_cell true (fst x0) v0 ;;
           st <- foldM (cum_step_mutant c) rest (snd x0, fst x0, [n0]) ;;
           ret (snd st)
  end.
(* one row of to_incremental: deepcopy of the first cell, _values_diff of consecutive pairs *)
Fixpoint inc_pairs (cf : cfg) (prev : val) (cells : list val) : M (list val) :=
  match cells with
  | [] => ret []
  | c :: r => xp <- get_cell prev ;; x <- get_cell c ;;
              d <- values_diff cf (snd xp) (snd x) ;;
              nc <- new_cell true (fst x) d ;;
              rest <- inc_pairs cf c r ;; ret (nc :: rest)
  end.
Definition to_incremental_row (cf : cfg) (cells : list val) : M (list val) :=
  match cells with
  | [] => ret []
  | c0 :: rest =>
      x0 <- get_cell c0 ;; v0 <- deepcopy_dict (snd x0) ;; n0 <- new_cell true (fst x0) v0 ;;
      r <- inc_pairs cf c0 rest ;; ret (n0 :: r)
  end.

(* ------------------------------------------------------------------ aggregate.py *)
(* one coordinate pile of _aggregate_period: temporary Cells SHARING the source values dicts, then
   CumulativeCell(values=summarize_cell_values(cells, summarize_premium=...)) *)
Definition aggregate_group_gen (sumf : list val -> M val) (c : cfg) (newtag : Z) (cells : list val)
           (summarize_premium : bool) : M val :=
  tmp <- mapM (fun cell => v <- cell_values cell ;; new_cell true newtag v) cells ;;
  d <- summarize_cell_values_gen sumf c tmp summarize_premium ;;
  nv <- new_dict d ;; new_cell true newtag nv.
Definition aggregate_group := aggregate_group_gen conforming_sum.

(* ------------------------------------------------------------------ disaggregate.py *)
(* _weight_cell_values: for each field a row of per-subperiod values; returned re-organised by
   subperiod.  np.array([v * weights for v in val]) is a fresh 2-d array, its columns are modelled as
   separate fresh arrays (views are not modelled). *)
Definition weight_field (c : cfg) (weights : list Z) (kv : key * val) : M (list (key * val)) :=
  x <- view (snd kv) ;;
  match x with
  | PVNum z => ret (map (fun w => (fst kv, PNum (mulop c z w))) weights)
  | PVArr _ xs => mapM (fun w => a <- new_arr (map (fun x => mulop c x w) xs) ;; ret (fst kv, a)) weights
  | _ => raise TypeError
  end.
Fixpoint transpose_rows (n : nat) (rows : list (list (key * val))) : list items :=
  match n with
  | O => []
  | S n' => flat_map (fun r => match r with [] => [] | x :: _ => [x] end) rows
            :: transpose_rows n' (map (fun r => tl r) rows)
  end.
Definition weight_cell_values (c : cfg) (cell : val) (weights : list Z) : M (list items) :=
  d <- cell_items cell ;;
  rows <- mapM (weight_field c weights) d ;;
  ret (transpose_rows (length weights) rows).

(* ------------------------------------------------------------------ accident_quarter_to_policy_year *)
(* vals_dict = defaultdict(float); for cell ...: for field, val in cell.values.items():
       vals_dict[field] += val * py_share[policy_period]
   vals_dict is a local; `d[k] += x` is  t = d[k]; t = t.__iadd__(x) (in place iff t is an array); d[k] = t *)
Definition py_accumulate (c : cfg) (acc : items) (cs : val * option Z) : M items :=
  match snd cs with
  | None => ret acc
  | Some share =>
      d <- cell_items (fst cs) ;;
      foldM (fun acc kv =>
               p <- binop (mulop c) (snd kv) (PNum share) ;;
               t <- iop Z.add (match dget (fst kv) acc with Some t => t | None => PNum 0 end) p ;;
               ret (dset (fst kv) t acc)) d acc
  end.
Definition policy_year_cell (c : cfg) (tag : Z) (cells : list val) (shares : list (option Z)) : M val :=
  acc <- foldM (py_accumulate c) (zip cells shares) [] ;;
  match acc with
  | [] => ret PNone
  | _ => nv <- new_dict acc ;; new_cell true tag nv
  end.
(* MUTANT: vals_dict seeded with a shallow copy of the first cell's values: dict(aq_cells[0].values) *)
Definition policy_year_cell_mutant (c : cfg) (tag : Z) (cells : list val) (shares : list (option Z)) : M val :=
  match cells, shares with
  | c0 :: cr, _ :: sr =>
      d0 <- cell_items c0 ;;
      acc <- foldM (py_accumulate c) (zip cr sr) d0 ;;
      nv <- new_dict acc ;; new_cell true tag nv
  | _, _ => ret PNone
  end.

(* ------------------------------------------------------------------ blend_cells (mixture) *)
(* clean_values[field] = field_vals[0] for equal scalars, else a FRESH array whose position j comes
   from the cell picked by the recorded draw picks[j]; returns cells[0].replace(values=clean_values) *)
Fixpoint pick_samples (arrs : list (list Z)) (picks : list nat) (j : nat) : option (list Z) :=
  match picks with
  | [] => Some []
  | p :: r => match nth_error arrs p with
              | Some xs => match nth_error xs j, pick_samples arrs r (S j) with
                           | Some x, Some ys => Some (x :: ys)
                           | _, _ => None
                           end
              | None => None
              end
  end.
Definition blend_field (ds : list items) (picks : list nat) (k : key) : M (key * val) :=
  vs <- mapM (fun d => match dget k d with Some v => view v | None => raise KeyError end) ds ;;
  match vs with
  | PVNum z :: r =>
      if forallb (fun x => match x with PVNum y => (y =? z)%Z | _ => false end) r
      then ret (k, PNum z)
      else if forallb (fun x => match x with PVNum _ => true | _ => false end) r
           then raise ValueError else raise TypeError
  | PVArr _ xs0 :: r =>
      if forallb (fun x => match x with PVArr _ _ => true | _ => false end) r
      then (* blend_idx = np.random.choice(range(M), S, p=weights) with S = len(values[0]) after
              np.random.seed(seed): for one seed the draw for S samples is the length-S prefix of a longer one *)
           (* v[blend_idx == idx]: a Boolean mask of length S on an array of another length is an IndexError *)
           if negb (forallb (fun x => match x with PVArr _ xs => length xs =? length xs0 | _ => false end) r)
           then raise IndexError else
           match pick_samples (map (fun x => match x with PVArr _ xs => xs | _ => [] end) vs)
                              (firstn (length xs0) picks) 0 with
           | Some ys => if length xs0 <=? length picks then a <- new_arr ys ;; ret (k, a) else raise ValueError
           | None => raise IndexError
           end
      else raise TypeError
  | _ => raise TypeError
  end.
(* `for field in fields` iterates a SET: which of several refusals fires first depends on its order *)
Definition blend_cells (c : cfg) (cells : list val) (picks : list nat) : M val :=
  match cells with
  | [] => raise IndexError
  | c0 :: _ =>
      ds <- mapM cell_items cells ;;
      match ds with
      | [] => raise IndexError
      | d0 :: dr =>
          if negb (forallb (same_keys d0) dr) then raise ValueError
          else clean <- mapM (blend_field ds picks) (set_order c (map fst d0)) ;;
               nv <- new_dict clean ;; replace c0 [DValues nv]
      end
  end.

(* ------------------------------------------------------------------ blend_cells (linear) *)
(* _linear_blend: values = [[v] if np.ndim(v) == 0 else v ...]; S = max(len(v)); every value of
   length S or 1 (scalars broadcast with np.tile); matched_values = np.empty((S, M)) filled column by column;
   blend = matched_values @ weights -- a FRESH array of shape (S,), also when every value is a scalar *)
(* values = [[v] if np.ndim(v) == 0 else v for v in values]: numbers AND None are wrapped; a None entry becomes
   nan when the row is stored into the float matrix (payload irrelevant here: 0) *)
Definition lin_row (x : pv) : option (list Z) :=
  match x with PVNum z => Some [z] | PVNone => Some [0%Z] | PVArr _ xs => Some xs | PVOther => None end.
Fixpoint wsum (c : cfg) (rows : list (list Z)) (ws : list Z) (j : nat) : Z :=
  match rows, ws with
  | r :: rs, w :: wr => (mulop c (match r with [x] => x | _ => nth j r 0 end) w + wsum c rs wr j)%Z
  | _, _ => 0%Z
  end.
Definition blend_field_linear (c : cfg) (ds : list items) (ws : list Z) (k : key) : M (key * val) :=
  vs <- mapM (fun d => match dget k d with Some v => view v | None => raise KeyError end) ds ;;
  if negb (forallb (fun x => match lin_row x with Some _ => true | None => false end) vs) then raise TypeError
  else
    let rows := map (fun x => match lin_row x with Some r => r | None => [] end) vs in
    let S := fold_left Nat.max (map (@length Z) rows) 0 in
    if negb (forallb (fun r => (length r =? S) || (length r =? 1)) rows) then raise ValueError
    else a <- new_arr (map (wsum c rows ws) (seq 0 S)) ;; ret (k, a).
Definition blend_cells_linear (c : cfg) (cells : list val) (ws : list Z) : M val :=
  match cells with
  | [] => raise IndexError
  | c0 :: _ =>
      ds <- mapM cell_items cells ;;
      match ds with
      | [] => raise IndexError
      | d0 :: dr =>
          if negb (forallb (same_keys d0) dr) then raise ValueError
          else if negb (length ws =? length cells) then raise ValueError
          else clean <- mapM (blend_field_linear c ds ws) (set_order c (map fst d0)) ;;
               nv <- new_dict clean ;; replace c0 [DValues nv]
      end
  end.
(* MUTANT: matched_values[:, 0] aliased to the first cell's array and accumulated in place:
   out = values[0]; out *= w0; out += w_i * values[i] *)
Definition blend_cells_linear_mutant (c : cfg) (cells : list val) (ws : list Z) : M val :=
  match cells, ws with
  | c0 :: cr, w0 :: wr =>
      d0 <- cell_items c0 ;; dr <- mapM cell_items cr ;;
      clean <- mapM (fun kv =>
                       t <- iop (mulop c) (snd kv) (PNum w0) ;;
                       t' <- foldM (fun t dw => match dget (fst kv) (fst dw) with
                                                | Some v => p <- binop (mulop c) v (PNum (snd dw)) ;; iop Z.add t p
                                                | None => raise KeyError
                                                end) (zip dr wr) t ;;
                       ret (fst kv, t')) d0 ;;
      nv <- new_dict clean ;; replace c0 [DValues nv]
  | _, _ => raise IndexError
  end.

(* ------------------------------------------------------------------ further buggy variants *)
(* self._values = values / self._period_start = ... ; return self *)
Definition base_replace_mutant (self : val) (defs : list defn) : M val :=
  match self with
  | PRef l => c <- get_cell self ;; let c' := fold_left apply_def defs c in
              store l (OCell (fst c') (snd c')) ;;; ret self
  | _ => raise OtherError
  end.
(* for k in list(self.values): if k not in keys: del self._values[k]; return self *)
Definition select_mutant (self : val) (ks : list key) : M val :=
  v <- cell_values self ;; d <- get_dict v ;;
  match v with PRef l => store l (ODict (dselect ks d)) ;;; ret self | _ => raise TypeError end.
(* cell1.values.update(replace_map); return cell1 *)
Definition overwrite_values_mutant (c1 c2 : val) (suffix : option Z) : M val :=
  d2 <- cell_items c2 ;;
  let replace_map := match suffix with
                     | Some s => map (fun kv => ((fst kv + s)%Z, snd kv)) d2
                     | None => d2
                     end in
  v1 <- cell_values c1 ;;
  foldM (fun _ kv => dict_store v1 (fst kv) (snd kv)) replace_map tt ;;; ret c1.
(* for k in curr_values: curr_values[k] += next_values[k]; return curr_values *)
Definition values_add_mutant (cur next : val) : M val :=
  dn <- get_dict next ;;
  foldM (fun _ kv => d <- get_dict cur ;;
                     match dget (fst kv) d with
                     | None => raise KeyError
                     | Some t => t' <- iop Z.add t (snd kv) ;; dict_store cur (fst kv) t'
                     end) dn tt ;;; ret cur.
(* for k in next_values: next_values[k] -= prev_values[k]; return next_values *)
Definition values_diff_mutant (prev next : val) : M val :=
  dp <- get_dict prev ;;
  foldM (fun _ kv => d <- get_dict next ;;
                     match dget (fst kv) d with
                     | None => raise KeyError
                     | Some t => t' <- iop Z.sub t (snd kv) ;; dict_store next (fst kv) t'
                     end) dp tt ;;; ret next.
Fixpoint inc_pairs_mutant (prev : val) (cells : list val) : M (list val) :=
  match cells with
  | [] => ret []
  | c :: r => xp <- get_cell prev ;; x <- get_cell c ;;
              rest <- inc_pairs_mutant c r ;;                 (* later pairs first: needs the old values *)
              d <- values_diff_mutant (snd xp) (snd x) ;;
              nc <- new_cell true (fst x) d ;; ret (nc :: rest)
  end.
Definition to_incremental_row_mutant (cells : list val) : M (list val) :=
  match cells with
  | [] => ret []
  | c0 :: rest =>
      x0 <- get_cell c0 ;; n0 <- new_cell true (fst x0) (snd x0) ;;
      r <- inc_pairs_mutant c0 rest ;; ret (n0 :: r)
  end.
(* val *= w  on the cell's own array *)
Definition weight_field_mutant (c : cfg) (weights : list Z) (kv : key * val) : M (list (key * val)) :=
  mapM (fun w => r <- iop (mulop c) (snd kv) (PNum w) ;; ret (fst kv, r)) weights.
Definition weight_cell_values_mutant (c : cfg) (cell : val) (weights : list Z) : M (list items) :=
  d <- cell_items cell ;; rows <- mapM (weight_field_mutant c weights) d ;;
  ret (transpose_rows (length weights) rows).
(* new_cell_values = values[0] instead of np.empty((S,)): the picked samples are written into the
   first cell's array *)
Definition blend_cells_mutant (cells : list val) (picks : list nat) : M val :=
  match cells with
  | [] => raise IndexError
  | c0 :: _ =>
      ds <- mapM cell_items cells ;;
      match ds with
      | [] => raise IndexError
      | d0 :: _ =>
          clean <- mapM (fun kv =>
                           r <- blend_field ds picks (fst kv) ;;
                           match snd kv, snd r with
                           | PRef l, PRef m => o <- deref m ;; store l o ;;; ret (fst kv, snd kv)
                           | _, _ => ret r
                           end) d0 ;;
          nv <- new_dict clean ;; replace c0 [DValues nv]
      end
  end.

(* ------------------------------------------------------------------ every kernel call *)
Inductive call :=
| KConformingSum (values : list val)
| KWeightedAverage (values weights : list val)
| KSummarizeCellValues (cells : list val) (summarize_premium : bool)
| KBaseReplace (validate : bool) (self : val) (defs : list defn)
| KReplace (self : val) (defs : list defn)
| KSelect (self : val) (ks : list key)
| KDeriveFields (self : val) (defs : items)
| KAddStatics (self source : val) (fields : list key)
| KMergeCellPair (c1 c2 : val)
| KOverwriteValues (c1 c2 : val) (suffix : option Z)
| KThinCell (cell : val) (ndxs : list nat)
| KValuesAdd (cur next : val)
| KValuesDiff (prev next : val)
| KToCumulativeRow (cells : list val)
| KToIncrementalRow (cells : list val)
| KAggregateGroup (newtag : Z) (cells : list val) (summarize_premium : bool)
| KWeightCellValues (cell : val) (weights : list Z)
| KPolicyYearCell (tag : Z) (cells : list val) (shares : list (option Z))
| KBlendCells (cells : list val) (picks : list nat)
| KBlendCellsLinear (cells : list val) (weights : list Z).

Inductive res := RVal (v : val) | RVals (vs : list val) | RItems (d : items) | RNested (ds : list items).
Definition lift {A} (f : A -> res) (m : M A) : M res := a <- m ;; ret (f a).
Definition run (c : cfg) (k : call) : M res :=
  match k with
  | KConformingSum vs => lift RVal (conforming_sum vs)
  | KWeightedAverage vs ws => lift RVal (conforming_weighted_average c vs ws)
  | KSummarizeCellValues cells p => lift RItems (summarize_cell_values c cells p)
  | KBaseReplace v self defs => lift RVal (base_replace v self defs)
  | KReplace self defs => lift RVal (replace self defs)
  | KSelect self ks => lift RVal (select self ks)
  | KDeriveFields self defs => lift RVal (derive_fields self defs)
  | KAddStatics self source fields => lift RVal (add_statics self source fields)
  | KMergeCellPair c1 c2 => lift RVal (merge_cell_pair c1 c2)
  | KOverwriteValues c1 c2 s => lift RVal (overwrite_values c1 c2 s)
  | KThinCell cell ndxs => lift RVal (thin_cell cell ndxs)
  | KValuesAdd a b => lift RVal (values_add c a b)
  | KValuesDiff a b => lift RVal (values_diff c a b)
  | KToCumulativeRow cells => lift RVals (to_cumulative_row c cells)
  | KToIncrementalRow cells => lift RVals (to_incremental_row c cells)
  | KAggregateGroup t cells p => lift RVal (aggregate_group c t cells p)
  | KWeightCellValues cell ws => lift RNested (weight_cell_values c cell ws)
  | KPolicyYearCell t cells shares => lift RVal (policy_year_cell c t cells shares)
  | KBlendCells cells picks => lift RVal (blend_cells c cells picks)
  | KBlendCellsLinear cells ws => lift RVal (blend_cells_linear c cells ws)
  end.
(* the buggy variants, for the non-vacuity examples and the harness self-test *)
Definition run_mutant (c : cfg) (k : call) : M res :=
  match k with
  | KConformingSum vs => lift RVal (conforming_sum_mutant vs)
  | KWeightedAverage vs ws => lift RVal (conforming_weighted_average_mutant c vs ws)
  | KDeriveFields self defs => lift RVal (derive_fields_mutant self defs)
  | KAddStatics self source fields => lift RVal (add_statics_mutant self source fields)
  | KMergeCellPair c1 c2 => lift RVal (merge_cell_pair_mutant c1 c2)
  | KThinCell cell ndxs => lift RVal (thin_cell_mutant cell ndxs)
  | KToCumulativeRow cells => lift RVals (to_cumulative_row_mutant c cells)
  | KPolicyYearCell t cells shares => lift RVal (policy_year_cell_mutant c t cells shares)
  | KSummarizeCellValues cells p => lift RItems (summarize_cell_values_gen conforming_sum_mutant c cells p)
  | KAggregateGroup t cells p => lift RVal (aggregate_group_gen conforming_sum_mutant c t cells p)
  | KBaseReplace _ self defs => lift RVal (base_replace_mutant self defs)
  | KReplace self defs => lift RVal (base_replace_mutant self defs)
  | KSelect self ks => lift RVal (select_mutant self ks)
  | KOverwriteValues c1 c2 s => lift RVal (overwrite_values_mutant c1 c2 s)
  | KValuesAdd a b => lift RVal (values_add_mutant a b)
  | KValuesDiff a b => lift RVal (values_diff_mutant a b)
  | KToIncrementalRow cells => lift RVals (to_incremental_row_mutant cells)
  | KWeightCellValues cell ws => lift RNested (weight_cell_values_mutant c cell ws)
  | KBlendCells cells picks => lift RVal (blend_cells_mutant cells picks)
  | KBlendCellsLinear cells ws => lift RVal (blend_cells_linear_mutant c cells ws)
  end.

(* ------------------------------------------------------------------ observation: frame and alias graph *)
Definition obj_eqb (a b : obj) : bool :=
  match a, b with
  | OArr xs, OArr ys => list_eqb Z.eqb xs ys
  | ODict d, ODict e =>
      list_eqb (fun x y => (fst x =? fst y)%Z &&
                           match snd x, snd y with
                           | PNone, PNone => true
                           | PNum p, PNum q => (p =? q)%Z
                           | PRef l, PRef m => l =? m
                           | _, _ => false
                           end) d e
  | OCell t v, OCell u w =>
      (t =? u)%Z && match v, w with
                    | PNone, PNone => true
                    | PNum p, PNum q => (p =? q)%Z
                    | PRef l, PRef m => l =? m
                    | _, _ => false
                    end
  | _, _ => false
  end.
(* every object of the initial store is still there with the same contents *)
Fixpoint frozen_b (h0 h : heap) : bool :=
  match h0, h with
  | [], _ => true
  | a :: r, b :: s => obj_eqb a b && frozen_b r s
  | _ :: _, [] => false
  end.
(* the shape of a result down to the first object that existed before the call ("the very object l") *)
Inductive sg :=
| SNone | SNum (z : Z) | SOld (l : loc)
| SArr (xs : list Z) | SDict (d : list (key * sg)) | SCell (tag : Z) (vals : sg) | SBad.
Fixpoint sig_of (fuel : nat) (n0 : nat) (h : heap) (v : val) : sg :=
  match v with
  | PNone => SNone
  | PNum z => SNum z
  | PRef l =>
      if l <? n0 then SOld l
      else match fuel with
           | O => SBad
           | S f =>
               match nth_error h l with
               | Some (OArr xs) => SArr xs
               | Some (ODict d) => SDict (map (fun kv => (fst kv, sig_of f n0 h (snd kv))) d)
               | Some (OCell t vs) => SCell t (sig_of f n0 h vs)
               | None => SBad
               end
           end
  end.
Inductive rsg :=
| GVal (s : sg) | GVals (l : list sg) | GItems (d : list (key * sg)) | GNested (l : list (list (key * sg)))
| GBag (l : list sg).      (* observed cells of a result Triangle: order decided by Triangle(...)'s sort *)
Definition sig_items n0 h (d : items) := map (fun kv => (fst kv, sig_of 4 n0 h (snd kv))) d.
Definition sig_res (n0 : nat) (h : heap) (r : res) : rsg :=
  match r with
  | RVal v => GVal (sig_of 4 n0 h v)
  | RVals vs => GVals (map (sig_of 4 n0 h) vs)
  | RItems d => GItems (sig_items n0 h d)
  | RNested ds => GNested (map (sig_items n0 h) ds)
  end.
(* comparison with what the implementation returned: [exact] = compare numeric payloads too;
   dicts are compared as key -> entry maps (set iteration order is not part of the prediction) *)
Fixpoint sget (k : key) (d : list (key * sg)) : option sg :=
  match d with [] => None | (k', v) :: r => if (k =? k')%Z then Some v else sget k r end.
Fixpoint sg_eqb (exact : bool) (a b : sg) {struct a} : bool :=
  match a, b with
  | SNone, SNone => true
  | SNum p, SNum q => negb exact || (p =? q)%Z
  | SOld l, SOld m => l =? m
  | SArr xs, SArr ys => if exact then list_eqb Z.eqb xs ys else length xs =? length ys
  | SDict d, SDict e =>
      (length d =? length e) &&
      (fix go (d : list (key * sg)) : bool :=
         match d with
         | [] => true
         | (k, s) :: r => match sget k e with Some s' => sg_eqb exact s s' | None => false end && go r
         end) d
  | SCell t v, SCell u w => (t =? u)%Z && sg_eqb exact v w
  | _, _ => false
  end.
Definition sgd_eqb exact (d e : list (key * sg)) : bool := sg_eqb exact (SDict d) (SDict e).
Fixpoint remove_first (f : sg -> bool) (l : list sg) : option (list sg) :=
  match l with
  | [] => None
  | x :: r => if f x then Some r else match remove_first f r with Some r' => Some (x :: r') | None => None end
  end.
Fixpoint bag_eqb (exact : bool) (l m : list sg) : bool :=
  match l with
  | [] => match m with [] => true | _ => false end
  | x :: r => match remove_first (sg_eqb exact x) m with Some m' => bag_eqb exact r m' | None => false end
  end.
Definition rsg_eqb (exact : bool) (a b : rsg) : bool :=
  match a, b with
  | GVal s, GVal t => sg_eqb exact s t
  | GVals l, GVals m => list_eqb (sg_eqb exact) l m
  | GVals l, GBag m => bag_eqb exact l m
  | GItems d, GItems e => sgd_eqb exact d e
  | GNested l, GNested m => list_eqb (sgd_eqb exact) l m
  | _, _ => false
  end.
(* what the harness observed: returned with this shape / raised this class *)
Inductive observed := ObsRet (s : rsg) | ObsRaise (e : err).
(* model outcome agrees with the observation AND the model left the initial store untouched *)
Definition agrees (c : cfg) (exact : bool) (h : heap) (k : call) (o : observed) : bool :=
  match run c k h, o with
  | Ret h' r, ObsRet s => frozen_b h h' && rsg_eqb exact (sig_res (length h) h' r) s
  | Raise h' e, ObsRaise e' => frozen_b h h' && err_eqb e e'
  | _, _ => false
  end.
(* the buggy variant changes some object of the initial store (used by the harness self-test) *)
Definition mutant_writes (c : cfg) (h : heap) (k : call) : bool :=
  match run_mutant c k h with Ret h' _ | Raise h' _ => negb (frozen_b h h') end.
Definition default_cfg : cfg :=
  mkCfg Z.mul Z.div None (fun _ => true) (fun k => (k =? EP)%Z) (fun _ => None)
        (fun a b => (b =? a + 1)%Z) (fun t => (t =? 0)%Z) (fun ks => ks).
(* the same oracles with the observed set iteration order *)
Definition with_set_order (c : cfg) (l : list key) : cfg :=
  mkCfg (mulop c) (divop c) (post c) (known c) (non_loss c) (wavg c) (chain_ok c) (first_ok c) (fun _ => l).
