(** Executable model of bermuda/utils/aggregate.py (aggregate, _aggregate_eval, _aggregate_period)
    and of date_utils.standardize_resolution / resolution_delta.  Definitions only.

    - resolution_delta on "month" units is the integer month shift [Calendar.addm] (equal to the
      float-based add_months on month-aligned dates of 1970-2100 by property C12); on "day" units it
      is ordinal arithmetic.
    - the `while` loops are fuelled; exhaustion surfaces as [Err OtherError] (never a result), and
      Proofs/Aggregate.v shows the fuel handed over by the model always suffices.
    - summation goes through Model/Summarize.summarize_cell_values with the generated rule table.
    - incremental input/output goes through wp-basis's Model/Basis.v (to_cumulative/to_incremental).
    - `triangle.slices` = tlz.groupby(metadata) over the sorted cells, keys compared with Python ==.
    - the final `sum(agg_slices)` Triangle sort is not modelled (outputs are compared as multisets). *)
From Coq Require Import ZArith List Bool.
From Bermuda Require Import Model.Base Lib.Calendar Model.Summarize Model.Basis.
Import ListNotations.
Local Open Scope Z_scope.

(* ------------------------------------------------------------------ resolutions *)
Inductive unit_tag := UMonth | UQuarter | UYear | UDay | UWeek.
Inductive resolution := RMonth (q : Z) | RDay (q : Z).
(* date_utils.standardize_resolution *)
Definition standardize (q : Z) (u : unit_tag) : resolution :=
  match u with
  | UMonth => RMonth q | UQuarter => RMonth (3 * q) | UYear => RMonth (12 * q)
  | UDay => RDay q | UWeek => RDay (7 * q)
  end.
(* date_utils.resolution_delta *)
Definition delta (r : resolution) (negative : bool) (d : Z) : Z :=
  match r with
  | RMonth q => addm d (if negative then - q else q)
  | RDay q => d + (if negative then - q else q)
  end.

(* ------------------------------------------------------------------ the window walks *)
Section Walk.
  Variable step back : Z -> Z.       (* resolution_delta(., res) and resolution_delta(., res, negative=True) *)

  (* while step(cur) < first: cur = step(cur) *)
  Fixpoint walk_up (fuel : nat) (cur first : Z) : option Z :=
    match fuel with
    | O => None
    | S f => if step cur <? first then walk_up f (step cur) first else Some cur
    end.
  (* while cur >= first: cur = back(cur) *)
  Fixpoint walk_down (fuel : nat) (cur first : Z) : option Z :=
    match fuel with
    | O => None
    | S f => if first <=? cur then walk_down f (back cur) first else Some cur
    end.
  (* both loops: the grid point immediately before `first` *)
  Definition align (fuel : nat) (origin first : Z) : option Z :=
    match walk_up fuel origin first with
    | Some c => walk_down fuel c first
    | None => None
    end.
  (* while cur <= last: valid.append(cur); cur = step(cur) *)
  Fixpoint grid_upto (fuel : nat) (cur last : Z) : option (list Z) :=
    match fuel with
    | O => None
    | S f => if cur <=? last
             then match grid_upto f (step cur) last with Some l => Some (cur :: l) | None => None end
             else Some []
    end.
End Walk.

Definition zmin_list (d : Z) (l : list Z) : Z := fold_left Z.min l d.
Definition zmax_list (d : Z) (l : list Z) : Z := fold_left Z.max l d.
Definition walk_fuel (origin first last : Z) : nat :=
  Z.to_nat (Z.abs (first - origin) + Z.abs (last - first) + 3).

(* ------------------------------------------------------------------ _aggregate_eval *)
Definition valid_evals (r : resolution) (origin first last : Z) : option (list Z) :=
  let fuel := walk_fuel origin first last in
  match align (delta r false) (delta r true) fuel origin first with
  | Some cur => grid_upto (delta r false) fuel (delta r false cur) last
  | None => None
  end.
Definition aggregate_eval (r : option resolution) (origin : Z) (cells : list cell) : result (list cell) :=
  match r with
  | None => Ok cells
  | Some r =>
      match cells with
      | [] => Err IndexError
      | c0 :: _ =>
          let evs := map ev cells in
          match valid_evals r origin (zmin_list (ev c0) evs) (zmax_list (ev c0) evs) with
          | Some valid => Ok (filter (fun c => existsb (Z.eqb (ev c)) valid) cells)
          | None => Err OtherError
          end
      end
  end.

(* ------------------------------------------------------------------ _aggregate_period *)
(* sorted(cells, key=coordinates): STABLE insertion sort by (period_start, period_end, evaluation_date):
   an element is inserted before the first element that is not strictly smaller, so cells with equal
   coordinates (restated cells) keep their input order, as Python's sorted does *)
Definition coord_ltb (a b : cell) : bool :=
  (ps a <? ps b) || ((ps a =? ps b) && ((pe a <? pe b) || ((pe a =? pe b) && (ev a <? ev b)))).
Fixpoint coord_insert (x : cell) (l : list cell) : list cell :=
  match l with
  | [] => [x]
  | y :: t => if coord_ltb y x then y :: coord_insert x t else x :: l
  end.
Definition sort_coords (l : list cell) : list cell := fold_right coord_insert [] l.

Section Relabel.
  Variable step : Z -> Z.
  (* the loop over the sorted cells: advance the window while it ends before the cell starts, refuse
     a cell that ends after the window, otherwise re-label the cell with the window *)
  Fixpoint relabel (fuel : nat) (init : Z) (cells : list cell) : result (list cell) :=
    match cells with
    | [] => Ok []
    | c :: r =>
        match walk_up step fuel init (ps c) with
        | None => Err OtherError
        | Some init' =>
            if step init' <? pe c then Err TriangleError
            else match relabel fuel init' r with
                 | Ok rest => Ok (mkCell KCell (init' + 1) (step init') (ev c) None (cmeta c) (cvals c) :: rest)
                 | Err e => Err e
                 end
        end
    end.
End Relabel.

Section WithRules.
  Variable wavg : transform -> list value -> list value -> result value.
  Variable rules : rule_table.
  Variable nl : list str.

  Definition coord3 (c : cell) : coord := (ps c, pe c, ev c, None).
  Definition window_cell (prem : bool) (g : coord * list cell) : result cell :=
    match snd g with
    | [] => Err IndexError
    | c0 :: _ =>
        match summarize_cell_values wavg rules nl prem (snd g) with
        | Ok vals => Ok (mkCell KCum (ps c0) (pe c0) (ev c0) None (cmeta c0) vals)
        | Err e => Err e
        end
    end.
  Definition aggregate_period (r : option resolution) (origin : Z) (prem : bool) (cells : list cell)
    : result (list cell) :=
    match r, cells with
    | None, _ => Ok cells
    | Some _, [] => Ok []       (* `if period_resolution is None or not triangle.cells: return triangle` *)
    | Some r, _ :: _ =>
        let sorted := sort_coords cells in
        match sorted with
        | [] => Err IndexError   (* unreachable: the sort permutes *)
        | c0 :: _ =>
            let last := zmax_list (ps c0) (map ps sorted) in
            let fuel := walk_fuel origin (ps c0) last in
            match align (delta r false) (delta r true) fuel origin (ps c0) with
            | None => Err OtherError
            | Some init =>
                match relabel (delta r false) fuel init sorted with
                | Err e => Err e
                | Ok relabelled => map_result (window_cell prem) (groupby coord_eqb coord3 relabelled)
                end
            end
        end
    end.

  (* ---------------------------------------------------------------- aggregate *)
  Definition meta_pyeq (a b : meta) : bool :=
    generic_meta_pyeq a b && opt_eqb num_eqb (per_occurrence_limit a) (per_occurrence_limit b)
    && dict_pyeq (loss_details a) (loss_details b).

  Record agg_args := mkArgs {
    period_res : option resolution;
    eval_res : option resolution;
    period_origin : Z;
    eval_origin : Z;
    summ_premium : bool }.

  Definition aggregate_slice (a : agg_args) (slice : list cell) : result (list cell) :=
    match aggregate_eval (eval_res a) (eval_origin a) slice with
    | Ok kept => aggregate_period (period_res a) (period_origin a) (summ_premium a) kept
    | Err e => Err e
    end.
  Definition aggregate_cum (a : agg_args) (cum : list cell) : result (list cell) :=
    match map_result (fun g => aggregate_slice a (snd g)) (groupby meta_pyeq cmeta cum) with
    | Ok slices => Ok (concat slices)
    | Err e => Err e
    end.
  Definition aggregate (a : agg_args) (t : list cell) : result (list cell) :=
    if is_incremental t
    then bind (to_cumulative std_desc t) (fun cum => bind (aggregate_cum a cum) (to_incremental std_desc))
    else aggregate_cum a t.

  (* ---------------------------------------------------------------- executable specification *)
  (* The property stated WITHOUT loops: windows and the evaluation grid in closed form (integer
     division on day ordinals / month ids).  [agg_spec_b] judges any candidate output. *)
  Definition window_of (r : resolution) (origin d : Z) : Z * Z :=
    match r with
    | RDay q => let k := (d - (origin + 1)) / q in (origin + 1 + k * q, origin + (k + 1) * q)
    | RMonth q => let o := month_id origin in
                  let k := (month_id d - (o + 1)) / q in
                  (month_start (o + 1 + k * q), month_end (o + (k + 1) * q))
    end.
  Definition on_grid (r : resolution) (origin e : Z) : bool :=
    match r with
    | RDay q => (e - origin) mod q =? 0
    | RMonth q => is_month_end e && ((month_id e - month_id origin) mod q =? 0)
    end.
  Definition to_window (r : resolution) (origin : Z) (c : cell) : cell :=
    let w := window_of r origin (ps c) in
    mkCell KCell (fst w) (snd w) (ev c) None (cmeta c) (cvals c).
  Definition straddles (r : resolution) (origin : Z) (c : cell) : bool :=
    snd (window_of r origin (ps c)) <? pe c.
  Definition ref_slice (a : agg_args) (slice : list cell) : result (list cell) :=
    let kept := match eval_res a with
                | None => slice
                | Some r => filter (fun c => on_grid r (eval_origin a) (ev c)) slice
                end in
    match period_res a with
    | None => Ok kept
    | Some r =>
        match kept with
        | [] => Ok []            (* a slice emptied by the evaluation grid contributes nothing *)
        | _ :: _ =>
            let sorted := sort_coords kept in
            if existsb (straddles r (period_origin a)) sorted then Err TriangleError
            else map_result (window_cell (summ_premium a))
                            (groupby coord_eqb coord3 (map (to_window r (period_origin a)) sorted))
        end
    end.
  Definition ref_cum (a : agg_args) (cum : list cell) : result (list cell) :=
    match map_result (fun g => ref_slice a (snd g)) (groupby meta_pyeq cmeta cum) with
    | Ok slices => Ok (concat slices)
    | Err e => Err e
    end.
  Definition agg_ref (a : agg_args) (t : list cell) : result (list cell) :=
    if is_incremental t
    then bind (to_cumulative std_desc t) (fun cum => bind (ref_cum a cum) (to_incremental std_desc))
    else ref_cum a t.
  Definition agg_spec_b (a : agg_args) (t : list cell) (out : result (list cell)) : bool :=
    result_ueqb (agg_ref a t) out.
End WithRules.
