(** C10 -- join / merge / coalesce / period_merge / add_statics: executable model (definitions only).

    Mirrors bermuda/utils/join.py, bermuda/utils/merge.py, bermuda/utils/fields.py and
    Cell.add_statics (bermuda/base/cell.py).

    ORDER.  `join` returns its pairs in the iteration order of a Python `set` (unspecified); merge,
    coalesce, period_merge and add_statics pass their cells through `Triangle(...)`, whose order is
    property C01's business.  The model therefore produces the result in a fixed model order
    (coordinates of the left operand in first-occurrence order, then the new coordinates of the
    right operand) and all statements are about the result as a coordinate-keyed map (one entry per
    key, which cell it carries); the correspondence compares model and implementation as multisets
    of strictly compared cells / pairs (perm_eqb), and the Python oracles compare sequences sorted by
    a canonical key.

    DUPLICATES.  Index dictionaries are built by comprehensions `{key(cell): cell for cell in tri}`:
    the LAST cell of a key wins, the key keeps its first position.  `coalesce` appends to a list per
    key and takes element [0]: the FIRST cell wins.  With `on`, both operands are first rebuilt with
    reduced metadata (`_select_metadata`, re-sorted by Triangle(...)): cells that collide after the
    reduction have equal sort keys, a stable sort keeps their relative order, so "last in the
    original order" is still the winner -- the model does not sort.

    Decision-carrying parts are descriptions regenerated from the source (translate/t_pred.py):
    key components, the set operation forming the coordinate universe, the truth table of each join
    type over (left present, right present), merge precedence, coalesce pick. *)
From Coq Require Import ZArith List Bool.
From Bermuda Require Import Model.Base Model.Select.
Import ListNotations.
Local Open Scope Z_scope.

(* ------------------------------------------------------------------ descriptions (T-pred) *)
Inductive kattr := KMeta | KPs | KPe | KEv | KPrev.
Inductive set_op := SUnion | SInter | SDiffLR | SDiffRL.
(* keep?  for (both present, left only, right only) *)
Definition truth3 := (bool * bool * bool)%type.
Definition join_table := list (str * truth3).
Record join_desc := mkJoinDesc {
  jd_key_cum : list kattr;      (* index key when tri1 is not incremental *)
  jd_key_inc : list kattr;      (* index key when tri1 is incremental *)
  jd_universe : set_op;         (* all_coordinates = set(keys1) <op> set(keys2) *)
  jd_table : join_table }.
Record merge_desc := mkMergeDesc {
  md_left_first : bool;         (* {**cell1.values, **cell2.values}: left first, right overrides *)
  md_base_left : bool;          (* cell1.replace(values=...): the result keeps the LEFT cell's identity *)
  md_co_key : list kattr;       (* coalesce grouping key *)
  md_co_first : bool }.         (* cell_options[0] *)

Definition kattr_eqb (a b : kattr) : bool :=
  match a, b with
  | KMeta, KMeta | KPs, KPs | KPe, KPe | KEv, KEv | KPrev, KPrev => true
  | _, _ => false
  end.
Definition set_op_eqb (a b : set_op) : bool :=
  match a, b with
  | SUnion, SUnion | SInter, SInter | SDiffLR, SDiffLR | SDiffRL, SDiffRL => true
  | _, _ => false
  end.

(* ------------------------------------------------------------------ coordinate keys *)
Inductive kval := KVMeta (m : meta) | KVDate (d : option date).
Definition kval_eqb (a b : kval) : bool :=
  match a, b with
  | KVMeta x, KVMeta y => meta_pyeq x y
  | KVDate x, KVDate y => opt_eqb Z.eqb x y
  | _, _ => false
  end.
Definition ckey := list kval.
Definition ckey_eqb (a b : ckey) : bool := list_eqb kval_eqb a b.
Definition kattr_val (a : kattr) (c : cell) : kval :=
  match a with
  | KMeta => KVMeta (cmeta c)
  | KPs => KVDate (Some (ps c)) | KPe => KVDate (Some (pe c)) | KEv => KVDate (Some (ev c))
  | KPrev => KVDate (prev c)
  end.
Definition key_of (ks : list kattr) (c : cell) : ckey := map (fun a => kattr_val a c) ks.

(* ------------------------------------------------------------------ keyed dictionaries *)
Section KDict.
  Context {K V : Type} (keqb : K -> K -> bool).
  Fixpoint kassoc (k : K) (d : list (K * V)) : option V :=
    match d with
    | [] => None
    | (k', v) :: r => if keqb k' k then Some v else kassoc k r
    end.
  (* d[k] = v : position and key object of an existing entry are kept *)
  Fixpoint kset (k : K) (v : V) (d : list (K * V)) : list (K * V) :=
    match d with
    | [] => [(k, v)]
    | (k', v') :: r => if keqb k' k then (k', v) :: r else (k', v') :: kset k v r
    end.
  (* d.setdefault(k, v) : first value wins *)
  Fixpoint kset_first (k : K) (v : V) (d : list (K * V)) : list (K * V) :=
    match d with
    | [] => [(k, v)]
    | (k', v') :: r => if keqb k' k then d else (k', v') :: kset_first k v r
    end.
  Definition kmem (k : K) (d : list (K * V)) : bool :=
    match kassoc k d with Some _ => true | None => false end.
End KDict.

(* {key(cell): cell for cell in tri}  -- last wins *)
Definition index_cells (ks : list kattr) (t : list cell) : list (ckey * cell) :=
  fold_left (fun d c => kset ckey_eqb (key_of ks c) c d) t [].

(* ------------------------------------------------------------------ _select_metadata *)
Definition s_risk_basis : str := [114;105;115;107;95;98;97;115;105;115].
Definition s_country : str := [99;111;117;110;116;114;121].
Definition s_currency : str := [99;117;114;114;101;110;99;121].
Definition s_reinsurance_basis : str := [114;101;105;110;115;117;114;97;110;99;101;95;98;97;115;105;115].
Definition s_loss_definition : str := [108;111;115;115;95;100;101;102;105;110;105;116;105;111;110].
Definition s_per_occurrence_limit : str :=
  [112;101;114;95;111;99;99;117;114;114;101;110;99;101;95;108;105;109;105;116].
Definition keep_if {A} (name : str) (on : list str) (x : option A) : option A :=
  if str_mem name on then x else None.
Definition select_metadata (on : list str) (m : meta) : meta :=
  mkMeta (keep_if s_risk_basis on (risk_basis m)) (keep_if s_country on (country m))
         (keep_if s_currency on (currency m)) (keep_if s_reinsurance_basis on (reinsurance_basis m))
         (keep_if s_loss_definition on (loss_definition m))
         (keep_if s_per_occurrence_limit on (per_occurrence_limit m))
         (filter (fun kv => str_mem (fst kv) on) (details m))
         (filter (fun kv => str_mem (fst kv) on) (loss_details m)).
Definition set_meta (c : cell) (m : meta) : cell :=
  mkCell (ckind c) (ps c) (pe c) (ev c) (prev c) m (cvals c).
(* `if on:` -- None and [] leave the operands alone *)
Definition reduce_on (on : option (list str)) (t : list cell) : list cell :=
  match on with
  | None | Some [] => t
  | Some l => map (fun c => set_meta c (select_metadata l (cmeta c))) t
  end.

(* ------------------------------------------------------------------ join *)
Definition s_full : str := [102;117;108;108].
Definition s_left : str := [108;101;102;116].
Definition s_right : str := [114;105;103;104;116].
Definition s_inner : str := [105;110;110;101;114].
Definition s_left_anti : str := [108;101;102;116;95;97;110;116;105].
Definition s_right_anti : str := [114;105;103;104;116;95;97;110;116;105].

Definition keep3 (tb : truth3) (l r : bool) : bool :=
  let '(both, lonly, ronly) := tb in
  if l then (if r then both else lonly) else (if r then ronly else false).
Definition first_kind (t : list cell) : option kind :=
  match t with c :: _ => Some (ckind c) | [] => None end.
(* min(len(tri1), len(tri2)) > 0 and type(tri1.cells[0]) != type(tri2.cells[0]) *)
Definition kinds_clash (t1 t2 : list cell) : bool :=
  match first_kind t1, first_kind t2 with
  | Some a, Some b => negb (kind_eqb a b)
  | _, _ => false
  end.
(* Triangle.is_incremental: bool(cells) and isinstance(cells[0], IncrementalCell) *)
Definition tri_is_inc (t : list cell) : bool :=
  match t with c :: _ => is_inc c | [] => false end.

Definition universe (op : set_op) (d1 d2 : list (ckey * cell)) : list ckey :=
  let k1 := map fst d1 in let k2 := map fst d2 in
  match op with
  | SUnion => k1 ++ filter (fun k => negb (kmem ckey_eqb k d1)) k2
  | SInter => filter (fun k => kmem ckey_eqb k d2) k1
  | SDiffLR => filter (fun k => negb (kmem ckey_eqb k d2)) k1
  | SDiffRL => filter (fun k => negb (kmem ckey_eqb k d1)) k2
  end.
Definition opt_present {A} (x : option A) : bool := match x with Some _ => true | None => false end.

Definition join (jd : join_desc) (jt : str) (on : option (list str)) (t1 t2 : list cell)
  : result (list (option cell * option cell)) :=
  if kinds_clash t1 t2 then Err ValueError else
  let a := reduce_on on t1 in
  let b := reduce_on on t2 in
  let ks := if tri_is_inc a then jd_key_inc jd else jd_key_cum jd in
  let d1 := index_cells ks a in
  let d2 := index_cells ks b in
  let pairs := map (fun k => (kassoc ckey_eqb k d1, kassoc ckey_eqb k d2)) (universe (jd_universe jd) d1 d2) in
  match assoc jt (jd_table jd) with
  | None => Err ValueError
  | Some tb => Ok (filter (fun p => keep3 tb (opt_present (fst p)) (opt_present (snd p))) pairs)
  end.

(* ------------------------------------------------------------------ merge *)
Definition merge_pair (md : merge_desc) (p : option cell * option cell) : list cell :=
  match p with
  | (None, Some c2) => [c2]
  | (Some c1, None) => [c1]
  | (Some c1, Some c2) =>
      let v := if md_left_first md then dict_union (cvals c1) (cvals c2)
               else dict_union (cvals c2) (cvals c1) in
      [set_vals (if md_base_left md then c1 else c2) v]
  | (None, None) => []
  end.
Definition merge (jd : join_desc) (md : merge_desc) (jt : str) (on : option (list str))
           (t1 t2 : list cell) : result (list cell) :=
  bind (join jd jt on t1 t2) (fun ps => Ok (flat_map (merge_pair md) ps)).

(* ------------------------------------------------------------------ coalesce *)
Definition coalesce (md : merge_desc) (ts : list (list cell)) : list cell :=
  let all := concat ts in
  let d := if md_co_first md
           then fold_left (fun d c => kset_first ckey_eqb (key_of (md_co_key md) c) c d) all []
           else fold_left (fun d c => kset ckey_eqb (key_of (md_co_key md) c) c d) all [] in
  map snd d.

(* ------------------------------------------------------------------ period_merge *)
Definition pm_key (c : cell) : ckey := key_of [KPs; KPe; KMeta] c.
Definition add_suffix (suffix : option str) (v : list (str * value)) : list (str * value) :=
  match suffix with
  | None | Some [] => v
  | Some s => map (fun kv => (fst kv ++ s, snd kv)) v
  end.
(* _overwrite_values: cell1.replace(values={**cell1.values, **replace_map}) *)
Definition overwrite_values (suffix : option str) (c1 c2 : cell) : cell :=
  set_vals c1 (dict_union (cvals c1) (add_suffix suffix (cvals c2))).
Definition period_merge (suffix : option str) (t1 t2 : list cell) : result (list cell) :=
  if kinds_clash t1 t2 then Err ValueError else
  let groups := group_by ckey_eqb pm_key t1 in
  let step (acc : result (list cell)) (g : ckey * list cell) : result (list cell) :=
      bind acc (fun out =>
        match filter (fun c => ckey_eqb (fst g) (pm_key c)) t2 with
        | [] => Ok (out ++ snd g)
        | [r] => Ok (out ++ map (fun c => overwrite_values suffix c r) (snd g))
        | _ => Err ValueError
        end) in
  fold_left step groups (Ok []).

(* ------------------------------------------------------------------ add_statics *)
(* sorted(row, key=evaluation_date)[-1] : the latest cell, the last one among equals *)
Definition latest (row : list cell) : option cell :=
  fold_left (fun best x => match best with
                           | None => Some x
                           | Some b => if ev b <=? ev x then Some x else Some b
                           end) row None.
(* Cell.add_statics: {**self.values, **{k: v for k, v in source.values.items() if k in fields}} *)
Definition cell_add_statics (fields : list str) (c src : cell) : cell :=
  set_vals c (dict_union (cvals c) (filter (fun kv => str_mem (fst kv) fields) (cvals src))).
Definition source_cell (source : list cell) (c : cell) : option cell :=
  latest (filter (fun s => same_row c s) source).
Definition add_statics_cell (fields : list str) (source : list cell) (c : cell) : cell :=
  match source_cell source c with
  | Some s => cell_add_statics fields c s
  | None => c
  end.
(* slice by slice (triangle.slices in first-occurrence order), each slice in order *)
Definition add_statics (fields : list str) (t source : list cell) : list cell :=
  flat_map (fun g => map (add_statics_cell fields source) (snd g)) (slices t).

(* ------------------------------------------------------------------ expected descriptions and
   their Boolean side conditions *)
Definition expected_join_table : join_table :=
  [ (s_full, (true, true, true)); (s_left, (true, true, false)); (s_right, (true, false, true));
    (s_inner, (true, false, false)); (s_left_anti, (false, true, false));
    (s_right_anti, (false, false, true)) ].
Definition truth3_eqb (a b : truth3) : bool :=
  let '(a1, a2, a3) := a in let '(b1, b2, b3) := b in
  Bool.eqb a1 b1 && Bool.eqb a2 b2 && Bool.eqb a3 b3.
Definition table_agrees (tbl : join_table) : bool :=
  forallb (fun e => match assoc (fst e) tbl with Some tb => truth3_eqb tb (snd e) | None => false end)
          expected_join_table
  && forallb (fun e => str_mem (fst e) (map fst expected_join_table)) tbl.
Definition join_desc_ok (jd : join_desc) : bool :=
  list_eqb kattr_eqb (jd_key_cum jd) [KMeta; KPs; KPe; KEv]
  && list_eqb kattr_eqb (jd_key_inc jd) [KMeta; KPs; KPe; KEv; KPrev]
  && set_op_eqb (jd_universe jd) SUnion
  && table_agrees (jd_table jd).
Definition merge_desc_ok (md : merge_desc) : bool :=
  md_left_first md && md_base_left md
  && list_eqb kattr_eqb (md_co_key md) [KMeta; KPs; KPe; KEv] && md_co_first md.

(* ------------------------------------------------------------------ comparison helpers and
   executable specifications for the correspondence files *)
Fixpoint remove_first {A} (eqb : A -> A -> bool) (x : A) (l : list A) : option (list A) :=
  match l with
  | [] => None
  | y :: r => if eqb x y then Some r
              else match remove_first eqb x r with Some r' => Some (y :: r') | None => None end
  end.
(* equality as multisets *)
Fixpoint perm_eqb {A} (eqb : A -> A -> bool) (a b : list A) : bool :=
  match a with
  | [] => match b with [] => true | _ => false end
  | x :: r => match remove_first eqb x b with Some b' => perm_eqb eqb r b' | None => false end
  end.
Definition pair_seqb (a b : option cell * option cell) : bool :=
  opt_eqb cell_seqb (fst a) (fst b) && opt_eqb cell_seqb (snd a) (snd b).

Definition cum_key (inc : bool) : list kattr :=
  if inc then [KMeta; KPs; KPe; KEv; KPrev] else [KMeta; KPs; KPe; KEv].
Definition has_key_in (ks : list kattr) (k : ckey) (t : list cell) : bool :=
  existsb (fun c => ckey_eqb k (key_of ks c)) t.
(* the last cell of t with key k *)
Definition last_with (ks : list kattr) (k : ckey) (t : list cell) : option cell :=
  fold_left (fun acc c => if ckey_eqb k (key_of ks c) then Some c else acc) t None.
Definition first_with (ks : list kattr) (k : ckey) (t : list cell) : option cell :=
  find (fun c => ckey_eqb k (key_of ks c)) t.
(* the relational definition of each join type on "key of left / key of right" *)
Definition wanted (jt : str) (l r : bool) : bool :=
  if str_eqb jt s_full then l || r else if str_eqb jt s_left then l
  else if str_eqb jt s_right then r else if str_eqb jt s_inner then l && r
  else if str_eqb jt s_left_anti then l && negb r else if str_eqb jt s_right_anti then r && negb l
  else false.
Definition pair_key (ks : list kattr) (p : option cell * option cell) : option ckey :=
  match p with
  | (Some c, _) => Some (key_of ks c)
  | (None, Some c) => Some (key_of ks c)
  | (None, None) => None
  end.
(* join spec on ANY candidate output: every pair carries the (last) cells of its key from the
   reduced operands, the keys of the pairs are pairwise different, and a key of either operand
   occurs iff the join type's set operation says so *)
Definition join_spec_b (jt : str) (on : option (list str)) (t1 t2 : list cell)
           (out : list (option cell * option cell)) : bool :=
  let a := reduce_on on t1 in let b := reduce_on on t2 in
  let ks := cum_key (tri_is_inc a) in
  forallb (fun p => match pair_key ks p with
                    | None => false
                    | Some k => opt_eqb cell_seqb (fst p) (last_with ks k a)
                                && opt_eqb cell_seqb (snd p) (last_with ks k b)
                                && wanted jt (has_key_in ks k a) (has_key_in ks k b)
                                && (length (filter (fun q => match pair_key ks q with
                                                             | Some k' => ckey_eqb k k' | None => false end) out)
                                    =? 1)%nat
                    end) out
  && forallb (fun c => let k := key_of ks c in
                Bool.eqb (wanted jt (has_key_in ks k a) (has_key_in ks k b))
                         (existsb (fun q => match pair_key ks q with
                                            | Some k' => ckey_eqb k k' | None => false end) out))
             (a ++ b).
(* merge spec: one cell per wanted key; matched keys carry the left cell with the right-biased
   union of the fields, unmatched keys the original cell *)
Definition merge_spec_b (jt : str) (on : option (list str)) (t1 t2 out : list cell) : bool :=
  let a := reduce_on on t1 in let b := reduce_on on t2 in
  let ks := cum_key (tri_is_inc a) in
  forallb (fun o => let k := key_of ks o in
             (match last_with ks k a, last_with ks k b with
              | Some c1, Some c2 => cell_seqb o (set_vals c1 (dict_union (cvals c1) (cvals c2)))
              | Some c1, None => cell_seqb o c1
              | None, Some c2 => cell_seqb o c2
              | None, None => false
              end)
             && wanted jt (has_key_in ks k a) (has_key_in ks k b)
             && (length (filter (fun q => ckey_eqb k (key_of ks q)) out) =? 1)%nat) out
  && forallb (fun c => let k := key_of ks c in
                Bool.eqb (wanted jt (has_key_in ks k a) (has_key_in ks k b)) (has_key_in ks k out))
             (a ++ b).
(* coalesce spec: one cell per coordinate of any operand, namely the first cell holding it *)
Definition coalesce_spec_b (ts : list (list cell)) (out : list cell) : bool :=
  let ks := [KMeta; KPs; KPe; KEv] in
  let all := concat ts in
  forallb (fun o => let k := key_of ks o in
             opt_eqb cell_seqb (Some o) (first_with ks k all)
             && (length (filter (fun q => ckey_eqb k (key_of ks q)) out) =? 1)%nat) out
  && forallb (fun c => has_key_in ks (key_of ks c) out) all.
(* add_statics / period_merge spec, position by position against the left operand *)
Definition statics_spec_b (fields : list str) (t source out : list cell) : bool :=
  list_eqb (fun c o =>
      cell_seqb (set_vals c []) (set_vals o [])
      && match source_cell source c with
         | None => cell_seqb c o
         | Some s =>
             forallb (fun kv => (* every output field: from the source if requested and present there *)
                        match (if str_mem (fst kv) fields then assoc (fst kv) (cvals s) else None) with
                        | Some v => value_seqb v (snd kv)
                        | None => match assoc (fst kv) (cvals c) with
                                  | Some v => value_seqb v (snd kv) | None => false end
                        end) (cvals o)
             && forallb (fun kv => has_key (fst kv) (cvals o)) (cvals c)
             && forallb (fun kv => negb (str_mem (fst kv) fields) || has_key (fst kv) (cvals o)) (cvals s)
         end) t out.
