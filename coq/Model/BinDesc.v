(* The description of bermuda's binary codec that Model/Binary.v was written from, in the notation
   of translate/t_bin.py: every _write_* / _read_* function (and the two public entry points) is
   executed symbolically; for each execution PATH the conditions it assumes, the stream events it
   performs in order -- constants written, struct formats packed/unpacked, reads, the peek of
   _read_dict, calls to the other codec functions with their symbolic arguments, loops -- and what
   it returns (results of stream accesses appear as @k, parameters as $i, locals never).  On every
   run T-bin regenerates the same description from /repo's current source (GenBin.v) and
   coq/GenProps/C06_bin.v proves [layout_eqb GenBin.layout BinDesc.layout = true] and
   [consts_eqb GenBin.constants BinDesc.model_constants = true], where [model_constants] are the
   very constants used by Model/Binary.v.  (Snapshot taken from the verified tree; no proofs.) *)
From Coq Require Import ZArith List String Bool.
From Bermuda Require Import Model.Binary.
Import ListNotations.
Open Scope Z_scope.

Fixpoint list_eqb {A} (eqb : A -> A -> bool) (a b : list A) : bool :=
  match a, b with
  | [], [] => true
  | x :: a', y :: b' => eqb x y && list_eqb eqb a' b'
  | _, _ => false
  end.
Definition layout_eqb (a b : list (string * list string)) : bool :=
  list_eqb (fun x y => String.eqb (fst x) (fst y) && list_eqb String.eqb (snd x) (snd y)) a b.
Definition consts_eqb (a b : list (string * list Z)) : bool :=
  list_eqb (fun x y => String.eqb (fst x) (fst y) && list_eqb Z.eqb (snd x) (snd y)) a b.

Open Scope string_scope.
(* the constants of binary.py, in source order, as the MODEL uses them *)
Definition model_constants : list (string * list Z) := [
  ("MAGIC", Binary.MAGIC); ("VERSION", [Binary.VERSION]);
  ("STRING", [T_STRING]); ("INT", [T_INT]); ("FLOAT", [T_FLOAT]); ("BOOL", [T_BOOL]);
  ("NONE", [T_NONE]); ("DATE", [T_DATE]); ("INT_ARRAY", [T_INT_ARRAY]);
  ("FLOAT_ARRAY", [T_FLOAT_ARRAY]); ("DICT_END", [Binary.DICT_END]);
  ("METADATA", [R_METADATA]); ("CELL", [R_CELL]); ("CUMULATIVE_CELL", [R_CUM]);
  ("INCREMENTAL_CELL", [R_INC])].
(* the documented version-1 values: magic 0x0136AF little endian, version 1, type tags 0x80-0x88,
   record tags 0x10-0x13 *)
Definition v1_constants_spec : list (string * list Z) := [
  ("MAGIC", [175; 54; 1; 0]); ("VERSION", [1]);
  ("STRING", [128]); ("INT", [129]); ("FLOAT", [130]); ("BOOL", [131]); ("NONE", [132]);
  ("DATE", [133]); ("INT_ARRAY", [134]); ("FLOAT_ARRAY", [135]); ("DICT_END", [136]);
  ("METADATA", [16]); ("CELL", [17]); ("CUMULATIVE_CELL", [18]); ("INCREMENTAL_CELL", [19])].

Definition layout : list (string * list string) := [
  ("out.triangle_to_binary", [
    "PATH COND ($2 and Path($1).expanduser().suffix != '.tribc') ; COND $1.startswith('s3:')";
    "  WARN";
    "  OPAQUE";
    "PATH COND ($2 and Path($1).expanduser().suffix != '.tribc') ; COND not $1.startswith('s3:')";
    "  WARN";
    "  @1 CALL _write_binary $0,Path($1).expanduser(),$2";
    "  RETURN None";
    "PATH COND not ($2 and Path($1).expanduser().suffix != '.tribc') ; COND ((not $2) and Path($1).expanduser().suffix != '.trib') ; COND $1.startswith('s3:')";
    "  WARN";
    "  OPAQUE";
    "PATH COND not ($2 and Path($1).expanduser().suffix != '.tribc') ; COND ((not $2) and Path($1).expanduser().suffix != '.trib') ; COND not $1.startswith('s3:')";
    "  WARN";
    "  @1 CALL _write_binary $0,Path($1).expanduser(),$2";
    "  RETURN None";
    "PATH COND not ($2 and Path($1).expanduser().suffix != '.tribc') ; COND not ((not $2) and Path($1).expanduser().suffix != '.trib') ; COND $1.startswith('s3:')";
    "  OPAQUE";
    "PATH COND not ($2 and Path($1).expanduser().suffix != '.tribc') ; COND not ((not $2) and Path($1).expanduser().suffix != '.trib') ; COND not $1.startswith('s3:')";
    "  @1 CALL _write_binary $0,Path($1).expanduser(),$2";
    "  RETURN None"]);
  ("out._write_binary", [
    "PATH COND $2";
    "  WITH gzip.open($1,'wb',compresslevel=5)";
    "  @1 CALL _write_triangle $0,with(gzip.open($1,'wb',compresslevel=5))";
    "  ENDWITH";
    "  RETURN None";
    "PATH COND not $2";
    "  WITH open($1,'wb')";
    "  @1 CALL _write_triangle $0,with(open($1,'wb'))";
    "  ENDWITH";
    "  RETURN None"]);
  ("out._write_triangle", [
    "PATH ";
    "  WRITE MAGIC";
    "  WRITE VERSION";
    "  @3 CALL _write_string_pool $0";
    "  LOOP for in $0";
    "    PATH COND %0 != elem($0).metadata";
    "    @4 CALL _write_metadata elem($0).metadata,@3";
    "    @5 CALL _write_cell elem($0),@3";
    "    PATH COND not %0 != elem($0).metadata";
    "    @4 CALL _write_cell elem($0),@3";
    "  ENDLOOP";
    "  RETURN None"]);
  ("out._write_string_pool", [
    "PATH ";
    "  PACK <h len(sorted(%0))";
    "  LOOP for in sorted(%0)";
    "    @2 CALL _write_string elem(sorted(%0))";
    "  ENDLOOP";
    "  RETURN index_table(sorted(%0))"]);
  ("out._write_cell", [
    "PATH COND isinstance($0,CumulativeCell) ; COND isinstance($0,IncrementalCell)";
    "  WRITE CUMULATIVE_CELL";
    "  @2 CALL _write_date $0.period_start";
    "  @3 CALL _write_date $0.period_end";
    "  @4 CALL _write_date $0.evaluation_date";
    "  @5 CALL _write_dict $0.values,$2";
    "  @6 CALL _write_date $0.prev_evaluation_date";
    "  RETURN None";
    "PATH COND isinstance($0,CumulativeCell) ; COND not isinstance($0,IncrementalCell)";
    "  WRITE CUMULATIVE_CELL";
    "  @2 CALL _write_date $0.period_start";
    "  @3 CALL _write_date $0.period_end";
    "  @4 CALL _write_date $0.evaluation_date";
    "  @5 CALL _write_dict $0.values,$2";
    "  RETURN None";
    "PATH COND not isinstance($0,CumulativeCell) ; COND isinstance($0,IncrementalCell) ; COND isinstance($0,IncrementalCell)";
    "  WRITE INCREMENTAL_CELL";
    "  @2 CALL _write_date $0.period_start";
    "  @3 CALL _write_date $0.period_end";
    "  @4 CALL _write_date $0.evaluation_date";
    "  @5 CALL _write_dict $0.values,$2";
    "  @6 CALL _write_date $0.prev_evaluation_date";
    "  RETURN None";
    "PATH COND not isinstance($0,CumulativeCell) ; COND isinstance($0,IncrementalCell) ; COND not isinstance($0,IncrementalCell)";
    "  WRITE INCREMENTAL_CELL";
    "  @2 CALL _write_date $0.period_start";
    "  @3 CALL _write_date $0.period_end";
    "  @4 CALL _write_date $0.evaluation_date";
    "  @5 CALL _write_dict $0.values,$2";
    "  RETURN None";
    "PATH COND not isinstance($0,CumulativeCell) ; COND not isinstance($0,IncrementalCell) ; COND isinstance($0,IncrementalCell)";
    "  WRITE CELL";
    "  @2 CALL _write_date $0.period_start";
    "  @3 CALL _write_date $0.period_end";
    "  @4 CALL _write_date $0.evaluation_date";
    "  @5 CALL _write_dict $0.values,$2";
    "  @6 CALL _write_date $0.prev_evaluation_date";
    "  RETURN None";
    "PATH COND not isinstance($0,CumulativeCell) ; COND not isinstance($0,IncrementalCell) ; COND not isinstance($0,IncrementalCell)";
    "  WRITE CELL";
    "  @2 CALL _write_date $0.period_start";
    "  @3 CALL _write_date $0.period_end";
    "  @4 CALL _write_date $0.evaluation_date";
    "  @5 CALL _write_dict $0.values,$2";
    "  RETURN None"]);
  ("out._write_metadata", [
    "PATH ";
    "  WRITE METADATA";
    "  @2 CALL _write_string $0.risk_basis";
    "  @3 CALL _write_string $0.country";
    "  @4 CALL _write_string $0.currency";
    "  @5 CALL _write_string $0.reinsurance_basis";
    "  @6 CALL _write_string $0.loss_definition";
    "  @7 CALL _write_float $0.per_occurrence_limit";
    "  @8 CALL _write_dict $0.details,$2";
    "  @9 CALL _write_dict $0.loss_details,$2";
    "  RETURN None"]);
  ("out._write_string", [
    "PATH COND $0 is None";
    "  PACK <h (-1)";
    "  RETURN None";
    "PATH COND not $0 is None";
    "  PACK <H len($0.encode())";
    "  WRITERAW $0.encode()";
    "  RETURN None"]);
  ("out._write_date", [
    "PATH ";
    "  PACK <hBB $0.year,$0.month,$0.day";
    "  RETURN None"]);
  ("out._write_float", [
    "PATH COND $0 is None";
    "  PACK <d math.nan";
    "  RETURN None";
    "PATH COND not $0 is None";
    "  PACK <d $0";
    "  RETURN None"]);
  ("out._write_array", [
    "PATH COND $0.dtype == 'float64'";
    "  WRITE FLOAT_ARRAY";
    "  PACK <B len($0.shape)";
    "  LOOP for in $0.shape";
    "    PACK <L elem($0.shape)";
    "  ENDLOOP";
    "  WRITERAW $0.tobytes()";
    "  RETURN None";
    "PATH COND not $0.dtype == 'float64' ; COND $0.dtype == 'int64'";
    "  WRITE INT_ARRAY";
    "  PACK <B len($0.shape)";
    "  LOOP for in $0.shape";
    "    PACK <L elem($0.shape)";
    "  ENDLOOP";
    "  WRITERAW $0.tobytes()";
    "  RETURN None";
    "PATH COND not $0.dtype == 'float64' ; COND not $0.dtype == 'int64'";
    "  RAISE ValueError"]);
  ("out._write_dict", [
    "PATH ";
    "  LOOP for in $0.items()";
    "    PACK <H $2[elem($0.items())[0]]";
    "    @2 CALL _write_generic_value elem($0.items())[1]";
    "  ENDLOOP";
    "  WRITE DICT_END";
    "  RETURN None"]);
  ("out._write_generic_value", [
    "PATH COND isinstance($0,str)";
    "  WRITE STRING";
    "  @2 CALL _write_string $0";
    "  RETURN None";
    "PATH COND not isinstance($0,str) ; COND isinstance($0,bool)";
    "  WRITE BOOL";
    "  PACK ? $0";
    "  RETURN None";
    "PATH COND not isinstance($0,str) ; COND not isinstance($0,bool) ; COND isinstance($0,(int,np.int64))";
    "  WRITE INT";
    "  PACK <q $0";
    "  RETURN None";
    "PATH COND not isinstance($0,str) ; COND not isinstance($0,bool) ; COND not isinstance($0,(int,np.int64)) ; COND isinstance($0,float)";
    "  WRITE FLOAT";
    "  PACK <d $0";
    "  RETURN None";
    "PATH COND not isinstance($0,str) ; COND not isinstance($0,bool) ; COND not isinstance($0,(int,np.int64)) ; COND not isinstance($0,float) ; COND isinstance($0,np.ndarray)";
    "  @1 CALL _write_array $0";
    "  RETURN None";
    "PATH COND not isinstance($0,str) ; COND not isinstance($0,bool) ; COND not isinstance($0,(int,np.int64)) ; COND not isinstance($0,float) ; COND not isinstance($0,np.ndarray) ; COND isinstance($0,datetime.date)";
    "  WRITE DATE";
    "  @2 CALL _write_date $0";
    "  RETURN None";
    "PATH COND not isinstance($0,str) ; COND not isinstance($0,bool) ; COND not isinstance($0,(int,np.int64)) ; COND not isinstance($0,float) ; COND not isinstance($0,np.ndarray) ; COND not isinstance($0,datetime.date)";
    "  WRITE NONE";
    "  RETURN None"]);
  ("in.binary_to_triangle", [
    "PATH COND $1 is None ; COND Path($0).expanduser().suffix == '.trib' ; COND $0.startswith('s3:')";
    "  OPAQUE";
    "PATH COND $1 is None ; COND Path($0).expanduser().suffix == '.trib' ; COND not $0.startswith('s3:')";
    "  @1 CALL _read_binary Path($0).expanduser(),False";
    "  RETURN @1";
    "PATH COND $1 is None ; COND not Path($0).expanduser().suffix == '.trib' ; COND Path($0).expanduser().suffix == '.tribc' ; COND $0.startswith('s3:')";
    "  OPAQUE";
    "PATH COND $1 is None ; COND not Path($0).expanduser().suffix == '.trib' ; COND Path($0).expanduser().suffix == '.tribc' ; COND not $0.startswith('s3:')";
    "  @1 CALL _read_binary Path($0).expanduser(),True";
    "  RETURN @1";
    "PATH COND $1 is None ; COND not Path($0).expanduser().suffix == '.trib' ; COND not Path($0).expanduser().suffix == '.tribc'";
    "  RAISE ValueError";
    "PATH COND not $1 is None ; COND ($1 and Path($0).expanduser().suffix != '.tribc') ; COND $0.startswith('s3:')";
    "  WARN";
    "  OPAQUE";
    "PATH COND not $1 is None ; COND ($1 and Path($0).expanduser().suffix != '.tribc') ; COND not $0.startswith('s3:')";
    "  WARN";
    "  @1 CALL _read_binary Path($0).expanduser(),$1";
    "  RETURN @1";
    "PATH COND not $1 is None ; COND not ($1 and Path($0).expanduser().suffix != '.tribc') ; COND ((not $1) and Path($0).expanduser().suffix != '.trib') ; COND $0.startswith('s3:')";
    "  WARN";
    "  OPAQUE";
    "PATH COND not $1 is None ; COND not ($1 and Path($0).expanduser().suffix != '.tribc') ; COND ((not $1) and Path($0).expanduser().suffix != '.trib') ; COND not $0.startswith('s3:')";
    "  WARN";
    "  @1 CALL _read_binary Path($0).expanduser(),$1";
    "  RETURN @1";
    "PATH COND not $1 is None ; COND not ($1 and Path($0).expanduser().suffix != '.tribc') ; COND not ((not $1) and Path($0).expanduser().suffix != '.trib') ; COND $0.startswith('s3:')";
    "  OPAQUE";
    "PATH COND not $1 is None ; COND not ($1 and Path($0).expanduser().suffix != '.tribc') ; COND not ((not $1) and Path($0).expanduser().suffix != '.trib') ; COND not $0.startswith('s3:')";
    "  @1 CALL _read_binary Path($0).expanduser(),$1";
    "  RETURN @1"]);
  ("in._read_binary", [
    "PATH COND $1";
    "  WITH gzip.open($0,'rb',compresslevel=5)";
    "  @1 CALL _read_triangle with(gzip.open($0,'rb',compresslevel=5))";
    "  ENDWITH";
    "  RETURN @1";
    "PATH COND not $1";
    "  WITH open($0,'rb')";
    "  @1 CALL _read_triangle with(open($0,'rb'))";
    "  ENDWITH";
    "  RETURN @1"]);
  ("in._read_triangle", [
    "PATH COND @1 != MAGIC";
    "  @1 READ 4";
    "  RAISE ValueError";
    "PATH COND not @1 != MAGIC ; COND @2 != VERSION";
    "  @1 READ 4";
    "  @2 READ 1";
    "  RAISE ValueError";
    "PATH COND not @1 != MAGIC ; COND not @2 != VERSION";
    "  @1 READ 4";
    "  @2 READ 1";
    "  @3 CALL _read_string_pool ";
    "  LOOP while";
    "    PATH COND True ; COND @4 == METADATA";
    "    @4 READ 1";
    "    @5 CALL _read_metadata @3";
    "    PATH COND True ; COND not @4 == METADATA ; COND (@4 == CELL or @4 == CUMULATIVE_CELL or @4 == INCREMENTAL_CELL)";
    "    @4 READ 1";
    "    @5 CALL _read_cell @4,%0,@3";
    "    PATH COND True ; COND not @4 == METADATA ; COND not (@4 == CELL or @4 == CUMULATIVE_CELL or @4 == INCREMENTAL_CELL)";
    "    @4 READ 1";
    "    BREAK";
    "  ENDLOOP";
    "  RETURN Triangle(%1)"]);
  ("in._read_string_pool", [
    "PATH ";
    "  @1 UNPACK <H 2";
    "  LOOP for in range(@1[0])";
    "    @2 CALL _read_string ";
    "  ENDLOOP";
    "  RETURN list[@2 for in range(@1[0])]"]);
  ("in._read_cell", [
    "PATH COND $1 == CUMULATIVE_CELL";
    "  @1 CALL _read_date ";
    "  @2 CALL _read_date ";
    "  @3 CALL _read_date ";
    "  @4 CALL _read_dict $3";
    "  RETURN CumulativeCell(period_start=@1,period_end=@2,evaluation_date=@3,values=@4,metadata=$2)";
    "PATH COND not $1 == CUMULATIVE_CELL ; COND $1 == INCREMENTAL_CELL";
    "  @1 CALL _read_date ";
    "  @2 CALL _read_date ";
    "  @3 CALL _read_date ";
    "  @4 CALL _read_dict $3";
    "  @5 CALL _read_date ";
    "  RETURN IncrementalCell(period_start=@1,period_end=@2,evaluation_date=@3,values=@4,prev_evaluation_date=@5,metadata=$2)";
    "PATH COND not $1 == CUMULATIVE_CELL ; COND not $1 == INCREMENTAL_CELL";
    "  @1 CALL _read_date ";
    "  @2 CALL _read_date ";
    "  @3 CALL _read_date ";
    "  @4 CALL _read_dict $3";
    "  RETURN Cell(period_start=@1,period_end=@2,evaluation_date=@3,values=@4,metadata=$2)"]);
  ("in._read_metadata", [
    "PATH ";
    "  @1 CALL _read_string ";
    "  @2 CALL _read_string ";
    "  @3 CALL _read_string ";
    "  @4 CALL _read_string ";
    "  @5 CALL _read_string ";
    "  @6 CALL _read_float ";
    "  @7 CALL _read_dict $1";
    "  @8 CALL _read_dict $1";
    "  RETURN Metadata(risk_basis=@1,country=@2,currency=@3,reinsurance_basis=@4,loss_definition=@5,per_occurrence_limit=@6,details=@7,loss_details=@8)"]);
  ("in._read_string", [
    "PATH COND @1[0] == (-1)";
    "  @1 UNPACK <h 2";
    "  RETURN None";
    "PATH COND not @1[0] == (-1)";
    "  @1 UNPACK <h 2";
    "  @2 READ @1[0]";
    "  RETURN @2.decode('utf-8')"]);
  ("in._read_date", [
    "PATH ";
    "  @1 UNPACK <hBB 4";
    "  RETURN datetime.date(@1[0],@1[1],@1[2])"]);
  ("in._read_float", [
    "PATH COND math.isnan(@1[0])";
    "  @1 UNPACK <d 8";
    "  RETURN None";
    "PATH COND not math.isnan(@1[0])";
    "  @1 UNPACK <d 8";
    "  RETURN @1[0]"]);
  ("in._read_array", [
    "PATH ";
    "  @1 UNPACK <B 1";
    "  LOOP for in range(@1[0])";
    "    @2 UNPACK <L 4";
    "  ENDLOOP";
    "  @3 READ (prod(tuple(list[@2[0] for in range(@1[0])])) * 8)";
    "  RETURN np.frombuffer(@3,$1).reshape(tuple(list[@2[0] for in range(@1[0])]))"]);
  ("in._read_dict", [
    "PATH ";
    "  LOOP while";
    "    PATH COND @1 != DICT_END";
    "    @1 PEEK 1 [:1]";
    "    @2 UNPACK <H 2";
    "    @3 CALL _read_generic_value ";
    "  ENDLOOP";
    "  @4 READ 1";
    "  RETURN %0"]);
  ("in._read_generic_value", [
    "PATH COND @1 == STRING";
    "  @1 READ 1";
    "  @2 CALL _read_string ";
    "  RETURN @2";
    "PATH COND not @1 == STRING ; COND @1 == BOOL";
    "  @1 READ 1";
    "  @2 UNPACK ? 1";
    "  RETURN @2[0]";
    "PATH COND not @1 == STRING ; COND not @1 == BOOL ; COND @1 == INT";
    "  @1 READ 1";
    "  @2 UNPACK <q 8";
    "  RETURN @2[0]";
    "PATH COND not @1 == STRING ; COND not @1 == BOOL ; COND not @1 == INT ; COND @1 == FLOAT";
    "  @1 READ 1";
    "  @2 UNPACK <d 8";
    "  RETURN @2[0]";
    "PATH COND not @1 == STRING ; COND not @1 == BOOL ; COND not @1 == INT ; COND not @1 == FLOAT ; COND @1 == INT_ARRAY";
    "  @1 READ 1";
    "  @2 CALL _read_array np.dtype('int64')";
    "  RETURN @2";
    "PATH COND not @1 == STRING ; COND not @1 == BOOL ; COND not @1 == INT ; COND not @1 == FLOAT ; COND not @1 == INT_ARRAY ; COND @1 == FLOAT_ARRAY";
    "  @1 READ 1";
    "  @2 CALL _read_array np.dtype('float64')";
    "  RETURN @2";
    "PATH COND not @1 == STRING ; COND not @1 == BOOL ; COND not @1 == INT ; COND not @1 == FLOAT ; COND not @1 == INT_ARRAY ; COND not @1 == FLOAT_ARRAY ; COND @1 == DATE";
    "  @1 READ 1";
    "  @2 CALL _read_date ";
    "  RETURN @2";
    "PATH COND not @1 == STRING ; COND not @1 == BOOL ; COND not @1 == INT ; COND not @1 == FLOAT ; COND not @1 == INT_ARRAY ; COND not @1 == FLOAT_ARRAY ; COND not @1 == DATE ; COND @1 == NONE";
    "  @1 READ 1";
    "  RETURN None";
    "PATH COND not @1 == STRING ; COND not @1 == BOOL ; COND not @1 == INT ; COND not @1 == FLOAT ; COND not @1 == INT_ARRAY ; COND not @1 == FLOAT_ARRAY ; COND not @1 == DATE ; COND not @1 == NONE";
    "  @1 READ 1";
    "  RETURN None"])
].
