(* The description of bermuda's binary codec that Model/Binary.v was written from: for every
   _write_* / _read_* function (and the two public entry points) the ordered list of stream events
   -- constants written, struct formats packed/unpacked, reads, the peek of _read_dict, calls to the
   other codec functions with the attribute / keyword they are bound to, branch and loop conditions,
   returns -- in the notation of translate/t_bin.py.  On every run T-bin regenerates the same
   description from /repo's current source (GenBin.v) and coq/GenProps/C06_bin.v proves
   [layout_eqb GenBin.layout BinDesc.layout = true] and [consts_eqb GenBin.constants
   BinDesc.model_constants = true], where [model_constants] are the very constants used by
   Model/Binary.v.  (Snapshot taken from the verified tree; no proofs here.) *)
From Coq Require Import ZArith List String Bool.
From Bermuda Require Import Model.Binary.
Import ListNotations.
Open Scope Z_scope.

Fixpoint list_eqb {A} (eqb : A -> A -> bool) (a b : list A) : bool :=
  match a, b with
  | [], [] => true
  | x :: a', y :: b' => eqb x y && list_eqb eqb a' b'
  | _, _ => false
  end.
Definition layout_eqb (a b : list (string * list string)) : bool :=
  list_eqb (fun x y => String.eqb (fst x) (fst y) && list_eqb String.eqb (snd x) (snd y)) a b.
Definition consts_eqb (a b : list (string * list Z)) : bool :=
  list_eqb (fun x y => String.eqb (fst x) (fst y) && list_eqb Z.eqb (snd x) (snd y)) a b.

Open Scope string_scope.
(* the constants of binary.py, in source order, as the MODEL uses them *)
Definition model_constants : list (string * list Z) := [
  ("MAGIC", Binary.MAGIC); ("VERSION", [Binary.VERSION]);
  ("STRING", [T_STRING]); ("INT", [T_INT]); ("FLOAT", [T_FLOAT]); ("BOOL", [T_BOOL]);
  ("NONE", [T_NONE]); ("DATE", [T_DATE]); ("INT_ARRAY", [T_INT_ARRAY]);
  ("FLOAT_ARRAY", [T_FLOAT_ARRAY]); ("DICT_END", [Binary.DICT_END]);
  ("METADATA", [R_METADATA]); ("CELL", [R_CELL]); ("CUMULATIVE_CELL", [R_CUM]);
  ("INCREMENTAL_CELL", [R_INC])].
(* the documented version-1 values: magic 0x0136AF little endian, version 1, type tags 0x80-0x88,
   record tags 0x10-0x13 *)
Definition v1_constants_spec : list (string * list Z) := [
  ("MAGIC", [175; 54; 1; 0]); ("VERSION", [1]);
  ("STRING", [128]); ("INT", [129]); ("FLOAT", [130]); ("BOOL", [131]); ("NONE", [132]);
  ("DATE", [133]); ("INT_ARRAY", [134]); ("FLOAT_ARRAY", [135]); ("DICT_END", [136]);
  ("METADATA", [16]); ("CELL", [17]); ("CUMULATIVE_CELL", [18]); ("INCREMENTAL_CELL", [19])].

Definition layout : list (string * list string) := [
  ("out.triangle_to_binary", [
    "IF $2 and ((Path($1).expanduser()).suffix) != '.tribc'";
    "WARN";
    "ELIF not $2 and ((Path($1).expanduser()).suffix) != '.trib'";
    "WARN";
    "ENDIF";
    "IF $1.startswith('s3:')";
    "OPAQUE";
    "ELSE";
    "CALL _write_binary $0,(Path($1).expanduser()),$2";
    "ENDIF"]);
  ("out._write_binary", [
    "IF $2";
    "WITH gzip.open($1, 'wb', compresslevel=5)";
    "CALL _write_triangle $0,%0";
    "ENDWITH";
    "ELSE";
    "WITH open($1, 'wb')";
    "CALL _write_triangle $0,%0";
    "ENDWITH";
    "ENDIF"]);
  ("out._write_triangle", [
    "WRITE MAGIC";
    "WRITE VERSION";
    "CALL _write_string_pool $0";
    "LOOP for in $0";
    "IF %1 != %2.metadata";
    "CALL _write_metadata %2.metadata,%0";
    "ENDIF";
    "CALL _write_cell %2,%0";
    "ENDLOOP"]);
  ("out._write_string_pool", [
    "PACK <h len((sorted(%0)))";
    "LOOP for in enumerate((sorted(%0)))";
    "CALL _write_string %3";
    "ENDLOOP";
    "RETURN (dict())"]);
  ("out._write_cell", [
    "IF isinstance($0, CumulativeCell)";
    "WRITE CUMULATIVE_CELL";
    "ELIF isinstance($0, IncrementalCell)";
    "WRITE INCREMENTAL_CELL";
    "ELSE";
    "WRITE CELL";
    "ENDIF";
    "CALL _write_date $0.period_start";
    "CALL _write_date $0.period_end";
    "CALL _write_date $0.evaluation_date";
    "CALL _write_dict $0.values,$2";
    "IF isinstance($0, IncrementalCell)";
    "CALL _write_date $0.prev_evaluation_date";
    "ENDIF"]);
  ("out._write_metadata", [
    "WRITE METADATA";
    "CALL _write_string $0.risk_basis";
    "CALL _write_string $0.country";
    "CALL _write_string $0.currency";
    "CALL _write_string $0.reinsurance_basis";
    "CALL _write_string $0.loss_definition";
    "CALL _write_float $0.per_occurrence_limit";
    "CALL _write_dict $0.details,$2";
    "CALL _write_dict $0.loss_details,$2"]);
  ("out._write_string", [
    "IF $0 is None";
    "PACK <h -1";
    "ELSE";
    "PACK <H len(($0.encode()))";
    "WRITERAW ($0.encode())";
    "ENDIF"]);
  ("out._write_date", [
    "PACK <hBB $0.year,$0.month,$0.day"]);
  ("out._write_float", [
    "IF $0 is None";
    "PACK <d math.nan";
    "ELSE";
    "PACK <d $0";
    "ENDIF"]);
  ("out._write_array", [
    "IF $0.dtype == 'float64'";
    "WRITE FLOAT_ARRAY";
    "ELIF $0.dtype == 'int64'";
    "WRITE INT_ARRAY";
    "ELSE";
    "RAISE ValueError";
    "ENDIF";
    "PACK <B (len($0.shape))";
    "LOOP for in $0.shape";
    "PACK <L %0";
    "ENDLOOP";
    "WRITERAW $0.tobytes()"]);
  ("out._write_dict", [
    "LOOP for in $0.items()";
    "PACK <H $2[%0]";
    "CALL _write_generic_value %1";
    "ENDLOOP";
    "WRITE DICT_END"]);
  ("out._write_generic_value", [
    "IF isinstance($0, str)";
    "WRITE STRING";
    "CALL _write_string $0";
    "ELIF isinstance($0, bool)";
    "WRITE BOOL";
    "PACK ? $0";
    "ELIF isinstance($0, (int, np.int64))";
    "WRITE INT";
    "PACK <q $0";
    "ELIF isinstance($0, float)";
    "WRITE FLOAT";
    "PACK <d $0";
    "ELIF isinstance($0, np.ndarray)";
    "CALL _write_array $0";
    "ELIF isinstance($0, datetime.date)";
    "WRITE DATE";
    "CALL _write_date $0";
    "ELSE";
    "WRITE NONE";
    "ENDIF"]);
  ("in.binary_to_triangle", [
    "IF $1 is None";
    "IF ((Path($0).expanduser()).suffix) == '.trib'";
    "SET $1 False";
    "ELIF ((Path($0).expanduser()).suffix) == '.tribc'";
    "SET $1 True";
    "ELSE";
    "RAISE ValueError";
    "ENDIF";
    "ELIF $1 and ((Path($0).expanduser()).suffix) != '.tribc'";
    "WARN";
    "ELIF not $1 and ((Path($0).expanduser()).suffix) != '.trib'";
    "WARN";
    "ENDIF";
    "IF $0.startswith('s3:')";
    "OPAQUE";
    "ELSE";
    "CALL _read_binary (Path($0).expanduser()),$1";
    "RETURN _read_binary((Path($0).expanduser()), $1)";
    "ENDIF"]);
  ("in._read_binary", [
    "IF $1";
    "WITH gzip.open($0, 'rb', compresslevel=5)";
    "CALL _read_triangle %0";
    "RETURN _read_triangle(%0)";
    "ENDWITH";
    "ELSE";
    "WITH open($0, 'rb')";
    "CALL _read_triangle %0";
    "RETURN _read_triangle(%0)";
    "ENDWITH";
    "ENDIF"]);
  ("in._read_triangle", [
    "READ 4";
    "IF $0.read(4) != MAGIC";
    "RAISE ValueError";
    "ENDIF";
    "READ 1";
    "IF $0.read(1) != VERSION";
    "RAISE ValueError";
    "ENDIF";
    "CALL _read_string_pool ";
    "LOOP while True";
    "READ 1";
    "IF %2 == METADATA";
    "CALL _read_metadata %0";
    "ELIF %2 == CELL or %2 == CUMULATIVE_CELL or %2 == INCREMENTAL_CELL";
    "CALL _read_cell %2,%1,%0";
    "ELSE";
    "BREAK";
    "ENDIF";
    "ENDLOOP";
    "RETURN Triangle(([]))"]);
  ("in._read_string_pool", [
    "UNPACK <H 2";
    "LOOP for in range(%0)";
    "CALL _read_string ";
    "ENDLOOP";
    "RETURN [_read_string($0) for %1 in range(%0)]"]);
  ("in._read_cell", [
    "IF $1 == CUMULATIVE_CELL";
    "CALL _read_date ->period_start ";
    "CALL _read_date ->period_end ";
    "CALL _read_date ->evaluation_date ";
    "CALL _read_dict ->values $3";
    "RETURN CumulativeCell(period_start=_read_date($0), period_end=_read_date($0), evaluation_date=_read_date($0), values=_read_dict($0, $3), metadata=$2)";
    "ELIF $1 == INCREMENTAL_CELL";
    "CALL _read_date ->period_start ";
    "CALL _read_date ->period_end ";
    "CALL _read_date ->evaluation_date ";
    "CALL _read_dict ->values $3";
    "CALL _read_date ->prev_evaluation_date ";
    "RETURN IncrementalCell(period_start=_read_date($0), period_end=_read_date($0), evaluation_date=_read_date($0), values=_read_dict($0, $3), prev_evaluation_date=_read_date($0), metadata=$2)";
    "ELSE";
    "CALL _read_date ->period_start ";
    "CALL _read_date ->period_end ";
    "CALL _read_date ->evaluation_date ";
    "CALL _read_dict ->values $3";
    "RETURN Cell(period_start=_read_date($0), period_end=_read_date($0), evaluation_date=_read_date($0), values=_read_dict($0, $3), metadata=$2)";
    "ENDIF"]);
  ("in._read_metadata", [
    "CALL _read_string ->risk_basis ";
    "CALL _read_string ->country ";
    "CALL _read_string ->currency ";
    "CALL _read_string ->reinsurance_basis ";
    "CALL _read_string ->loss_definition ";
    "CALL _read_float ->per_occurrence_limit ";
    "CALL _read_dict ->details $1";
    "CALL _read_dict ->loss_details $1";
    "RETURN Metadata(risk_basis=_read_string($0), country=_read_string($0), currency=_read_string($0), reinsurance_basis=_read_string($0), loss_definition=_read_string($0), per_occurrence_limit=_read_float($0), details=_read_dict($0, $1), loss_details=_read_dict($0, $1))"]);
  ("in._read_string", [
    "UNPACK <h 2";
    "IF %0 == -1";
    "RETURN None";
    "ENDIF";
    "READ %0";
    "RETURN $0.read(%0).decode('utf-8')"]);
  ("in._read_date", [
    "UNPACK <hBB 4";
    "RETURN datetime.date(%0, %1, %2)"]);
  ("in._read_float", [
    "UNPACK <d 8";
    "IF math.isnan(%0)";
    "RETURN None";
    "ENDIF";
    "RETURN %0"]);
  ("in._read_array", [
    "UNPACK <B 1";
    "LOOP for in range(%0)";
    "UNPACK <L 4";
    "ENDLOOP";
    "READ %2 * 8";
    "RETURN np.frombuffer(%4, $1).reshape(%1)"]);
  ("in._read_dict", [
    "LOOP while $0.peek(1)[:1] != DICT_END";
    "PEEK 1";
    "UNPACK <H 2";
    "CALL _read_generic_value ";
    "ENDLOOP";
    "READ 1";
    "RETURN ({})"]);
  ("in._read_generic_value", [
    "READ 1";
    "IF %0 == STRING";
    "CALL _read_string ";
    "RETURN _read_string($0)";
    "ELIF %0 == BOOL";
    "UNPACK ? 1";
    "RETURN struct.unpack('?', $0.read(1))[0]";
    "ELIF %0 == INT";
    "UNPACK <q 8";
    "RETURN struct.unpack('<q', $0.read(8))[0]";
    "ELIF %0 == FLOAT";
    "UNPACK <d 8";
    "RETURN struct.unpack('<d', $0.read(8))[0]";
    "ELIF %0 == INT_ARRAY";
    "CALL _read_array np.dtype('int64')";
    "RETURN _read_array($0, np.dtype('int64'))";
    "ELIF %0 == FLOAT_ARRAY";
    "CALL _read_array np.dtype('float64')";
    "RETURN _read_array($0, np.dtype('float64'))";
    "ELIF %0 == DATE";
    "CALL _read_date ";
    "RETURN _read_date($0)";
    "ELIF %0 == NONE";
    "RETURN None";
    "ENDIF"])
].
