(** C18 -- executable models (exact rationals) of the unit-changing utilities:
      convert_currency                    bermuda/utils/currency.py
      disaggregate_experience             bermuda/utils/disaggregate.py  (cumulative triangles, list weights)
      accident_quarter_to_policy_year     bermuda/utils/basis.py         (share table as an input)
      program_earned_premium              bermuda/utils/premium_pattern.py
    Definitions only.  Numbers: a cell value n/1024 is the rational n # 1024; rates, weights, shares and
    patterns are rationals (the harness passes the implementation's floats as exact fractions). *)
From Coq Require Import ZArith QArith Qabs List Bool.
From Bermuda Require Import Model.Base Lib.Calendar Model.Blend.
Import ListNotations.
Local Open Scope Q_scope.

(* ------------------------------------------------------------------ results *)
Inductive uval :=
| UKeep (v : value)                    (* the original object, untouched *)
| UNum (is_float : bool) (q : Q)       (* a Python / NumPy scalar *)
| UArr (is_float : bool) (qs : list Q) (* a 1-d array *)
| UOther.                              (* anything else the implementation might return *)
Record ucell := mkU { uhdr : cell; uvals : list (str * uval) }.

Definition mem_str (f : str) (l : list str) : bool := existsb (str_eqb f) l.

(* ================================================================== convert_currency *)
Record rate := mkRate { r_isf : bool; r_q : Q }.          (* exchange_rates[currency]: float or int *)

(* v * exchange_rate *)
Definition scale_value (r : rate) (v : value) : result uval :=
  match v with
  | VNum x => Ok (UNum (num_isf x || r_isf r) (q_of_n (num_n x) * r_q r))
  | VArr f xs => Ok (UArr (f || r_isf r) (map (fun n => q_of_n n * r_q r) xs))
  | VNone => Err TypeError
  end.
Definition set_currency (m : meta) (t : str) : meta :=
  mkMeta (risk_basis m) (country m) (Some t) (reinsurance_basis m) (loss_definition m)
         (per_occurrence_limit m) (details m) (loss_details m).
Definition keep_cell (c : cell) : ucell := mkU (hdr c) (map (fun kv => (fst kv, UKeep (snd kv))) (cvals c)).
Definition convert_cell (cf : list str) (r : rate) (target : str) (c : cell) : result ucell :=
  bind (map_result (fun kv : str * value =>
                      if mem_str (fst kv) cf then bind (scale_value r (snd kv)) (fun u => Ok (fst kv, u))
                      else Ok (fst kv, UKeep (snd kv))) (cvals c))
       (fun vs => Ok (mkU (mkCell (ckind c) (ps c) (pe c) (ev c) (prev c) (set_currency (cmeta c) target) []) vs)).
(* cells in canonical order = slice by slice; cf = CURRENCY_FIELDS *)
Definition convert_currency (cf : list str) (target : str) (rates : list (str * rate)) (cells : list cell)
  : result (list ucell) :=
  map_result (fun c =>
    match currency (cmeta c) with
    | None => Err ValueError
    | Some cur =>
        if str_eqb cur target then Ok (keep_cell c)
        else match assoc cur rates with
             | None => Err ValueError
             | Some r => convert_cell cf r target c
             end
    end) cells.

(* the documented list of currency-denominated fields (the specification the generated list is held against) *)
Definition documented_currency_fields : list str :=
  [ [101;97;114;110;101;100;95;112;114;101;109;105;117;109];                          (* earned_premium *)
    [117;115;101;100;95;101;97;114;110;101;100;95;112;114;101;109;105;117;109];        (* used_earned_premium *)
    [119;114;105;116;116;101;110;95;112;114;101;109;105;117;109];                      (* written_premium *)
    [112;97;105;100;95;108;111;115;115];                                              (* paid_loss *)
    [114;101;112;111;114;116;101;100;95;108;111;115;115];                              (* reported_loss *)
    [105;110;99;117;114;114;101;100;95;108;111;115;115] ]%Z.                           (* incurred_loss *)
Definition same_field_set (a b : list str) : bool :=
  forallb (fun f => mem_str f b) a && forallb (fun f => mem_str f a) b.
Definition currency_fields_ok (cf : list str) : bool := same_field_set cf documented_currency_fields.

(* ================================================================== disaggregate_experience *)
(* v * w for one sub-period: scalars become NumPy float scalars, arrays float64 arrays *)
Definition weight_value (w : Q) (v : value) : uval :=
  match v with
  | VNum x => UNum true (q_of_n (num_n x) * w)
  | VArr _ xs => UArr true (map (fun n => q_of_n n * w) xs)
  | VNone => UOther
  end.
Definition subperiods (res_new n : nat) (c : cell) : list (date * date) :=
  map (fun k => (addm (ps c) (Z.of_nat (k * res_new)), (addm (ps c) (Z.of_nat ((k + 1) * res_new)) - 1)%Z)) (seq 0 n).
Definition observable (c : cell) (subs : list (date * date)) : list (date * date) :=
  filter (fun p => (snd p <=? ev c)%Z) subs.
Definition norm_weights (ws : list Q) : list Q := let tot := qsum ws in map (fun w => w / tot) ws.
Definition sub_cell (fields : list str) (c : cell) (pw : (date * date) * Q) : ucell :=
  mkU (mkCell KCell (fst (fst pw)) (snd (fst pw)) (ev c) None (cmeta c) [])
      (flat_map (fun kv : str * value =>
                   if mem_str (fst kv) fields then [(fst kv, weight_value (snd pw) (snd kv))] else []) (cvals c)).
(* one cell of a cumulative slice; n = number of sub-periods of a full period *)
Definition disagg_cell (res_new n : nat) (ws : list Q) (fields : list str) (c : cell) : result (list ucell) :=
  let subs := observable c (subperiods res_new n c) in
  let w0 := firstn (length subs) ws in
  if (length subs =? 0)%nat then Ok []                       (* no observable sub-period: the cell vanishes *)
  else if Qeq_bool (qsum w0) 0 then Err OtherError           (* ZeroDivisionError *)
  else Ok (map (sub_cell fields c) (combine subs (norm_weights w0))).

(* Python: sum(w) == 1 evaluated in binary64.  The exact rational sum of floats whose binary64 sum is 1.0 lies
   within a few ulps (< 1e-15) of 1; a list whose sum is visibly not 1 (|sum - 1| >= 1e-10, e.g. [0.33333]*3 or
   1 - 1e-9) is refused.  The model draws the line at 1e-12; sums between 1e-15 and 1e-10 away from 1 are not
   generated by the harness. *)
Definition wtol : Q := Qmake 1 1000000000000.
Definition valid_weights (n : nat) (ws : list Q) : bool :=
  (length ws =? n)%nat && forallb (fun w => Qle_bool 0 w && Qle_bool w 1) ws
  && Qle_bool (Qabs (qsum ws - 1)) wtol.
Inductive dis_result := DSame | DCells (r : result (list ucell)).   (* DSame: the argument is returned *)
(* res_tri = period_resolution(triangle) (an input; C13), triangle cumulative and semi-regular *)
Definition disaggregate_experience (res_tri res_new : nat) (weights : option (list Q)) (fields : list str)
           (tri_fields : list str) (cells : list cell) : dis_result :=
  if (res_tri <? res_new)%nat then DCells (Err ValueError)
  else if (res_new =? res_tri)%nat then DSame
  else if negb (existsb (fun f => mem_str f fields) tri_fields) then DCells (Err ValueError)
  else if negb (res_tri mod res_new =? 0)%nat then DCells (Err ValueError)
  else let n := (res_tri / res_new)%nat in
       let ws := match weights with None => repeat (Qmake 1 (Pos.of_nat n)) n | Some ws => ws end in
       if negb (valid_weights n ws) then DCells (Err ValueError)
       else DCells (bind (map_result (disagg_cell res_new n ws fields) cells) (fun l => Ok (concat l))).

(* ================================================================== accident_quarter_to_policy_year *)
Definition period := (date * date)%type.
Definition period_eqb (a b : period) : bool := (fst a =? fst b)%Z && (snd a =? snd b)%Z.
Fixpoint passoc {V} (k : period) (d : list (period * V)) : option V :=
  match d with [] => None | (k', v) :: r => if period_eqb k k' then Some v else passoc k r end.
(* ep = policy_year_ep_shares: for every policy year (in order) its raw earned-premium share per accident quarter *)
Definition share_table := list (period * list (period * Q)).
Definition raw_or_0 (aq : period) (tbl : list (period * Q)) : Q :=
  match passoc aq tbl with Some s => s | None => 0 end.
Definition total_share (ep : share_table) (aq : period) : Q := qsum (map (fun e => raw_or_0 aq (snd e)) ep).
(* the normalised share of accident quarter aq falling into the policy year with table tbl *)
Definition nshare (ep : share_table) (aq : period) (tbl : list (period * Q)) : Q :=
  Qred (raw_or_0 aq tbl / total_share ep aq).
Definition has_share (aq : period) (tbl : list (period * Q)) : bool :=
  match passoc aq tbl with Some _ => true | None => false end.

Definition cperiod (c : cell) : period := (ps c, pe c).
Definition cells_at (e : date) (cells : list cell) : list cell := filter (fun c => (ev c =? e)%Z) cells.
Definition field_samples (c : cell) (f : str) : option (list Q) :=
  match assoc f (cvals c) with Some v => samples v | None => None end.
(* what cell c adds to sample k of field f of the policy-year cell with table tbl *)
Definition contrib (ep : share_table) (tbl : list (period * Q)) (f : str) (k : nat) (c : cell) : Q :=
  if has_share (cperiod c) tbl
  then match field_samples c f with Some v => pick v k * nshare ep (cperiod c) tbl | None => 0 end
  else 0.
Fixpoint dedup (l : list str) : list str :=
  match l with [] => [] | x :: r => x :: filter (fun y => negb (str_eqb x y)) (dedup r) end.
Definition py_value (ep : share_table) (tbl : list (period * Q)) (cs : list cell) (f : str) : result uval :=
  let contributing := filter (fun c => has_share (cperiod c) tbl && has_key f (cvals c)) cs in
  match all_some (map (fun c => field_samples c f) contributing) with
  | None => Err TypeError                                               (* None * float *)
  | Some vs =>
      let S := max_len vs in
      if negb (forallb (fun v => (length v =? S)%nat || (length v =? 1)%nat) vs) then Err ValueError
      else let xs := map (fun k => qsum (map (contrib ep tbl f k) cs)) (seq 0 S) in
           if forallb (fun c => match assoc f (cvals c) with Some (VArr _ _) => false | _ => true end) contributing
           then Ok (UNum true (qsum (map (contrib ep tbl f 0) cs))) else Ok (UArr true xs)
  end.
Definition policy_str : str := [80;111;108;105;99;121]%Z.
Definition set_risk_basis (m : meta) (t : str) : meta :=
  mkMeta (Some t) (country m) (currency m) (reinsurance_basis m) (loss_definition m)
         (per_occurrence_limit m) (details m) (loss_details m).
Definition py_cell (ep : share_table) (e : period * list (period * Q)) (evd : date) (cells : list cell)
  : result (list ucell) :=
  let cs := cells_at evd cells in
  let contributing := filter (fun c => has_share (cperiod c) (snd e)) cs in
  let fields := dedup (flat_map (fun c => keys (cvals c)) contributing) in
  match fields, rev cs with
  | [], _ => Ok []
  | _, [] => Ok []
  | _, lastc :: _ =>
      bind (map_result (fun f => bind (py_value ep (snd e) cs f) (fun u => Ok (f, u))) fields)
           (fun vs => Ok [mkU (mkCell KCum (fst (fst e)) (snd (fst e)) evd None
                                      (set_risk_basis (cmeta lastc) policy_str) []) vs])
  end.
Fixpoint dedup_z (l : list Z) : list Z :=
  match l with [] => [] | x :: r => x :: filter (fun y => negb (x =? y)%Z) (dedup_z r) end.
Definition max_ev (cells : list cell) : Z := fold_right (fun c m => Z.max (ev c) m) 0%Z cells.
(* the right edge (latest cell of every period) has a single evaluation date *)
Definition flat_right_edge (cells : list cell) : bool :=
  let E := max_ev cells in
  forallb (fun c => existsb (fun c' => period_eqb (cperiod c) (cperiod c') && (ev c' =? E)%Z) cells) cells.
Definition zero_total (ep : share_table) : bool :=
  existsb (fun e => existsb (fun a => Qeq_bool (total_share ep (fst a)) 0) (snd e)) ep.
(* one slice; policy years in the order of ep, evaluation dates in any order (the result is a set of cells) *)
Definition aq_to_py_slice (ep : share_table) (cells : list cell) : result (list ucell) :=
  if negb (flat_right_edge cells) then Err ValueError
  else if zero_total ep then Err OtherError                              (* ZeroDivisionError *)
  else bind (map_result (fun e => bind (map_result (fun evd => py_cell ep e evd cells)
                                                   (dedup_z (map ev cells)))
                                       (fun l => Ok (concat l))) ep)
            (fun l => Ok (concat l)).
Definition aq_to_py (slices : list (share_table * list cell)) : result (list ucell) :=
  bind (map_result (fun s => aq_to_py_slice (fst s) (snd s)) slices) (fun l => Ok (concat l)).

(* every accident quarter of the slice has a positive total share (the hypothesis F18 violates) *)
Definition covered (ep : share_table) (cells : list cell) : bool :=
  forallb (fun c => Qle_bool 0 (total_share ep (cperiod c)) && negb (Qeq_bool (total_share ep (cperiod c)) 0)) cells.

(* ---- the share table the code computes (policy_years_covered, _policy_earned_premium_share_by_month without a
   custom earning pattern, monthly_ep_to_quarterly_ep), at the level of month ids; policy-year origin on the first
   day of a month.  Exact rationals: the order of the code's += is irrelevant. *)
Definition ids (lo hi : Z) : list Z := map (fun k => (lo + Z.of_nat k)%Z) (seq 0 (Z.to_nat (hi - lo + 1))).
(* what writing month wm adds to earning month j: vol/2 in the month written, vol in the L-1 following, vol/2 in the last *)
Definition month_contrib (vol : Q) (L wm j : Z) : Q :=
  if (j =? wm)%Z then vol / 2
  else if (wm <? j)%Z && (j <? wm + L)%Z then vol
  else if (j =? wm + L)%Z then vol / 2 else 0.
Definition month_share (ws we L j : Z) : Q :=
  let vol := 1 / inject_Z (we - ws + 1) / inject_Z L in
  qsum (map (fun wm => month_contrib vol L wm j) (ids ws we)).
Definition in_period (q : period) (d : Z) : bool := (fst q <=? d)%Z && (d <=? snd q)%Z.
(* accident_quarter_ep_share[q]: present iff some earning month (its first day) lies in q *)
Definition quarter_raw (ws we L : Z) (q : period) : option Q :=
  match filter (fun j => in_period q (month_start j)) (ids ws (we + L)) with
  | [] => None
  | months => Some (qsum (map (month_share ws we L) months))
  end.
Definition py_table (continuous : bool) (L : Z) (quarters : list period) (s : Z) : period * list (period * Q) :=
  let we := if continuous then (s + 11)%Z else s in
  ((month_start s, month_end (s + 11)),
   flat_map (fun q => match quarter_raw s we L q with Some x => [(q, x)] | None => [] end) quarters).
(* policy_years_covered: start months s0, s0+12, ... up to and including the first one after e (the month of
   the last period end); s0 = the last month <= f (month of the first period start) with the origin's month *)
Definition py_first_start (f origin_month : Z) : Z := (f - (f - (origin_month - 1)) mod 12)%Z.
Definition py_start_ids (s0 e : Z) : list Z :=
  map (fun k => (s0 + 12 * Z.of_nat k)%Z) (seq 0 (Z.to_nat ((e - s0) / 12 + 2))).
Definition code_share_table (continuous : bool) (L : Z) (quarters : list period) (starts : list Z) : share_table :=
  map (py_table continuous L quarters) starts.
(* comparison of a recorded table with the modelled one *)
Definition tbl_close (tol : Q) (a b : list (period * Q)) : bool :=
  (length a =? length b)%nat
  && forallb (fun e => match passoc (fst e) b with Some y => qclose tol (snd e) y | None => false end) a.
Fixpoint share_table_close (tol : Q) (a b : share_table) : bool :=
  match a, b with
  | [], [] => true
  | x :: r, y :: s => period_eqb (fst x) (fst y) && tbl_close tol (snd x) (snd y) && share_table_close tol r s
  | _, _ => false
  end.

(* ================================================================== program_earned_premium *)
Fixpoint repeat_each {A} (n : nat) (l : list A) : list A :=
  match l with [] => [] | x :: r => repeat x n ++ repeat_each n r end.
(* elementwise sum, the shorter list padded with zeros; Qred only keeps the numerals small (Qred q == q) *)
Fixpoint addl (a b : list Q) : list Q :=
  match a, b with
  | [], _ => b
  | _, [] => a
  | x :: r, y :: s => Qred (x + y) :: addl r s
  end.
(* sum_n w_n * ([0]*n ++ me ++ [0]*(N-n-1)) *)
Fixpoint conv (mw me : list Q) : list Q :=
  match mw with
  | [] => []
  | w :: r => addl (map (Qmult w) me) (0 :: conv r me)
  end.
(* the output loop: while start < len(comb): append sums of x[start:stop]; the first bucket has size sz, the
   following ones size next *)
Fixpoint buckets (fuel sz next : nat) (mw comb : list Q) : list (Q * Q) :=
  match fuel with
  | O => []
  | S f => match comb with
           | [] => []
           | _ => (Qred (qsum (firstn sz mw)), Qred (qsum (firstn sz comb)))
                    :: buckets f next next (skipn sz mw) (skipn sz comb)
           end
  end.
Definition monthly_writing (pv : Q) (wp : list Q) (wres : nat) : list Q :=
  let sw := qsum wp in
  repeat_each wres (map (fun x => pv * (x / sw) / inject_Z (Z.of_nat wres)) wp).
Definition monthly_earning (ep : list Q) (eres : nat) (continuous : bool) : list Q :=
  let se := qsum ep in
  let raw := repeat_each eres (map (fun x => x / se / inject_Z (Z.of_nat eres)) ep) in
  if continuous then addl (map (fun x => x / 2) raw ++ [0]) (0 :: map (fun x => x / 2) raw) else raw.
(* -> (output_writing_pattern, output_earning_pattern); zero sums / resolutions are not representable
   (NaN, infinite loop) and surface as errors *)
Definition program_earned_premium (pv : Q) (wp : list Q) (wres : nat) (ep : list Q) (eres ores offset : nat)
           (continuous : bool) : result (list Q * list Q) :=
  if Qeq_bool (qsum wp) 0 || Qeq_bool (qsum ep) 0 || (wres =? 0)%nat || (eres =? 0)%nat || (ores =? 0)%nat
  then Err OtherError
  else let mw := monthly_writing pv wp wres in
       let me := monthly_earning ep eres continuous in
       let comb := conv mw me in
       let b := buckets (length comb) (if (0 <? offset)%nat then offset else ores) ores mw comb in
       Ok (0 :: map fst b, 0 :: map snd b).

(* ================================================================== comparison with the implementation *)
(* the harness prints every implementation value as UNum / UArr; an untouched model value (UKeep) must be
   matched exactly, computed values within tol *)
Definition norm_keep (v : value) : uval :=
  match v with
  | VNum x => UNum (num_isf x) (q_of_n (num_n x))
  | VArr f xs => UArr f (map q_of_n xs)
  | VNone => UKeep VNone
  end.
Definition uval_close1 (tol : Q) (a b : uval) : bool :=
  match a, b with
  | UKeep x, UKeep y => value_seqb x y
  | UNum f x, UNum g y => Bool.eqb f g && qclose tol x y
  | UArr f x, UArr g y => Bool.eqb f g && qlist_close tol x y
  | _, _ => false
  end.
Definition uval_close (tol : Q) (a b : uval) : bool :=
  match a with
  | UKeep v => uval_close1 0 (norm_keep v) b
  | _ => uval_close1 tol a b
  end.
Fixpoint remove_key (k : str) (d : list (str * uval)) : option (uval * list (str * uval)) :=
  match d with
  | [] => None
  | (k', v) :: r => if str_eqb k k' then Some (v, r)
                    else match remove_key k r with Some (x, r') => Some (x, (k', v) :: r') | None => None end
  end.
(* dictionaries compared as sets of items *)
Fixpoint uvals_close (tol : Q) (a b : list (str * uval)) : bool :=
  match a with
  | [] => match b with [] => true | _ => false end
  | (k, v) :: r => match remove_key k b with
                   | Some (v', b') => uval_close tol v v' && uvals_close tol r b'
                   | None => false
                   end
  end.
Definition ucell_close (tol : Q) (a b : ucell) : bool :=
  cell_seqb (uhdr a) (uhdr b) && uvals_close tol (uvals a) (uvals b).
Fixpoint remove_cell (tol : Q) (a : ucell) (l : list ucell) : option (list ucell) :=
  match l with
  | [] => None
  | b :: r => if ucell_close tol a b then Some r
              else match remove_cell tol a r with Some r' => Some (b :: r') | None => None end
  end.
(* lists of cells compared as multisets (the implementation re-sorts its result) *)
Fixpoint ucells_close (tol : Q) (a b : list ucell) : bool :=
  match a with
  | [] => match b with [] => true | _ => false end
  | x :: r => match remove_cell tol x b with Some b' => ucells_close tol r b' | None => false end
  end.
Definition uresult_close (tol : Q) (a b : result (list ucell)) : bool := result_eqb (ucells_close tol) a b.
Definition qlists_result_close (tol : Q) (a b : result (list Q * list Q)) : bool :=
  result_eqb (fun x y => qlist_close tol (fst x) (fst y) && qlist_close tol (snd x) (snd y)) a b.
