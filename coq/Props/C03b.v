(* C03 (continued) -- no operation mutates its arguments: MORE PUBLIC ENTRY POINTS.   STRENGTH: PARTIAL (by design)

   Props/C03.v proves the frame property (no object that existed before the call changes, whether the call
   returns or raises) and the alias graph for 20 kernels and 13 public entry points of the heap model.
   This file adds five more public entry points, written in Model/HeapApi2.v as explicit compositions of the
   same kernels over the cells of the argument triangle(s), mirroring the source:

     period_merge            merge.py     (type check, both triangles grouped by (period, metadata), per group
                                           the tri1 cells themselves / ValueError / _overwrite_values with or
                                           without suffix)
     convert_currency        currency.py  (per slice: ValueError / the slice's own cells / _convert_cell_currency,
                                           a NEW cell-level kernel: `v * rate` for currency fields, the very
                                           objects of the argument for the others, then replace(values, metadata))
     fill_forward_gaps       fill.py      (per (slice, period) row: dict lag -> cell; each missing lag is
                                           source.replace(evaluation_date) -- SHARING the source's values dict --
                                           and with fill_with_none a second replace(values={k: None}))
     backfill                backfill.py  (per period row: first cell by (metadata, evaluation_date); LOCAL dict
                                           of zeros + the first cell's own static entries (KeyError if missing);
                                           replace(evaluation_date, values=copy) inside try/except ValueError: break;
                                           result = the argument's cells + the new ones)
     Triangle.derive_metadata triangle.py / cell.py (per cell a chain of validating _base_replace(metadata=..))

   PROVED (every store, triangles of any size, every choice of the oracles deciding on dates/metadata, return
   AND raise): frame for each of them and for all at once (C03b_frame_more_entry_points, _reachable), plus which
   result cells ARE argument cells.  Each comes from the kernel lemmas through the composition rules of
   C03_frame_lifting; C03b_frame_lifting_more adds the two new framed steps (the currency kernel, and an
   exception handler: catching an exception keeps the frame because the frame covers the raising outcome).
   NOT PROVED: that the models are the code -- tied on every run by harness/c03.py (argument fingerprints,
   id()/shares_memory alias graph of the real result vs [agrees_api2] evaluated in coqc).
   Modelling boundary as in Props/C03.v (Triangle object / final sort / cached properties not modelled, NumPy
   views not modelled, callables = their effect on the tag). *)
From Coq Require Import ZArith List Bool.
From Bermuda Require Import Model.Base Model.Heap Model.HeapApi Model.HeapApi2
     Proofs.HeapFrame Proofs.HeapKernels Proofs.HeapApi Proofs.HeapApi2.
Import ListNotations.
Open Scope Z_scope.

Theorem C03b_frame_more_entry_points : forall (f : tagfns) (g : tagfns2) (c : cfg) (h : heap) (a : apicall2),
  match run_api2 f g c a h with
  | Ret h' _ | Raise h' _ =>
      (length h <= length h')%nat /\ forall l, (l < length h)%nat -> nth_error h' l = nth_error h l
  end.
Proof. exact api2_frame. Qed.
Print Assumptions C03b_frame_more_entry_points.

Theorem C03b_frame_more_entry_points_reachable : forall f g c h a,
  heap_ok h -> Forall (val_ok (length h)) (api2_args a) ->
  match run_api2 f g c a h with
  | Ret h' _ | Raise h' _ => forall x l, In x (api2_args a) -> reach h x l -> nth_error h' l = nth_error h l
  end.
Proof. exact api2_frame_reachable. Qed.
Print Assumptions C03b_frame_more_entry_points_reachable.

(* the new steps are framed, hence compose with everything of C03_frame_lifting *)
Theorem C03b_frame_lifting_more :
  (forall c g cell rate, framed (convert_cell_currency c g cell rate)) /\
  (forall A (m : M A), framed m -> framed (try_value_error m)) /\
  (forall f g c a, framed (run_api2 f g c a)).
Proof.
  split; [exact framed_convert_cell_currency|]. split; [exact @framed_try_value_error|exact api2_framed].
Qed.
Print Assumptions C03b_frame_lifting_more.

(* [post m h Q]: from the store h, m -- returning or raising -- leaves every object of h untouched, and a
   returned value satisfies the alias statement Q *)
Theorem C03b_frame_period_merge : forall g same_type suffix cells1 cells2 h,
  post (api_period_merge g same_type suffix cells1 cells2) h
       (Forall (fun r => fresh h r \/ In r cells1)).      (* matched: new; no tri2 cell: tri1's own cell *)
Proof. intros; apply sat_both, sat_api_period_merge. Qed.
Theorem C03b_frame_convert_cell_currency : forall c g cell rate h,
  post (convert_cell_currency c g cell rate) h (fresh h).
Proof. intros; apply sat_both, sat_convert_cell_currency. Qed.
Theorem C03b_frame_convert_currency : forall f g c cells h,
  post (api_convert_currency f g c cells) h
       (Forall (fun r => fresh h r \/ In r cells)).       (* converted: new; already in the target: own cell *)
Proof. intros; apply sat_both, sat_api_convert_currency. Qed.
Theorem C03b_frame_fill_forward_gaps : forall f g fill_none res plan cells h,
  post (api_fill_forward_gaps f g fill_none res plan cells) h
       (Forall (fun r => fresh h r \/ In r cells)).       (* filled: new cell; existing: own cell *)
Proof. intros; apply sat_both, sat_api_fill_forward_gaps. Qed.
Theorem C03b_frame_backfill : forall f g statics plan cells h,
  post (api_backfill f g statics plan cells) h
       (fun r => exists add, r = cells ++ add /\ Forall (fresh h) add).   (* own cells, then new ones *)
Proof. intros; apply sat_both, sat_api_backfill. Qed.
Theorem C03b_frame_derive_metadata : forall gs cells h,
  post (api_derive_metadata gs cells) h
       (fun r => (gs = [] -> r = cells) /\ (gs <> [] -> Forall (fresh h) r)).
Proof. intros; apply sat_both, sat_api_derive_metadata. Qed.
Print Assumptions C03b_frame_period_merge.
Print Assumptions C03b_frame_convert_cell_currency.
Print Assumptions C03b_frame_convert_currency.
Print Assumptions C03b_frame_fill_forward_gaps.
Print Assumptions C03b_frame_backfill.
Print Assumptions C03b_frame_derive_metadata.

(* ------------------------------------------------------------------ non-vacuity *)
(* two cells (tags 0 and 1) sharing nothing; key 0 = earned_premium (scalar), key 1 = an array field *)
Definition exb_heap : heap :=
  [ OArr [1; 2]; OArr [10; 20];
    ODict [(EP, PNum 5); (1, PRef 0%nat)]; ODict [(EP, PNum 5); (1, PRef 1%nat)];
    OCell 0 (PRef 2%nat); OCell 1 (PRef 3%nat) ].
Definition B0 := PRef 4%nat.  Definition B1 := PRef 5%nat.
Definition exb_f : tagfns :=
  mkTagfns (fun _ => 0) (fun t => t) (fun t => t) (fun t => t) (fun _ => 0) (fun _ => 0) (fun t => t)
           (fun _ => 0) (fun t => t) (fun _ => 7).
(* one period, one slice; field 1 is currency-denominated; lag = tag *)
Definition exb_g : tagfns2 :=
  mkTagfns2 (fun _ => 0) (fun _ => CurConvert 3) (fun t => t + 100) (fun k => k =? 1) (fun t => t) (fun t => t).
(* every cell its own period_merge index *)
Definition exb_g' : tagfns2 :=
  mkTagfns2 (fun t => t) (fun _ => CurSame) (fun t => t) (fun k => k =? 1) (fun t => t) (fun t => t).
Definition exb_calls : list apicall2 :=
  [ APeriodMerge true None [B0] [B1]; APeriodMerge true (Some 100) [B0] [B1];
    AConvertCurrency [B0; B1];
    AFillForwardGaps false 1 (fun _ => [(2, 2); (3, 3)]) [B0; B1];
    AFillForwardGaps true 1 (fun _ => [(2, 2)]) [B0; B1];
    ABackfill [EP] (fun _ => [7; 8]) [B1; B0];
    ABackfill [EP] (fun _ => [7; -1; 8]) [B0];           (* a refused date: the handler ends the row *)
    ADeriveMetadata [fun t => t + 10; fun t => t + 20] [B0; B1]; ADeriveMetadata [] [B0; B1] ].

Example C03b_entry_points_nonvacuous :
  heap_ok exb_heap /\
  (* the entry points RETURN on these calls and leave the store untouched *)
  forallb (fun a => match run_api2 exb_f exb_g default_cfg a exb_heap with
                    | Ret h' _ => frozen_b exb_heap h'
                    | Raise _ _ => false
                    end) exb_calls = true /\
  (* the interesting alias predictions: unmatched period_merge / same-currency slices / no definitions return
     the argument's own cells; a forward-filled cell SHARES its source's values dict (location 3) *)
  run_api2 exb_f exb_g' default_cfg (APeriodMerge true None [B0] [B1]) exb_heap = Ret exb_heap (RVals [B0]) /\
  run_api2 exb_f exb_g' default_cfg (AConvertCurrency [B0; B1]) exb_heap = Ret exb_heap (RVals [B0; B1]) /\
  run_api2 exb_f exb_g default_cfg (ADeriveMetadata [] [B0; B1]) exb_heap = Ret exb_heap (RVals [B0; B1]) /\
  (exists h', run_api2 exb_f exb_g default_cfg (AFillForwardGaps false 1 (fun _ => [(2, 2)]) [B0; B1]) exb_heap
              = Ret h' (RVals [B0; B1; PRef 7%nat]) /\ nth_error h' 7 = Some (OCell 2 (PRef 3%nat))) /\
  (* the caught ValueError: one new cell, then the row stops *)
  (exists h', run_api2 exb_f exb_g default_cfg (ABackfill [EP] (fun _ => [7; -1; 8]) [B0]) exb_heap
              = Ret h' (RVals [B0; PRef 9%nat])) /\
  (* raise paths *)
  (exists h e, run_api2 exb_f exb_g default_cfg (APeriodMerge false None [B0] [B1]) exb_heap = Raise h e) /\
  (exists h e, run_api2 exb_f exb_g default_cfg (APeriodMerge true None [B0] [B0; B1]) exb_heap = Raise h e) /\
  (exists h e, run_api2 exb_f exb_g default_cfg (ABackfill [9] (fun _ => [7]) [B0]) exb_heap = Raise h e).
Proof.
  split; [repeat constructor|]. split; [vm_compute; reflexivity|].
  split; [vm_compute; reflexivity|]. split; [vm_compute; reflexivity|]. split; [vm_compute; reflexivity|].
  split; [eexists; split; vm_compute; reflexivity|]. split; [eexists; vm_compute; reflexivity|].
  split; [eexists; eexists; vm_compute; reflexivity|]. split; eexists; eexists; vm_compute; reflexivity.
Qed.

(* the natural buggy variants DO change an argument object in the same model *)
Example mutant_writes_argument_period_merge :
  mutant_writes2 exb_f exb_g default_cfg exb_heap (APeriodMerge true None [B0] [B1]) = true /\
  mutant_writes2 exb_f exb_g default_cfg exb_heap (APeriodMerge true (Some 100) [B0] [B1]) = true.
Proof. split; vm_compute; reflexivity. Qed.
(* `v *= exchange_rate`: the first cell's array is overwritten *)
Example mutant_writes_argument_convert_currency :
  exists h' r, run_api2_mutant exb_f exb_g default_cfg (AConvertCurrency [B0; B1]) exb_heap = Ret h' r /\
               nth_error h' 0 = Some (OArr [3; 6]).
Proof. eexists; eexists; split; vm_compute; reflexivity. Qed.
(* fill_with_none written through the shared values dict: the LAST existing cell loses its values *)
Example mutant_writes_argument_fill_forward_gaps :
  exists h' r, run_api2_mutant exb_f exb_g default_cfg (AFillForwardGaps true 1 (fun _ => [(2, 2)]) [B0; B1]) exb_heap
               = Ret h' r /\ nth_error h' 3 = Some (ODict [(EP, PNone); (1, PNone)]).
Proof. eexists; eexists; split; vm_compute; reflexivity. Qed.
Example mutant_writes_argument_backfill :
  mutant_writes2 exb_f exb_g default_cfg exb_heap (ABackfill [EP] (fun _ => [7; 8]) [B1; B0]) = true.
Proof. vm_compute; reflexivity. Qed.
Example mutant_writes_argument_derive_metadata :
  mutant_writes2 exb_f exb_g default_cfg exb_heap (ADeriveMetadata [fun t => t + 10] [B0; B1]) = true.
Proof. vm_compute; reflexivity. Qed.
