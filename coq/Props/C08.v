(** C08 -- aggregation sums exactly the cells it merges and loses nothing.
    Static theorems about Model/Aggregate.v (any rule table; the generated one is instantiated in
    GenProps/C08_rules.v).  Everything below is proved in full (no `_partial` left).

    SCOPE of the closed-form theorems ([res_scope r origin dates], per resolution):
    - day / week units: quantity >= 1; no bound on dates or origin.
    - month / quarter / half-year / year units (quantity q >= 1 months): the origin is a month end of
      ANY year >= 1 (ordinal >= 1, is_month_end), and every date involved (period starts for
      period_resolution, evaluation dates for eval_resolution) lies after the first q months of year 1:
      month_end (MINID + q - 1) < d, MINID = -23628 = month id of 0001-01.  No upper bound, no bound on q.
      The calendar facts are the unbounded axiom-free theorems of wp-basis's Proofs/CalendarP.v
      [C08_calendar, C08_month_grid, C08_month_end_increasing].
      TIE for month arithmetic: Calendar.addm equals the source's float add_months only where the C12
      bridge theorem C12_add_months_agrees_with_Z_calendar says so (month-aligned dates, results in
      1970-2100; known finding F10 before 1970).  Outside that range these theorems are statements about
      the Z-model, and the per-run correspondence (implementation = walk model = agg_ref) is the tie.
      Period ends are unconstrained; the triangle need not be month-aligned for these theorems.

    MAIN THEOREMS
    - C08_aggregate_is_closed_form: inside the scope the walk model equals the LOOP-FREE specification,
      aggregate = agg_ref: windows and evaluation grid by integer division on day ordinals / month ids,
      window k = [origin + k*res + 1 day, origin + (k+1)*res].  Hence the per-run check agg_spec_b on the
      implementation's output is the comparison with the model [C08_agg_spec_b_is_model_comparison].
    - C08_period_windows / C08_eval_grid_filter: the two halves (_aggregate_period = sort, refuse
      straddlers, re-label each cell with window_of (period start), group, sum;  _aggregate_eval =
      filter (evaluation date on the grid origin + k*res)).
    - C08_window_of_spec: window_of d is the unique grid window (G k, G (k+1)] containing d.
    - C08_closed_form_one_cell_per_window: one output cell per distinct (window, evaluation date) with the
      slice's metadata and the summarised values of exactly the cells whose period start lies in the
      window; no surviving cell reaches beyond its window; C08_closed_form_straddle_refused: otherwise
      TriangleError.
    - C08_no_fuel_exhaustion: inside the scope _aggregate_period fails only by the straddle refusal
      (TriangleError) or while summarising a group -- fuel exhaustion (Err OtherError) of any loop,
      including the per-cell advance loop of relabel, is impossible.
    - sums and conservation: C08_window_field_is_sum, C08_closed_form_conservation (per slice and evaluation
      date, input cells vs output cells), C08_conservation_per_eval, C08_sort_conserves.
    - C08_eval_only, C08_incremental (through wp-basis's Model/Basis.v), C08_empty_slice,
      C08_empty_triangle.
    - the earlier theorems about the loops under UNIVERSAL step hypotheses (satisfied by day units only)
      are kept: C08_align, C08_eval_grid, C08_align_days, C08_period_windows_universal_step, ... *)
From Coq Require Import ZArith List Bool.
From Bermuda Require Import Model.Base Lib.Calendar Model.Summarize Model.Basis Model.Aggregate
  Proofs.SummarizeLib Proofs.Summarize Proofs.Summarize2 Proofs.CalendarP Proofs.Aggregate Proofs.AggregateGrid
  Proofs.AggregateInst Proofs.AggregateRef.
Import ListNotations.
Local Open Scope Z_scope.

Theorem C08_align : forall (step back : Z -> Z),
  (forall x, x < step x) -> (forall x, back x < x) -> (forall x, step (back x) = x) ->
  forall fuel origin first, Z.abs (first - origin) + 2 < Z.of_nat fuel ->
  exists c n, align step back fuel origin first = Some c /\
              (c = iter n step origin \/ c = iter n back origin) /\ c < first /\ first <= step c.
Proof. exact align_spec. Qed.
Theorem C08_model_fuel_suffices : forall origin first last,
  Z.abs (first - origin) + 2 < Z.of_nat (walk_fuel origin first last).
Proof. exact walk_fuel_enough. Qed.
Theorem C08_eval_grid : forall (step : Z -> Z), (forall x, x < step x) ->
  forall fuel cur last, Z.max 0 (last - cur + 1) < Z.of_nat fuel ->
  exists l, grid_upto step fuel cur last = Some l /\
            forall x, In x l <-> exists n, x = iter n step cur /\ x <= last.
Proof. exact grid_upto_spec. Qed.
Theorem C08_align_days : forall q origin first last, 1 <= q ->
  exists c k, align (delta (RDay q) false) (delta (RDay q) true) (walk_fuel origin first last) origin first = Some c /\
              c = origin + k * q /\ c < first <= c + q.
Proof. exact align_days. Qed.

Theorem C08_sorted_by_period_start : forall l, ps_nondecr (sort_coords l).
Proof. exact sort_coords_ps_nondecr. Qed.

Section C08.
  Variable wavg : transform -> list value -> list value -> result value.
  Variable rules : rule_table.
  Variable nl : list str.

  (* windows are the consecutive grid intervals (g, delta g] starting the day after a grid point *)
  Theorem C08_period_windows_universal_step : forall r,
    (forall x, x < delta r false x) -> (forall x, delta r true x < x) ->
    (forall x, delta r false (delta r true x) = x) ->
    forall origin prem cells out,
    aggregate_period wavg rules nl (Some r) origin prem cells = Ok out ->
    exists init relabelled,
      (exists n, init = iter n (delta r false) origin \/ init = iter n (delta r true) origin) /\
      Forall2 (window_assignment r init) (sort_coords cells) relabelled /\
      map_result (window_cell wavg rules nl prem) (groupby coord_eqb coord3 relabelled) = Ok out.
  Proof. exact (aggregate_period_spec wavg rules nl). Qed.

  (* ---- phase 2: closed form inside the scope (day units: always; month units: any year >= 1) ---- *)
  Theorem C08_aggregate_is_closed_form : forall a t,
    (is_incremental t = false -> cum_scope a t) ->
    (forall cum, is_incremental t = true -> to_cumulative std_desc t = Ok cum -> cum_scope a cum) ->
    aggregate wavg rules nl a t = agg_ref wavg rules nl a t.
  Proof. exact (aggregate_eq_ref wavg rules nl). Qed.
  Theorem C08_agg_spec_b_is_model_comparison : forall a t out,
    (is_incremental t = false -> cum_scope a t) ->
    (forall cum, is_incremental t = true -> to_cumulative std_desc t = Ok cum -> cum_scope a cum) ->
    agg_spec_b wavg rules nl a t out = result_ueqb (aggregate wavg rules nl a t) out.
  Proof. exact (agg_spec_b_is_model_comparison wavg rules nl). Qed.
  Theorem C08_period_windows : forall r origin prem cells,
    res_scope r origin (map ps cells) ->
    aggregate_period wavg rules nl (Some r) origin prem cells = ref_period wavg rules nl r origin prem cells.
  Proof. exact (period_eq_ref wavg rules nl). Qed.
  Theorem C08_no_fuel_exhaustion : forall r origin prem cells e,
    res_scope r origin (map ps cells) ->
    aggregate_period wavg rules nl (Some r) origin prem cells = Err e ->
    (e = TriangleError /\ exists c, In c cells /\ snd (window_of r origin (ps c)) < pe c) \/
    (forall c, In c cells -> pe c <= snd (window_of r origin (ps c))) /\
    map_result (window_cell wavg rules nl prem)
      (groupby coord_eqb coord3 (map (to_window r origin) (sort_coords cells))) = Err e.
  Proof. exact (period_errors_in_scope wavg rules nl). Qed.
  Theorem C08_closed_form_one_cell_per_window : forall r origin prem cells out,
    ref_period wavg rules nl r origin prem cells = Ok out ->
    (forall c, In c cells -> snd (window_of r origin (ps c)) >= pe c) /\
    let l := map (to_window r origin) (sort_coords cells) in
    map coord3 out = dedupe coord_eqb (map coord3 l) /\
    forall o, In o out ->
      let g := members coord_eqb coord3 l (coord3 o) in
      ckind o = KCum /\ (exists c0 rest, g = c0 :: rest /\ cmeta o = cmeta c0) /\
      summarize_cell_values wavg rules nl prem g = Ok (cvals o).
  Proof. exact (ref_period_spec wavg rules nl). Qed.
  (* per slice and evaluation date the total of every summed field is conserved by _aggregate_period *)
  Theorem C08_closed_form_conservation : forall r origin prem cells out k i e,
    ref_period wavg rules nl r origin prem cells = Ok out ->
    lookup_rule rules k = Some (RSum k) -> (prem = true \/ mem_str k nl = false) ->
    (forall o, In o out -> in_range i (getv k o)) ->
    total_at e i k out = total_at e i k cells.
  Proof. exact (ref_period_conserves wavg rules nl). Qed.
  Theorem C08_closed_form_straddle_refused : forall r origin prem c cells,
    In c cells -> snd (window_of r origin (ps c)) < pe c ->
    ref_period wavg rules nl r origin prem cells = Err TriangleError.
  Proof. exact (ref_period_straddle wavg rules nl). Qed.

  Theorem C08_day_units : forall q, 1 <= q -> forall origin prem cells out,
    aggregate_period wavg rules nl (Some (RDay q)) origin prem cells = Ok out ->
    exists init relabelled,
      (exists n, init = iter n (delta (RDay q) false) origin \/ init = iter n (delta (RDay q) true) origin) /\
      Forall2 (window_assignment (RDay q) init) (sort_coords cells) relabelled /\
      map_result (window_cell wavg rules nl prem) (groupby coord_eqb coord3 relabelled) = Ok out.
  Proof.
    intros q Hq. exact (aggregate_period_spec wavg rules nl (RDay q) (day_step_up q Hq) (day_back_down q Hq) (day_step_back q)).
  Qed.

  Theorem C08_period_errors : forall r,
    (forall x, x < delta r false x) -> (forall x, delta r true x < x) ->
    (forall x, delta r false (delta r true x) = x) ->
    forall origin prem cells e,
    aggregate_period wavg rules nl (Some r) origin prem cells = Err e ->
    e = TriangleError \/ e = OtherError \/
    (exists relabelled, map_result (window_cell wavg rules nl prem) (groupby coord_eqb coord3 relabelled) = Err e).
  Proof. exact (aggregate_period_errors wavg rules nl). Qed.
  (* a period that reaches beyond the window holding its start is refused with TriangleError *)
  Theorem C08_straddle_refused : forall (step : Z -> Z) fuel init c r i',
    walk_up step fuel init (ps c) = Some i' -> step i' < pe c ->
    relabel step fuel init (c :: r) = Err TriangleError.
  Proof. exact relabel_straddle. Qed.
  Theorem C08_no_straddler_survives : forall (step : Z -> Z) fuel init cells out,
    relabel step fuel init cells = Ok out ->
    Forall2 (fun c o => ev o = ev c /\ cmeta o = cmeta c /\ cvals o = cvals c /\ ckind o = KCell /\ prev o = None /\
                        exists g, ps o = g + 1 /\ pe o = step g /\ pe c <= step g) cells out.
  Proof. exact relabel_map. Qed.

  Theorem C08_one_cell_per_window_and_eval : forall prem l out,
    map_result (window_cell wavg rules nl prem) (groupby coord_eqb coord3 l) = Ok out ->
    map coord3 out = dedupe coord_eqb (map coord3 l) /\
    forall o, In o out ->
      let g := members coord_eqb coord3 l (coord3 o) in
      ckind o = KCum /\ (exists c0 r, g = c0 :: r /\ cmeta o = cmeta c0) /\
      summarize_cell_values wavg rules nl prem g = Ok (cvals o).
  Proof. exact (windows_one_cell_each wavg rules nl). Qed.
  Theorem C08_window_field_is_sum : forall prem g vals k v,
    summarize_cell_values wavg rules nl prem g = Ok vals -> g <> [] -> In (k, v) vals ->
    lookup_rule rules k = Some (RSum k) -> (prem = true \/ mem_str k nl = false) ->
    conforming_sum (raw k g) = Ok v.
  Proof. exact (scv_sum_entry wavg rules nl). Qed.
  Theorem C08_conservation_per_eval : forall prem l out k i e,
    map_result (window_cell wavg rules nl prem) (groupby coord_eqb coord3 l) = Ok out ->
    lookup_rule rules k = Some (RSum k) -> (prem = true \/ mem_str k nl = false) ->
    (forall o, In o out -> in_range i (getv k o)) ->
    total_at e i k out = total_at e i k l.
  Proof. exact (windows_conserve wavg rules nl). Qed.
  (* re-labelling and sorting keep evaluation dates and values, hence the per-evaluation totals *)
  Theorem C08_sort_conserves : forall (f : cell -> Z) l, zsum (map f (sort_coords l)) = zsum (map f l).
  Proof. exact sort_coords_sum. Qed.

  (* a slice emptied by the evaluation grid, and the empty triangle, aggregate to nothing (F24, F22) *)
  Theorem C08_empty_slice : forall r origin prem, aggregate_period wavg rules nl r origin prem [] = Ok [].
  Proof. exact (aggregate_period_empty wavg rules nl). Qed.
  Theorem C08_empty_triangle : forall a, aggregate wavg rules nl a [] = Ok [].
  Proof. exact (aggregate_empty wavg rules nl). Qed.

  Theorem C08_eval_only : forall a slice, period_res a = None ->
    aggregate_slice wavg rules nl a slice = aggregate_eval (eval_res a) (eval_origin a) slice.
  Proof. exact (aggregate_eval_only wavg rules nl). Qed.
  Theorem C08_eval_filters : forall r origin c0 cells out,
    aggregate_eval (Some r) origin (c0 :: cells) = Ok out ->
    exists valid, valid_evals r origin (zmin_list (ev c0) (map ev (c0 :: cells))) (zmax_list (ev c0) (map ev (c0 :: cells))) = Some valid /\
                  out = filter (fun c => existsb (Z.eqb (ev c)) valid) (c0 :: cells).
  Proof. exact aggregate_eval_filters. Qed.

  Theorem C08_incremental : forall a t, is_incremental t = true ->
    aggregate wavg rules nl a t
    = bind (to_cumulative std_desc t) (fun cum => bind (aggregate wavg rules nl a cum) (to_incremental std_desc))
    \/ exists cum, to_cumulative std_desc t = Ok cum /\ is_incremental cum = true.
  Proof. exact (aggregate_incremental wavg rules nl). Qed.
End C08.

(* evaluation resolution: filter on the closed-form grid *)
Theorem C08_eval_grid_filter : forall r origin c0 rest,
  res_scope r origin (map ev (c0 :: rest)) ->
  aggregate_eval (Some r) origin (c0 :: rest) = Ok (filter (fun c => on_grid r origin (ev c)) (c0 :: rest)).
Proof. exact eval_eq_filter. Qed.
(* window_of d is the unique grid window holding d *)
Theorem C08_window_of_spec : forall r origin G klo khi kidx d,
  grid_ok r origin G klo khi kidx -> G klo < d <= G khi ->
  let w := window_of r origin d in
  fst w <= d <= snd w /\
  exists k, klo <= k < khi /\ fst w = G k + 1 /\ snd w = G (k + 1) /\
            forall k', klo <= k' < khi -> G k' < d <= G (k' + 1) -> k' = k.
Proof. exact window_of_spec. Qed.
(* the two families of resolutions are grids *)
Theorem C08_day_grid : forall q origin klo khi, 1 <= q -> klo <= 0 -> 0 < khi ->
  grid_ok (RDay q) origin (day_G origin q) klo khi (day_kidx origin q).
Proof. exact day_grid_ok. Qed.
Theorem C08_month_grid_ok : forall origin q, month_origin_ok origin q -> forall khi, 0 < khi ->
  grid_ok (RMonth q) origin (month_G origin q) (month_klo origin q) khi (month_kidx origin q).
Proof. exact month_grid_ok. Qed.
(* every date of year >= 1 lies in the month its month id names (wp-basis, Proofs/CalendarP.v) *)
Theorem C08_calendar : forall d, 1 <= d -> month_start (month_id d) <= d <= month_end (month_id d).
Proof. exact CalendarP.month_bracket. Qed.

(* month arithmetic for every month of year >= 1 (month id >= MINID = -23628) *)
Theorem C08_month_grid : forall i q, MINID <= i ->
  delta (RMonth q) false (month_end i) = month_end (i + q) /\
  delta (RMonth q) true (month_end i) = month_end (i - q) /\
  month_end i + 1 = month_start (i + 1).
Proof. exact month_window_unbounded. Qed.
Theorem C08_month_end_increasing : forall i j, i < j -> month_end i < month_end j.
Proof. exact me_lt. Qed.

Print Assumptions C08_align.
Print Assumptions C08_align_days.
Print Assumptions C08_period_windows_universal_step.
Print Assumptions C08_day_units.
Print Assumptions C08_one_cell_per_window_and_eval.
Print Assumptions C08_conservation_per_eval.
Print Assumptions C08_incremental.
Print Assumptions C08_month_grid.
Print Assumptions C08_aggregate_is_closed_form.
Print Assumptions C08_period_windows.
Print Assumptions C08_no_fuel_exhaustion.
Print Assumptions C08_eval_grid_filter.
Print Assumptions C08_month_grid_ok.
Print Assumptions C08_calendar.

(* non-vacuity: four quarterly cells of one slice aggregate to one yearly cell per evaluation date *)
Definition k_paid : str := [112;97;105;100;95;108;111;115;115].
Definition ex_rules : rule_table := [(k_paid, RSum k_paid)].
Definition exc (s e v paid : Z) : cell := mkCell KCum s e v None default_meta [(k_paid, VNum (Num false paid))].
Definition ex_tri : list cell :=
  [exc 730120 730210 730485 1024; exc 730211 730301 730485 2048; exc 730302 730393 730485 4096; exc 730394 730485 730485 8192].
Example C08_nonvacuous :
  aggregate wavg_mask ex_rules [] (mkArgs (Some (standardize 1 UYear)) None 730119 730119 true) ex_tri
  = Ok [exc 730120 730485 730485 15360]
  /\ agg_ref wavg_mask ex_rules [] (mkArgs (Some (standardize 1 UYear)) None 730119 730119 true) ex_tri
  = Ok [exc 730120 730485 730485 15360]
  /\ aggregate wavg_mask ex_rules [] (mkArgs (Some (standardize 4 UMonth)) None 730119 730119 true) ex_tri
  = Err TriangleError.
Proof. repeat split; vm_compute; reflexivity. Qed.
(* the scope hypotheses are satisfiable: yearly windows from 1999-12-31 on that triangle *)
Example C08_scope_nonvacuous :
  cum_scope (mkArgs (Some (standardize 1 UYear)) (Some (standardize 1 UQuarter)) 730119 730119 true) ex_tri.
Proof.
  split; intros r E; inversion E; subst; cbn [res_scope standardize];
    (split; [repeat split; vm_compute; congruence|]);
    intros d Hd; cbn in Hd; repeat (destruct Hd as [<-|Hd]; [vm_compute; reflexivity|]); destruct Hd.
Qed.
