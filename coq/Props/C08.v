(** C08 -- aggregation sums exactly the cells it merges and loses nothing.
    Static theorems about Model/Aggregate.v (any rule table; the generated one is instantiated in
    GenProps/C08_rules.v).

    PROVED IN FULL
    - alignment loops of _aggregate_eval/_aggregate_period: the model's fuel suffices and the result
      is the grid point (orbit of the origin under resolution_delta) immediately before the first
      date [C08_align]; evaluation grid loop [C08_eval_grid]; for day/week units without any range
      bound, with the closed form origin + k*q [C08_align_days].
    - window assignment: every cell of the (proved) period-sorted list is relabelled with the grid
      window (g, g+res] that holds its period start, and its period end lies inside it -- otherwise
      TriangleError [C08_period_windows, C08_period_errors, C08_no_straddler_survives].
    - exactly one output cell per (window, evaluation date), carrying the slice's metadata and the
      summarised values of exactly the cells relabelled to it; additive fields are sums
      [C08_one_cell_per_window_and_eval, C08_window_field_is_sum]; conservation of every field total per
      slice and evaluation date [C08_conservation_per_eval].
    - evaluation resolution only: the result is `filter (evaluation date in the grid)` [C08_eval_only].
    - incremental input: aggregate x = to_incremental (aggregate (to_cumulative x)) [C08_incremental]
      (through wp-basis's Model/Basis.v).
    - month arithmetic facts for month ids 0..1571 (1970-01 .. 2100-12), by kernel computation:
      resolution_delta of a month end is the month end q months later, strictly increasing, windows
      are [month_start (i+1), month_end (i+q)] [C08_month_grid, C08_month_end_increasing].
    PARTIAL (statement visible below as C08_period_windows_partial's hypotheses)
    - the generic window theorems assume `x < delta r false x`, `delta r true x < x`,
      `delta r false (delta r true x) = x` for ALL x.  This holds for day/week units (instantiated:
      C08_day_units).  For month units it holds on month ends of 1970-2100 only (C08_month_grid);
      lifting the generic theorems to range-relative hypotheses is not done, so for month units the
      closed-form window statement is checked on every run by the correspondence
      implementation = walk model = loop-free specification agg_ref (closed-form windows / grid).
    - fuel sufficiency of the per-cell advance loop inside relabel is not proved (exhaustion would
      surface as Err OtherError in the correspondence). *)
From Coq Require Import ZArith List Bool.
From Bermuda Require Import Model.Base Lib.Calendar Model.Summarize Model.Basis Model.Aggregate
  Proofs.SummarizeLib Proofs.Summarize Proofs.Summarize2 Proofs.Aggregate.
Import ListNotations.
Local Open Scope Z_scope.

Theorem C08_align : forall (step back : Z -> Z),
  (forall x, x < step x) -> (forall x, back x < x) -> (forall x, step (back x) = x) ->
  forall fuel origin first, Z.abs (first - origin) + 2 < Z.of_nat fuel ->
  exists c n, align step back fuel origin first = Some c /\
              (c = iter n step origin \/ c = iter n back origin) /\ c < first /\ first <= step c.
Proof. exact align_spec. Qed.
Theorem C08_model_fuel_suffices : forall origin first last,
  Z.abs (first - origin) + 2 < Z.of_nat (walk_fuel origin first last).
Proof. exact walk_fuel_enough. Qed.
Theorem C08_eval_grid : forall (step : Z -> Z), (forall x, x < step x) ->
  forall fuel cur last, Z.max 0 (last - cur + 1) < Z.of_nat fuel ->
  exists l, grid_upto step fuel cur last = Some l /\
            forall x, In x l <-> exists n, x = iter n step cur /\ x <= last.
Proof. exact grid_upto_spec. Qed.
Theorem C08_align_days : forall q origin first last, 1 <= q ->
  exists c k, align (delta (RDay q) false) (delta (RDay q) true) (walk_fuel origin first last) origin first = Some c /\
              c = origin + k * q /\ c < first <= c + q.
Proof. exact align_days. Qed.

Theorem C08_sorted_by_period_start : forall l, ps_nondecr (sort_coords l).
Proof. exact sort_coords_ps_nondecr. Qed.

Section C08.
  Variable wavg : transform -> list value -> list value -> result value.
  Variable rules : rule_table.
  Variable nl : list str.

  (* windows are the consecutive grid intervals (g, delta g] starting the day after a grid point *)
  Theorem C08_period_windows_partial : forall r,
    (forall x, x < delta r false x) -> (forall x, delta r true x < x) ->
    (forall x, delta r false (delta r true x) = x) ->
    forall origin prem cells out,
    aggregate_period wavg rules nl (Some r) origin prem cells = Ok out ->
    exists init relabelled,
      (exists n, init = iter n (delta r false) origin \/ init = iter n (delta r true) origin) /\
      Forall2 (window_assignment r init) (sort_coords cells) relabelled /\
      map_result (window_cell wavg rules nl prem) (groupby coord_eqb coord3 relabelled) = Ok out.
  Proof. exact (aggregate_period_spec wavg rules nl). Qed.

  Theorem C08_day_units : forall q, 1 <= q -> forall origin prem cells out,
    aggregate_period wavg rules nl (Some (RDay q)) origin prem cells = Ok out ->
    exists init relabelled,
      (exists n, init = iter n (delta (RDay q) false) origin \/ init = iter n (delta (RDay q) true) origin) /\
      Forall2 (window_assignment (RDay q) init) (sort_coords cells) relabelled /\
      map_result (window_cell wavg rules nl prem) (groupby coord_eqb coord3 relabelled) = Ok out.
  Proof.
    intros q Hq. exact (aggregate_period_spec wavg rules nl (RDay q) (day_step_up q Hq) (day_back_down q Hq) (day_step_back q)).
  Qed.

  Theorem C08_period_errors : forall r,
    (forall x, x < delta r false x) -> (forall x, delta r true x < x) ->
    (forall x, delta r false (delta r true x) = x) ->
    forall origin prem cells e,
    aggregate_period wavg rules nl (Some r) origin prem cells = Err e ->
    e = TriangleError \/ e = OtherError \/
    (exists relabelled, map_result (window_cell wavg rules nl prem) (groupby coord_eqb coord3 relabelled) = Err e).
  Proof. exact (aggregate_period_errors wavg rules nl). Qed.
  (* a period that reaches beyond the window holding its start is refused with TriangleError *)
  Theorem C08_straddle_refused : forall (step : Z -> Z) fuel init c r i',
    walk_up step fuel init (ps c) = Some i' -> step i' < pe c ->
    relabel step fuel init (c :: r) = Err TriangleError.
  Proof. exact relabel_straddle. Qed.
  Theorem C08_no_straddler_survives : forall (step : Z -> Z) fuel init cells out,
    relabel step fuel init cells = Ok out ->
    Forall2 (fun c o => ev o = ev c /\ cmeta o = cmeta c /\ cvals o = cvals c /\ ckind o = KCell /\ prev o = None /\
                        exists g, ps o = g + 1 /\ pe o = step g /\ pe c <= step g) cells out.
  Proof. exact relabel_map. Qed.

  Theorem C08_one_cell_per_window_and_eval : forall prem l out,
    map_result (window_cell wavg rules nl prem) (groupby coord_eqb coord3 l) = Ok out ->
    map coord3 out = dedupe coord_eqb (map coord3 l) /\
    forall o, In o out ->
      let g := members coord_eqb coord3 l (coord3 o) in
      ckind o = KCum /\ (exists c0 r, g = c0 :: r /\ cmeta o = cmeta c0) /\
      summarize_cell_values wavg rules nl prem g = Ok (cvals o).
  Proof. exact (windows_one_cell_each wavg rules nl). Qed.
  Theorem C08_window_field_is_sum : forall prem g vals k v,
    summarize_cell_values wavg rules nl prem g = Ok vals -> g <> [] -> In (k, v) vals ->
    lookup_rule rules k = Some (RSum k) -> (prem = true \/ mem_str k nl = false) ->
    conforming_sum (raw k g) = Ok v.
  Proof. exact (scv_sum_entry wavg rules nl). Qed.
  Theorem C08_conservation_per_eval : forall prem l out k i e,
    map_result (window_cell wavg rules nl prem) (groupby coord_eqb coord3 l) = Ok out ->
    lookup_rule rules k = Some (RSum k) -> (prem = true \/ mem_str k nl = false) ->
    (forall o, In o out -> in_range i (getv k o)) ->
    total_at e i k out = total_at e i k l.
  Proof. exact (windows_conserve wavg rules nl). Qed.
  (* re-labelling and sorting keep evaluation dates and values, hence the per-evaluation totals *)
  Theorem C08_sort_conserves : forall (f : cell -> Z) l, zsum (map f (sort_coords l)) = zsum (map f l).
  Proof. exact sort_coords_sum. Qed.

  (* a slice emptied by the evaluation grid, and the empty triangle, aggregate to nothing (F24, F22) *)
  Theorem C08_empty_slice : forall r origin prem, aggregate_period wavg rules nl r origin prem [] = Ok [].
  Proof. exact (aggregate_period_empty wavg rules nl). Qed.
  Theorem C08_empty_triangle : forall a, aggregate wavg rules nl a [] = Ok [].
  Proof. exact (aggregate_empty wavg rules nl). Qed.

  Theorem C08_eval_only : forall a slice, period_res a = None ->
    aggregate_slice wavg rules nl a slice = aggregate_eval (eval_res a) (eval_origin a) slice.
  Proof. exact (aggregate_eval_only wavg rules nl). Qed.
  Theorem C08_eval_filters : forall r origin c0 cells out,
    aggregate_eval (Some r) origin (c0 :: cells) = Ok out ->
    exists valid, valid_evals r origin (zmin_list (ev c0) (map ev (c0 :: cells))) (zmax_list (ev c0) (map ev (c0 :: cells))) = Some valid /\
                  out = filter (fun c => existsb (Z.eqb (ev c)) valid) (c0 :: cells).
  Proof. exact aggregate_eval_filters. Qed.

  Theorem C08_incremental : forall a t, is_incremental t = true ->
    aggregate wavg rules nl a t
    = bind (to_cumulative std_desc t) (fun cum => bind (aggregate wavg rules nl a cum) (to_incremental std_desc))
    \/ exists cum, to_cumulative std_desc t = Ok cum /\ is_incremental cum = true.
  Proof. exact (aggregate_incremental wavg rules nl). Qed.
End C08.

(* month arithmetic, month ids 0..1571 (1970-01 .. 2100-12) *)
Theorem C08_month_grid : forall i q, 0 <= i <= 1571 -> 1 <= q ->
  delta (RMonth q) false (month_end i) = month_end (i + q) /\
  delta (RMonth q) true (month_end i) = month_end (i - q) /\
  month_end i + 1 = month_start (i + 1).
Proof. exact month_window. Qed.
Theorem C08_month_end_increasing : forall i j, 0 <= i -> j <= 1572 -> i < j -> month_end i < month_end j.
Proof. exact month_end_increasing. Qed.

Print Assumptions C08_align.
Print Assumptions C08_align_days.
Print Assumptions C08_period_windows_partial.
Print Assumptions C08_day_units.
Print Assumptions C08_one_cell_per_window_and_eval.
Print Assumptions C08_conservation_per_eval.
Print Assumptions C08_incremental.
Print Assumptions C08_month_grid.

(* non-vacuity: four quarterly cells of one slice aggregate to one yearly cell per evaluation date *)
Definition k_paid : str := [112;97;105;100;95;108;111;115;115].
Definition ex_rules : rule_table := [(k_paid, RSum k_paid)].
Definition exc (s e v paid : Z) : cell := mkCell KCum s e v None default_meta [(k_paid, VNum (Num false paid))].
Definition ex_tri : list cell :=
  [exc 730120 730210 730485 1024; exc 730211 730301 730485 2048; exc 730302 730393 730485 4096; exc 730394 730485 730485 8192].
Example C08_nonvacuous :
  aggregate wavg_mask ex_rules [] (mkArgs (Some (standardize 1 UYear)) None 730119 730119 true) ex_tri
  = Ok [exc 730120 730485 730485 15360]
  /\ agg_ref wavg_mask ex_rules [] (mkArgs (Some (standardize 1 UYear)) None 730119 730119 true) ex_tri
  = Ok [exc 730120 730485 730485 15360]
  /\ aggregate wavg_mask ex_rules [] (mkArgs (Some (standardize 4 UMonth)) None 730119 730119 true) ex_tri
  = Err TriangleError.
Proof. repeat split; vm_compute; reflexivity. Qed.
