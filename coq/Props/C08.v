From Bermuda Require Import Model.Aggregate.
