(* C13 -- descriptive accessors and the triangle taxonomy agree with the cells.

   Model: Model/Accessors.v (a triangle is its cell list t.cells; any size).  Hypotheses, all explicit:
     wf_cell c    period_start <= period_end              (enforced by the Cell constructor)
     wf_meta m    detail dictionaries have unique keys    (Python dicts)
   Orders: dates/ints Z.ltb, periods pair_ltb (tuple order), strings str_ltb (code-point order =
   bytewise order on UTF-8).  `metadata` is characterised as the duplicate-free image w.r.t. Python ==
   ([meta_pyeq], proved equal to C01's Order.meta_pyeq: C13_pyeq_is_C01_pyeq); it is sorted for EVERY total
   order under which the cells are sorted metadata-major (C13_metadata_sorted), and for the REAL
   Metadata.__lt__ of C01 (Order.meta_cmp) on every canonical triangle -- the constructor's output --
   it is strictly ascending and duplicate-free, i.e. sorted(set(...)) as the source computes it
   (C13_metadata_canonical).
   Month unit: [cell_lag UMonth] / [plen UMonth] are Calendar.lag_months.  Tie to the source: this is the
   value of the float-based dev_lag_months only where the C12 bridge theorems say so (month-aligned
   dates, 1970-2100; before 1970 see known finding F10).  C13_month_unit gives the closed forms for
   EVERY month of Python's date range (month ids >= MINID = -23628 = 0001-01; the period start must
   have a previous day, MINID < a), from the unbounded axiom-free facts of Proofs/CalendarP.v.
   Equality of metadata is Python's == (1000 == 1000.0, True == 1, dict order irrelevant). *)
From Coq Require Import ZArith List Bool Lia Sorted.
From Bermuda Require Import Lib.Calendar Model.Base Model.Accessors Proofs.Accessors Proofs.AccessorsTax
  Proofs.CalendarP Proofs.AccessorsCal.
From Bermuda Require Model.Order Proofs.OrderP Proofs.TriangleP Proofs.AccessorsOrder.
Import ListNotations.
Open Scope Z_scope.

(* ---------------------------------------------------------------- sorted distinct images *)
Theorem C13_periods : forall t,
  StronglySorted plt (periods t) /\ NoDup (periods t) /\
  forall p, In p (periods t) <-> exists c, In c t /\ period c = p.
Proof. exact periods_spec. Qed.
Print Assumptions C13_periods.

Theorem C13_evaluation_dates : forall t,
  StronglySorted zlt (evaluation_dates t) /\ NoDup (evaluation_dates t) /\
  forall d, In d (evaluation_dates t) <-> exists c, In c t /\ ev c = d.
Proof. exact evaluation_dates_spec. Qed.
Print Assumptions C13_evaluation_dates.

Theorem C13_dev_lags : forall u t,
  StronglySorted zlt (dev_lags u t) /\ NoDup (dev_lags u t) /\
  forall k, In k (dev_lags u t) <-> exists c, In c t /\ cell_lag u c = k.
Proof. exact dev_lags_spec. Qed.
Print Assumptions C13_dev_lags.

Theorem C13_fields : forall t,
  StronglySorted slt (fields t) /\ NoDup (fields t) /\
  forall f, In f (fields t) <-> exists c, In c t /\ In f (keys (cvals c)).
Proof. exact fields_spec. Qed.
Print Assumptions C13_fields.

(* "exactly": any strictly sorted list with the same elements IS the accessor's value *)
Theorem C13_images_exact : forall t,
  (forall out, (StronglySorted plt out /\ forall p, In p out <-> exists c, In c t /\ period c = p) ->
               out = periods t) /\
  (forall out, (StronglySorted zlt out /\ forall d, In d out <-> exists c, In c t /\ ev c = d) ->
               out = evaluation_dates t) /\
  (forall u out, (StronglySorted zlt out /\ forall k, In k out <-> exists c, In c t /\ cell_lag u c = k) ->
               out = dev_lags u t) /\
  (forall out, (StronglySorted slt out /\ forall f, In f out <-> exists c, In c t /\ In f (keys (cvals c))) ->
               out = fields t).
Proof.
  intros t. repeat split.
  - apply periods_exact.
  - intros out. apply zimage_exact.
  - intros u out. apply zimage_exact.
  - apply fields_exact.
Qed.
Print Assumptions C13_images_exact.

Theorem C13_evaluation_date : forall t,
  (t = [] <-> evaluation_date t = Err TriangleError) /\
  (forall d, evaluation_date t = Ok d ->
     (exists c, In c t /\ ev c = d) /\ forall c, In c t -> ev c <= d).
Proof. exact evaluation_date_spec. Qed.
Print Assumptions C13_evaluation_date.

(* ---------------------------------------------------------------- counts *)
Theorem C13_field_cell_counts : forall t,
  map fst (field_cell_counts t) = fields t /\
  forall f n, In (f, n) (field_cell_counts t) <->
    In f (fields t) /\ n = Z.of_nat (length (filter (fun c => has_key f (cvals c)) t)).
Proof. exact field_cell_counts_spec. Qed.
Print Assumptions C13_field_cell_counts.

Theorem C13_field_slice_counts : forall t,
  map fst (field_slice_counts t) = fields t /\
  (forall f n, In (f, n) (field_slice_counts t) <->
    In f (fields t) /\
    n = Z.of_nat (length (filter (fun m => existsb (fun c => has_key f (cvals c)) (slice_cells m t))
                                 (metadata t)))) /\
  (forall f m, existsb (fun c => has_key f (cvals c)) (slice_cells m t) = true <->
               exists c, In c t /\ meta_pyeq m (cmeta c) = true /\ has_key f (cvals c) = true).
Proof.
  intros t. destruct (field_slice_counts_spec t) as [H1 H2].
  split; [exact H1|split; [exact H2|intros; apply slice_has_field]].
Qed.
Print Assumptions C13_field_slice_counts.

Theorem C13_num_samples : forall t,
  (forall n, num_samples t = Ok n <->
     (sizes t = [] /\ n = 1) \/ (In n (sizes t) /\ forall s, In s (sizes t) -> s = n)) /\
  (forall e, num_samples t = Err e <->
     e = ValueError /\ exists a b, In a (sizes t) /\ In b (sizes t) /\ a <> b) /\
  (forall n, In n (sizes t) <->
     exists c k f xs, In c t /\ In (k, VArr f xs) (cvals c) /\ n = Z.of_nat (length xs) /\ 1 < n).
Proof.
  intros t. split; [intros; apply num_samples_ok|split; [intros; apply num_samples_err|intros; apply sizes_spec]].
Qed.
Print Assumptions C13_num_samples.

(* ---------------------------------------------------------------- metadata *)
Theorem C13_metadata : forall t,
  (forall m, In m (metadata t) -> exists c, In c t /\ cmeta c = m) /\
  (forall c, In c t -> exists m, In m (metadata t) /\ meta_pyeq m (cmeta c) = true) /\
  ForallOrdPairs (fun a b => meta_pyeq a b = false) (metadata t).
Proof. exact metadata_spec. Qed.
Print Assumptions C13_metadata.

Theorem C13_metadata_sorted : forall (mlt : meta -> meta -> bool) t,
  (forall a b, mlt b a = false -> meta_pyeq a b = false -> mlt a b = true) ->
  StronglySorted (fun a b => mlt b a = false) (map cmeta t) ->
  StronglySorted (fun a b => mlt a b = true) (metadata t).
Proof. exact metadata_sorted. Qed.
Print Assumptions C13_metadata_sorted.

(* the Python == of the accessor model is C01's Metadata.__eq__ (equality of canonical keys) *)
Theorem C13_pyeq_is_C01_pyeq : forall a b, wf_meta a -> wf_meta b -> meta_pyeq a b = Order.meta_pyeq a b.
Proof. exact AccessorsOrder.meta_pyeq_agree. Qed.
Print Assumptions C13_pyeq_is_C01_pyeq.

(* with the real Metadata.__lt__ (C01): on the constructor's output `metadata` is strictly ascending and
   duplicate-free -- together with C13_metadata (same elements as the cells) it is sorted(set(...)) *)
Theorem C13_metadata_canonical : forall l t,
  TriangleP.cells_comparable l -> Order.mk_triangle l = Ok t ->
  (forall c, In c t -> wf_meta (cmeta c)) ->
  StronglySorted (fun a b => Order.meta_cmp a b = Some Lt) (metadata t) /\
  ForallOrdPairs (fun a b => Order.meta_pyeq a b = false) (metadata t).
Proof.
  intros l t Hc H Hwf. apply AccessorsOrder.metadata_canonical; [|assumption].
  eapply AccessorsOrder.mk_triangle_is_canonical; eassumption.
Qed.
Print Assumptions C13_metadata_canonical.

Theorem C13_pyeq_equivalence :
  (forall a, meta_pyeq a a = true) /\ (forall a b, meta_pyeq a b = meta_pyeq b a) /\
  (forall a b c, meta_pyeq a b = true -> meta_pyeq b c = true -> meta_pyeq a c = true).
Proof. repeat split; [apply meta_pyeq_refl|apply meta_pyeq_sym|apply meta_pyeq_trans]. Qed.
Print Assumptions C13_pyeq_equivalence.

(* recombine (common_metadata t) (metadata_differences t)[i] == metadata t [i] *)
Theorem C13_recombine : forall t i dflt,
  (forall c, In c t -> wf_meta (cmeta c)) ->
  (i < length (metadata t))%nat ->
  exists c, common_metadata t = Ok c /\
    meta_pyeq (recombine c (nth i (metadata_differences t) dflt)) (nth i (metadata t) dflt) = true.
Proof. exact recombine_nth. Qed.
Print Assumptions C13_recombine.

(* common_metadata keeps precisely what all slices share (m0 :: ms = metadata t) *)
Theorem C13_common_keeps_shared : forall m0 ms,
  let c := fold_left common_metadata2 ms m0 in
  wf_meta m0 ->
  (forall x, risk_basis c = Some x <-> forall m, In m (m0 :: ms) -> risk_basis m = Some x) /\
  (forall x, country c = Some x <-> forall m, In m (m0 :: ms) -> country m = Some x) /\
  (forall x, currency c = Some x <-> forall m, In m (m0 :: ms) -> currency m = Some x) /\
  (forall x, reinsurance_basis c = Some x <-> forall m, In m (m0 :: ms) -> reinsurance_basis m = Some x) /\
  (forall x, loss_definition c = Some x <-> forall m, In m (m0 :: ms) -> loss_definition m = Some x) /\
  (forall x, per_occurrence_limit c = Some x <->
     per_occurrence_limit m0 = Some x /\
     forall m, In m ms -> onum_pyeq (Some x) (per_occurrence_limit m) = true) /\
  (* details: a key survives iff every slice has it with a Python-equal value *)
  (NoDup (keys (details c)) /\
   (forall k v, assoc k (details c) = Some v ->
      forall m, In m (m0 :: ms) -> exists v', assoc k (details m) = Some v' /\ mval_pyeq v v' = true) /\
   (forall k v0, assoc k (details m0) = Some v0 ->
      (forall m, In m ms -> exists v', assoc k (details m) = Some v' /\ mval_pyeq v0 v' = true) ->
      exists v, assoc k (details c) = Some v)) /\
  (NoDup (keys (loss_details c)) /\
   (forall k v, assoc k (loss_details c) = Some v ->
      forall m, In m (m0 :: ms) -> exists v', assoc k (loss_details m) = Some v' /\ mval_pyeq v v' = true) /\
   (forall k v0, assoc k (loss_details m0) = Some v0 ->
      (forall m, In m ms -> exists v', assoc k (loss_details m) = Some v' /\ mval_pyeq v0 v' = true) ->
      exists v, assoc k (loss_details c) = Some v)).
Proof.
  intros m0 ms c [Hd Hl]. repeat apply conj.
  - apply (common_str_attr m0 ms risk_basis). reflexivity.
  - apply (common_str_attr m0 ms country). reflexivity.
  - apply (common_str_attr m0 ms currency). reflexivity.
  - apply (common_str_attr m0 ms reinsurance_basis). reflexivity.
  - apply (common_str_attr m0 ms loss_definition). reflexivity.
  - apply common_limit.
  - apply (common_dict_attr m0 ms false details (fun _ _ => eq_refl) Hd).
  - apply (common_dict_attr m0 ms false details (fun _ _ => eq_refl) Hd).
  - apply (common_dict_attr m0 ms false details (fun _ _ => eq_refl) Hd).
  - apply (common_dict_attr m0 ms true loss_details (fun _ _ => eq_refl) Hl).
  - apply (common_dict_attr m0 ms true loss_details (fun _ _ => eq_refl) Hl).
  - apply (common_dict_attr m0 ms true loss_details (fun _ _ => eq_refl) Hl).
Qed.
Print Assumptions C13_common_keeps_shared.

(* ---------------------------------------------------------------- taxonomy *)
(* the adjacent-pair scan over the sorted periods is complete *)
Theorem C13_is_disjoint : forall t,
  (forall c, In c t -> wf_cell c) ->
  (is_disjoint t = true <->
   forall c1 c2, In c1 t -> In c2 t -> period c1 <> period c2 -> overlap (period c1) (period c2) = false).
Proof. exact is_disjoint_spec. Qed.
Print Assumptions C13_is_disjoint.

Theorem C13_is_semi_regular : forall u t,
  is_semi_regular u t = true <-> is_disjoint t = true /\ equal_lengths u t.
Proof. exact is_semi_regular_spec. Qed.
Print Assumptions C13_is_semi_regular.

Theorem C13_is_regular : forall u t,
  is_regular u t = true <-> is_semi_regular u t = true /\ const_spacing (dev_lags u t).
Proof. exact is_regular_spec. Qed.
Print Assumptions C13_is_regular.

Theorem C13_nested : forall u t,
  (is_regular u t = true -> is_semi_regular u t = true) /\
  (is_semi_regular u t = true -> is_disjoint t = true).
Proof. exact taxonomy_nested. Qed.
Print Assumptions C13_nested.

(* month unit on month-aligned dates of any year >= 1 *)
Theorem C13_month_unit : forall a b, MINID < a -> MINID <= b ->
  plen UMonth (month_start a, month_end b) = b - a + 1 /\
  (MINID <= a -> lag_months (month_end a) (month_end b) = b - a).
Proof.
  intros a b Ha Hb. split; [apply plen_month_aligned; assumption|intros Ha'; apply lag_months_ends; assumption].
Qed.
Print Assumptions C13_month_unit.

(* ---------------------------------------------------------------- resolutions *)
(* is_gcd_of xs g: g >= 0, g divides every gap, every common divisor divides g *)
Theorem C13_period_resolution : forall t,
  (t = [] <-> period_resolution t = Err ValueError) /\
  (t <> [] ->
   (period_resolution t = Ok None <-> period_month_gaps t = []) /\
   (period_month_gaps t <> [] ->
      exists g, period_resolution t = Ok (Some g) /\ is_gcd_of (period_month_gaps t) g)).
Proof. exact period_resolution_spec. Qed.
Print Assumptions C13_period_resolution.

Theorem C13_eval_date_resolution : forall t,
  (eval_date_resolution t = Ok None <-> eval_month_gaps t = []) /\
  (eval_month_gaps t <> [] ->
     exists g, eval_date_resolution t = Ok (Some g) /\ is_gcd_of (eval_month_gaps t) g) /\
  (eval_month_gaps t = [] <-> (length (evaluation_dates t) <= 1)%nat).
Proof.
  intros t. destruct (eval_date_resolution_spec t) as [H1 H2].
  split; [exact H1|split; [exact H2|apply eval_month_gaps_nil]].
Qed.
Print Assumptions C13_eval_date_resolution.

(* _multi_gcd reduces list(set(xs)) in an unspecified order: every order gives the same value *)
Theorem C13_multi_gcd : forall xs,
  xs <> [] -> (forall x, In x xs -> 0 <= x) ->
  exists g, multi_gcd xs = Ok g /\ is_gcd_of xs g /\
    (forall g', is_gcd_of xs g' -> g' = g) /\
    (forall ys a r, (forall x, In x ys <-> In x xs) -> ys = a :: r -> fold_left Z.gcd r (Z.abs a) = g).
Proof.
  intros xs Hne Hpos. destruct (multi_gcd_spec xs Hne Hpos) as [g [H1 H2]]. exists g.
  split; [exact H1|split; [exact H2|split]].
  - intros g' Hg'. eapply is_gcd_of_unique; eassumption.
  - intros ys a r Hs E. eapply gcd_order_independent; eassumption.
Qed.
Print Assumptions C13_multi_gcd.

(* ---------------------------------------------------------------- experience gaps *)
Theorem C13_experience_gaps_adjacent : forall t g,
  In g (experience_gaps t) <->
  exists i, (S i < length (periods t))%nat /\
    let a := nth i (periods t) (0, 0) in let b := nth (S i) (periods t) (0, 0) in
    fst b <> snd a + 1 /\ g = (snd a + 1, fst b - 1).
Proof. intros t g. apply gaps_of_In. Qed.
Print Assumptions C13_experience_gaps_adjacent.

(* on a disjoint triangle the gaps are exactly the uncovered days inside the experience range *)
Theorem C13_experience_gaps : forall t,
  (forall c, In c t -> wf_cell c) -> is_disjoint t = true ->
  forall d,
  (exists g, In g (experience_gaps t) /\ in_range d g) <->
  ((exists c, In c t /\ ps c <= d) /\ (exists c, In c t /\ d <= pe c) /\
   forall c, In c t -> ~ (ps c <= d <= pe c)).
Proof. exact experience_gaps_spec. Qed.
Print Assumptions C13_experience_gaps.

(* ---------------------------------------------------------------- the hypotheses are satisfiable *)
Definition ex_m1 : meta :=
  mkMeta (Some [65]) (Some [85; 83]) (Some [85; 83; 68]) None None (Some (Num false 1024000))
         [([108], MStr [97]); ([110], MNum (Num false 1024))] [([99], MStr [98])].
Definition ex_m2 : meta :=
  mkMeta (Some [65]) (Some [85; 83]) (Some [69; 85; 82]) None None (Some (Num true 1024000))
         [([110], MBool true); ([108], MStr [97]); ([122], MNone)] [([99], MStr [98]); ([112], MDate 737000)].
(* 2020Q1, 2020Q2 (adjacent) with lags 0,3 resp. 0 ; two slices *)
Definition ex_tri : list cell :=
  [ mkCell KCum 737425 737515 737515 None ex_m1 [([112], VNum (Num false 1024))];
    mkCell KCum 737425 737515 737606 None ex_m1 [([112], VNum (Num false 2048)); ([113], VArr false [1; 2])];
    mkCell KCum 737516 737606 737606 None ex_m1 [([112], VNone)];
    mkCell KCum 737425 737515 737515 None ex_m2 [([113], VArr true [3; 4])] ].

Example C13_nonvacuous :
  (forall c, In c ex_tri -> wf_cell c) /\ (forall c, In c ex_tri -> wf_meta (cmeta c)) /\
  length (metadata ex_tri) = 2%nat /\ is_regular UMonth ex_tri = true /\ is_disjoint ex_tri = true /\
  period_resolution ex_tri = Ok (Some 3) /\ eval_date_resolution ex_tri = Ok (Some 3) /\
  num_samples ex_tri = Ok 2 /\ periods ex_tri = [(737425, 737515); (737516, 737606)] /\
  (exists c, common_metadata ex_tri = Ok c /\ currency c = None /\ country c = Some [85; 83] /\
             keys (details c) = [[108]; [110]] /\ keys (loss_details c) = [[99]]).
Proof.
  split; [|split; [|repeat split; try (vm_compute; reflexivity)]].
  - intros c0 Hc. simpl in Hc. repeat (destruct Hc as [<-|Hc]; [unfold wf_cell; simpl; lia|]). destruct Hc.
  - assert (NDk : forall k1 k2 k3 : str, k1 <> k2 -> k1 <> k3 -> k2 <> k3 -> NoDup [k1; k2; k3]).
    { intros. repeat constructor; simpl; intuition congruence. }
    intros c0 Hc. simpl in Hc.
    repeat (destruct Hc as [<-|Hc]; [split; simpl; repeat constructor; simpl; intuition discriminate|]).
    destruct Hc.
  - eexists. split; [vm_compute; reflexivity|]. repeat split.
Qed.

(* an overlapping (erratic) triangle: the scan says no, and so does the all-pairs statement *)
Example C13_overlap_detected :
  let t := [ mkCell KCum 737425 737456 737515 None ex_m1 []; mkCell KCum 737456 737484 737515 None ex_m1 [] ] in
  is_disjoint t = false /\ overlap (737425, 737456) (737456, 737484) = true.
Proof. vm_compute. split; reflexivity. Qed.
