(* C20 -- plot data is faithful: one record per cell, correct metrics and labels (bermuda/plot.py).

   Model: Model/Plot.v, exact arithmetic over Q.  [build_plot_data d t] mirrors build_plot_data: a
   table of summaries keyed by cell, filled row by row ((cell, prev, next) triples of the rows of
   Triangle.<D_rows d>), then one record per cell of t in order with _core_plot_data coordinates.
   [pdesc] is what T-plot regenerates from the source on every run (GenProps/C20_plot.v): dataclass
   field order of FieldSummary, the literal of FieldSummary.quantiles(), the positional arguments of
   from_metric, the metric lambdas as expression trees, the row iterator, the coordinate keys.
   quantile = NumPy's default linear interpolation; median = quantile 1/2, min/max = quantile 0/1.

   STRENGTH: partial.  Not decided here (and said so in the check's level note):
     - sd: the standard deviation is irrational; it is only compared numerically (np.std recomputed);
     - "every plot method serialises to a valid Vega-Lite specification with one facet per slice" is
       behaviour of Altair: the check only MONITORS a few plot_*().to_dict() calls and counts charts;
     - dev_lag is an input of the model (date arithmetic is C12); tooltip/unit/last_lag not modelled;
     - division by zero inside sample arrays (NumPy inf/nan) and empty sample arrays are outside the model. *)
From Coq Require Import ZArith QArith List Bool String.
From Bermuda Require Import Model.Base Model.Plot Proofs.PlotQuantile Proofs.PlotRecords.
Import ListNotations.
Open Scope Q_scope.

(* one record per cell, in cell order, with that cell's coordinates and lag -- for ANY description *)
Theorem C20_one_record_per_cell : forall d t,
  List.length (build_plot_data d t) = List.length t /\
  map (fun r => (r_ps r, r_pe r, r_ev r, r_lag r)) (build_plot_data d t)
  = map (fun c => (pc_ps c, pc_pe c, pc_ev c, pc_lag c)) t /\
  map r_summaries (build_plot_data d t) = map (fun c => lookup_last c (summary_table d t) []) t.
Proof. intros. split; [apply records_length|split; [apply records_coords|apply records_summaries]]. Qed.
Print Assumptions C20_one_record_per_cell.

(* every entry of the table the records read from is computed from a (cell, prev, next) triple whose
   neighbours are cells of the triangle OF THE SAME SLICE AND PERIOD (F17), next not earlier, prev not later *)
Theorem C20_row_neighbours : forall d t c s, by_slice d = true -> In (c, s) (summary_table d t) ->
  exists p n, s = cell_summaries d c p n /\ In c t /\
    (forall x, n = Some x -> In x t /\ same_row true c x = true /\ (pc_ev c <= pc_ev x)%Z) /\
    (forall x, p = Some x -> In x t /\ same_row true c x = true /\ (pc_ev x <= pc_ev c)%Z).
Proof.
  intros d t c s Hb H. destruct (summary_table_entries d t c s H) as (p & n & H1 & H2).
  exists p, n. split; [exact H2|]. pose proof (neighbours_same_row d t c p n H1) as G. rewrite Hb in G. exact G.
Qed.
Print Assumptions C20_row_neighbours.

(* the built-in metric table: loss ratios are 100 * loss / earned_premium of the cell's OWN fields,
   plain fields pass through, age-to-age metrics divide the NEXT cell's loss by the cell's own; a
   missing / None input gives no value, hence no summary *)
Theorem C20_metric_table_ok : metric_table_spec (D_metrics std_desc).
Proof. exact metric_table_std. Qed.
Print Assumptions C20_metric_table_ok.
(* a metric is summarised IFF it has a value: no summary exactly when an input is missing / None / a
   scalar division is undefined (eval = None) or the value is an empty sample array.  A value that is
   exactly ZERO is a value: present inputs always yield a summary (seeded mutant C20-m2) *)
Theorem C20_summary_iff_inputs_present : forall d e c p n,
  metric_summary d (eval e c p n) = None <-> (eval e c p n = None \/ eval e c p n = Some (PArr [])).
Proof. exact summary_iff_inputs_present. Qed.
Print Assumptions C20_summary_iff_inputs_present.
Theorem C20_scalar_ratio_present : forall c loss l e,
  own c loss = Some (PNum l) -> own c "earned_premium" = Some (PNum e) -> ~ e == 0 ->
  spec_ratio c loss = Some (PNum (inject_Z 100 * l / e)).
Proof. exact scalar_ratio_present. Qed.
Print Assumptions C20_scalar_ratio_present.
Definition ex_zero := mkPCell 0 100 200 200 0
  [(STR "paid_loss", PNum 0); (STR "incurred_loss", PArr [0; 0; 0]); (STR "earned_premium", PNum 1000)].
Example C20_zero_is_summarised :
  map fst (cell_summaries std_desc ex_zero None None)
    = map STR ["paid_loss_ratio"; "incurred_loss_ratio"; "paid_loss"; "incurred_loss"; "earned_premium"]%string /\
  assoc (STR "paid_loss") (cell_summaries std_desc ex_zero None None) = Some [(STR "mean", 0)] /\
  (* the next cell's paid loss divided by a zero paid loss is undefined: no age-to-age summary *)
  assoc (STR "paid_ata") (cell_summaries std_desc ex_zero None
      (Some (mkPCell 0 100 200 300 3 [(STR "paid_loss", PNum 75)]))) = None.
Proof. vm_compute. repeat split; reflexivity. Qed.

(* NumPy's linear-interpolation quantile is monotone in p and lies between min and max, for every
   non-empty sample list; min / max are the ends of the sorted sample *)
Theorem C20_quantile_monotone : forall xs p p', xs <> [] -> 0 <= p -> p <= p' ->
  quantile xs p <= quantile xs p'.
Proof. exact quantile_monotone. Qed.
Print Assumptions C20_quantile_monotone.
Theorem C20_quantile_between_min_max : forall xs p, xs <> [] -> 0 <= p -> p <= 1 ->
  qmin xs <= quantile xs p /\ quantile xs p <= qmax xs.
Proof. exact quantile_between_min_max. Qed.
Print Assumptions C20_quantile_between_min_max.
Theorem C20_min_max_are_extremes : forall xs, xs <> [] ->
  qmin xs == hdQ (qsort xs) /\ qmax xs == lastQ (qsort xs) /\ sortedQ (qsort xs).
Proof. intros xs H. split; [apply qmin_is_first; exact H|split; [apply qmax_is_last; exact H|apply qsort_sorted]]. Qed.
Print Assumptions C20_min_max_are_extremes.

(* for ANY description whose labels are right ([labels_ok d]: each positional argument of from_metric
   lands on the field named after it, in particular the number in q<..> IS the probability used --
   F6), the named summaries are ordered as their names say *)
Theorem C20_summaries_monotone : forall d, labels_ok d = true ->
  forall xs f1 f2 l1 l2 v1 v2, xs <> [] ->
  label_prob f1 = Some l1 -> label_prob f2 = Some l2 -> l1 <= l2 ->
  summary_field d xs f1 = Some v1 -> summary_field d xs f2 = Some v2 -> v1 <= v2.
Proof. exact summaries_monotone. Qed.
Print Assumptions C20_summaries_monotone.
Theorem C20_summaries_within_min_max : forall d, labels_ok d = true ->
  forall xs f l v lo hi, xs <> [] -> label_prob f = Some l -> summary_field d xs f = Some v ->
  summary_field d xs (stat_name SMin) = Some lo -> summary_field d xs (stat_name SMax) = Some hi ->
  lo <= v /\ v <= hi.
Proof. exact summaries_within_min_max. Qed.
Print Assumptions C20_summaries_within_min_max.
Theorem C20_median_is_q50 : forall d, labels_ok d = true ->
  forall xs f l v m, xs <> [] -> label_prob f = Some l -> l == 1 # 2 -> summary_field d xs f = Some v ->
  summary_field d xs (stat_name SMedian) = Some m -> v == m.
Proof. exact median_is_q50. Qed.
Print Assumptions C20_median_is_q50.

(* the standard description has right labels *)
Theorem C20_quantile_labels_ok_std : labels_ok std_desc = true.
Proof. vm_compute. reflexivity. Qed.

(* F6 (fixed in /repo): with the old literal the obligation is false and the summaries are not monotone *)
Definition f6_desc : pdesc :=
  mkPDesc (D_fields std_desc) [25 # 100; 5 # 100; 1 # 10; 2 # 10; 5 # 10; 6 # 10; 9 # 10; 95 # 100; 975 # 1000]
          (D_args std_desc) (D_metrics std_desc) (D_rows std_desc) (D_core std_desc) (D_records_over std_desc).
Theorem C20_f6_labels_refuted :
  labels_ok f6_desc = false /\
  exists xs, xs <> [] /\
    match summary_field f6_desc xs (STR "q2_5"), summary_field f6_desc xs (STR "q5") with
    | Some v1, Some v2 => negb (Qle_bool v1 v2)          (* q2_5 > q5 *)
    | _, _ => false end = true.
Proof.
  split; [vm_compute; reflexivity|].
  exists [0; 1; 2; 3; 4]. split; [discriminate|vm_compute; reflexivity].
Qed.
(* F17 (fixed in /repo): with rows grouped by period only, the successor of the last cell of a slice's
   row is the first cell of the next slice *)
Definition f17_desc : pdesc :=
  mkPDesc (D_fields std_desc) (D_probs std_desc) (D_args std_desc) (D_metrics std_desc) (STR "period_rows")
          (D_core std_desc) (D_records_over std_desc).
Definition ex_a := mkPCell 0 100 200 200 0 [(STR "paid_loss", PNum 50); (STR "earned_premium", PNum 200)].
Definition ex_b := mkPCell 0 100 200 300 3 [(STR "paid_loss", PNum 75); (STR "earned_premium", PArr [100; 200; 400])].
Definition ex_c := mkPCell 1 100 200 250 1 [(STR "paid_loss", PNum 10)].
Theorem C20_f17_neighbour_refuted :
  In (ex_a, None, Some ex_c) (all_triples f17_desc [ex_a; ex_b; ex_c]) /\ pc_slice ex_a <> pc_slice ex_c /\
  In (ex_a, None, Some ex_b) (all_triples std_desc [ex_a; ex_b; ex_c]).
Proof. split; [|split]; [vm_compute; tauto|discriminate|vm_compute; tauto]. Qed.

(* ------------------------------------------------------------------ non-vacuity *)
Example C20_nonvacuous :
  by_slice std_desc = true /\ labels_ok std_desc = true /\
  List.length (build_plot_data std_desc [ex_a; ex_b; ex_c]) = 3%nat /\
  (* cell a: scalar paid loss ratio 25, ATA 75/50 from the next cell of the same slice *)
  assoc (STR "paid_loss_ratio") (r_summaries (hd (mkRec 0 0 0 0 []) (build_plot_data std_desc [ex_a; ex_b; ex_c])))
    = Some [(STR "mean", 100 * 50 / 200)] /\
  assoc (STR "paid_ata") (r_summaries (hd (mkRec 0 0 0 0 []) (build_plot_data std_desc [ex_a; ex_b; ex_c])))
    = Some [(STR "mean", 75 / 50)] /\
  (* a sample summary: q2_5 <= q5 <= ... <= q97_5 within [min, max] *)
  map snd (summarise std_desc [3; 1; 2; 10; 7 # 2]) =
    [3.9; 12 # 4; 1; 10; 1.100; 1.20; 1.4; 1.8; 60 # 20; 192 # 40; 296 # 40; 3480 # 400; 37400 # 4000] /\
  summary_field std_desc [3; 1; 2; 10; 7 # 2] (STR "q2_5") = Some 1.100.
Proof. vm_compute. repeat split; reflexivity. Qed.
