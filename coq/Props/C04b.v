(** C04 (addendum, round 9): the conversion pairs the fields of two cells BY NAME.

    `merge`, `to_incremental` and the readers hand out ==-equal cells whose value dicts hold the same fields in
    another insertion order.  `_values_diff` / `_values_add` must therefore not depend on the order in which the
    SECOND cell's dict was written (a positional `zip(prev.items(), next.values())` would subtract across fields).
    Stated for every description [d], every pair of dicts and every re-ordering (indeed every dict with the same
    key -> value map, duplicates of shadowed keys included).  The carried field and the key-set refusal are covered:
    the statement is an equality of results, errors included. *)
From Coq Require Import ZArith List Bool Permutation.
From Bermuda Require Import Model.Base Model.Basis Proofs.BasisKeyOrder.
Import ListNotations.
Local Open Scope Z_scope.

Theorem C04_values_diff_ignores_key_order : forall d prev next next',
  same_map next' next -> values_diff d prev next' = values_diff d prev next.
Proof. intros d prev next next' H. exact (values_combine_second_key_order _ _ prev next next' H). Qed.
Print Assumptions C04_values_diff_ignores_key_order.

Theorem C04_values_add_ignores_key_order : forall d curr next next',
  same_map next' next -> values_add d curr next' = values_add d curr next.
Proof. intros d curr next next' H. exact (values_combine_second_key_order _ _ curr next next' H). Qed.
Print Assumptions C04_values_add_ignores_key_order.

(* ... and the order of the FIRST cell's dict only permutes the resulting dict (same fields, same values) *)
Theorem C04_values_diff_first_key_order_permutes_result : forall d prev prev' next out,
  Permutation prev prev' -> values_diff d prev next = Ok out ->
  exists out', values_diff d prev' next = Ok out' /\ Permutation out out'.
Proof. intros d prev prev' next out P H. exact (values_combine_first_key_order _ _ prev prev' next out P H). Qed.
Print Assumptions C04_values_diff_first_key_order_permutes_result.

Theorem C04_values_add_first_key_order_permutes_result : forall d curr curr' next out,
  Permutation curr curr' -> values_add d curr next = Ok out ->
  exists out', values_add d curr' next = Ok out' /\ Permutation out out'.
Proof. intros d curr curr' next out P H. exact (values_combine_first_key_order _ _ curr curr' next out P H). Qed.
Print Assumptions C04_values_add_first_key_order_permutes_result.

Definition PLb : str := [112;97;105;100;95;108;111;115;115].                       (* "paid_loss" *)
Definition RLb : str := [114;101;112;111;114;116;101;100;95;108;111;115;115].      (* "reported_loss" *)

(* non-vacuity: a reversed two-field dict is the same map; the difference is taken field by field (250-100, 300-20),
   whereas pairing by position would give 300-100 and 250-20 *)
Example C04_key_order_nonvacuous :
  let prev  := [(PLb, VNum (Num false (100 * 1024))); (RLb, VNum (Num false (20 * 1024)))] in
  let next  := [(PLb, VNum (Num false (250 * 1024))); (RLb, VNum (Num false (300 * 1024)))] in
  let next' := [(RLb, VNum (Num false (300 * 1024))); (PLb, VNum (Num false (250 * 1024)))] in
  same_map next' next
  /\ values_diff std_desc prev next' = Ok [(PLb, VNum (Num false (150 * 1024))); (RLb, VNum (Num false (280 * 1024)))]
  /\ values_diff std_desc prev next' = values_diff std_desc prev next.
Proof.
  cbv zeta. split.
  - intros k. cbn [assoc]. unfold PLb, RLb.
    destruct (str_eqb k [112;97;105;100;95;108;111;115;115]) eqn:E1;
    destruct (str_eqb k [114;101;112;111;114;116;101;100;95;108;111;115;115]) eqn:E2; try reflexivity.
    apply Proofs.BasisEq.str_eqb_eq in E1. apply Proofs.BasisEq.str_eqb_eq in E2. subst. discriminate.
  - split; vm_compute; reflexivity.
Qed.
