(* C05 -- binary (.trib/.tribc) write-then-read returns the identical cells.

   Model: Model/Binary.v ([ser] = _write_triangle, [parse] = _read_triangle up to the final
   Triangle(cells), wire-level cells carrying class, four dates, every metadata attribute, typed
   detail values, ordered field dictionaries with scalar kind / dtype / shape / payload bytes).
   Hypotheses, all explicit:
     wf t            every cell passes the constructors' validation, strings are valid UTF-8 of at
                     most 32767 bytes, ints fit "<q", floats are 8 bytes, array payloads have
                     8*prod(shape) bytes, dictionaries have unique keys, per_occurrence_limit is not
                     NaN, detail values are not arrays, and the documented pool-size bound
                     (pool length is written with "<h": at most 32767 distinct keys);
     no_0x88_key t   no dictionary uses a key whose pool index has low byte 0x88 (known finding F9;
                     without it the round trip is REFUTED below).
   The writer's `prev_metadata != cell.metadata` (previous CELL's metadata, Python ==):
     [ser]    takes the test structurally            -> C05_roundtrip
     [ser_py] takes it as Python's == at wire level  -> C05_roundtrip_up_to_pyeq: what comes back is
              [rep_py t]: a cell whose metadata record was skipped (its metadata is == to the
              previous cell's) carries the first representation of that run -- so metadata that are
              == but not identical (details {"a": True} vs {"a": 1} vs {"a": 1.0}, limit 0.0 vs -0.0,
              other dict order) are COLLAPSED by the implementation (reported to the lead as a minor
              finding); C05_roundtrip_faithful_writer: on [coherentb t] triangles (nothing to collapse:
              rep_py t = t, a Boolean the check evaluates on every generated case) the faithful
              writer round-trips exactly.  [meta_pyeqb]: numbers by value across bool/int/float
              (nan != nan, so detail floats are assumed NaN-free: Python's identity shortcut on shared
              objects is not modelled), str/date/None only equal their own kind, dicts as item sets.
              The theorem holds for ANY test (Proofs/BinaryTop.parse_ser_with_gen). *)
From Coq Require Import ZArith List Bool Lia.
From Bermuda Require Import Lib.Bytes Lib.BinParse Lib.StrSort Model.Binary Proofs.BinaryTop.
Import ListNotations.
Open Scope Z_scope.

Theorem C05_roundtrip : forall t, wf t -> no_0x88_key t -> parse (ser t) = ROk (cells t).
Proof. exact parse_ser. Qed.
Print Assumptions C05_roundtrip.

Theorem C05_roundtrip_up_to_pyeq : forall t, wf t -> no_0x88_key t -> parse (ser_py t) = ROk (rep_py t).
Proof. exact parse_ser_py. Qed.
Print Assumptions C05_roundtrip_up_to_pyeq.

Theorem C05_roundtrip_faithful_writer : forall t, wf t -> no_0x88_key t -> coherentb t = true ->
  parse (ser_py t) = ROk (cells t).
Proof. exact parse_ser_py_coherent. Qed.
Print Assumptions C05_roundtrip_faithful_writer.

(* dispatch: a file written with compress=c is read as flavour c when the reader is given the same
   explicit compress=c -- whatever the extension -- or, for the conventional extension, when it is
   left to infer (compress=None); an unknown extension cannot be inferred (ValueError).  The stream
   parsed is the same [ser t] (gzip is an oracle: decompress (compress b) = b, monitored). *)
Theorem C05_dispatch : forall c,
  (forall e, read_flavour (Some c) e = ROk (write_flavour c e)) /\
  read_flavour None (conventional_ext c) = ROk (write_flavour c (conventional_ext c)) /\
  read_flavour None ExtOther = RErr EValue.
Proof.
  intros c. split; [intros e; apply dispatch_explicit_honoured|]. split.
  - apply dispatch_conventional.
  - apply dispatch_unknown_ext.
Qed.
Print Assumptions C05_dispatch.

Section Gzip.
  Variable gz ungz : bytes -> bytes.
  Hypothesis ungz_gz : forall b, ungz (gz b) = b.
  Definition write_file (c : bool) (t : triangle) : bytes := if c then gz (ser t) else ser t.
  Definition read_file (c : bool) (f : bytes) : result (list cell) :=
    if c then parse (ungz f) else parse f.
  Theorem C05_roundtrip_both_flavours : forall c t, wf t -> no_0x88_key t ->
    read_file c (write_file c t) = ROk (cells t).
  Proof.
    intros c t H1 H2. destruct c; unfold read_file, write_file; [rewrite ungz_gz|]; now apply parse_ser.
  Qed.
End Gzip.
Print Assumptions C05_roundtrip_both_flavours.

(* ------------------------------------------------------------------ F9: refutation without no_0x88_key *)
Definition f9_key (i : nat) : str :=
  let z := Z.of_nat i in [102; 48 + z / 100; 48 + (z / 10) mod 10; 48 + z mod 10].   (* "f%03d" *)
Definition f9_cell : cell :=
  mkCell KCell (2020, 1, 1) (2020, 12, 31) (2020, 12, 31)
         (map (fun i => (f9_key i, GInt (Z.of_nat i))) (seq 0 137)) None default_meta.
Definition f9_triangle : triangle := [f9_cell].

(* the precise form: the 137-field cell is read back with 136 fields (fields silently lost) *)
Lemma f9_fields_lost :
  wfb f9_triangle = true /\
  match parse (ser f9_triangle) with
  | ROk [c] => length (c_values c) = 136%nat /\ length (c_values f9_cell) = 137%nat
  | _ => False
  end.
Proof. vm_compute. repeat split; reflexivity. Qed.

Theorem C05_roundtrip_refuted : exists t, wf t /\ parse (ser t) <> ROk (cells t).
Proof.
  exists f9_triangle. destruct f9_fields_lost as [Hwf H]. split; [exact Hwf|].
  intros E. rewrite E in H. unfold cells, f9_triangle in H. destruct H as [H1 H2]. congruence.
Qed.
Print Assumptions C05_roundtrip_refuted.

(* ------------------------------------------------------------------ the hypotheses are satisfiable *)
Definition ex_meta : meta :=
  mkMeta (Some [80; 111; 108; 105; 99; 121]) (Some [85; 83]) None None (Some [76; 111; 115; 115])
         (Some [0; 0; 0; 0; 0; 136; 195; 64])
         [([115; 116; 97; 116; 101], GStr [195; 137; 116; 195; 169]); ([121], GDate (2020, 2, 29))]
         [([112; 101; 114; 105; 108], GBool true); ([110], GNone); ([113], GInt (-5))].
Definition ex_tri : triangle :=
  [ mkCell KInc (2020, 1, 1) (2020, 3, 31) (2020, 3, 31)
           [([112; 97; 105; 100], GInt 100); ([114; 112; 116], GFloat [0; 0; 0; 0; 0; 0; 89; 64]);
            ([115], GArr DFloat [2; 1] [0; 0; 0; 0; 0; 0; 240; 63; 0; 0; 0; 0; 0; 0; 0; 64])]
           (Some (2019, 12, 31)) ex_meta;
    mkCell KInc (2020, 1, 1) (2020, 3, 31) (2020, 6, 30)
           [([112; 97; 105; 100], GNone); ([98], GBool false); ([97], GArr DInt [] [7; 0; 0; 0; 0; 0; 0; 0])]
           (Some (2020, 3, 31)) ex_meta;
    mkCell KInc (2020, 4, 1) (2020, 6, 30) (2020, 6, 30) [] (Some (2020, 3, 31)) default_meta ].

Example C05_nonvacuous :
  wf ex_tri /\ no_0x88_key ex_tri /\ length (cells ex_tri) = 3%nat /\
  (100 <? length (ser ex_tri))%nat = true.
Proof. vm_compute. repeat split; reflexivity. Qed.

(* collapse example: two cells whose metadata are == but differ in kind (True vs 1) *)
Definition col_meta (v : gval) : meta := mkMeta (Some [65]) None None None None None [([97], v)] [].
Definition col_tri : triangle :=
  [ mkCell KCell (2020, 1, 1) (2020, 12, 31) (2020, 12, 31) [([120], GInt 1)] None (col_meta (GBool true));
    mkCell KCell (2021, 1, 1) (2021, 12, 31) (2021, 12, 31) [([120], GInt 2)] None (col_meta (GInt 1)) ].
Example C05_pyeq_collapse :
  wf col_tri /\ no_0x88_key col_tri /\ coherentb col_tri = false /\ coherentb ex_tri = true /\
  parse (ser_py col_tri) = ROk [nth 0 col_tri f9_cell; set_meta (nth 1 col_tri f9_cell) (col_meta (GBool true))] /\
  parse (ser col_tri) = ROk col_tri.
Proof. vm_compute. repeat split; reflexivity. Qed.
