(** C11 -- Selection operators return exactly the cells their predicate describes.
    Static part: statements that do not depend on the generated descriptions (clip and the
    (period, evaluation, metadata) index are in GenProps/C11_Gen.v).

    A triangle is the list of its cells in canonical order (Model/Select.v, header).  "Unchanged
    and in canonical order" is: the result is a `sublist` of the input (same cells, same relative
    order), hence sorted by ANY order the input is sorted by. *)
From Coq Require Import ZArith List Bool Permutation Sorted RelationClasses.
From Bermuda Require Import Model.Base Model.Order Proofs.OrderP Proofs.TriangleP.
From Bermuda Require Import Lib.Calendar Model.Select Proofs.SelectP Proofs.CalendarP Proofs.SelectCanon.
Import ListNotations.
Local Open Scope Z_scope.

(* ------------------------------------------------------------------ a small triangle for the
   non-vacuity examples: 2 slices (country None / "US"), 2 periods, ragged evaluation dates *)
Definition m1 : meta := default_meta.
Definition m2 : meta := mkMeta (Some [65;99;99;105;100;101;110;116]) (Some [85;83]) None None None None [([108], MStr [120])] [].
Definition mkc (m : meta) (s e v : Z) (x : Z) : cell :=
  mkCell KCum s e v None m [([97], VNum (Num false (1024 * x))); ([98], VNum (Num true x))].
Definition ex_t : list cell :=
  [ mkc m1 737425 737455 737455 1; mkc m1 737425 737455 737484 2; mkc m1 737456 737484 737484 3;
    mkc m2 737425 737455 737455 4; mkc m2 737425 737455 737515 5 ].

(* ------------------------------------------------------------------ filter *)
Theorem C11_filter_exactly_the_satisfying_cells_in_order : forall p t,
  sublist (tri_filter p t) t /\ (forall c, In c (tri_filter p t) <-> In c t /\ p c = true).
Proof. intros p t. split; [apply filter_sublist | intro c; apply filter_In]. Qed.
Print Assumptions C11_filter_exactly_the_satisfying_cells_in_order.

Theorem C11_selection_stays_sorted : forall (R : cell -> cell -> Prop) out t,
  sublist out t -> StronglySorted R t -> StronglySorted R out.
Proof. intros R out t. apply sublist_StronglySorted. Qed.
Print Assumptions C11_selection_stays_sorted.

Theorem C11_complementary_filters_partition : forall p t,
  Permutation t (tri_filter p t ++ tri_filter (fun c => negb (p c)) t)
  /\ (forall c, ~ (p c = true /\ negb (p c) = true))
  /\ sublist (tri_filter p t) t /\ sublist (tri_filter (fun c => negb (p c)) t) t.
Proof.
  intros p t. split; [apply filter_partition | split; [| split; apply filter_sublist]].
  intros c [H1 H2]. rewrite H1 in H2. discriminate.
Qed.
Print Assumptions C11_complementary_filters_partition.
Example C11_filter_nonvacuous :
  tri_filter (fun c => ev c <=? 737455) ex_t = [mkc m1 737425 737455 737455 1; mkc m2 737425 737455 737455 4]
  /\ length (tri_filter (fun c => negb (ev c <=? 737455)) ex_t) = 3%nat.
Proof. vm_compute. split; reflexivity. Qed.

(* ------------------------------------------------------------------ slices / split *)
Theorem C11_slices_partition_by_metadata : forall t,
  Permutation t (concat (map snd (slices t)))
  /\ (forall m g, In (m, g) (slices t) ->
        g = filter (fun c => meta_pyeq m (cmeta c)) t /\ g <> [] /\ sublist g t)
  /\ ForallOrdPairs (fun a b => meta_pyeq (fst a) (fst b) = false) (slices t)
  /\ (forall c, In c t -> length (filter (fun g => meta_pyeq (fst g) (cmeta c)) (slices t)) = 1%nat).
Proof.
  intro t. unfold slices. split; [| split; [| split]].
  - exact (group_by_perm meta_pyeq cmeta meta_pyeq_refl meta_pyeq_sym meta_pyeq_trans t).
  - intros m g H.
    destruct (group_by_keyed meta_pyeq cmeta meta_pyeq_refl meta_pyeq_sym meta_pyeq_trans t m g H)
      as (A & B & C & _). auto.
  - exact (group_by_keys_distinct meta_pyeq cmeta meta_pyeq_refl meta_pyeq_sym meta_pyeq_trans t).
  - exact (group_by_unique meta_pyeq cmeta meta_pyeq_refl meta_pyeq_sym meta_pyeq_trans t).
Qed.
Print Assumptions C11_slices_partition_by_metadata.

Theorem C11_split_partitions_by_detail_keys : forall ks t,
  Permutation t (concat (map snd (split ks t)))
  /\ (forall k g, In (k, g) (split ks t) ->
        g = filter (fun c => detail_key_eqb k (detail_key ks c)) t /\ g <> [] /\ sublist g t)
  /\ ForallOrdPairs (fun a b => detail_key_eqb (fst a) (fst b) = false) (split ks t)
  /\ (forall c, In c t ->
        length (filter (fun g => detail_key_eqb (fst g) (detail_key ks c)) (split ks t)) = 1%nat).
Proof.
  intros ks t. unfold split. split; [| split; [| split]].
  - exact (group_by_perm detail_key_eqb (detail_key ks) detail_key_eqb_refl detail_key_eqb_sym detail_key_eqb_trans t).
  - intros k g H.
    destruct (group_by_keyed detail_key_eqb (detail_key ks) detail_key_eqb_refl detail_key_eqb_sym
                detail_key_eqb_trans t k g H) as (A & B & C & _). auto.
  - exact (group_by_keys_distinct detail_key_eqb (detail_key ks) detail_key_eqb_refl detail_key_eqb_sym detail_key_eqb_trans t).
  - exact (group_by_unique detail_key_eqb (detail_key ks) detail_key_eqb_refl detail_key_eqb_sym detail_key_eqb_trans t).
Qed.
Print Assumptions C11_split_partitions_by_detail_keys.
Example C11_slices_split_nonvacuous :
  map (fun g => length (snd g)) (slices ex_t) = [3; 2]%nat
  /\ map fst (split [[108]; [122]] ex_t) = [[MNone; MNone]; [MStr [120]; MNone]].
Proof. vm_compute. split; reflexivity. Qed.

(* ------------------------------------------------------------------ right_edge *)
Theorem C11_right_edge_latest_cell_of_every_slice_and_period : forall t,
  sublist (right_edge t) t
  /\ (forall c, In c t ->
        length (filter (same_row c) (right_edge t)) = 1%nat
        /\ exists r, In r (right_edge t) /\ same_row c r = true
                     /\ forall x, In x t -> same_row c x = true -> ev x <= ev r)
  /\ (forall r, In r (right_edge t) -> In r t /\ forall c, In c t -> same_row r c = true -> ev c <= ev r)
  /\ (forall c, (forall x, In x t -> same_row c x = false) -> filter (same_row c) (right_edge t) = []).
Proof.
  intro t. split; [apply right_edge_sublist |]. split; [| split].
  - intros c Hc. split; [apply right_edge_unique; exact Hc | apply right_edge_exists; exact Hc].
  - apply right_edge_maximal.
  - apply right_edge_nothing_else.
Qed.
Print Assumptions C11_right_edge_latest_cell_of_every_slice_and_period.
Example C11_right_edge_nonvacuous :
  right_edge ex_t = [mkc m1 737425 737455 737484 2; mkc m1 737456 737484 737484 3; mkc m2 737425 737455 737515 5].
Proof. vm_compute. reflexivity. Qed.

(* ------------------------------------------------------------------ select / extract *)
Theorem C11_select_keeps_every_cell_and_restricts_fields : forall ks t,
  length (tri_select ks t) = length t
  /\ map (fun c => set_vals c []) (tri_select ks t) = map (fun c => set_vals c []) t
  /\ (forall c, keys (cvals (cell_select ks c)) = filter (fun k => str_mem k ks) (keys (cvals c)))
  /\ (forall c k, assoc k (cvals (cell_select ks c)) = if str_mem k ks then assoc k (cvals c) else None)
  /\ (forall R : cell -> cell -> Prop, (forall a b, R a b -> R (cell_select ks a) (cell_select ks b)) ->
        StronglySorted R t -> StronglySorted R (tri_select ks t)).
Proof.
  intros ks t. split; [apply select_length |]. split; [apply select_coordinates |].
  split; [apply select_keys |]. split; [apply select_values |]. intros R. apply select_sorted.
Qed.
Print Assumptions C11_select_keeps_every_cell_and_restricts_fields.
Example C11_select_nonvacuous :
  map (fun c => keys (cvals c)) (tri_select [[98]; [99]] ex_t) = [[[98]]; [[98]]; [[98]]; [[98]]; [[98]]].
Proof. vm_compute. reflexivity. Qed.

Theorem C11_extract_one_entry_per_cell_in_order : forall k t,
  length (extract_field k t) = length t
  /\ (forall i c, nth_error t i = Some c ->
        nth_error (extract_field k t) i = Some (match assoc k (cvals c) with Some v => v | None => VNone end))
  /\ (forall (A : Type) (f : cell -> A), extract_fn f t = map f t).
Proof. intros k t. split; [apply extract_length | split; [apply extract_nth | reflexivity]]. Qed.
Print Assumptions C11_extract_one_entry_per_cell_in_order.

(* ------------------------------------------------------------------ positional indexing *)
Theorem C11_integer_and_range_indexing : forall g s t,
  (forall i, 0 <= i < Z.of_nat (length t) ->
      getitem g s (IInt i) t = match nth_error t (Z.to_nat i) with Some c => Ok (GCell c) | None => Err IndexError end)
  /\ (forall i, - Z.of_nat (length t) <= i < 0 ->
      getitem g s (IInt i) t = getitem g s (IInt (i + Z.of_nat (length t))) t)
  /\ (forall i, i < - Z.of_nat (length t) \/ Z.of_nat (length t) <= i -> getitem g s (IInt i) t = Err IndexError)
  /\ getitem g s (IRange None None None) t = Ok (GTri t)
  /\ (forall a b st, exists r, getitem g s (IRange a b st) t = Ok (GTri r) /\ sublist r t).
Proof.
  intros g s t. split; [apply getitem_int_nonneg |]. split; [apply getitem_int_neg |].
  split; [apply getitem_int_out |]. split; [apply getitem_full_range | apply getitem_range_sublist].
Qed.
Print Assumptions C11_integer_and_range_indexing.
Example C11_indexing_nonvacuous :
  getitem expected_getitem expected_clip_spec (IInt (-1)) ex_t = Ok (GCell (mkc m2 737425 737455 737515 5))
  /\ getitem expected_getitem expected_clip_spec (IRange (Some 1) (Some (-1)) (Some 2%positive)) ex_t
     = Ok (GTri [mkc m1 737425 737455 737484 2; mkc m2 737425 737455 737455 4]).
Proof. vm_compute. split; reflexivity. Qed.

(* ------------------------------------------------------------------ month lags, every year >= 1
   (Proofs/CalendarP.v: unbounded, axiom-free; MINID = -23628 is the month id of 0001-01) *)
Theorem C11_month_lag_of_month_ends_is_the_month_difference : forall a b,
  MINID <= a -> MINID <= b -> lag_months (month_end a) (month_end b) = b - a.
Proof. exact CalendarP.lag_months_month_ends. Qed.
Print Assumptions C11_month_lag_of_month_ends_is_the_month_difference.

Theorem C11_month_lag_of_month_aligned_cells : forall c,
  1 <= pe c -> 1 <= ev c -> is_month_end (pe c) = true -> is_month_end (ev c) = true ->
  pe c = month_end (month_id (pe c)) /\ ev c = month_end (month_id (ev c))
  /\ dev_lag UMonth c = month_id (ev c) - month_id (pe c).
Proof. exact month_lag_of_month_end_dates. Qed.
Print Assumptions C11_month_lag_of_month_aligned_cells.

(* ------------------------------------------------------------------ the selected list IS what the
   constructor call in the source returns (C01's constructor: Model/Order.v mk_triangle; a
   triangle is `canonical`: StronglySorted by the generated cell order, one cell class) *)
Theorem C11_selection_is_a_fixed_point_of_the_constructor : forall out t,
  sublist out t -> canonical t -> mk_triangle out = Ok out.
Proof. exact selection_is_constructor_fixpoint. Qed.
Print Assumptions C11_selection_is_a_fixed_point_of_the_constructor.

Theorem C11_canonical_is_what_the_constructor_returns : forall t, cells_comparable t ->
  (mk_triangle t = Ok t <-> canonical t).
Proof. exact mk_triangle_canonical_iff. Qed.
Print Assumptions C11_canonical_is_what_the_constructor_returns.

Theorem C11_removing_operations_return_constructor_fixpoints : forall t, canonical t ->
  (forall p, mk_triangle (tri_filter p t) = Ok (tri_filter p t))
  /\ mk_triangle (right_edge t) = Ok (right_edge t)
  /\ (forall m g, In (m, g) (slices t) -> mk_triangle g = Ok g)
  /\ (forall ks k g, In (k, g) (split ks t) -> mk_triangle g = Ok g)
  /\ (forall g s ix r, getitem g s ix t = Ok (GTri r) -> mk_triangle r = Ok r)
  /\ (forall g s ix r, slice_getitem g s ix t = Ok (GTri r) -> mk_triangle r = Ok r)
  /\ (forall ks, mk_triangle (tri_select ks t) = Ok (tri_select ks t)).
Proof.
  intros t H. split; [intro p; now apply filter_constructor |]. split; [now apply right_edge_constructor |].
  split; [intros m g; now apply slices_constructor |]. split; [intros ks k g; now apply split_constructor |].
  split; [intros g s ix r; now apply getitem_constructor |].
  split; [intros g s ix r; now apply slice_getitem_constructor | intro ks; now apply select_constructor].
Qed.
Print Assumptions C11_removing_operations_return_constructor_fixpoints.

(* t[a:b:c] with c < 0: the cells are selected in reverse and re-sorted by the constructor.
   t[::-1] is the triangle itself when no two cells are order-equivalent; in general the result is a
   canonical permutation of the selected cells *)
Theorem C11_negative_steps_are_resorted : forall t,
  list_slice_neg None None 1%positive t = rev t
  /\ (cells_comparable t -> cells_separated t -> canonical t ->
      mk_triangle (list_slice_neg None None 1%positive t) = Ok t
      /\ getitem_neg_step sort_cells None None 1%positive t = GTri t)
  /\ (forall a b s r, cells_comparable t -> canonical t ->
      mk_triangle (list_slice_neg a b s t) = Ok r ->
      Permutation (list_slice_neg a b s t) r /\ canonical r
      /\ forall c, In c (list_slice_neg a b s t) -> In c t).
Proof.
  intro t. split; [apply list_slice_neg_full |]. split; [apply reversed_triangle_is_the_triangle |].
  intros a b s r Hc Hk H. destruct (neg_step_canonical a b s t r Hc Hk H) as [P K].
  split; [exact P | split; [exact K | apply list_slice_neg_in]].
Qed.
Print Assumptions C11_negative_steps_are_resorted.
Example C11_negative_step_nonvacuous :
  list_slice_neg (Some (-1)) (Some 0) 2%positive ex_t = [mkc m2 737425 737455 737515 5; mkc m1 737456 737484 737484 3]
  /\ getitem_neg_step sort_cells None None 1%positive ex_t = GTri ex_t
  /\ mk_triangle ex_t = Ok ex_t.
Proof. vm_compute. repeat split; reflexivity. Qed.

(* ------------------------------------------------------------------ the executable specification
   evaluated on the implementation's outputs pins the output down *)
Theorem C11_selection_spec_sound : forall p t out, selection_spec_b p t out = true -> out = filter p t.
Proof. exact selection_spec_sound. Qed.
Print Assumptions C11_selection_spec_sound.
