(** C04 -- cumulative <-> incremental conversion is exact, chained and self-inverse.

    Model: Model/Basis.v (read its header for what is and is not modelled).  All theorems hold for
    every description [d] of the four decision-carrying constants with [spec_ok d = true]
    (carried field "earned_premium" in _values_diff and _values_add, chain ends period_start - 1 day);
    GenProps/C04_gen.v checks on every run that the constants extracted from the current source
    satisfy it.  Rows/triangles have ANY length.

    A triangle is presented by its rows: [rows_okb rows] = every row non-empty, one
    (period, metadata) per row, pairwise distinct; the triangle's cell list is [concat rows] (which
    is the sorted order of a Triangle whose rows are ascending in evaluation date).
    Hypotheses on a cumulative row, [cum_row_okb d mono row]: cells are not IncrementalCells, pass the
    Cell constructor's date validation, evaluation dates strictly increasing, every cell has the same
    field list without duplicates, and link by link every field other than earned_premium holds two
    numbers or two arrays of equal length (None-free); with mono = true additionally a float is never
    followed by an int in the same field (otherwise Python's own arithmetic returns 3.0 for an
    original 3 -- see [C04_roundtrip_kind_note]).
    Hypotheses on an incremental row, [inc_row_okb d row]: IncrementalCells with valid dates,
    prev(first) = period_start - 1, prev(next) = evaluation date of the cell before, prev < eval,
    one field list, values compatible as above (mono). *)
From Coq Require Import ZArith List Bool.
From Bermuda Require Import Model.Order Proofs.TriangleP.
From Bermuda Require Import Model.Base Model.Basis Proofs.BasisEq Proofs.BasisTri Proofs.BasisP
     Proofs.BasisSpec Proofs.BasisCanon Model.BasisPy.
Import ListNotations.
Local Open Scope Z_scope.

(* ------------------------------------------------------------------ example data (>= 3 cells per row) *)
Definition PL : str := [112;97;105;100;95;108;111;115;115].      (* "paid_loss" *)
Definition SM : str := [115;97;109;112;108;101;115].              (* "samples" *)
Definition m_us : meta := mkMeta (Some [65]) (Some [85;83]) None None None None [] [].
Definition cc m s e v ep pl a1 a2 : cell :=
  mkCell KCum s e v None m [(EP, VNum (Num false ep)); (PL, VNum (Num true pl)); (SM, VArr false [a1; a2])].
Definition ic m s e p v ep pl a1 a2 : cell :=
  mkCell KInc s e v (Some p) m [(EP, VNum (Num false ep)); (PL, VNum (Num true pl)); (SM, VArr false [a1; a2])].
Definition ex_cum_rows : list (list cell) :=
  [ [cc default_meta 737791 738155 738155 1024000 5120 1024 2048;
     cc default_meta 737791 738155 738520 1024000 7680 3072 2048;
     cc default_meta 737791 738155 738885 2048000 7168 4096 5120];
    [cc default_meta 738156 738520 738520 512000 1024 0 0;
     cc default_meta 738156 738520 738885 512000 1536 1024 0;
     cc default_meta 738156 738520 739251 512000 1536 1024 1024];
    [cc m_us 737791 738155 738155 1024 512 0 1024;
     cc m_us 737791 738155 738520 1024 512 0 1024;
     cc m_us 737791 738155 738885 1024 1024 1024 1024] ].
Definition ex_inc_row : list cell :=
  [ic default_meta 737791 738155 737790 738155 1024000 5120 1024 2048;
   ic default_meta 737791 738155 738155 738520 1024000 2560 2048 0;
   ic default_meta 737791 738155 738520 738885 2048000 (-512) 1024 3072;
   ic default_meta 737791 738155 738885 739251 2048000 0 0 0].
Definition ex_inc_rows : list (list cell) :=
  [ ex_inc_row;
    [ic m_us 737791 738155 737790 738155 1024 512 0 1024;
     ic m_us 737791 738155 738155 738520 1024 0 0 0;
     ic m_us 737791 738155 738520 738885 1024 512 1024 0] ].

(* ------------------------------------------------------------------ 1. structure of to_incremental *)
(* One increment per cell, in order; [inc_row_structb] is the executable form of the structure
   (also evaluated on the implementation's outputs at every run); [C04_structure_reading] spells it
   out cell by cell. *)
Theorem C04_incremental_structure_row : forall d row,
  spec_ok d = true -> cum_row_okb d false row = true ->
  exists incs, row_to_incremental d row = Ok incs /\ inc_row_structb row incs = true.
Proof. exact P_row_inc_struct. Qed.
Print Assumptions C04_incremental_structure_row.

Theorem C04_incremental_structure : forall d rows,
  spec_ok d = true -> rows_okb rows = true -> forallb (cum_row_okb d false) rows = true ->
  exists outs, to_incremental d (concat rows) = Ok (concat outs) /\ rows_structb rows outs = true.
Proof. exact P_tri_inc_struct. Qed.
Print Assumptions C04_incremental_structure.

(* reading: the i-th output cell o of a row is an IncrementalCell at the coordinates of the i-th
   input cell c, prev = period_start - 1 (i = 0) or the (i-1)-th evaluation date, same field list,
   and each value is c's value (i = 0 or field earned_premium) or c's value minus the (i-1)-th
   cell's value *)
Theorem C04_structure_reading : forall row out,
  inc_row_structb row out = true ->
  length out = length row /\
  forall i c o, nth_error row i = Some c -> nth_error out i = Some o ->
    match i with
    | O => inc_cell_spec (ps c - 1) true [] c o
    | S j => forall pc, nth_error row j = Some pc -> inc_cell_spec (ev pc) false (cvals pc) c o
    end.
Proof. exact P_row_structb_nth. Qed.
Print Assumptions C04_structure_reading.

Example C04_structure_nonvacuous :
  rows_okb ex_cum_rows = true /\ forallb (cum_row_okb std_desc false) ex_cum_rows = true
  /\ spec_ok std_desc = true /\ length (concat ex_cum_rows) = 9%nat
  /\ map (map prev) (match to_incremental std_desc (concat ex_cum_rows) with
                     | Ok o => rows_of o | Err _ => [] end)
     = [[Some 737790; Some 738155; Some 738520]; [Some 738155; Some 738520; Some 738885];
        [Some 737790; Some 738155; Some 738520]].
Proof. vm_compute. repeat split; reflexivity. Qed.

(* ------------------------------------------------------------------ 2. cum -> inc -> cum *)
Theorem C04_roundtrip_cum_row : forall d row,
  spec_ok d = true -> cum_row_okb d true row = true ->
  exists incs, row_to_incremental d row = Ok incs
               /\ row_to_cumulative d incs = Ok (map retag_cum row).
Proof. exact P_row_inc_cum. Qed.
Print Assumptions C04_roundtrip_cum_row.

Theorem C04_roundtrip_cum : forall d rows,
  spec_ok d = true -> rows_okb rows = true -> forallb (cum_row_okb d true) rows = true ->
  exists incs, to_incremental d (concat rows) = Ok incs
               /\ to_cumulative d incs = Ok (map retag_cum (concat rows)).
Proof. exact P_tri_inc_cum. Qed.
Print Assumptions C04_roundtrip_cum.

Example C04_roundtrip_cum_nonvacuous :
  rows_okb ex_cum_rows = true /\ forallb (cum_row_okb std_desc true) ex_cum_rows = true
  /\ length ex_cum_rows = 3%nat.
Proof. vm_compute. repeat split; reflexivity. Qed.

(* why mono = true is required for "exactly": Python computes 1.5 + (3 - 1.5) = 3.0 (a float) for an
   original int 3; the values agree numerically, the Python type does not *)
Example C04_roundtrip_kind_note :
  let row := [mkCell KCum 10 20 20 None default_meta [(PL, VNum (Num true 1536))];
              mkCell KCum 10 20 30 None default_meta [(PL, VNum (Num false 3072))]] in
  cum_row_okb std_desc false row = true /\ cum_row_okb std_desc true row = false
  /\ bind (row_to_incremental std_desc row) (row_to_cumulative std_desc)
     = Ok [mkCell KCum 10 20 20 None default_meta [(PL, VNum (Num true 1536))];
           mkCell KCum 10 20 30 None default_meta [(PL, VNum (Num true 3072))]].
Proof. vm_compute. repeat split; reflexivity. Qed.

(* ------------------------------------------------------------------ 3. inc -> cum -> inc *)
Theorem C04_roundtrip_inc_row : forall d row,
  spec_ok d = true -> inc_row_okb d row = true ->
  exists cums, row_to_cumulative d row = Ok cums /\ row_to_incremental d cums = Ok row.
Proof. exact P_row_cum_inc. Qed.
Print Assumptions C04_roundtrip_inc_row.

Theorem C04_roundtrip_inc : forall d rows,
  spec_ok d = true -> rows_okb rows = true -> forallb (inc_row_okb d) rows = true ->
  exists cums, to_cumulative d (concat rows) = Ok cums
               /\ to_incremental d cums = Ok (concat rows).
Proof. exact P_tri_cum_inc. Qed.
Print Assumptions C04_roundtrip_inc.

Example C04_roundtrip_inc_nonvacuous :
  rows_okb ex_inc_rows = true /\ forallb (inc_row_okb std_desc) ex_inc_rows = true
  /\ length (concat ex_inc_rows) = 7%nat.
Proof. vm_compute. repeat split; reflexivity. Qed.

(* ------------------------------------------------------------------ 4. identity on the target basis *)
Theorem C04_identity_incremental : forall d t, is_incremental t = true -> to_incremental d t = Ok t.
Proof. exact P_identity_inc. Qed.
Print Assumptions C04_identity_incremental.
Theorem C04_identity_cumulative : forall d t, is_incremental t = false -> to_cumulative d t = Ok t.
Proof. exact P_identity_cum. Qed.
Print Assumptions C04_identity_cumulative.
Example C04_identity_nonvacuous :
  is_incremental (concat ex_inc_rows) = true /\ is_incremental (concat ex_cum_rows) = false.
Proof. vm_compute. split; reflexivity. Qed.

(* ------------------------------------------------------------------ 5. refusals (TriangleError, as the code raises) *)
(* 5a. the chain does not start the day before period_start *)
Theorem C04_refuse_first_prev : forall d c0 rest p0,
  spec_ok d = true -> prev c0 = Some p0 -> p0 + 1 <> ps c0 ->
  row_to_cumulative d (c0 :: rest) = Err TriangleError.
Proof. exact P_first_prev_refused. Qed.
Print Assumptions C04_refuse_first_prev.

(* 5b. a link a -> b does not connect, everything up to a converts *)
Theorem C04_refuse_broken_link : forall d pre a b post outs pb,
  spec_ok d = true -> row_to_cumulative d (pre ++ [a]) = Ok outs -> prev b = Some pb ->
  pb <> ev a -> row_to_cumulative d (pre ++ a :: b :: post) = Err TriangleError.
Proof. exact P_broken_link_refused. Qed.
Print Assumptions C04_refuse_broken_link.

(* 5c. one interior cell removed from a complete row *)
Theorem C04_refuse_removed_link : forall d pre a x b post,
  spec_ok d = true -> inc_row_okb d (pre ++ a :: x :: b :: post) = true ->
  row_to_cumulative d (pre ++ a :: b :: post) = Err TriangleError.
Proof. exact P_removed_link_refused. Qed.
Print Assumptions C04_refuse_removed_link.

(* 5d. the first cell removed from a complete row *)
Theorem C04_refuse_removed_first : forall d c0 x post,
  spec_ok d = true -> inc_row_okb d (c0 :: x :: post) = true ->
  row_to_cumulative d (x :: post) = Err TriangleError.
Proof. exact P_removed_first_refused. Qed.
Print Assumptions C04_refuse_removed_first.

(* 5e. one link of a complete row shifted to another date *)
Theorem C04_refuse_shifted_link : forall d pre a b post p',
  spec_ok d = true -> inc_row_okb d (pre ++ a :: b :: post) = true -> p' <> ev a ->
  row_to_cumulative d (pre ++ a :: retag_inc p' b :: post) = Err TriangleError.
Proof. exact P_shifted_link_refused. Qed.
Print Assumptions C04_refuse_shifted_link.

(* 5f. consecutive cells with different field sets, either direction *)
Theorem C04_refuse_fields_to_cumulative : forall d pre a b post outs pb,
  spec_ok d = true -> row_to_cumulative d (pre ++ [a]) = Ok outs -> prev b = Some pb ->
  keyset_eqb (cvals a) (cvals b) = false ->
  row_to_cumulative d (pre ++ a :: b :: post) = Err TriangleError.
Proof. exact P_fields_refused_cum. Qed.
Print Assumptions C04_refuse_fields_to_cumulative.

Theorem C04_refuse_fields_to_incremental : forall d pre a b post outs,
  spec_ok d = true -> row_to_incremental d (pre ++ [a]) = Ok outs ->
  keyset_eqb (cvals a) (cvals b) = false ->
  row_to_incremental d (pre ++ a :: b :: post) = Err TriangleError.
Proof. exact P_fields_refused_inc. Qed.
Print Assumptions C04_refuse_fields_to_incremental.

(* 5g. never a partial result: a refused row (the rows before it convert) refuses the triangle *)
Theorem C04_refusal_is_total_cum : forall d rows1 row rows2 outs e,
  rows_okb (rows1 ++ row :: rows2) = true -> forallb row_ascb (rows1 ++ row :: rows2) = true ->
  is_incremental (concat (rows1 ++ row :: rows2)) = true ->
  mapM (row_to_cumulative d) rows1 = Ok outs -> row_to_cumulative d row = Err e ->
  to_cumulative d (concat (rows1 ++ row :: rows2)) = Err e.
Proof. exact P_tri_cum_refused. Qed.
Print Assumptions C04_refusal_is_total_cum.

Theorem C04_refusal_is_total_inc : forall d rows1 row rows2 outs e,
  rows_okb (rows1 ++ row :: rows2) = true -> forallb row_ascb (rows1 ++ row :: rows2) = true ->
  is_incremental (concat (rows1 ++ row :: rows2)) = false ->
  mapM (row_to_incremental d) rows1 = Ok outs -> row_to_incremental d row = Err e ->
  to_incremental d (concat (rows1 ++ row :: rows2)) = Err e.
Proof. exact P_tri_inc_refused. Qed.
Print Assumptions C04_refusal_is_total_inc.

Definition nth_cell i := nth i ex_inc_row (ic default_meta 0 0 0 1 0 0 0 0).
Example C04_refusals_nonvacuous :
  (* the complete 4-cell row, with cell 2 removed / cell 0 removed / link 1->2 shifted / a field dropped *)
  inc_row_okb std_desc ([nth_cell 0] ++ nth_cell 1 :: nth_cell 2 :: nth_cell 3 :: []) = true
  /\ row_to_cumulative std_desc ([nth_cell 0] ++ nth_cell 1 :: nth_cell 3 :: []) = Err TriangleError
  /\ row_to_cumulative std_desc (nth_cell 1 :: nth_cell 2 :: [nth_cell 3]) = Err TriangleError
  /\ row_to_cumulative std_desc ([nth_cell 0] ++ nth_cell 1 :: retag_inc 738156 (nth_cell 2) :: [nth_cell 3])
     = Err TriangleError
  /\ (let b := nth_cell 2 in
      let b' := mkCell KInc (ps b) (pe b) (ev b) (prev b) (cmeta b) (tl (cvals b)) in
      keyset_eqb (cvals (nth_cell 1)) (cvals b') = false
      /\ row_to_cumulative std_desc ([nth_cell 0] ++ nth_cell 1 :: b' :: [nth_cell 3]) = Err TriangleError
      /\ exists o, row_to_cumulative std_desc ([nth_cell 0] ++ [nth_cell 1]) = Ok o)
  /\ (let c := nth 1 (nth 0 ex_cum_rows []) (cc default_meta 0 0 0 0 0 0 0) in
      let c' := mkCell KCum (ps c) (pe c) (ev c) None (cmeta c) (tl (cvals c)) in
      row_to_incremental std_desc (nth 0 (nth 0 ex_cum_rows []) c :: c' :: []) = Err TriangleError)
  /\ length ex_inc_row = 4%nat.
Proof. vm_compute. repeat split; try reflexivity. eexists; reflexivity. Qed.

(* ------------------------------------------------------------------ 6. the executable specification *)
(* [spec_cum] / [spec_inc] (Model/Basis.v) are the verdicts that coqc evaluates at every run on the
   IMPLEMENTATION's outputs: structure of the increments, exact round trips, and TriangleError for
   the first defective row -- each only under its Boolean hypothesis ([cum_hyp], [inc_hyp],
   [first_bad_cum_is_keys], [first_bad_is_broken]) computed from the input triangle as printed,
   rows obtained by the model's own grouping.  For EVERY cell list t the model's outputs satisfy
   them: the verdicts demand nothing beyond the theorems above. *)
Theorem C04_model_meets_spec_cum : forall t,
  spec_cum t (to_incremental std_desc t)
           (bind (to_incremental std_desc t) (to_cumulative std_desc)) = true.
Proof. exact model_meets_spec_cum. Qed.
Print Assumptions C04_model_meets_spec_cum.

Theorem C04_model_meets_spec_inc : forall x,
  spec_inc x (to_cumulative std_desc x)
           (bind (to_cumulative std_desc x) (to_incremental std_desc)) = true.
Proof. exact model_meets_spec_inc. Qed.
Print Assumptions C04_model_meets_spec_inc.

Example C04_spec_nonvacuous :
  cum_hyp true (concat ex_cum_rows) = true /\ inc_hyp (concat ex_inc_rows) = true
  /\ first_bad_is_broken [[nth_cell 0; nth_cell 1; nth_cell 3]] = true
  /\ first_bad_is_broken [ex_inc_row; [nth_cell 1; nth_cell 2]] = true
  /\ first_bad_cum_is_keys
       [nth 2 ex_cum_rows [];
        [cc default_meta 738156 738520 738520 512000 1024 0 0;
         mkCell KCum 738156 738520 738885 None default_meta [(PL, VNum (Num true 1536))]]] = true.
Proof. vm_compute. repeat split; reflexivity. Qed.

(* ------------------------------------------------------------------ 7. whole triangles THROUGH the constructor *)
(* The conversions end in `Triangle(result_cells)`; [mk_triangle] (Model/Order.v, property C01) is that
   constructor: one cell class, then sort by Cell.__lt__ / IncrementalCell.__lt__ ([cell_cmp]).
   Hypotheses, all explicit:
     mk_triangle t = Ok t      t is a Triangle's cell list (sorted, one class);
     cells_comparable t        no two cells whose metadata cannot be compared (TypeError);
     meta_separated t          metadata that are Python-== are identical (so grouping by
                               Metadata.__eq__, as the code does, and by structural equality, as
                               the model does, coincide; [cells_separated] is not needed);
     row conditions            on [group_cells t], which by 7d ARE the (slice, period) rows.
   Result: the rows the model emits, concatenated in group order, are already sorted w.r.t.
   cell_cmp, so the constructor's sort is the identity on them -- the "final sort is not modelled"
   gap of sections 1-6 is closed. *)

(* 7d. grouping of a canonical triangle: first-occurrence grouping = maximal runs of consecutive
   cells with one (period, metadata) = the (slice, period) rows in canonical order *)
Theorem C04_grouping_canonical : forall t,
  mk_triangle t = Ok t -> cells_comparable t -> meta_separated t ->
  group_cells t = runs t /\ concat (group_cells t) = t /\ rows_okb (group_cells t) = true.
Proof. exact PC_grouping. Qed.
Print Assumptions C04_grouping_canonical.

(* 7a. to_incremental, then the constructor *)
Theorem C04_to_incremental_canonical : forall d t,
  spec_ok d = true -> mk_triangle t = Ok t -> cells_comparable t -> meta_separated t ->
  forallb (cum_row_okb d false) (group_cells t) = true ->
  exists outs, bind (to_incremental d t) mk_triangle = Ok (concat outs)
               /\ to_incremental d t = Ok (concat outs)
               /\ rows_structb (group_cells t) outs = true.
Proof. exact PC_to_incremental. Qed.
Print Assumptions C04_to_incremental_canonical.

(* 7b. to_cumulative, then the constructor: the original cells are the increments of the result *)
Theorem C04_to_cumulative_canonical : forall d x,
  spec_ok d = true -> mk_triangle x = Ok x -> cells_comparable x -> meta_separated x ->
  forallb (inc_row_okb d) (group_cells x) = true ->
  exists outs, bind (to_cumulative d x) mk_triangle = Ok (concat outs)
               /\ to_cumulative d x = Ok (concat outs)
               /\ rows_structb outs (group_cells x) = true
               /\ Forall (fun c => ckind c = KCum) (concat outs).
Proof. exact PC_to_cumulative. Qed.
Print Assumptions C04_to_cumulative_canonical.

(* 7c. the two round trips, every conversion followed by the constructor, any number of slices/periods *)
Theorem C04_roundtrip_cum_canonical : forall d t,
  spec_ok d = true -> mk_triangle t = Ok t -> cells_comparable t -> meta_separated t ->
  forallb (cum_row_okb d true) (group_cells t) = true ->
  bind (bind (to_incremental d t) mk_triangle) (fun i => bind (to_cumulative d i) mk_triangle)
  = Ok (map retag_cum t).
Proof. exact PC_roundtrip_cum. Qed.
Print Assumptions C04_roundtrip_cum_canonical.

Theorem C04_roundtrip_inc_canonical : forall d x,
  spec_ok d = true -> mk_triangle x = Ok x -> cells_comparable x -> meta_separated x ->
  forallb (inc_row_okb d) (group_cells x) = true ->
  bind (bind (to_cumulative d x) mk_triangle) (fun c => bind (to_incremental d c) mk_triangle)
  = Ok x.
Proof. exact PC_roundtrip_inc. Qed.
Print Assumptions C04_roundtrip_inc_canonical.

(* 3 (slice, period) rows; metadata "A"/"US" sorts before "Accident" *)
Definition ex_canon_cum : list cell :=
  nth 2 ex_cum_rows [] ++ nth 0 ex_cum_rows [] ++ nth 1 ex_cum_rows [].
Definition ex_canon_inc : list cell := nth 1 ex_inc_rows [] ++ nth 0 ex_inc_rows [].
Example C04_canonical_nonvacuous :
  mk_triangle ex_canon_cum = Ok ex_canon_cum /\ cells_comparable ex_canon_cum
  /\ meta_separated ex_canon_cum
  /\ forallb (cum_row_okb std_desc true) (group_cells ex_canon_cum) = true
  /\ length (group_cells ex_canon_cum) = 3%nat /\ length ex_canon_cum = 9%nat
  /\ mk_triangle ex_canon_inc = Ok ex_canon_inc /\ cells_comparable ex_canon_inc
  /\ meta_separated ex_canon_inc
  /\ forallb (inc_row_okb std_desc) (group_cells ex_canon_inc) = true
  /\ length (group_cells ex_canon_inc) = 2%nat /\ length ex_canon_inc = 7%nat.
Proof.
  repeat split; try (vm_compute; reflexivity).
  - apply comparableb_spec. vm_compute. reflexivity.
  - apply meta_separatedb_spec. vm_compute. reflexivity.
  - apply comparableb_spec. vm_compute. reflexivity.
  - apply meta_separatedb_spec. vm_compute. reflexivity.
Qed.

(* ------------------------------------------------------------------ 8. grouping by Python == *)
(* The code groups by Metadata.__eq__/__hash__ and writes the first metadata met for a row into
   every result cell.  [to_incremental_py]/[to_cumulative_py] (Model/BasisPy.v) model that on
   arbitrary inputs (equal-but-distinct Metadata objects: other detail-key order, 7 vs 7.0); the
   correspondence check runs THEM against the implementation.  On inputs whose ==-metadata are
   identical they are the functions of sections 1-7. *)
Theorem C04_py_grouping_agrees : forall d t, meta_separated t ->
  py_normalise t = t /\ to_incremental_py d t = to_incremental d t
  /\ to_cumulative_py d t = to_cumulative d t.
Proof.
  intros d t H. split; [now apply py_normalise_separated|].
  split; [now apply to_incremental_py_separated | now apply to_cumulative_py_separated].
Qed.
Print Assumptions C04_py_grouping_agrees.
