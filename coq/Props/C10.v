(** C10 -- join / merge / coalesce / add_statics / period_merge obey their relational definitions.
    Static part: statements that do not depend on the generated descriptions (the join types, merge
    precedence and coalesce pick are in GenProps/C10_Gen.v).

    Results are characterised as coordinate-keyed maps / position by position (Model/Join.v,
    header): the order of the result list is property C01's business. *)
From Coq Require Import ZArith List Bool Permutation.
From Bermuda Require Import Model.Base Model.Order Proofs.OrderP Proofs.TriangleP.
From Bermuda Require Import Model.Select Model.Join Proofs.SelectP Proofs.JoinP Proofs.SelectCanon Proofs.JoinCanon.
Import ListNotations.
Local Open Scope Z_scope.

(* ------------------------------------------------------------------ {**left, **right} *)
(* the right operand wins every conflict (for a Python dict, whose keys are unique, `assoc k (rev b)`
   is b[k]); keys absent on the right keep the left value *)
Theorem C10_dict_union_right_operand_wins : forall (a b : list (str * value)) k,
  assoc k (dict_union a b) = match assoc k (rev b) with Some v => Some v | None => assoc k a end.
Proof. intros. apply dict_union_assoc. Qed.
Print Assumptions C10_dict_union_right_operand_wins.

(* ------------------------------------------------------------------ `on`: _select_metadata *)
Theorem C10_on_reduces_metadata_only : forall on t,
  length (reduce_on on t) = length t
  /\ reduce_on None t = t /\ reduce_on (Some []) t = t
  /\ (forall l c', on = Some l -> l <> [] -> In c' (reduce_on on t) ->
        exists c, In c t /\ c' = set_meta c (select_metadata l (cmeta c))).
Proof.
  intros on t. split; [apply reduce_on_length |]. split; [apply reduce_on_none |].
  split; [apply reduce_on_none |]. intros l c' -> Hl Hin. eapply reduce_on_cell; eauto.
Qed.
Print Assumptions C10_on_reduces_metadata_only.

(* ------------------------------------------------------------------ add_statics *)
(* cell count, classes, coordinates and metadata unchanged; each cell receives ONLY the requested
   fields, from the latest source cell of its slice and period; no such source cell: untouched *)
Theorem C10_add_statics_copies_only_requested_fields_from_latest_source : forall fields t src,
  length (add_statics fields t src) = length t
  /\ Permutation (add_statics fields t src) (map (add_statics_cell fields src) t)
  /\ (forall c, strip (add_statics_cell fields src c) = strip c)
  /\ (forall c k, assoc k (cvals (add_statics_cell fields src c)) =
        match source_cell src c with
        | None => assoc k (cvals c)
        | Some s => if str_mem k fields
                    then match assoc k (rev (cvals s)) with Some v => Some v | None => assoc k (cvals c) end
                    else assoc k (cvals c)
        end)
  /\ (forall c s, source_cell src c = Some s ->
        In s src /\ same_row c s = true /\ forall x, In x src -> same_row c x = true -> ev x <= ev s)
  /\ (forall c, source_cell src c = None <-> forall x, In x src -> same_row c x = false).
Proof.
  intros fields t src. split; [apply add_statics_length |]. split; [apply add_statics_perm |].
  split; [intro c; apply add_statics_cell_strip |]. split; [intros c k; apply add_statics_cell_values |].
  split; [intros c s; apply source_cell_some | intro c; apply source_cell_none].
Qed.
Print Assumptions C10_add_statics_copies_only_requested_fields_from_latest_source.

(* Triangle(rich_cells) at the end of add_statics (C01's constructor, Model/Order.v): for a canonical
   triangle without order-equivalent cells the result is the input's cells, each enriched, position
   by position *)
Theorem C10_add_statics_through_the_constructor : forall fields src t,
  cells_comparable t -> cells_separated t -> canonical t ->
  mk_triangle (add_statics fields t src) = Ok (map (add_statics_cell fields src) t).
Proof. exact add_statics_constructor. Qed.
Print Assumptions C10_add_statics_through_the_constructor.

(* join / merge / coalesce / period_merge build their list in model order; whatever that order, the
   constructor returns a canonical permutation of it *)
Theorem C10_model_results_through_the_constructor : forall out r,
  cells_comparable out -> mk_triangle out = Ok r -> Permutation out r /\ canonical r.
Proof. exact model_result_through_constructor. Qed.
Print Assumptions C10_model_results_through_the_constructor.

(* ------------------------------------------------------------------ period_merge *)
Theorem C10_period_merge_keeps_cells_and_coordinates : forall sfx t1 t2,
  (forall out, period_merge sfx t1 t2 = Ok out ->
     length out = length t1
     /\ Permutation (map strip out) (map strip t1)
     /\ (forall o, In o out -> exists c, In c t1 /\
           ((o = c /\ filter (fun r => ckey_eqb (pm_key c) (pm_key r)) t2 = [])
            \/ (exists r, filter (fun r => ckey_eqb (pm_key c) (pm_key r)) t2 = [r]
                          /\ o = overwrite_values sfx c r))))
  /\ (kinds_clash t1 t2 = true -> period_merge sfx t1 t2 = Err ValueError)
  /\ (kinds_clash t1 t2 = false ->
      (period_merge sfx t1 t2 = Err ValueError <->
       exists c, In c t1 /\ (2 <= length (filter (fun r => ckey_eqb (pm_key c) (pm_key r)) t2))%nat)).
Proof.
  intros sfx t1 t2. split; [intros out; apply period_merge_ok |].
  split; [apply period_merge_clash | apply period_merge_err].
Qed.
Print Assumptions C10_period_merge_keeps_cells_and_coordinates.

(* ------------------------------------------------------------------ non-vacuity *)
Definition m1 : meta := default_meta.
Definition m2 : meta := mkMeta (Some [65;99;99;105;100;101;110;116]) (Some [85;83]) None None None None [([108], MStr [120])] [].
Definition mkv (m : meta) (s e v : Z) (vals : list (str * value)) : cell := mkCell KCum s e v None m vals.
Definition n (x : Z) : value := VNum (Num false (1024 * x)).
Definition ex_t : list cell :=
  [ mkv m1 737425 737455 737455 [([97], n 1)]; mkv m1 737425 737455 737484 [([97], n 2); ([98], n 7)];
    mkv m2 737425 737455 737455 [([97], n 3)] ].
Definition ex_src : list cell :=
  [ mkv m1 737425 737455 737455 [([98], n 10); ([99], n 11)];
    mkv m1 737425 737455 737515 [([98], n 20); ([99], n 21); ([97], n 22)] ].
Example C10_add_statics_nonvacuous :
  map cvals (add_statics [[98]; [100]] ex_t ex_src)
  = [ [([97], n 1); ([98], n 20)]; [([97], n 2); ([98], n 20)]; [([97], n 3)] ]
  /\ source_cell ex_src (mkv m2 737425 737455 737455 []) = None.
Proof. vm_compute. split; reflexivity. Qed.
Example C10_add_statics_constructor_nonvacuous :
  mk_triangle ex_t = Ok ex_t
  /\ mk_triangle (add_statics [[98]; [100]] ex_t ex_src) = Ok (map (add_statics_cell [[98]; [100]] ex_src) ex_t).
Proof. vm_compute. split; reflexivity. Qed.
Example C10_period_merge_nonvacuous :
  period_merge (Some [95]) ex_t [mkv m1 737425 737455 737515 [([98], n 20)]]
  = Ok [ mkv m1 737425 737455 737455 [([97], n 1); ([98;95], n 20)];
         mkv m1 737425 737455 737484 [([97], n 2); ([98], n 7); ([98;95], n 20)];
         mkv m2 737425 737455 737455 [([97], n 3)] ]
  /\ period_merge None ex_t ex_src = Err ValueError.
Proof. vm_compute. split; reflexivity. Qed.
