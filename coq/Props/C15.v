(* C15 -- extension operators only add well-placed cells and never touch observed data.

   Model: Model/Extend.v (a triangle is its sorted cell list; any size).  Month arithmetic is
   Calendar.addm / lag_months.  Tie to the source: these equal bermuda's float-based add_months /
   dev_lag_months only where the C12 bridge theorems say so (month-aligned dates with results in
   1970-2100; before 1970 see known finding F10), and the tie of this property compares the real
   operators with the model on generated triangles inside that range.
   Month-unit statements hold for EVERY date of Python's range (year >= 1); their explicit hypotheses
     aligned c          period_end and evaluation_date are month ends with month ids >= MINID
     lag_in_range c l   MINID <= month_id (period_end) + l        (MINID = -23628 = 0001-01)
   rest on the unbounded, axiom-free calendar facts of Proofs/CalendarP.v (via Proofs/AccessorsCal.v).
   Day-unit statements need no calendar hypothesis.
   [occupied t c]: some cell of t has c's slice (metadata, Python ==), period and evaluation date.
   make_right_triangle / make_right_diagonal return ONLY new cells; fill_forward_gaps / backfill return
   the union (observed cells kept, proved as `forall c, In c t -> In c out`).

   Backfill: C15_backfill + C15_backfill_first_cell prove that the cell being extended backwards is
   the first cell of its period in t.cells; C15_backfill_earliest makes "the EARLIEST observation of
   its slice and period" unconditional for canonical input (the constructor's output, C01:
   sorted by Cell.__lt__, cells comparable), via TriangleP.sorted_pairs.  backfill only extends the
   first slice of each period (it walks period_rows, not slice_period_rows); the property text makes
   no completeness claim for backfill.
   C15_results_constructible: the new cells of make_right_triangle / make_right_diagonal are accepted
   by the constructor (one class, pairwise comparable) and come back as a canonical triangle holding
   exactly these cells.
   C15_fill_forward_gaps states "inside a gap" under the hypothesis that the resolution divides the
   row's lag span; without it the code adds a cell beyond the last observation (see the check's
   candidate-finding note), and the theorem gives the weaker bound lag < last + res. *)
From Coq Require Import ZArith List Bool Lia.
From Bermuda Require Import Lib.Calendar Model.Base Model.Accessors Model.Extend
  Proofs.Accessors Proofs.AccessorsTax Proofs.CalendarP Proofs.AccessorsCal Proofs.Extend.
From Bermuda Require Model.Order Proofs.OrderP Proofs.TriangleP Proofs.AccessorsOrder.
Import ListNotations.
Open Scope Z_scope.

(* ---------------------------------------------------------------- make_right_triangle *)
(* which branch: cumulative / incremental (chain must be convertible) / empty (F16) *)
Theorem C15_right_triangle_result : forall u lags t,
  (is_incremental t = false -> make_right_triangle u lags t = Ok (flat_map (rt_slice false u lags) (slices t))) /\
  (is_incremental t = true -> to_cum_ok t = true ->
     make_right_triangle u lags t = Ok (flat_map (rt_slice true u lags) (slices t))) /\
  (is_incremental t = true -> to_cum_ok t = false -> make_right_triangle u lags t = Err TriangleError) /\
  (t = [] -> make_right_triangle u lags t = Ok []).
Proof. exact make_right_triangle_cases. Qed.
Print Assumptions C15_right_triangle_result.

(* the result holds exactly one new cell per slice, right-edge cell and wanted lag above the edge lag *)
Theorem C15_right_triangle_members : forall u lags t c',
  In c' (flat_map (rt_slice false u lags) (slices t)) <->
  exists s e l, In s (slices t) /\ In e (edges s) /\ In l (slice_lags u lags s) /\
                cell_lag u e < l /\ c' = new_cell e (add_lag u (pe e) l).
Proof. exact right_triangle_cum_In. Qed.
Print Assumptions C15_right_triangle_members.

(* every new cell: slice metadata, empty values, cumulative, strictly after the period's latest
   observation, on the lag grid above the edge lag, at no occupied coordinate *)
Theorem C15_right_triangle_placement : forall u lags t c',
  (forall s e l, In s (slices t) -> In e (edges s) -> In l (slice_lags u lags s) -> unit_ok u e l) ->
  In c' (flat_map (rt_slice false u lags) (slices t)) ->
  exists s e, In s (slices t) /\ In e (edges s) /\ In e t /\
    period c' = period e /\ cmeta c' = cmeta e /\ cvals c' = [] /\ ckind c' = KCum /\ prev c' = None /\
    (forall c, In c s -> period c = period e -> ev c < ev c') /\
    In (cell_lag u c') (slice_lags u lags s) /\ cell_lag u e < cell_lag u c' /\
    occupied t c' = false.
Proof. exact right_triangle_placement. Qed.
Print Assumptions C15_right_triangle_placement.

(* ... exactly the slice's (or the requested) lags above the period's latest lag *)
Theorem C15_right_triangle_exact_lags : forall u lags s e,
  In e (edges s) -> (forall l, In l (slice_lags u lags s) -> unit_ok u e l) ->
  forall l,
  ((In l (slice_lags u lags s) /\ cell_lag u e < l) <->
   exists c', In c' (rt_row u (slice_lags u lags s) e) /\ cell_lag u c' = l).
Proof. exact right_triangle_exact. Qed.
Print Assumptions C15_right_triangle_exact_lags.

Theorem C15_wanted_lags : forall u lags s l,
  In l (slice_lags u lags s) <->
  match lags with None => exists c, In c s /\ cell_lag u c = l | Some ls => In l ls end.
Proof. exact slice_lags_In. Qed.
Print Assumptions C15_wanted_lags.

(* the right edge: a cell of the slice, the latest of its period; every period has one *)
Theorem C15_right_edge : forall s,
  (forall e, In e (edges s) -> In e s /\ forall c, In c s -> period c = period e -> ev c <= ev e) /\
  (forall c, In c s -> exists e, In e (edges s) /\ period e = period c).
Proof. intros s. split; [apply edges_spec|apply edges_complete]. Qed.
Print Assumptions C15_right_edge.

(* empty result exactly when nothing is missing *)
Theorem C15_right_triangle_empty_iff_complete : forall u lags t,
  flat_map (rt_slice false u lags) (slices t) = [] <->
  forall s e l, In s (slices t) -> In e (edges s) -> In l (slice_lags u lags s) -> l <= cell_lag u e.
Proof. exact right_triangle_empty. Qed.
Print Assumptions C15_right_triangle_empty_iff_complete.

(* incremental input: same coordinates / (empty) values as the cumulative result, all cells incremental,
   every new cell carries the metadata object of its row's FIRST cell (the group key of to_cumulative:
   Python-equal to the edge cell's, possibly spelled differently), and in every new row the chain
   continues from the observed right edge: prev(first) = evaluation date of the edge cell,
   prev(next) = evaluation date of the previous one *)
Theorem C15_right_triangle_incremental : forall u lags s,
  map (fun c => (ps c, pe c, ev c, cvals c)) (rt_slice true u lags s) =
  map (fun c => (ps c, pe c, ev c, cvals c)) (rt_slice false u lags s) /\
  (forall e, let out := finish_row true (row_head s e) e (rt_row u (slice_lags u lags s) e) in
    Forall (fun c => ckind c = KInc /\ cmeta c = cmeta (row_head s e)) out /\ chained_b (ev e) out = true) /\
  (forall e, In e s -> In (row_head s e) s /\ period (row_head s e) = period e) /\
  (forall m t e, s = slice_cells m t -> In e s -> meta_pyeq (cmeta (row_head s e)) (cmeta e) = true).
Proof.
  intros u lags s. split; [apply rt_slice_inc_coords|]. split; [intros e; apply right_triangle_inc_rows|].
  split; [apply row_head_spec|]. intros m t e -> He. now apply row_head_same_slice.
Qed.
Print Assumptions C15_right_triangle_incremental.

Theorem C15_chain_meaning : forall row p, chained_b p row = true <->
  forall i, (i < length row)%nat ->
    prev (nth i row (new_cell (nth 0 row (mkCell KCum 0 0 0 None default_meta [])) 0)) =
    Some (match i with O => p | S j => ev (nth j row (new_cell (nth 0 row (mkCell KCum 0 0 0 None default_meta [])) 0)) end).
Proof. exact chained_b_spec. Qed.
Print Assumptions C15_chain_meaning.

(* ---------------------------------------------------------------- make_right_diagonal *)
Theorem C15_right_diagonal_members : forall dates s c',
  In c' (rd_slice false dates false s) <->
  exists e d, In e (edges s) /\ In d dates /\ max_ev s < d /\ ps e <= d /\ c' = new_cell e d.
Proof. exact right_diagonal_In. Qed.
Print Assumptions C15_right_diagonal_members.

Theorem C15_right_diagonal_placement : forall dates t c',
  In c' (flat_map (rd_slice false dates false) (slices t)) ->
  exists s e, In s (slices t) /\ In e (edges s) /\ In e t /\
    period c' = period e /\ cmeta c' = cmeta e /\ cvals c' = [] /\ ckind c' = KCum /\
    In (ev c') dates /\ (forall c, In c s -> ev c < ev c') /\ occupied t c' = false.
Proof. exact right_diagonal_placement. Qed.
Print Assumptions C15_right_diagonal_placement.

(* ---------------------------------------------------------------- fill_forward_gaps *)
(* observed cells are kept; every other cell is a fill: a copy of an earlier cell of the result row
   (carried forward, or all None), same kind / period / metadata, at a lag first + k*res that no
   observed cell of the row has *)
Theorem C15_fill_forward_gaps : forall res none t out,
  0 < res -> (forall row, In row (all_rows t) -> NoDup (map mlag row)) ->
  fill_forward_gaps (Some res) none t = Ok out ->
  (forall c, In c t -> In c out) /\
  (forall x, In x out -> In x t \/
     exists row lag src c0, In row (all_rows t) /\ hd_error row = Some c0 /\ In src out /\
       x = fill_cell none src lag /\ (forall c, In c row -> mlag c <> lag) /\
       (exists k, 0 < k /\ lag = mlag c0 + k * res /\ lag < mlag (last row c0) + res /\
          ((res | mlag (last row c0) - mlag c0) -> mlag c0 < lag < mlag (last row c0)))).
Proof. exact fill_forward_gaps_full. Qed.
Print Assumptions C15_fill_forward_gaps.

Theorem C15_fill_cell_shape : forall none src lag,
  let x := fill_cell none src lag in
  ckind x = ckind src /\ period x = period src /\ prev x = prev src /\ cmeta x = cmeta src /\
  ev x = addm (pe src) lag /\
  cvals x = (if none then map (fun kv => (fst kv, VNone)) (cvals src) else cvals src) /\
  (aligned src -> lag_in_range src lag -> mlag x = lag).
Proof.
  intros none src lag x. destruct (fill_cell_shape none src lag) as [H1 [H2 [H3 [H4 [H5 H6]]]]].
  repeat split; try assumption. apply fill_cell_lag.
Qed.
Print Assumptions C15_fill_cell_shape.

(* rows partition the triangle *)
Theorem C15_rows_cover : forall t,
  (forall c, In c t -> exists row, In row (all_rows t) /\ In c row) /\
  (forall row c, In row (all_rows t) -> In c row -> In c t).
Proof. intros t. split; [apply all_rows_cover|apply all_rows_sub]. Qed.
Print Assumptions C15_rows_cover.

(* ---------------------------------------------------------------- backfill *)
(* Observed cells are kept; every other cell copies an observed cell c (kind,
   period, prev, metadata) at lag mlag c - k*res >= max(min_dev_lag, -period_resolution + 1), not
   before the period start; its values are zeros plus the statics of c. *)
Theorem C15_backfill : forall statics res min_lag t out,
  0 < res -> backfill statics (Some res) min_lag t = Ok out ->
  exists pres, period_resolution t = Ok (Some pres) /\
  (forall c, In c t -> In c out) /\
  (forall x, In x out -> In x t \/
     exists c vals k, In c t /\ backfill_values statics c = Ok vals /\ 0 < k /\
       Z.max min_lag (- pres + 1) <= mlag c - k * res /\
       x = mkCell (ckind c) (ps c) (pe c) (addm (pe c) (mlag c - k * res)) (prev c) (cmeta c) vals /\
       ps c <= ev x /\ match prev c with Some p => p < ev x | None => True end).
Proof. exact backfill_spec. Qed.
Print Assumptions C15_backfill.

(* the extended cell is the first cell of its period in t.cells; under the sortedness invariant it is
   the earliest observation of its slice and period *)
Theorem C15_backfill_first_cell : forall statics res min_lag t out,
  0 < res -> backfill statics (Some res) min_lag t = Ok out ->
  forall x, In x out -> In x t \/
    exists c vals pre post pres, t = pre ++ c :: post /\ (forall d, In d pre -> period d <> period c) /\
      period_resolution t = Ok (Some pres) /\ backfill_values statics c = Ok vals /\
      In x (backfill_cells res (Z.max min_lag (- pres + 1)) vals c).
Proof. exact backfill_first. Qed.
Print Assumptions C15_backfill_first_cell.

Theorem C15_first_cell_is_earliest : forall t pre c post,
  rows_sorted t -> t = pre ++ c :: post -> (forall d, In d pre -> period d <> period c) ->
  forall d, In d t -> period d = period c -> meta_pyeq (cmeta c) (cmeta d) = true -> ev c <= ev d.
Proof. exact first_of_period_earliest. Qed.
Print Assumptions C15_first_cell_is_earliest.

(* canonical input (C01): the extended cell is the earliest observation of its slice and period *)
Theorem C15_backfill_earliest : forall statics res min_lag l t out,
  TriangleP.cells_comparable l -> Order.mk_triangle l = Ok t ->
  (forall c, In c t -> wf_meta (cmeta c)) ->
  0 < res -> backfill statics (Some res) min_lag t = Ok out ->
  forall x, In x out -> In x t \/
    exists c vals pres, In c t /\
      (forall d, In d t -> period d = period c -> meta_pyeq (cmeta c) (cmeta d) = true -> ev c <= ev d) /\
      period_resolution t = Ok (Some pres) /\ backfill_values statics c = Ok vals /\
      In x (backfill_cells res (Z.max min_lag (- pres + 1)) vals c).
Proof.
  intros statics res min_lag l t out Hc H Hwf. apply AccessorsOrder.backfill_earliest; [|assumption].
  eapply AccessorsOrder.mk_triangle_is_canonical; eassumption.
Qed.
Print Assumptions C15_backfill_earliest.

(* every canonical triangle has rows in ascending evaluation date *)
Theorem C15_canonical_rows_sorted : forall l t,
  TriangleP.cells_comparable l -> Order.mk_triangle l = Ok t ->
  (forall c, In c t -> wf_meta (cmeta c)) -> rows_sorted t.
Proof.
  intros l t Hc H Hwf. apply AccessorsOrder.canonical_rows_sorted; [|assumption].
  eapply AccessorsOrder.mk_triangle_is_canonical; eassumption.
Qed.
Print Assumptions C15_canonical_rows_sorted.

(* the new cells are a legal constructor argument and come back as a canonical triangle *)
Theorem C15_results_constructible : forall u lags dates t,
  TriangleP.cells_comparable t ->
  (exists t', Order.mk_triangle (flat_map (rt_slice false u lags) (slices t)) = Ok t' /\
              Permutation.Permutation (flat_map (rt_slice false u lags) (slices t)) t' /\
              AccessorsOrder.canonical t') /\
  (exists t', Order.mk_triangle (flat_map (rd_slice false dates false) (slices t)) = Ok t' /\
              Permutation.Permutation (flat_map (rd_slice false dates false) (slices t)) t' /\
              AccessorsOrder.canonical t').
Proof.
  intros u lags dates t Hc. split;
    [apply AccessorsOrder.right_triangle_constructible|apply AccessorsOrder.right_diagonal_constructible]; assumption.
Qed.
Print Assumptions C15_results_constructible.

Theorem C15_backfill_values : forall statics c vals,
  backfill_values statics c = Ok vals ->
  keys vals = keys (cvals c) /\
  forall k, assoc k vals = if existsb (str_eqb k) statics then assoc k (cvals c)
                           else option_map (fun _ => zero) (assoc k (cvals c)).
Proof. exact backfill_values_spec. Qed.
Print Assumptions C15_backfill_values.

(* a backfilled cell lies strictly before the cell it extends and has the stated lag *)
Theorem C15_backfill_before : forall c k res,
  aligned c -> 0 < res -> 0 < k -> MINID <= month_id (pe c) + (mlag c - k * res) ->
  addm (pe c) (mlag c - k * res) < ev c /\
  lag_months (pe c) (addm (pe c) (mlag c - k * res)) = mlag c - k * res.
Proof. exact back_before. Qed.
Print Assumptions C15_backfill_before.

(* ---------------------------------------------------------------- the hypotheses are satisfiable *)
Definition exm : meta := default_meta.
Definition v1 : list (str * value) := [([112], VNum (Num false 1024)); ([101], VNum (Num true 5120))].
(* 2020Q1 observed at lags 0,3,6 ; 2020Q2 at lags 0,3 ; 2020Q3 at lag 0 (upper-left) *)
Definition ex_t : list cell :=
  [ mkCell KCum 737425 737515 737515 None exm v1; mkCell KCum 737425 737515 737606 None exm v1;
    mkCell KCum 737425 737515 737698 None exm v1;
    mkCell KCum 737516 737606 737606 None exm v1; mkCell KCum 737516 737606 737698 None exm v1;
    mkCell KCum 737607 737698 737698 None exm v1 ].

Example C15_nonvacuous_results :
  (exists out, make_right_triangle UMonth None ex_t = Ok out /\ length out = 3%nat /\
     map (cell_lag UMonth) out = [6; 3; 6] /\ forallb (fun c => negb (occupied ex_t c)) out = true) /\
  (exists out, make_right_diagonal [737790; 737698] false ex_t = Ok out /\ length out = 3%nat) /\
  (exists out, backfill [[101]] (Some 1) (-1) ex_t = Ok out /\ length out = 9%nat) /\
  (exists out, fill_forward_gaps (Some 1) true ex_t = Ok out /\ length out = 12%nat).
Proof.
  split; [|split; [|split]].
  - eexists. split; [vm_compute; reflexivity|]. split; [|split]; vm_compute; reflexivity.
  - eexists. split; vm_compute; reflexivity.
  - eexists. split; vm_compute; reflexivity.
  - eexists. split; vm_compute; reflexivity.
Qed.

Example C15_nonvacuous_rows : forall row, In row (all_rows ex_t) -> NoDup (map mlag row).
Proof.
  intros row Hrow. vm_compute in Hrow.
  destruct Hrow as [<-|[<-|[<-|[]]]]; vm_compute; repeat constructor; simpl; intuition discriminate.
Qed.

Example C15_nonvacuous_unit_ok :
  forall s e l, In s (slices ex_t) -> In e (edges s) -> In l (slice_lags UMonth None s) -> unit_ok UMonth e l.
Proof.
  intros s e l Hs He Hl. vm_compute in Hs. destruct Hs as [<-|[]].
  vm_compute in He. vm_compute in Hl.
  assert (HA : forall a b, MINID <= a -> MINID <= b -> forall c,
             pe c = month_end a -> ev c = month_end b -> aligned c)
    by (intros a b Ha Hb c H1 H2; exists a, b; auto).
  assert (HR : forall c x, (MINID <=? month_id (pe c) + x) = true -> lag_in_range c x)
    by (intros c x H; unfold lag_in_range; lia).
  destruct He as [<-|[<-|[<-|[]]]]; destruct Hl as [<-|[<-|[<-|[]]]]; (split; [|apply HR; vm_compute; reflexivity]).
  1-3: apply (HA 602 608); try (unfold MINID; lia); vm_compute; reflexivity.
  1-3: apply (HA 605 608); try (unfold MINID; lia); vm_compute; reflexivity.
  1-3: apply (HA 608 608); try (unfold MINID; lia); vm_compute; reflexivity.
Qed.
