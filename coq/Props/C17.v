(* C17 -- resampling keeps triangle structure: bootstrap, thin, moment_match.     STRENGTH: PARTIAL

   RNG and distribution samplers are ORACLES (Model/Resample.v): the index vector drawn by thin, the
   resampled age-to-age factors and the multiplication, the quantile / variate vectors and the argsort
   permutation are arguments, and every theorem below holds for EVERY value of them.

   PROVED
     thin     - refuses k > n, returns the argument itself for k = n (C17_thin_refuses / _identity);
              - otherwise same cells (coordinates, slice, kind, key order), scalars and arrays of size <= 1
                untouched, and the SAME positions ndxs taken from every array of every cell
                (C17_thin_structure, C17_thin_value);
              - hence a samplewise relation B_i = f(A_i) between two fields, of one cell or of two,
                survives thinning (C17_thin_preserves_samplewise_relation).
     bootstrap skeleton (_develop_triangle_by_atas with arbitrary factors, detail bootstrap = i)
              - same number of cells, every output cell at the coordinates / in the slice of its input
                cell, the triangle's field names are exactly those of the input, the earliest
                development cell of every period is returned unchanged (C17_develop_structure);
              - a replicate of a multi-slice triangle is, position by position, that with the detail
                ("bootstrap", i) added and nothing else of the metadata changed (C17_replicate_structure,
                C17_with_detail).
     rank order (maximum_entropy_ensemble's last line, _sort_x_on_y_rank)
              - for any new-value vector and any argsort of the source: same length, and
                source[p] < source[q] implies out[p] <= out[q] (C17_rerank_rank_order).
     moment_match - same cells, same keys, unselected fields and scalars unchanged, each selected array
                replaced by a re-ranked array of the same length and rank order
                (C17_moment_match_structure, C17_moment_match_rank_order).
   NOT decided by proof (checked numerically / by monitors in harness/c17.py on every run):
     seed determinism; distinctness of choice(replace=False); "within the given limits" of the maximum
     entropy ensemble; "mean and variance scale" of moment_match; that len(sampler output) = len(samples);
     the age-to-age factor statistics; the final Triangle(...) sort (C01). *)
From Coq Require Import ZArith List Bool.
From Bermuda Require Import Model.Base Model.Resample Proofs.ResampleP.
Import ListNotations.

Theorem C17_thin_refuses : forall t k ndxs n, num_samples t = Ok n -> n < k -> thin t k ndxs = Err ValueError.
Proof. exact thin_refuses. Qed.
Print Assumptions C17_thin_refuses.

Theorem C17_thin_identity : forall t ndxs n, num_samples t = Ok n -> thin t n ndxs = Ok t.
Proof. exact thin_identity. Qed.
Print Assumptions C17_thin_identity.

Theorem C17_thin_structure : forall t k ndxs t', thin t k ndxs = Ok t' ->
  exists n, num_samples t = Ok n /\ k <= n /\ (k = n -> t' = t) /\
    (k < n ->
       length t' = length t /\
       (forall i c, nth_error t i = Some c ->
          exists c', nth_error t' i = Some c' /\ same_frame c c' /\ keys (cvals c') = keys (cvals c)) /\
       (forall i key, field t' i key = option_map (thin_value ndxs) (field t i key))).
Proof. exact thin_structure. Qed.
Print Assumptions C17_thin_structure.

Theorem C17_thin_value : forall ndxs v,
  match v with
  | VArr f xs => if 1 <? length xs
                 then exists ys, thin_value ndxs v = VArr f ys /\ length ys = length ndxs /\
                                 forall j, j < length ndxs -> nth j ys 0%Z = nth (nth j ndxs 0) xs 0%Z
                 else thin_value ndxs v = v
  | _ => thin_value ndxs v = v
  end.
Proof. exact thin_value_spec. Qed.
Print Assumptions C17_thin_value.

Theorem C17_thin_preserves_samplewise_relation :
  forall t k ndxs t' n (f : Z -> Z) ia ka fa A ib kb fb B,
    thin t k ndxs = Ok t' -> num_samples t = Ok n -> length ndxs = k -> Forall (fun i => i < n) ndxs ->
    field t ia ka = Some (VArr fa A) -> field t ib kb = Some (VArr fb B) ->
    length A = n -> length B = n -> 1 < n ->
    (forall i, i < n -> nth i B 0%Z = f (nth i A 0%Z)) ->
    exists A' B', field t' ia ka = Some (VArr fa A') /\ field t' ib kb = Some (VArr fb B') /\
                  length A' = k /\ length B' = k /\
                  forall j, j < k -> nth j B' 0%Z = f (nth j A' 0%Z).
Proof. exact thin_preserves_samplewise_relation. Qed.
Print Assumptions C17_thin_preserves_samplewise_relation.

Theorem C17_develop_structure : forall (mul : value -> cell -> str -> value) (sel : str -> bool) t,
  length (develop mul sel t) = length t /\
  Forall2 (fun c c' => same_frame c c' /\ (is_first t c = true -> c' = c)) t (develop mul sel t) /\
  (forall x, In x (fields_of (develop mul sel t)) <-> In x (fields_of t)).
Proof. exact develop_structure. Qed.
Print Assumptions C17_develop_structure.

Theorem C17_replicate_structure : forall sel muls i slices, length muls = length slices ->
  length (replicate sel muls i slices) = length (concat slices) /\
  Forall2 (fun tc c' => rep_rel i (fst tc) (snd tc) c')
          (flat_map (fun s => map (fun c => (s, c)) s) slices) (replicate sel muls i slices).
Proof. exact replicate_structure. Qed.
Print Assumptions C17_replicate_structure.

Theorem C17_with_detail : forall i c,
  ckind (with_detail i c) = ckind c /\ ps (with_detail i c) = ps c /\ pe (with_detail i c) = pe c /\
  ev (with_detail i c) = ev c /\ prev (with_detail i c) = prev c /\ cvals (with_detail i c) = cvals c /\
  details (cmeta (with_detail i c)) = dict_set BOOTSTRAP (MNum (num_of_int i)) (details (cmeta c)) /\
  risk_basis (cmeta (with_detail i c)) = risk_basis (cmeta c) /\
  country (cmeta (with_detail i c)) = country (cmeta c) /\
  currency (cmeta (with_detail i c)) = currency (cmeta c) /\
  reinsurance_basis (cmeta (with_detail i c)) = reinsurance_basis (cmeta c) /\
  loss_definition (cmeta (with_detail i c)) = loss_definition (cmeta c) /\
  per_occurrence_limit (cmeta (with_detail i c)) = per_occurrence_limit (cmeta c) /\
  loss_details (cmeta (with_detail i c)) = loss_details (cmeta c).
Proof. exact with_detail_spec. Qed.
Print Assumptions C17_with_detail.

Theorem C17_rerank_rank_order : forall y perm news,
  valid_perm_b y perm = true -> length news = length y ->
  length (rerank perm news) = length y /\
  forall p q, p < length y -> q < length y -> (nth p y 0 < nth q y 0)%Z ->
              (nth p (rerank perm news) 0 <= nth q (rerank perm news) 0)%Z.
Proof. exact rerank_rank_order. Qed.
Print Assumptions C17_rerank_rank_order.

Theorem C17_moment_match_structure : forall fields perms draws t,
  length (moment_match fields perms draws t) = length t /\
  forall i c, nth_error t i = Some c ->
    exists c', nth_error (moment_match fields perms draws t) i = Some c' /\
               same_frame c c' /\ keys (cvals c') = keys (cvals c) /\
               forall k, assoc k (cvals c') =
                         option_map (fun v => if existsb (str_eqb k) fields
                                              then mm_value (perms i k) (draws i k) v else v)
                                    (assoc k (cvals c)).
Proof. exact moment_match_structure. Qed.
Print Assumptions C17_moment_match_structure.

Theorem C17_moment_match_rank_order : forall perm draw f xs,
  valid_perm_b xs perm = true -> length draw = length xs ->
  exists ys, mm_value perm draw (VArr f xs) = VArr true ys /\ length ys = length xs /\
             forall p q, p < length xs -> q < length xs -> (nth p xs 0 < nth q xs 0)%Z ->
                         (nth p ys 0 <= nth q ys 0)%Z.
Proof. exact mm_value_rank_order. Qed.
Print Assumptions C17_moment_match_rank_order.

(* ------------------------------------------------------------------ non-vacuity *)
Open Scope Z_scope.
Definition kA : str := [65].  Definition kB : str := [66].  Definition kS : str := [83].
Definition ex_cell (e : Z) (a : list Z) : cell :=
  mkCell KCum 737425 737515 e None default_meta
         [(kA, VArr false a); (kS, VNum (Num false 7168)); (kB, VArr false (map (fun x => 2 * x + 1) a))].
Definition ex_tri : triangle := [ex_cell 737515 [10; 20; 30]; ex_cell 737606 [40; 50; 60]].

(* hypotheses of the corollary are satisfiable: 3 samples, B = 2A+1 within a cell; the thinned
   triangle takes positions 2,0 everywhere, the scalar is untouched *)
Example C17_thin_nonvacuous :
  num_samples ex_tri = Ok 3%nat /\
  thin ex_tri 2 [2%nat; 0%nat] =
    Ok [ mkCell KCum 737425 737515 737515 None default_meta
                [(kA, VArr false [30; 10]); (kS, VNum (Num false 7168)); (kB, VArr false [61; 21])];
         mkCell KCum 737425 737515 737606 None default_meta
                [(kA, VArr false [60; 40]); (kS, VNum (Num false 7168)); (kB, VArr false [121; 81])] ] /\
  thin ex_tri 4 [] = Err ValueError /\ thin ex_tri 3 [] = Ok ex_tri.
Proof. vm_compute. repeat split; reflexivity. Qed.
(* MUTANT "indices drawn per cell / per field": a different vector for field B breaks B = 2A+1 *)
Example C17_thin_per_field_draw_breaks_relation :
  take [21; 41; 61] [1%nat; 0%nat] <> map (fun x => 2 * x + 1) (take [10; 20; 30] [2%nat; 0%nat]).
Proof. vm_compute. discriminate. Qed.

(* bootstrap skeleton on a 2x2 triangle: factors 3 for every field; first cells unchanged *)
Definition ex_boot : triangle :=
  [ mkCell KCum 1 90 90 None default_meta [(kA, VNum (Num false 1024))];
    mkCell KCum 1 90 180 None default_meta [(kA, VNum (Num false 2048))];
    mkCell KCum 91 180 180 None default_meta [(kA, VNum (Num false 4096))];
    mkCell KCum 91 180 270 None default_meta [(kA, VNum (Num false 0))] ].
Definition ex_mul (v : value) (c : cell) (k : str) : value :=
  match v with VNum (Num f n) => VNum (Num true (3 * n)) | _ => v end.
Example C17_develop_nonvacuous :
  map (is_first ex_boot) ex_boot = [true; false; true; false] /\
  map cvals (develop ex_mul (fun _ => true) ex_boot) =
    [ [(kA, VNum (Num false 1024))]; [(kA, VNum (Num true 3072))];
      [(kA, VNum (Num false 4096))]; [(kA, VNone)] ] /\
  details (cmeta (with_detail 4 (hd (ex_cell 0 []) ex_boot))) = [(BOOTSTRAP, MNum (Num false 4096))].
Proof. vm_compute. repeat split; reflexivity. Qed.

(* re-ranking: source [30;10;20], argsort [1;2;0], new values [5;7;6] *)
Example C17_rerank_nonvacuous :
  valid_perm_b [30; 10; 20] [1%nat; 2%nat; 0%nat] = true /\
  rerank [1%nat; 2%nat; 0%nat] [5; 7; 6] = [7; 5; 6] /\
  rank_order_b [30; 10; 20] [7; 5; 6] = true.
Proof. vm_compute. repeat split; reflexivity. Qed.
(* MUTANT "rank order not re-imposed": returning the new values as drawn violates the order relation *)
Example C17_unranked_output_violates_rank_order : rank_order_b [30; 10; 20] [5; 7; 6] = false.
Proof. vm_compute. reflexivity. Qed.
