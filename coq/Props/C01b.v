(** C01 / C02 (addendum, rounds 8-9): the order in which the details / loss_details dicts of a Metadata were WRITTEN
    is invisible to the order and to equality.

    `derive_metadata`, `merge` and the readers hand out Metadata that is ==-equal to a freshly built one but holds its
    detail keys in another insertion order.  For two such spellings [a], [b] (same attributes, details and loss_details
    permutations of each other, keys unique as in every Python dict): the canonical sort key is THE SAME, so `a == b`,
    `a < c` iff `b < c`, `c < a` iff `c < b` for every c (TypeError cases included: the comparison results are equal as
    options), and a cell sorts to the same place whichever spelling its metadata has.  Hence slices cannot be split or
    re-ordered by the spelling (what the seeded changes C01-r8m1, C10-r9m2, C11-r9m2 do). *)
From Coq Require Import ZArith List Bool Permutation.
From Bermuda Require Import Model.Base Model.Order Proofs.EqP Proofs.MetaKeyOrder.
Import ListNotations.
Local Open Scope Z_scope.

Theorem C01_canonical_key_ignores_dict_key_order : forall a b, respelled a b -> canonical_key a = canonical_key b.
Proof. exact canonical_key_respelled. Qed.
Print Assumptions C01_canonical_key_ignores_dict_key_order.

Theorem C01_meta_order_and_eq_ignore_dict_key_order : forall a b c, respelled a b ->
  meta_pyeq a b = true /\ meta_cmp a c = meta_cmp b c /\ meta_cmp c a = meta_cmp c b.
Proof.
  intros a b c H. pose proof (canonical_key_respelled a b H) as E.
  split; [apply meta_pyeq_key; exact E|]. unfold meta_cmp. rewrite E. split; reflexivity.
Qed.
Print Assumptions C01_meta_order_and_eq_ignore_dict_key_order.

Theorem C01_cell_order_ignores_dict_key_order : forall x x' y,
  respelled (cmeta x) (cmeta x') -> ps x = ps x' -> pe x = pe x' -> ev x = ev x' -> prev x = prev x' ->
  cell_cmp x y = cell_cmp x' y /\ cell_cmp y x = cell_cmp y x'.
Proof.
  intros x x' y H E1 E2 E3 E4. unfold cell_cmp, cell_tuple, cell_dates.
  rewrite (canonical_key_respelled _ _ H), E1, E2, E3, E4. split; reflexivity.
Qed.
Print Assumptions C01_cell_order_ignores_dict_key_order.

Definition kP : str := [112].   (* "p" *)
Definition kZ : str := [122].   (* "z" *)
Example C01_respelled_nonvacuous :
  let a := mkMeta None None None None None None [] [(kP, MStr [119]); (kZ, MStr [65])] in
  let b := mkMeta None None None None None None [] [(kZ, MStr [65]); (kP, MStr [119])] in
  respelled a b /\ a <> b /\ canonical_key a = canonical_key b.
Proof.
  cbv zeta. split; [|split; [discriminate|vm_compute; reflexivity]].
  unfold respelled; cbn. repeat split; try reflexivity; try apply perm_swap; try constructor;
    repeat (constructor; cbn; try tauto); cbn; intuition discriminate.
Qed.
