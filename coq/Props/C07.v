(* C07 -- JSON / dict export and import are exact inverses (bermuda/io/json.py).

   Model: Model/Json.v.  [encode L] = triangle_to_dict (what TriangleEncoder hands to json.dumps),
   [decode L] = json.loads(text, cls=TriangleDecoder) followed by the class check of Triangle(...),
   i.e. the list handed to Triangle() (which sorts it: C01).  The decoder is the bottom-up object_hook
   rewrite applied to EVERY JSON object (also `values`, `details`, `loss_details`).  Dates are (y,m,d)
   triples and their ISO text is modelled (glibc strftime does not pad the year; strptime is read
   strictly as DDDD-DD-DD).  The JSON text layer (json.dumps/loads) is trusted.  [std_layout] is the
   table of key names / presence conditions / dispatch order / defaults that T-json regenerates from
   /repo on every run (GenProps/C07_json.v proves GenJson.layout = std_layout).

   Hypotheses of the round trip, all Boolean and explicit ([wf_tri std_layout t], [grouped t]):
     - every cell passes the constructors' checks (period_end >= period_start, evaluation_date >=
       period_start and != date.max, prev < evaluation date), prev present iff IncrementalCell,
       all cells of one class;
     - dates are valid calendar dates with 1000 <= year (N3: below 1000 the text is not re-readable);
     - dictionaries (values, details, loss_details) have unique keys;
     - HOOK-INERT KEYS: no values / details / loss_details dictionary contains "slices", or "cells",
       or all three of "period_start","period_end","values" (N1: otherwise import raises -- refuted below);
     - int64 sample arrays are non-empty and within int64 (N2: np.array([]) is float64);
     - [grouped t]: cells of one slice are contiguous (true of every Triangle: sorted by metadata
       first) and Python-equal metadata are IDENTICAL (N4, by design: tlz.groupby keys on Metadata.__eq__,
       under which 1 == 1.0 == True and dict order is ignored; such cells are one slice and all get
       the first cell's representation).  Without it [C07_roundtrip_any_order] says what comes back.
   Detail values: str / int / float / bool / None; cell values: int / float / bool / None / 1-d int64
   or float64 arrays; floats are opaque payloads (NaN/inf included: json's default allow_nan). *)
From Coq Require Import ZArith List Bool.
From Bermuda Require Import Model.Base Model.Json Proofs.JsonBase Proofs.JsonRoundtrip Proofs.JsonShape.
Import ListNotations.
Open Scope Z_scope.

Theorem C07_roundtrip : forall t, wf_tri std_layout t = true -> grouped t = true ->
  decode std_layout (encode std_layout t) = Ok (map retag t).
Proof. exact decode_encode. Qed.
Print Assumptions C07_roundtrip.

(* without [grouped]: every cell comes back, slice by slice, carrying the slice's first metadata *)
Theorem C07_roundtrip_any_order : forall t, wf_tri std_layout t = true ->
  decode std_layout (encode std_layout t) = Ok (regroup t).
Proof. exact decode_encode_general. Qed.
Print Assumptions C07_roundtrip_any_order.

(* int-versus-float scalars, None, arrays with dtype and order: the i-th cell's field dictionary is
   the original one, constructor by constructor *)
Theorem C07_values_preserved : forall t cs, wf_tri std_layout t = true -> grouped t = true ->
  decode std_layout (encode std_layout t) = Ok cs ->
  map w_vals cs = map w_vals t /\ map w_meta cs = map w_meta t /\
  map (fun c => (w_ps c, w_pe c, w_ev c, w_prev c)) cs = map (fun c => (w_ps c, w_pe c, w_ev c, w_prev c)) t /\
  map w_kind cs = map (fun c => retag_kind (w_kind c)) t.
Proof. exact values_preserved. Qed.
Print Assumptions C07_values_preserved.

(* prev_evaluation_date is present in a cell object iff the cell is incremental, and then the reader
   builds an IncrementalCell (basis preserved) *)
Theorem C07_prev_iff_incremental : forall c,
  match enc_cell std_layout c with
  | JObj kv => has_key k_prev kv = is_inc_kind (w_kind c)
  | _ => False
  end.
Proof. exact prev_iff_incremental. Qed.
Print Assumptions C07_prev_iff_incremental.

(* each slice's metadata appears once: one object per group, group keys pairwise Python-unequal,
   the groups partition the cells, metadata keys occur at slice level only *)
Theorem C07_metadata_once : forall t,
  encode std_layout t = JObj [(k_slices, JArr (map (enc_slice std_layout) (groups t)))] /\
  pairwise (fun g1 g2 => meta_pyeq (fst g1) (fst g2) = false) (groups t) /\
  Permutation.Permutation (flat_map snd (groups t)) t /\
  (forall c, match enc_cell std_layout c with
             | JObj kv => forallb (fun k => str_mem k [k_ps; k_pe; k_ev; k_prev; k_values]) (keys kv) = true
             | _ => False end).
Proof. exact metadata_once. Qed.
Print Assumptions C07_metadata_once.

(* plain serialisers: [tri_upto t j _] says that j is the export of t with the members of EVERY object
   (top, slice, details, loss_details, cell, values) listed in an arbitrary order (Proofs/JsonShape.v:
   cell_upto / slice_upto / tri_upto; arrays keep their order).  Such a tree decodes to the same
   cells, dictionaries compared as Python compares them (up to order). *)
Theorem C07_key_order_irrelevant : forall t j gs', wf_tri std_layout t = true -> grouped t = true ->
  tri_upto t j gs' ->
  exists cs, decode std_layout j = Ok cs /\ Forall2 cell_equiv (map retag t) cs.
Proof. exact decode_upto. Qed.
Print Assumptions C07_key_order_irrelevant.

(* the decoder depends on an object only through membership tests and lookups: permuting the members
   of any object whose hook result is not a plain dict leaves the result unchanged (any tree) *)
Theorem C07_hook_ignores_member_order : forall kv kv2 r,
  hook std_layout (JObj kv) = Ok r -> (forall d, r <> PDict d) -> Permutation.Permutation kv kv2 ->
  nd (keys kv) = true -> hook std_layout (JObj kv2) = Ok r.
Proof. exact hook_obj_perm. Qed.
Print Assumptions C07_hook_ignores_member_order.

(* ------------------------------------------------------------------ refutations of the unrestricted statement *)
Definition lax_layout : layout :=    (* std_layout with no dispatch entry: hook_inert is vacuous *)
  mkLayout k_slices (L_meta_out std_layout) [k_risk] k_cells (L_cell_out std_layout) (L_prev_out std_layout)
           k_values true s_fmt [] k_slices (L_meta_in std_layout) k_cells k_values true k_prev KInc
           (L_dates_if std_layout) KCum (L_dates_else std_layout) s_fmt.
Definition mk1 (vals : list (str * cval)) (m : wmeta) : wcell :=
  mkWCell KCum (2020, 1, 1) (2020, 12, 31) (2020, 12, 31) None m vals.

(* N1 (known finding hook_key_collision): a field called "cells" satisfies every other hypothesis,
   is exported, and makes the import raise TypeError; likewise a detail key "slices" *)
Theorem C07_roundtrip_refuted :
  exists t, wf_tri lax_layout t = true /\ grouped t = true /\
            decode std_layout (encode std_layout t) = Err TypeError.
Proof. exists [mk1 [(k_cells, CInt 1)] default_wmeta]. vm_compute. repeat split; reflexivity. Qed.
Print Assumptions C07_roundtrip_refuted.
Theorem C07_roundtrip_refuted_detail_key :
  exists t, wf_tri lax_layout t = true /\ grouped t = true /\
            decode std_layout (encode std_layout t) = Err TypeError.
Proof.
  exists [mk1 [([97], CInt 1)] (mkWMeta (Some s_accident) None None None None None [(k_slices, DStr [120])] [])].
  vm_compute. repeat split; reflexivity.
Qed.

(* N2 (known finding empty_int64_array_dtype): an empty int64 array comes back float64 *)
Theorem C07_empty_int_array_refuted :
  decode std_layout (encode std_layout [mk1 [([97], CArrI [])] default_wmeta])
  = Ok [mk1 [([97], CArrF [])] default_wmeta].
Proof. vm_compute. reflexivity. Qed.

(* N3 (known finding iso_year_below_1000): the year is printed unpadded and the text is rejected *)
Theorem C07_year_below_1000_refuted :
  decode std_layout (encode std_layout
    [mkWCell KCum (999, 1, 1) (999, 12, 31) (999, 12, 31) None default_wmeta [([97], CInt 1)]])
  = Err ValueError.
Proof. vm_compute. reflexivity. Qed.

(* ------------------------------------------------------------------ the hypotheses are satisfiable *)
Definition ex_m1 : wmeta :=
  mkWMeta None (Some [85; 83]) None None None (Some (LFloat 512))
          [([110], DInt 3); ([115], DStr [195; 156]); ([98], DBool true); ([122], DNone)] [([112], DFloat 1536)].
Definition ex_m2 : wmeta := mkWMeta (Some s_accident) None (Some [85; 83; 68]) None None (Some (LInt 5)) [] [].
Definition ex_tri : list wcell :=
  [ mkWCell KInc (2020, 1, 1) (2020, 12, 31) (2021, 3, 31) (Some (2020, 12, 31)) ex_m1
            [([97], CInt 5); ([98], CArrF [1024; 1536]); ([99], CArrI [1; -2]); ([100], CNone)];
    mkWCell KInc (2020, 1, 1) (2020, 12, 31) (2021, 6, 30) (Some (2021, 3, 31)) ex_m1
            [([97], CFloat 5120); ([98], CArrF [])];
    mkWCell KInc (2020, 1, 1) (2020, 12, 31) (2021, 3, 31) (Some (2020, 12, 31)) ex_m2 [([97], CInt 7)];
    mkWCell KInc (2021, 1, 1) (2021, 12, 31) (2021, 12, 31) (Some (2021, 1, 1)) ex_m2 [] ].
(* risk_basis = None survives (F11, fixed) *)
Example C07_nonvacuous :
  wf_tri std_layout ex_tri = true /\ grouped ex_tri = true /\ length (groups ex_tri) = 2%nat /\
  decode std_layout (encode std_layout ex_tri) = Ok ex_tri /\ w_risk (w_meta (hd (mk1 [] ex_m2) ex_tri)) = None.
Proof. vm_compute. repeat split; reflexivity. Qed.

(* a non-identity arrangement: values swapped, cell members reversed, slice members rotated *)
Definition ex_c : wcell := mk1 [([97], CInt 5); ([98], CFloat 512)] ex_m2.
Definition ex_c' : wcell := mk1 [([98], CFloat 512); ([97], CInt 5)] ex_m2.
Definition ex_j : json :=
  JObj [(k_slices, JArr [JObj ((k_cells, JArr [JObj (rev (cell_members ex_c'))]) :: enc_meta std_layout ex_m2)])].
Example C07_key_order_nonvacuous :
  tri_upto [ex_c] ex_j [(ex_m2, [ex_c'])] /\ json_eqb ex_j (encode std_layout [ex_c]) = false /\
  decode std_layout ex_j = Ok [ex_c'].
Proof.
  split; [|split; vm_compute; reflexivity].
  change ex_j with (JObj [(k_slices, JArr (map fst [(JObj ((k_cells, JArr (map fst [(JObj (rev (cell_members ex_c')), ex_c')]))
                      :: enc_meta std_layout ex_m2), (with_details ex_m2 [] [], map snd [(JObj (rev (cell_members ex_c')), ex_c')]))]))]).
  change [(ex_m2, [ex_c'])] with (map snd [(JObj ((k_cells, JArr (map fst [(JObj (rev (cell_members ex_c')), ex_c')]))
                      :: enc_meta std_layout ex_m2), (with_details ex_m2 [] [], map snd [(JObj (rev (cell_members ex_c')), ex_c')]))]).
  constructor. change (groups [ex_c]) with [(ex_m2, [ex_c])]. constructor; [|constructor]. cbn [fst snd].
  constructor; cbn [fst snd]; try reflexivity.
  - constructor; [|constructor]. cbn [fst snd]. change ex_c' with (with_vals ex_c [([98], CFloat 512); ([97], CInt 5)]).
    constructor; [apply Permutation.perm_swap|apply Permutation.Permutation_rev].
  - apply Permutation.Permutation_sym. apply Permutation.Permutation_cons_append.
Qed.
