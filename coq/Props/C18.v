(** C18 -- Unit-changing utilities conserve amounts (currency, disaggregation, policy year, premium).

    Models: coq/Model/Units.v over exact rationals (== is Qeq).  Float rounding of the implementation is
    outside the model.  The list CURRENCY_FIELDS is a parameter [cf] here; coq/GenProps/C18_fields.v
    instantiates it with the list extracted from bermuda/utils/currency.py on every run and checks it
    against the documented list.

    Known finding F18: accident_quarter_to_policy_year conserves totals only if every accident quarter has a
    non-zero total share (hypothesis of C18_aq_to_py_conservation).  For the share table the code computes this
    holds whenever issuance is continuous (C18_aq_to_py_code_table_covers, so
    C18_aq_to_py_conservation_continuous has no such hypothesis); for non-continuous issuance with short policies
    it fails (C18_aq_to_py_code_table_refuted, C18_aq_to_py_refuted).  Known finding H1: a cell without any observable sub-period is dropped by
    disaggregate_experience (C18_disaggregate_unobservable_cell_vanishes); the conservation theorem needs
    at least one observable sub-period.  Known finding H3: valid weights whose observable prefix sums to zero
    raise ZeroDivisionError (C18_disaggregate_zero_prefix_raises); the conservation theorem needs a non-zero
    observable weight (the model surfaces the division by zero as an error, never as a value).

    Not a violation: fields of a cell that are not listed in `fields` do not appear in the sub-period cells.
    The property ("sub-periods whose values add up to the original") is read for the fields the caller asked to
    disaggregate (DESIGN 5/C18: "cells whose fields lie in `fields`").  An unsplit field could not be copied to
    the sub-periods without breaking additivity (re-aggregation would return n times the original), so dropping
    it is the only additive-consistent behaviour short of refusing; the model does the same ([sub_cell]) and the
    correspondence check pins the behaviour. *)
From Coq Require Import ZArith QArith Qabs List Bool Lia.
From Bermuda Require Import Model.Base Lib.Calendar Model.Summarize Model.Aggregate Proofs.CalendarP.
From Bermuda Require Import Model.Blend Model.Units Proofs.BlendP Proofs.UnitsP Proofs.UnitsQ Proofs.UnitsAgg Proofs.UnitsShare.
Import ListNotations.
Local Open Scope Q_scope.

(* ================================================================ convert_currency *)
(* cell count and order unchanged; every cell keeps type, period, dates and all metadata except that the
   currency becomes the target; cells already in the target currency keep every value; in the other slices
   exactly the fields in cf are multiplied by the slice's rate (same keys, same order), all others kept *)
Theorem C18_convert_currency : forall cf target rates cells out,
  convert_currency cf target rates cells = Ok out ->
  length out = length cells /\ Forall2 (conv_rel cf target rates) cells out.
Proof.
  intros cf target rates cells out H. apply convert_currency_spec in H. split; auto.
  symmetry. exact (Forall2_length' _ _ _ H).
Qed.
Print Assumptions C18_convert_currency.

(* a slice without currency, or in a currency without exchange rate, is refused *)
Theorem C18_convert_currency_refuses : forall cf target rates cells,
  Forall no_none_values cells ->
  Exists (fun c => match currency (cmeta c) with
                   | None => True
                   | Some cur => cur <> target /\ assoc cur rates = None
                   end) cells ->
  convert_currency cf target rates cells = Err ValueError.
Proof. exact convert_currency_refuses. Qed.
Print Assumptions C18_convert_currency_refuses.

(* ================================================================ disaggregate_experience *)
(* a cell with at least one observable sub-period is split into one cell per observable sub-period (same
   evaluation date and metadata); for every disaggregated field the sub-period values add up to the original,
   sample by sample (the weights are renormalised over the observable sub-periods) *)
Theorem C18_disaggregate_cell : forall res_new n ws fields c outs,
  disagg_cell res_new n ws fields c = Ok outs ->
  let subs := observable c (subperiods res_new n c) in
  (length subs <= length ws)%nat -> subs <> [] ->
  length outs = length subs /\
  map (fun o => (ps (uhdr o), pe (uhdr o))) outs = subs /\
  Forall (fun o => ev (uhdr o) = ev c /\ cmeta (uhdr o) = cmeta c /\ ckind (uhdr o) = KCell) outs /\
  forall f v k, mem_str f fields = true -> assoc f (cvals c) = Some v -> v <> VNone ->
    qsum (map (fun o => match uassoc f (uvals o) with Some u => usample k u | None => 0 end) outs)
    == vsample k v.
Proof. exact disagg_cell_spec. Qed.
Print Assumptions C18_disaggregate_cell.

(* aggregate o disaggregate = id at the original resolution, for a fully observable month-aligned cell
   (months a .. a+n*r-1 of any year >= 1: a > MINID = January of year 1; any n, r >= 1 -- in particular
   resolutions 3/6/12 with divisor sub-resolutions), fields in `fields`, any weights with non-zero sum.
   Calendar facts: wp-basis's unbounded Proofs/CalendarP.v.  Tie: Calendar.addm is the source's float-based
   add_months only where C12's bridge theorem says so (month-aligned dates of 1970-2100); outside that range the
   statement is about the model.
   Aggregate side: wp-summ's Model/Aggregate.v, through its loop-free specification [ref_slice] (closed-form
   windows, the function C08's agg_ref applies to every slice; C08 ties it to the walk model `aggregate` and to
   the code on every run) and its lemma scv_sum_entry (= C08_window_field_is_sum).
   Adapter: the Q-valued sub-period cells are read as Base cells with values n/1024 ([cell_of_ucell]); the
   statement is for disaggregations exactly representable in both (cs').
   Conclusion: whenever the aggregation yields a result it is exactly ONE cell with the original period,
   evaluation date and metadata, and every disaggregated additive field carries numerically the original value
   (the implementation returns floats for ints, hence `value_numeq`).
   What is left to the per-case check on the real code (harness/c18.py, oracle_reaggregate): non-representable
   (non-dyadic) quotients, and the agreement of ref_slice with the walk model / the code (C08's tie). *)
Theorem C18_disaggregate_roundtrip : forall wavg rules nl fields c a (r n : nat) ws outs cs' eo prem out,
  (CalendarP.MINID < a)%Z -> (0 < r)%nat -> (0 < n)%nat ->
  aligned c a (Z.of_nat (n * r)) -> (pe c <= ev c)%Z ->
  length ws = n -> ~ qsum ws == 0 ->
  disagg_cell r n ws fields c = Ok outs ->
  Forall2 (fun o c' => cell_of_ucell o = Some c') outs cs' ->
  ref_slice wavg rules nl (mkArgs (Some (RMonth (Z.of_nat (n * r)))) None (ps c - 1)%Z eo prem) cs' = Ok out ->
  exists vals,
    out = [mkCell KCum (ps c) (pe c) (ev c) None (cmeta c) vals] /\
    forall f v v', Units.mem_str f fields = true -> assoc f (cvals c) = Some v -> v <> VNone ->
      In (f, v') vals -> lookup_rule rules f = Some (RSum f) ->
      (prem = true \/ Summarize.mem_str f nl = false) -> value_numeq v' v.
Proof. exact disaggregate_then_aggregate. Qed.
Print Assumptions C18_disaggregate_roundtrip.

(* ... lifted to a whole slice: fully observable month-aligned cells on ONE period grid (base month a0,
   resolution n*r; any number of periods and evaluation dates, pairwise different coordinates), each disaggregated
   into n sub-periods (weights may differ per cell) and adapted; `blocks` pairs every original cell with its
   sub-period cells.  Re-aggregating ALL sub-period cells of the slice at the original resolution (ref_slice, i.e.
   what agg_ref does per slice -- a multi-slice triangle is handled slice by slice) returns, whenever it returns
   anything: one output cell per original coordinate and vice versa, no duplicates, the original metadata, each
   original cell's sub-periods landing in its own window, every disaggregated additive field numerically the
   original value.  (That summarize_cell_values succeeds stays a hypothesis: `= Ok out`.) *)
Theorem C18_disaggregate_roundtrip_slice : forall wavg rules nl fields a0 (r n : nat) blocks eo prem out,
  (CalendarP.MINID < a0)%Z -> (0 < r)%nat -> (0 < n)%nat ->
  Forall (block_ok fields a0 r n) blocks ->
  NoDup (map (fun b => coord3 (fst b)) blocks) ->
  ref_slice wavg rules nl (mkArgs (Some (RMonth (Z.of_nat (n * r)))) None (month_start a0 - 1)%Z eo prem)
            (concat (map snd blocks)) = Ok out ->
  NoDup (map coord3 out) /\
  (forall b, In b blocks -> exists o, In o out /\ coord3 o = coord3 (fst b)) /\
  (forall o, In o out ->
     exists b, In b blocks /\ coord3 o = coord3 (fst b) /\ ckind o = KCum /\ cmeta o = cmeta (fst b) /\
       forall f v v', Units.mem_str f fields = true -> assoc f (cvals (fst b)) = Some v -> v <> VNone ->
         In (f, v') (cvals o) -> lookup_rule rules f = Some (RSum f) ->
         (prem = true \/ Summarize.mem_str f nl = false) -> value_numeq v' v).
Proof. exact disaggregate_then_aggregate_slice. Qed.
Print Assumptions C18_disaggregate_roundtrip_slice.

(* the amount-level core, for ANY dates and any (also non-representable) values: the sub-period cells of one
   original cell and evaluation date add up to the original value *)
Theorem C18_disaggregate_amounts : forall res_new n ws fields c outs,
  disagg_cell res_new n ws fields c = Ok outs ->
  (length (observable c (subperiods res_new n c)) <= length ws)%nat ->
  observable c (subperiods res_new n c) <> [] ->
  forall f v k, Units.mem_str f fields = true -> assoc f (cvals c) = Some v -> v <> VNone ->
    qsum (map (fun o => match uassoc f (uvals o) with Some u => usample k u | None => 0 end) outs)
    == vsample k v.
Proof. intros. eapply disagg_cell_spec; eauto. Qed.
Print Assumptions C18_disaggregate_amounts.

(* known finding H1: no observable sub-period => the cell silently vanishes *)
Theorem C18_disaggregate_unobservable_cell_vanishes : forall res_new n ws fields c,
  observable c (subperiods res_new n c) = [] -> disagg_cell res_new n ws fields c = Ok [].
Proof. exact disagg_cell_unobservable. Qed.
Print Assumptions C18_disaggregate_unobservable_cell_vanishes.

(* a weight list whose sum is not 1 (|sum - 1| > 1e-12 in exact arithmetic, i.e. visibly not 1 in binary64: the
   code tests `sum(w) == 1`) is refused with ValueError -- it is never applied unscaled *)
Theorem C18_disaggregate_refuses_weight_sum : forall rt rn ws fields tf cells,
  (rn < rt)%nat -> (rt mod rn = 0)%nat -> existsb (fun f => Units.mem_str f fields) tf = true ->
  ~ Qabs (qsum ws - 1) <= wtol ->
  disaggregate_experience rt rn (Some ws) fields tf cells = DCells (Err ValueError).
Proof. exact disagg_refuses_weight_sum. Qed.
Print Assumptions C18_disaggregate_refuses_weight_sum.

(* known finding H3: a weight vector that passes the validation (entries in [0,1], sum 1) but whose observable
   prefix sums to zero makes the renormalisation divide by zero: the call raises instead of splitting the cell *)
Theorem C18_disaggregate_zero_prefix_raises : forall res_new n ws fields c,
  observable c (subperiods res_new n c) <> [] ->
  qsum (firstn (length (observable c (subperiods res_new n c))) ws) == 0 ->
  disagg_cell res_new n ws fields c = Err OtherError.
Proof. exact disagg_cell_zero_prefix. Qed.
Print Assumptions C18_disaggregate_zero_prefix_raises.

Theorem C18_disaggregate_dispatch : forall rt rn w fields tf cells,
  (rn = rt -> disaggregate_experience rt rn w fields tf cells = DSame) /\
  ((rt < rn)%nat -> disaggregate_experience rt rn w fields tf cells = DCells (Err ValueError)) /\
  ((rn < rt)%nat -> (rt mod rn <> 0)%nat -> existsb (fun f => mem_str f fields) tf = true ->
     disaggregate_experience rt rn w fields tf cells = DCells (Err ValueError)).
Proof.
  intros. split; [intro; subst; apply disagg_same|]. split; [apply disagg_refuses_coarser|apply disagg_refuses_nondivisor].
Qed.
Print Assumptions C18_disaggregate_dispatch.

(* ================================================================ accident_quarter_to_policy_year *)
(* for ANY raw share table: if every accident quarter evaluated at evd has a non-zero total share, then for
   every field and sample the policy years together receive exactly the accident quarters' total *)
Theorem C18_aq_to_py_conservation : forall ep cells evd f k,
  (forall c, In c (cells_at evd cells) -> ~ total_share ep (cperiod c) == 0) ->
  out_amount ep cells evd f k == in_amount cells evd f k.
Proof. exact aq_conservation. Qed.
Print Assumptions C18_aq_to_py_conservation.

(* the share table THE CODE computes (model: code_share_table = policy_years_covered +
   _policy_earned_premium_share_by_month + monthly_ep_to_quarterly_ep at month-id level, origin on the first of a
   month; compared with the table recorded from the implementation on every run).  With continuous issuance every
   period of the triangle containing the first day of a month between the first period's start month f and the
   last period's end month e has a non-zero total share, for every policy length L >= 1 and origin month ... *)
Theorem C18_aq_to_py_code_table_covers : forall L quarters f e om q j,
  (1 <= L)%Z -> In q quarters -> (f <= j <= e)%Z -> in_period q (month_start j) = true ->
  ~ total_share (code_share_table true L quarters (py_start_ids (py_first_start f om) e)) q == 0.
Proof. exact code_table_covers. Qed.
Print Assumptions C18_aq_to_py_code_table_covers.

(* ... hence conservation is unconditional for continuous issuance *)
Theorem C18_aq_to_py_conservation_continuous : forall L quarters f e om cells evd fld k,
  (1 <= L)%Z ->
  (forall c, In c (cells_at evd cells) ->
     In (cperiod c) quarters /\ exists j, (f <= j <= e)%Z /\ in_period (cperiod c) (month_start j) = true) ->
  let ep := code_share_table true L quarters (py_start_ids (py_first_start f om) e) in
  out_amount ep cells evd fld k == in_amount cells evd fld k.
Proof. exact aq_conservation_continuous. Qed.
Print Assumptions C18_aq_to_py_conservation_continuous.

(* F18, finer cut: with non-continuous issuance (all premium written in the first month of the policy year) the
   earning months of policy year s are s .. s+L; for policies of at least 11 months they tile the calendar and
   conservation holds as well; for shorter policies the months s+L+1 .. s+11 earn nothing (refutation below). *)
Theorem C18_aq_to_py_conservation_noncontinuous_long_policies : forall L quarters f e om cells evd fld k,
  (11 <= L)%Z ->
  (forall c, In c (cells_at evd cells) ->
     In (cperiod c) quarters /\ exists j, (f <= j <= e)%Z /\ in_period (cperiod c) (month_start j) = true) ->
  let ep := code_share_table false L quarters (py_start_ids (py_first_start f om) e) in
  out_amount ep cells evd fld k == in_amount cells evd fld k.
Proof. exact aq_conservation_noncontinuous. Qed.
Print Assumptions C18_aq_to_py_conservation_noncontinuous_long_policies.

(* F18 with the code's own table: non-continuous issuance, 6-month policies, the four quarters of 2020 (month ids
   600..611), origin January: the fourth quarter gets no share at all *)
Definition ex_quarters : list period :=
  [(737425, 737515); (737516, 737606); (737607, 737698); (737699, 737790)]%Z.
Theorem C18_aq_to_py_code_table_refuted :
  Qeq_bool (total_share (code_share_table false 6 ex_quarters (py_start_ids (py_first_start 600 1) 611))
                        (737699, 737790)%Z) 0 = true
  /\ in_period (737699, 737790)%Z (month_start 609) = true.
Proof. split; vm_compute; reflexivity. Qed.
Print Assumptions C18_aq_to_py_code_table_refuted.

(* out_amount is what the emitted cells carry: sample k of field f of the policy-year cell with table tbl is
   the inner sum of out_amount (policy years that emit no cell, or no such field, receive 0: contrib = 0) *)
Theorem C18_aq_to_py_cell_values : forall ep tbl cs f u,
  py_value ep tbl cs f = Ok u ->
  forall k, (k < ulen u)%nat -> usample k u = qsum (map (contrib ep tbl f k) cs).
Proof. exact py_value_sample. Qed.
Print Assumptions C18_aq_to_py_cell_values.

Theorem C18_aq_to_py_policy_basis : forall ep cells out,
  aq_to_py_slice ep cells = Ok out -> Forall (policy_cell ep) out.
Proof. exact aq_to_py_slice_policy. Qed.
Print Assumptions C18_aq_to_py_policy_basis.

Theorem C18_aq_to_py_refuses_ragged_right_edge : forall ep cells,
  flat_right_edge cells = false -> aq_to_py_slice ep cells = Err ValueError.
Proof. exact aq_to_py_refuses_ragged_edge. Qed.
Print Assumptions C18_aq_to_py_refuses_ragged_right_edge.

(* F18: without the hypothesis the statement is false -- a quarter that no policy year's table mentions *)
Definition pl : str := [112;97;105;100;95;108;111;115;115]%Z.       (* paid_loss *)
Definition ex_q1 : period := (737425, 737515)%Z.
Definition ex_q2 : period := (737516, 737606)%Z.
Definition ex_py : period := (737425, 737790)%Z.
Definition ex_aq (p : period) (v : Z) : cell :=
  mkCell KCum (fst p) (snd p) 737606%Z None default_meta [(pl, VNum (Num true v))].
Definition ex_cells : list cell := [ex_aq ex_q1 (1024 * 100); ex_aq ex_q2 (1024 * 60)].
Definition ex_ep_bad : share_table := [(ex_py, [(ex_q1, 1 # 2)])].               (* q2 uncovered *)
Definition ex_ep_good : share_table := [(ex_py, [(ex_q1, 1 # 2); (ex_q2, 1 # 4)])].
Theorem C18_aq_to_py_refuted :
  exists ep cells evd f k,
    covered ep cells = false /\
    (exists out, aq_to_py_slice ep cells = Ok out /\ length out = 1%nat) /\
    Qeq_bool (out_amount ep cells evd f k) (in_amount cells evd f k) = false.
Proof.
  exists ex_ep_bad, ex_cells, 737606%Z, pl, O. split; [vm_compute; reflexivity|]. split.
  - eexists. split; [vm_compute; reflexivity|reflexivity].
  - vm_compute. reflexivity.
Qed.
Print Assumptions C18_aq_to_py_refuted.

(* ================================================================ program_earned_premium *)
Theorem C18_premium_patterns_sum_to_volume : forall pv wp wres ep eres ores off c ow oe,
  program_earned_premium pv wp wres ep eres ores off c = Ok (ow, oe) ->
  qsum ow == pv /\ qsum oe == pv.
Proof. exact premium_sums. Qed.
Print Assumptions C18_premium_patterns_sum_to_volume.

Theorem C18_premium_nonnegative : forall pv wp wres ep eres ores off c ow oe,
  program_earned_premium pv wp wres ep eres ores off c = Ok (ow, oe) ->
  0 <= pv -> nonnegl wp -> nonnegl ep -> nonnegl ow /\ nonnegl oe.
Proof. exact premium_nonneg. Qed.
Print Assumptions C18_premium_nonnegative.

(* never more earned than written, at every output step, for patterns of any length *)
Theorem C18_premium_earned_le_written : forall pv wp wres ep eres ores off c ow oe,
  program_earned_premium pv wp wres ep eres ores off c = Ok (ow, oe) ->
  0 <= pv -> nonnegl wp -> nonnegl ep ->
  forall j, qsum (firstn j oe) <= qsum (firstn j ow).
Proof. exact premium_earned_le_written. Qed.
Print Assumptions C18_premium_earned_le_written.

(* ================================================================ non-vacuity *)
Definition usd : str := [85;83;68]%Z.
Definition eur : str := [69;85;82]%Z.
Definition ncl : str := [110]%Z.
Definition ex_meta (cur : option str) : meta := mkMeta None None cur None None None [] [].
Definition ex_cc (cur : option str) : cell :=
  mkCell KCum 737425%Z 737515%Z 737515%Z None (ex_meta cur)
         [(pl, VNum (Num true 10240)); (ncl, VNum (Num false 3072))].
Example C18_ex_convert :
  match convert_currency [pl] usd [(eur, mkRate true (5 # 4))] [ex_cc (Some eur); ex_cc (Some usd)] with
  | Ok [a; b] =>
      uvals a = [(pl, UNum true ((10240 # 1024) * (5 # 4))); (ncl, UKeep (VNum (Num false 3072)))]
      /\ currency (cmeta (uhdr a)) = Some usd /\ b = keep_cell (ex_cc (Some usd))
  | _ => False
  end
  /\ convert_currency [pl] usd [] [ex_cc (Some eur)] = Err ValueError
  /\ convert_currency [pl] usd [] [ex_cc None] = Err ValueError.
Proof. vm_compute. repeat split; reflexivity. Qed.

(* a 2020 annual cell evaluated 2020-09-30, quarters, weights 1/4 each: three observable quarters *)
Definition ex_dc : cell :=
  mkCell KCum 737425%Z 737790%Z 737698%Z None default_meta [(pl, VArr true [1024 * 90; 1024 * 30]%Z)].
Example C18_ex_disaggregate :
  exists outs, disagg_cell 3 4 [1#4; 1#4; 1#4; 1#4] [pl] ex_dc = Ok outs /\ length outs = 3%nat
    /\ observable ex_dc (subperiods 3 4 ex_dc) <> []
    /\ qsum (map (fun o => match uassoc pl (uvals o) with Some u => usample 0 u | None => 0 end) outs) == 90.
Proof.
  eexists. split; [vm_compute; reflexivity|]. split; [reflexivity|]. split; [vm_compute; discriminate|].
  vm_compute. reflexivity.
Qed.

(* the 2020 annual cell evaluated 2020-12-31 (month id 600), quarters with weights 1/8 3/8 1/4 1/4: the four
   sub-period cells are representable and aggregate back to the original cell *)
Definition ex_rc : cell :=
  mkCell KCum 737425%Z 737790%Z 737790%Z None default_meta [(pl, VNum (Num true (1024 * 100)))].
Example C18_ex_roundtrip :
  aligned ex_rc 600 (Z.of_nat (4 * 3)) /\
  exists outs cs',
    disagg_cell 3 4 [1#8; 3#8; 1#4; 1#4] [pl] ex_rc = Ok outs /\
    all_some (map cell_of_ucell outs) = Some cs' /\ length cs' = 4%nat /\
    ref_slice wavg_mask [(pl, RSum pl)] [] (mkArgs (Some (RMonth (Z.of_nat (4 * 3)))) None (ps ex_rc - 1)%Z 0%Z true) cs'
    = Ok [ex_rc].
Proof.
  split; [split; vm_compute; reflexivity|].
  eexists. eexists. split; [vm_compute; reflexivity|]. split; [vm_compute; reflexivity|].
  split; [reflexivity|]. vm_compute. reflexivity.
Qed.

(* two periods of one slice (2020 and 2021, grid base month 600): all eight sub-period cells re-aggregate to
   exactly the two original cells *)
Definition ex_rc2 : cell :=
  mkCell KCum 737791%Z 738155%Z 738155%Z None default_meta [(pl, VNum (Num true (1024 * 60)))].
Example C18_ex_roundtrip_slice :
  match disagg_cell 3 4 [1#8; 3#8; 1#4; 1#4] [pl] ex_rc, disagg_cell 3 4 [1#4; 1#4; 1#4; 1#4] [pl] ex_rc2 with
  | Ok o1, Ok o2 =>
      match all_some (map cell_of_ucell (o1 ++ o2)) with
      | Some cs => ref_slice wavg_mask [(pl, RSum pl)] [] (mkArgs (Some (RMonth 12)) None (month_start 600 - 1)%Z 0%Z true) cs
                   = Ok [ex_rc; ex_rc2]
      | None => False
      end
  | _, _ => False
  end.
Proof. vm_compute. reflexivity. Qed.

Example C18_ex_aq_to_py :
  covered ex_ep_good ex_cells = true
  /\ (forall c, In c (cells_at 737606%Z ex_cells) -> ~ total_share ex_ep_good (cperiod c) == 0)
  /\ out_amount ex_ep_good ex_cells 737606%Z pl 0 == 160.
Proof.
  split; [vm_compute; reflexivity|]. split.
  - intros c [H|[H|[]]]; subst c; vm_compute; discriminate.
  - vm_compute. reflexivity.
Qed.

Example C18_ex_code_table :     (* continuous issuance, 6-month policies: every quarter of 2020 is covered *)
  forallb (fun q => negb (Qeq_bool (total_share (code_share_table true 6 ex_quarters
                                                   (py_start_ids (py_first_start 600 1) 611)) q) 0)) ex_quarters = true
  /\ forallb (fun q => existsb (fun j => in_period q (month_start j)) (ids 600 611)) ex_quarters = true.
Proof. split; vm_compute; reflexivity. Qed.

Example C18_ex_premium :
  exists ow oe, program_earned_premium 1200 [1; 3] 3 [1; 1] 6 3 0 true = Ok (ow, oe)
    /\ length ow = 7%nat /\ nonnegl [1; 3] /\ nonnegl [1; 1] /\ 0 <= 1200.
Proof.
  eexists. eexists. split; [vm_compute; reflexivity|]. split; [reflexivity|].
  repeat split; try (repeat constructor; unfold Qle; simpl; lia).
Qed.
