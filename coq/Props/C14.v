(** C14 -- CSV, array-frame and Matrix forms round-trip coordinates, slices and numbers.
    PARTIAL by design (pandas text layer not modelled) and partial in proof:

    FULL STATEMENTS (kept visible; validated on every run by the correspondence check, which evaluates
    them inside Coq on the implementation's results -- checks "THEOREM wide/long/long CSV/array/matrix"):

      (W)  forall sp fn dn ln t, frame_spec_ok sp = true -> frame_hyps fn dn ln t = true ->
             exists out, wide_trip sp fn dn ln t = Ok out /\ out = floatify t
      (L)  ... long_trip sp dn ln t = Ok (floatify t)
      (Lc) ... long_trip_csv sp dn ln t = Ok out /\ cells_perm_eqb out (floatify_merged t) = true
             (the long CSV entry point has no loss_detail_cols: loss_details return as details)
      (A)  regular single-slice cumulative month-aligned t with one scalar field f and period length r:
             from_array (to_array t f) f r m  ~  floatify t
      (M)  month-aligned semi-regular t on one period grid, nested resolutions, >= 2 evaluation dates,
             cumulative (or incremental with consecutive columns):
             matrix_round_trip msp t fields = Ok out /\ Permutation out (floatify t)

    where frame_hyps (Model/Frame.v) lists every side condition the proofs and the real code force:
    non-empty triangle; every cell has >= 1 field and is all-scalar or all-sample with one common
    length >= 2 (cumulative) / all-scalar (incremental); risk_basis is not None (G3); detail values
    are strings or numbers (numbers come back as floats); field, detail and loss-detail names are
    pairwise distinct and distinct from the reserved column names; no two cells share coordinates
    and metadata; each cell lists its names in the order of the enumerations fn / dn / ln.
    CSV-level side conditions outside the table model: no string equal to a pandas NA token (G4),
    no string that parses as a number.

    PROVED below (for any number of cells, slices, scenarios): the key lemma (grouping keys separate
    any two rows that differ in ANY coordinate / metadata attribute / detail -- what F8 broke), hence
    every slice stays separate and the groups are exactly the cells (wide) / (cell, field) pairs
    (long); sample order is restored from the scenario column whatever the row order; a dict listed
    in enumeration order is rebuilt exactly; Matrix index inverse (see the MatrixIx theorems).
    The Metadata of a row is rebuilt as fl_meta m (NaN -> default), the values of a scalar cell are
    rebuilt as floats.  (M) is proved for cumulative scalar triangles whose cells carry every field;
    the reader half of (A) is proved.
    MISSING for (W)/(L): the writer lemma (to_*_rows produces one such block per cell, with these
    columns) and the assembly of the per-block lemmas into the end-to-end equation; for samples the
    per-block value reconstruction.  MISSING for (A): the writer half (to_array).  MISSING for (M):
    incremental triangles, cells with a subset of the fields.  All of these are checked by evaluation
    of the full statements inside Coq on every correspondence case. *)
From Coq Require Import ZArith List Bool Sorting.Permutation Sorting.Sorted.
From Bermuda Require Import Model.Base Lib.Calendar Model.Frame Model.MatrixIx
     Proofs.FrameLib Proofs.FrameKey Proofs.FrameGroups Proofs.FrameSort Proofs.FrameMeta Proofs.FrameValues
     Proofs.MatrixIxP Proofs.FrameExample.
Import ListNotations.
Local Open Scope Z_scope.

(** key lemma: equal grouping keys force equal coordinates, metadata columns and detail columns *)
Theorem C14_grouping_key_separates_partial :
  forall sp cols dcols lcols (r1 r2 : row),
  frame_spec_ok sp = true -> keys r1 = cols -> keys r2 = cols ->
  row_key (key_cols (fs_wide_key sp) cols dcols lcols) r1
  = row_key (key_cols (fs_wide_key sp) cols dcols lcols) r2 ->
  forall c, In c (coord_cols ++ meta_col_names ++ dcols) -> get c r1 = get c r2.
Proof. exact wide_key_separates. Qed.
Print Assumptions C14_grouping_key_separates_partial.

Theorem C14_long_grouping_key_separates_partial :
  forall sp cols dcols lcols (r1 r2 : row),
  frame_spec_ok sp = true -> keys r1 = cols -> keys r2 = cols ->
  row_key (key_cols (fs_long_key sp) cols dcols lcols) r1
  = row_key (key_cols (fs_long_key sp) cols dcols lcols) r2 ->
  forall c, In c ([c_ps; c_pe; c_ev; c_field] ++ meta_col_names ++ dcols ++ lcols) -> get c r1 = get c r2.
Proof. exact long_key_separates. Qed.
Print Assumptions C14_long_grouping_key_separates_partial.

(** ... hence equal keys give the same reconstructed Metadata and the same coordinates *)
Theorem C14_same_key_same_slice_partial :
  forall sp cols dcols lcols (r1 r2 : row),
  frame_spec_ok sp = true -> keys r1 = cols -> keys r2 = cols -> incl lcols dcols ->
  row_key (key_cols (fs_wide_key sp) cols dcols lcols) r1
  = row_key (key_cols (fs_wide_key sp) cols dcols lcols) r2 ->
  meta_of_row (filter (not_in lcols) dcols) lcols r1 = meta_of_row (filter (not_in lcols) dcols) lcols r2
  /\ get c_ps r1 = get c_ps r2 /\ get c_pe r1 = get c_pe r2 /\ get c_ev r1 = get c_ev r2.
Proof. exact wide_key_same_meta. Qed.
Print Assumptions C14_same_key_same_slice_partial.

(** every slice stays separate: one block of rows per cell (wide) in, exactly those blocks out *)
Theorem C14_wide_groups_are_cells_partial :
  forall sp cols dcols lcols (blocks : list (list row)),
  frame_spec_ok sp = true -> incl lcols dcols ->
  (forall b, In b blocks -> b <> []) ->
  (forall b r, In b blocks -> In r b -> keys r = cols) ->
  (forall b r, In b blocks -> In r b ->
     forall c, In c (coord_cols ++ meta_col_names ++ dcols) -> get c r = get c (rep b)) ->
  (forall i j, (i < j < length blocks)%nat ->
     exists c, In c (coord_cols ++ meta_col_names ++ dcols)
               /\ get c (rep (nth i blocks [])) <> get c (rep (nth j blocks []))) ->
  map snd (group_by key_eqb (row_key (key_cols (fs_wide_key sp) cols dcols lcols)) (concat blocks)) = blocks.
Proof. exact wide_groups_are_blocks. Qed.
Print Assumptions C14_wide_groups_are_cells_partial.

Theorem C14_long_groups_are_cell_fields_partial :
  forall sp cols dcols lcols (blocks : list (list row)),
  frame_spec_ok sp = true ->
  (forall b, In b blocks -> b <> []) ->
  (forall b r, In b blocks -> In r b -> keys r = cols) ->
  (forall b r, In b blocks -> In r b ->
     forall c, In c ([c_ps; c_pe; c_ev; c_field] ++ meta_col_names ++ dcols ++ lcols) -> get c r = get c (rep b)) ->
  (forall i j, (i < j < length blocks)%nat ->
     exists c, In c ([c_ps; c_pe; c_ev; c_field] ++ meta_col_names ++ dcols ++ lcols)
               /\ get c (rep (nth i blocks [])) <> get c (rep (nth j blocks []))) ->
  map snd (group_by key_eqb (row_key (key_cols (fs_long_key sp) cols dcols lcols)) (concat blocks)) = blocks.
Proof. exact long_groups_are_blocks. Qed.
Print Assumptions C14_long_groups_are_cell_fields_partial.

(** sample arrays keep their order through the scenario column, whatever order the rows arrive in *)
Theorem C14_sample_order_restored_partial :
  forall l l', Permutation l l' -> NoDup (map scen l) -> StronglySorted scen_le l -> sort_scen l' = l.
Proof. exact sort_scen_restores. Qed.
Print Assumptions C14_sample_order_restored_partial.

(** a details / values dict listed in enumeration order is rebuilt exactly from its columns *)
Theorem C14_dict_rebuilt_partial :
  forall (V W : Type) (g : V -> W) (U : list str), NoDup U -> forall d : list (str * V),
  keys d = filter (fun k => mem k (keys d)) U ->
  flat_map (fun c => match assoc c d with Some v => [(c, g v)] | None => [] end) U
  = map (fun kv => (fst kv, g (snd kv))) d.
Proof. exact @rebuild_dict. Qed.
Print Assumptions C14_dict_rebuilt_partial.

(** the hypotheses are satisfiable and the full statements hold on a non-trivial input: two slices
    that differ ONLY in country, non-monotone samples, mixed field coverage, int and float arrays *)
Example C14_nonvacuous :
  frame_spec_ok ref_spec = true /\ frame_hyps ex_fn ex_dn [] ex_tri = true /\ length ex_tri = 3%nat
  /\ wide_trip ref_spec ex_fn ex_dn [] ex_tri = Ok (floatify ex_tri)
  /\ long_trip ref_spec ex_dn [] ex_tri = Ok (floatify ex_tri)
  /\ frame_hyps ex_fn ex_dn [] ex_inc = true
  /\ wide_trip ref_spec ex_fn ex_dn [] ex_inc = Ok (floatify ex_inc)
  /\ long_trip ref_spec ex_dn [] ex_inc = Ok (floatify ex_inc).
Proof. vm_compute. repeat split; reflexivity. Qed.

(** F8: with the grouping key of the unrepaired readers the side condition fails and (W) is false *)
Theorem C14_pre_F8_key_refuted :
  frame_spec_ok pre_f8_spec = false
  /\ exists t, frame_hyps ex_fn ex_dn [] t = true /\ wide_trip pre_f8_spec ex_fn ex_dn [] t <> Ok (floatify t).
Proof. split; [vm_compute; reflexivity|]. exists ex_scalar. split; vm_compute; [reflexivity | discriminate]. Qed.
Print Assumptions C14_pre_F8_key_refuted.

(** F12: index with min(dev, exp) and inverse with dev: a holey triangle comes back with its
    development lag multiplied; with the same step on both sides it comes back unchanged *)
Theorem C14_pre_F12_steps_refuted :
  matrix_spec_ok old_mspec = false
  /\ matrix_round_trip old_mspec ex_holey [f_paid] <> Ok (floatify ex_holey)
  /\ matrix_round_trip ref_mspec ex_holey [f_paid] = Ok (floatify ex_holey).
Proof. split; [vm_compute; reflexivity|]. split; vm_compute; [discriminate | reflexivity]. Qed.
Print Assumptions C14_pre_F12_steps_refuted.

(* ---------------------------------------------------------------------------------- *)
(** NaN -> default and Metadata reconstruction: a row carrying the flat dict of m is read back as fl_meta m *)
Theorem C14_metadata_rebuilt_partial (m : meta) (r : row) (dn ln : list str) :
  meta_ok m = true -> NoDup dn -> NoDup ln ->
  ordered_in dn (keys (details m)) = true -> ordered_in ln (keys (loss_details m)) = true ->
  (forall n, In n meta_col_names -> get n r = get n (attr_dict m)) ->
  (forall n, In n dn -> get n r = get n (tdict (details m))) ->
  (forall n, In n ln -> get n r = get n (tdict (loss_details m))) ->
  meta_of_row dn ln r = fl_meta m.
Proof. exact (meta_rebuilt m r dn ln). Qed.
Print Assumptions C14_metadata_rebuilt_partial.

(** the values of a scalar cell are rebuilt as floats from its single row *)
Theorem C14_scalar_values_rebuilt_partial (fn : list str) (vals : list (str * value)) (r : row) :
  NoDup fn -> ordered_in fn (keys vals) = true ->
  forallb (fun kv => is_scalar (snd kv)) vals = true ->
  (forall f, In f fn -> get f r = field_entry (assoc f vals) 0) ->
  values_of [r] fn = Ok (map (fun kv => (fst kv, fl_value (snd kv))) vals).
Proof. exact (scalar_values_rebuilt fn vals r). Qed.
Print Assumptions C14_scalar_values_rebuilt_partial.

(** MatrixIndex: resolve (unresolve i) = i on the development axis, for any common step *)
Theorem C14_matrix_resolve_unresolve : forall k ix n, 0 < step_of k ix -> 0 <= n ->
  resolve_dev k ix (unresolve_dev k ix n) = Ok n.
Proof. exact resolve_unresolve_dev. Qed.
Print Assumptions C14_matrix_resolve_unresolve.

(** ... and unresolve (resolve lag) = lag for lags on the grid of the step *)
Theorem C14_matrix_unresolve_resolve : forall k ix lag, 0 < step_of k ix -> dev_origin ix <= lag ->
  (step_of k ix | lag - dev_origin ix) ->
  exists n, resolve_dev k ix lag = Ok n /\ 0 <= n /\ unresolve_dev k ix n = lag.
Proof. exact unresolve_resolve_dev. Qed.
Print Assumptions C14_matrix_unresolve_resolve.

(** experience axis *)
Theorem C14_matrix_resolve_unresolve_exp : forall ix n, 0 < exp_res ix -> 0 <= n ->
  0 <= exp_origin ix + n * exp_res ix <= 1571 ->
  resolve_exp ix (unresolve_exp_start ix n) = Ok n.
Proof. exact resolve_unresolve_exp. Qed.
Print Assumptions C14_matrix_resolve_unresolve_exp.

(** nested resolutions put every lag difference on the grid of min(dev, exp) *)
Theorem C14_matrix_nested_step_divides : forall ix a b, 0 < dev_res ix -> 0 < exp_res ix ->
  ((dev_res ix | exp_res ix) \/ (exp_res ix | dev_res ix)) ->
  (dev_res ix | a) -> (exp_res ix | b) -> (step_of SMin ix | a - b).
Proof. exact nested_step_divides. Qed.
Print Assumptions C14_matrix_nested_step_divides.

(** a cell on the grid: its indices turn back into its three dates (month ids 0..1571 = 1970-2100) *)
Theorem C14_matrix_coords_roundtrip : forall k ix s lag,
  0 < exp_res ix -> 0 < step_of k ix ->
  (exp_res ix | s - exp_origin ix) -> exp_origin ix <= s ->
  dev_origin ix <= lag -> (step_of k ix | lag - dev_origin ix) ->
  0 <= s -> 0 <= s + exp_res ix - 1 + lag -> s + exp_res ix - 1 <= 1571 ->
  s + exp_res ix - 1 + lag <= 1571 ->
  exists p d,
    resolve_exp ix (month_start s) = Ok p /\ resolve_dev k ix lag = Ok d /\
    cell_coords_from_index k ix p d
    = (month_start s, month_end (s + exp_res ix - 1), month_end (s + exp_res ix - 1 + lag)).
Proof. exact coords_roundtrip. Qed.
Print Assumptions C14_matrix_coords_roundtrip.

(** F12: different steps in index and inverse are refuted *)
Theorem C14_matrix_mixed_steps_refuted : exists ix lag,
  0 < dev_res ix /\ 0 < exp_res ix /\ dev_origin ix <= lag /\
  (step_of SMin ix | lag - dev_origin ix) /\
  match resolve_dev SMin ix lag with
  | Ok n => unresolve_dev SDev ix n <> lag
  | Err _ => False
  end.
Proof. exact mixed_steps_refuted. Qed.
Print Assumptions C14_matrix_mixed_steps_refuted.

(** (M) for cumulative scalar triangles in which every cell carries every field (holey or complete, any number of slices): matrix_to_triangle (triangle_to_matrix t) is a permutation of floatify t.  Missing: incremental triangles, cells with a subset of the fields *)
Theorem C14_matrix_round_trip_partial : forall msp t fields ix,
  ms_resolve_step msp = SMin -> ms_inverse_step msp = SMin ->
  semi_regular t = true ->
  index_from_triangle t fields = Ok ix ->
  ((dev_res ix | exp_res ix) \/ (exp_res ix | dev_res ix)) ->
  NoDup fields ->
  (forall c, In c t -> grid_cell (exp_res ix) fields c) ->
  NoDup t ->
  (forall c c', In c t -> In c' t -> cmeta c = cmeta c' -> ps c = ps c' -> ev c = ev c' -> c = c') ->
  exists out, matrix_round_trip msp t fields = Ok out /\ Permutation out (floatify t).
Proof. exact matrix_round_trip_nested. Qed.
Print Assumptions C14_matrix_round_trip_partial.

(** (A), reader half: from_array rebuilds, row by row, the cells of the frame (period end = start + r months - 1 day, evaluation = period end + lag months).  Missing: the writer half (to_array groups the cells into these rows) *)
Theorem C14_array_frame_reader_partial : forall f m res lags (rows : list (Z * list (option Z))),
  Forall (fun r => arow_ok res lags (fst r)) rows ->
  from_array (mkAF lags (map (fun r => (month_start (fst r), snd r)) rows)) f res m
  = aframe_cells f m res lags rows.
Proof. exact from_array_rows. Qed.
Print Assumptions C14_array_frame_reader_partial.
