(** C14 -- CSV, array-frame and Matrix forms round-trip coordinates, slices and numbers.

    Strength: PARTIAL BY DESIGN only in the sense that the pandas layer (CSV text, dtype inference of
    read_csv, groupby(dropna=False), PeriodIndex) is not modelled: the model starts and stops at
    tables (lists of rows).  At the table level every clause of the property is now a theorem, for any
    number of cells, slices and scenarios and for ANY reader description with frame_spec_ok = true
    (the one generated from the current source satisfies it: GenProps/C14_Props.v instantiates the
    round-trip theorems at it):

      (W)   C14_wide_round_trip                 wide_trip sp fn dn ln t = Ok (floatify t)
            C14_wide_round_trip_any_row_order   ... for every permutation of the rows of the table
                                                (sample order restored from the scenario column)
            C14_wide_row_count                  one row per cell and scenario
      (L)   C14_long_round_trip                 long_trip sp dn ln t = Ok (floatify t)
      (Lc)  C14_long_csv_round_trip             the long CSV entry point has no loss_detail_cols:
                                                loss_details come back appended to details
            C14_long_row_count                  one row per cell, field and scenario
      (A)   C14_array_round_trip(_regular)      to_array / from_array inverse for single-slice triangles
                                                given by their row structure; equality for regular /
                                                ragged rows, permutation inside a row otherwise;
            C14_array_inferred_resolution       the default period_resolution (after the G5 repair)
      (M)   C14_matrix_round_trip               cumulative, complete or holey, cells with a subset of fields
            C14_matrix_round_trip_incremental   incremental with consecutive columns (excludes G6)
            index inverse: C14_matrix_resolve_unresolve, _unresolve_resolve, _resolve_unresolve_exp,
            _nested_step_divides, _coords_roundtrip
      refutations of the unrepaired readers: C14_pre_F8_key_refuted, C14_pre_F12_steps_refuted,
            C14_matrix_mixed_steps_refuted

    frame_hyps (Model/Frame.v) lists every side condition the proofs and the real code force:
    non-empty triangle; every cell has >= 1 field and is all-scalar or all-sample with one common
    length >= 2 (cumulative) / all-scalar (incremental); risk_basis is not None (G3); detail values
    are strings or numbers (0 and 0.0 included; numbers come back as floats); field, detail and
    loss-detail names are pairwise distinct and distinct from the reserved column names; no two cells
    share coordinates and metadata; each cell lists its names in the order of the enumerations
    fn / dn / ln (the code enumerates Python sets, so the order is a parameter of the model).
    Matrix / array frame: any month-aligned dates with year >= 1 (month ids >= MINID = -23628; the
    calendar facts are the unbounded ones of Proofs/CalendarP.v about Lib/Calendar.v -- Calendar.addm /
    month_id equal the source's add_months / month_to_id only where the C12 bridge theorem says so),
    one period grid with period length = exp_res (G1), nested resolutions (G2), >= 2 evaluation
    dates, metadata numbers already floats.
    CSV-level side conditions outside the table model: no string equal to a pandas NA token (G4),
    no string that parses as a number.

    STILL NOT THEOREMS (evaluated per case by the correspondence check only): the pandas layer; 
    array frames with further fields (the refusals of to_array for several slices / incremental input
    are C14_array_refuses_multi_slice / C14_array_refuses_incremental);
    one-element sample arrays and fields outside `fields` in the Matrix (both are not equalities of
    the implementation either); the rich-matrix inverse (only its step is tied, by matrix_spec_ok).
    The lemmas further down (grouping keys separate, groups are cells, sample order, dict / metadata /
    value reconstruction) are the building blocks of (W) and (L). *)
From Coq Require Import ZArith List Bool Sorting.Permutation Sorting.Sorted.
From Bermuda Require Import Model.Base Lib.Calendar Model.Frame Model.MatrixIx
     Proofs.FrameLib Proofs.FrameKey Proofs.FrameGroups Proofs.FrameSort Proofs.FrameMeta Proofs.FrameValues
     Proofs.FrameRow Proofs.FrameWide4 Proofs.FrameWide5 Proofs.FrameLong Proofs.FrameLongCount Proofs.MatrixIxU Proofs.MatrixIxU2 Proofs.MatrixIxUArr
     Proofs.FrameExample.
Import ListNotations.
Local Open Scope Z_scope.

(** (W) THE WIDE FORM END TO END, for every description with frame_spec_ok (in particular the one
    generated from the current source): all-scalar / all-sample cumulative triangles and scalar
    incremental triangles, any number of cells, slices and scenarios; every slice stays separate
    whatever attribute or detail distinguishes it; every number comes back as a float; sample arrays
    in scenario order.  [nrows c] = number of scenarios of the cell. *)
Theorem C14_wide_round_trip :
  forall sp fn dn ln t, frame_spec_ok sp = true -> frame_hyps fn dn ln t = true ->
  wide_trip sp fn dn ln t = Ok (floatify t).
Proof. exact wide_round_trip. Qed.
Print Assumptions C14_wide_round_trip.

(** (W, any row order) the wide reader does not depend on the order of the rows of the file: for every
    permutation of the written table it returns a permutation of floatify t (Triangle(...) sorts);
    sample arrays are restored from the scenario column *)
Theorem C14_wide_round_trip_any_row_order :
  forall sp fn dn ln t, frame_spec_ok sp = true -> frame_hyps fn dn ln t = true ->
  forall T T', to_wide_rows fn dn ln t = Ok T -> Permutation T T' ->
  exists out, from_wide_rows sp fn ln T' = Ok out /\ Permutation out (floatify t).
Proof. exact wide_round_trip_shuffled. Qed.
Print Assumptions C14_wide_round_trip_any_row_order.

(** (L) THE LONG FORM END TO END (reader given the loss-detail columns: the data-frame entry point) *)
Theorem C14_long_round_trip :
  forall sp fn dn ln t, frame_spec_ok sp = true -> frame_hyps fn dn ln t = true ->
  long_trip sp dn ln t = Ok (floatify t).
Proof. exact long_round_trip. Qed.
Print Assumptions C14_long_round_trip.

(** (Lc) the long CSV entry point has no loss_detail_cols argument: loss_details come back appended to
    details (floatify_merged); the slices still stay separate because detail names and loss-detail
    names are disjoint *)
Theorem C14_long_csv_round_trip :
  forall sp fn dn ln t, frame_spec_ok sp = true -> frame_hyps fn dn ln t = true ->
  long_trip_csv sp dn ln t = Ok (floatify_merged t).
Proof. exact long_round_trip_csv. Qed.
Print Assumptions C14_long_csv_round_trip.

(** one row per cell, field and scenario *)
Theorem C14_long_row_count :
  forall fn dn ln t, frame_hyps fn dn ln t = true ->
  exists T, to_long_rows dn ln t = Ok T
            /\ length T = list_sum (map (fun c => (nrows c * length (cvals c))%nat) t).
Proof. exact long_row_count. Qed.
Print Assumptions C14_long_row_count.

(** one row per cell and scenario *)
Theorem C14_wide_row_count :
  forall fn dn ln t, frame_hyps fn dn ln t = true ->
  exists T, to_wide_rows fn dn ln t = Ok T /\ length T = list_sum (map nrows t).
Proof. exact wide_row_count. Qed.
Print Assumptions C14_wide_row_count.

(** key lemma: equal grouping keys force equal coordinates, metadata columns and detail columns *)
Theorem C14_grouping_key_separates :
  forall sp cols dcols lcols (r1 r2 : row),
  frame_spec_ok sp = true -> keys r1 = cols -> keys r2 = cols ->
  row_key (key_cols (fs_wide_key sp) cols dcols lcols) r1
  = row_key (key_cols (fs_wide_key sp) cols dcols lcols) r2 ->
  forall c, In c (coord_cols ++ meta_col_names ++ dcols) -> get c r1 = get c r2.
Proof. exact wide_key_separates. Qed.
Print Assumptions C14_grouping_key_separates.

Theorem C14_long_grouping_key_separates :
  forall sp cols dcols lcols (r1 r2 : row),
  frame_spec_ok sp = true -> keys r1 = cols -> keys r2 = cols ->
  row_key (key_cols (fs_long_key sp) cols dcols lcols) r1
  = row_key (key_cols (fs_long_key sp) cols dcols lcols) r2 ->
  forall c, In c ([c_ps; c_pe; c_ev; c_field] ++ meta_col_names ++ dcols ++ lcols) -> get c r1 = get c r2.
Proof. exact long_key_separates. Qed.
Print Assumptions C14_long_grouping_key_separates.

(** ... hence equal keys give the same reconstructed Metadata and the same coordinates *)
Theorem C14_same_key_same_slice :
  forall sp cols dcols lcols (r1 r2 : row),
  frame_spec_ok sp = true -> keys r1 = cols -> keys r2 = cols -> incl lcols dcols ->
  row_key (key_cols (fs_wide_key sp) cols dcols lcols) r1
  = row_key (key_cols (fs_wide_key sp) cols dcols lcols) r2 ->
  meta_of_row (filter (not_in lcols) dcols) lcols r1 = meta_of_row (filter (not_in lcols) dcols) lcols r2
  /\ get c_ps r1 = get c_ps r2 /\ get c_pe r1 = get c_pe r2 /\ get c_ev r1 = get c_ev r2.
Proof. exact wide_key_same_meta. Qed.
Print Assumptions C14_same_key_same_slice.

(** every slice stays separate: one block of rows per cell (wide) in, exactly those blocks out *)
Theorem C14_wide_groups_are_cells :
  forall sp cols dcols lcols (blocks : list (list row)),
  frame_spec_ok sp = true -> incl lcols dcols ->
  (forall b, In b blocks -> b <> []) ->
  (forall b r, In b blocks -> In r b -> keys r = cols) ->
  (forall b r, In b blocks -> In r b ->
     forall c, In c (coord_cols ++ meta_col_names ++ dcols) -> get c r = get c (rep b)) ->
  (forall i j, (i < j < length blocks)%nat ->
     exists c, In c (coord_cols ++ meta_col_names ++ dcols)
               /\ get c (rep (nth i blocks [])) <> get c (rep (nth j blocks []))) ->
  map snd (group_by key_eqb (row_key (key_cols (fs_wide_key sp) cols dcols lcols)) (concat blocks)) = blocks.
Proof. exact wide_groups_are_blocks. Qed.
Print Assumptions C14_wide_groups_are_cells.

Theorem C14_long_groups_are_cell_fields :
  forall sp cols dcols lcols (blocks : list (list row)),
  frame_spec_ok sp = true ->
  (forall b, In b blocks -> b <> []) ->
  (forall b r, In b blocks -> In r b -> keys r = cols) ->
  (forall b r, In b blocks -> In r b ->
     forall c, In c ([c_ps; c_pe; c_ev; c_field] ++ meta_col_names ++ dcols ++ lcols) -> get c r = get c (rep b)) ->
  (forall i j, (i < j < length blocks)%nat ->
     exists c, In c ([c_ps; c_pe; c_ev; c_field] ++ meta_col_names ++ dcols ++ lcols)
               /\ get c (rep (nth i blocks [])) <> get c (rep (nth j blocks []))) ->
  map snd (group_by key_eqb (row_key (key_cols (fs_long_key sp) cols dcols lcols)) (concat blocks)) = blocks.
Proof. exact long_groups_are_blocks. Qed.
Print Assumptions C14_long_groups_are_cell_fields.

(** sample arrays keep their order through the scenario column, whatever order the rows arrive in *)
Theorem C14_sample_order_restored :
  forall l l', Permutation l l' -> NoDup (map scen l) -> StronglySorted scen_le l -> sort_scen l' = l.
Proof. exact sort_scen_restores. Qed.
Print Assumptions C14_sample_order_restored.

(** a details / values dict listed in enumeration order is rebuilt exactly from its columns *)
Theorem C14_dict_rebuilt :
  forall (V W : Type) (g : V -> W) (U : list str), NoDup U -> forall d : list (str * V),
  keys d = filter (fun k => mem k (keys d)) U ->
  flat_map (fun c => match assoc c d with Some v => [(c, g v)] | None => [] end) U
  = map (fun kv => (fst kv, g (snd kv))) d.
Proof. exact @rebuild_dict. Qed.
Print Assumptions C14_dict_rebuilt.

(** the hypotheses are satisfiable and the full statements hold on a non-trivial input: two slices
    that differ ONLY in country, non-monotone samples, mixed field coverage, int and float arrays *)
Example C14_nonvacuous :
  frame_spec_ok ref_spec = true /\ frame_hyps ex_fn ex_dn [] ex_tri = true /\ length ex_tri = 3%nat
  /\ wide_trip ref_spec ex_fn ex_dn [] ex_tri = Ok (floatify ex_tri)
  /\ long_trip ref_spec ex_dn [] ex_tri = Ok (floatify ex_tri)
  /\ frame_hyps ex_fn ex_dn [] ex_inc = true
  /\ wide_trip ref_spec ex_fn ex_dn [] ex_inc = Ok (floatify ex_inc)
  /\ long_trip ref_spec ex_dn [] ex_inc = Ok (floatify ex_inc).
Proof. vm_compute. repeat split; reflexivity. Qed.

(** F8: with the grouping key of the unrepaired readers the side condition fails and (W) is false *)
Theorem C14_pre_F8_key_refuted :
  frame_spec_ok pre_f8_spec = false
  /\ exists t, frame_hyps ex_fn ex_dn [] t = true /\ wide_trip pre_f8_spec ex_fn ex_dn [] t <> Ok (floatify t).
Proof. split; [vm_compute; reflexivity|]. exists ex_scalar. split; vm_compute; [reflexivity | discriminate]. Qed.
Print Assumptions C14_pre_F8_key_refuted.

(** F12: index with min(dev, exp) and inverse with dev: a holey triangle comes back with its
    development lag multiplied; with the same step on both sides it comes back unchanged *)
Theorem C14_pre_F12_steps_refuted :
  matrix_spec_ok old_mspec = false
  /\ matrix_round_trip old_mspec ex_holey [f_paid] <> Ok (floatify ex_holey)
  /\ matrix_round_trip ref_mspec ex_holey [f_paid] = Ok (floatify ex_holey).
Proof. split; [vm_compute; reflexivity|]. split; vm_compute; [discriminate | reflexivity]. Qed.
Print Assumptions C14_pre_F12_steps_refuted.

(* ---------------------------------------------------------------------------------- *)
(** NaN -> default and Metadata reconstruction: a row carrying the flat dict of m is read back as fl_meta m *)
Theorem C14_metadata_rebuilt (m : meta) (r : row) (dn ln : list str) :
  meta_ok m = true -> NoDup dn -> NoDup ln ->
  ordered_in dn (keys (details m)) = true -> ordered_in ln (keys (loss_details m)) = true ->
  (forall n, In n meta_col_names -> get n r = get n (attr_dict m)) ->
  (forall n, In n dn -> get n r = get n (tdict (details m))) ->
  (forall n, In n ln -> get n r = get n (tdict (loss_details m))) ->
  meta_of_row dn ln r = fl_meta m.
Proof. exact (meta_rebuilt m r dn ln). Qed.
Print Assumptions C14_metadata_rebuilt.

(** the values of a scalar cell are rebuilt as floats from its single row *)
Theorem C14_scalar_values_rebuilt (fn : list str) (vals : list (str * value)) (r : row) :
  NoDup fn -> ordered_in fn (keys vals) = true ->
  forallb (fun kv => is_scalar (snd kv)) vals = true ->
  (forall f, In f fn -> get f r = field_entry (assoc f vals) 0) ->
  values_of [r] fn = Ok (map (fun kv => (fst kv, fl_value (snd kv))) vals).
Proof. exact (scalar_values_rebuilt fn vals r). Qed.
Print Assumptions C14_scalar_values_rebuilt.

(** MatrixIndex: resolve (unresolve i) = i on the development axis, for any common step *)
Theorem C14_matrix_resolve_unresolve : forall k ix n, 0 < step_of k ix -> 0 <= n ->
  resolve_dev k ix (unresolve_dev k ix n) = Ok n.
Proof. exact resolve_unresolve_dev. Qed.
Print Assumptions C14_matrix_resolve_unresolve.

(** ... and unresolve (resolve lag) = lag for lags on the grid of the step *)
Theorem C14_matrix_unresolve_resolve : forall k ix lag, 0 < step_of k ix -> dev_origin ix <= lag ->
  (step_of k ix | lag - dev_origin ix) ->
  exists n, resolve_dev k ix lag = Ok n /\ 0 <= n /\ unresolve_dev k ix n = lag.
Proof. exact unresolve_resolve_dev. Qed.
Print Assumptions C14_matrix_unresolve_resolve.

(** experience axis *)
Theorem C14_matrix_resolve_unresolve_exp : forall ix n, 0 < exp_res ix -> 0 <= n ->
  MINID <= exp_origin ix + n * exp_res ix ->
  resolve_exp ix (unresolve_exp_start ix n) = Ok n.
Proof. exact resolve_unresolve_exp. Qed.
Print Assumptions C14_matrix_resolve_unresolve_exp.

(** nested resolutions put every lag difference on the grid of min(dev, exp) *)
Theorem C14_matrix_nested_step_divides : forall ix a b, 0 < dev_res ix -> 0 < exp_res ix ->
  ((dev_res ix | exp_res ix) \/ (exp_res ix | dev_res ix)) ->
  (dev_res ix | a) -> (exp_res ix | b) -> (step_of SMin ix | a - b).
Proof. exact nested_step_divides. Qed.
Print Assumptions C14_matrix_nested_step_divides.

(** a cell on the grid: its indices turn back into its three dates (any month id >= MINID, i.e. year >= 1) *)
Theorem C14_matrix_coords_roundtrip : forall k ix s lag,
  0 < exp_res ix -> 0 < step_of k ix ->
  (exp_res ix | s - exp_origin ix) -> exp_origin ix <= s ->
  dev_origin ix <= lag -> (step_of k ix | lag - dev_origin ix) ->
  MINID <= s ->
  exists p d,
    resolve_exp ix (month_start s) = Ok p /\ resolve_dev k ix lag = Ok d /\
    cell_coords_from_index k ix p d
    = (month_start s, month_end (s + exp_res ix - 1), month_end (s + exp_res ix - 1 + lag)).
Proof. exact coords_roundtrip. Qed.
Print Assumptions C14_matrix_coords_roundtrip.

(** F12: different steps in index and inverse are refuted *)
Theorem C14_matrix_mixed_steps_refuted : exists ix lag,
  0 < dev_res ix /\ 0 < exp_res ix /\ dev_origin ix <= lag /\
  (step_of SMin ix | lag - dev_origin ix) /\
  match resolve_dev SMin ix lag with
  | Ok n => unresolve_dev SDev ix n <> lag
  | Err _ => False
  end.
Proof. exact mixed_steps_refuted. Qed.
Print Assumptions C14_matrix_mixed_steps_refuted.



(* ---------------------------------------------------------------------------------- *)
(** (M) THE MATRIX FORM, cumulative: month-aligned (year >= 1) semi-regular triangle on one period grid (every period exactly exp_res long), nested resolutions, any number of slices, complete or holey, every cell carrying a non-empty subset of the fields (scalar numbers; metadata numbers already floats): matrix_to_triangle (triangle_to_matrix t) is a permutation of floatify t (Triangle(...) sorts) *)
Theorem C14_matrix_round_trip : forall msp t fields ix,
  ms_resolve_step msp = SMin -> ms_inverse_step msp = SMin ->
  semi_regular t = true ->
  index_from_triangle t fields = Ok ix ->
  ((dev_res ix | exp_res ix) \/ (exp_res ix | dev_res ix)) ->
  NoDup fields ->
  (forall c, In c t -> grid_cell_sub (exp_res ix) fields c) ->
  NoDup t ->
  (forall c c', In c t -> In c' t -> cmeta c = cmeta c' -> ps c = ps c' -> ev c = ev c' -> c = c') ->
  exists out, matrix_round_trip msp t fields = Ok out /\ Permutation out (floatify t).
Proof. exact (matrix_round_trip_nested_sub). Qed.
Print Assumptions C14_matrix_round_trip.

(** (M) incremental triangles whose prev_evaluation_date is the previous matrix column (period_start - 1 day in the first column): exactly the hypothesis that excludes finding G6 *)
Theorem C14_matrix_round_trip_incremental : forall msp t fields ix,
  ms_resolve_step msp = SMin -> ms_inverse_step msp = SMin ->
  semi_regular t = true ->
  index_from_triangle t fields = Ok ix ->
  ((dev_res ix | exp_res ix) \/ (exp_res ix | dev_res ix)) ->
  NoDup fields ->
  (forall c, In c t -> grid_cell_inc ix fields c) ->
  NoDup t ->
  (forall c c', In c t -> In c' t -> cmeta c = cmeta c' -> ps c = ps c' -> ev c = ev c' -> c = c') ->
  exists out, matrix_round_trip msp t fields = Ok out /\ Permutation out (floatify t).
Proof. exact (matrix_round_trip_incremental). Qed.
Print Assumptions C14_matrix_round_trip_incremental.

(** (A) THE ARRAY DATA FRAME: every single-slice cumulative month-aligned triangle with equal period lengths and one scalar field is cells_of_rows of its row structure (period start id, (lag, value) list); to_array then from_array returns its cells (metadata m as passed, numbers as floats) up to the order inside a period row *)
Theorem C14_array_round_trip : forall f m res rows, 0 < res -> rows_ok res rows ->
  exists af out,
    to_array (cells_of_rows f m res rows) f = Ok af /\ from_array af f res m = out /\
    Permutation out (map (arr_norm m) (cells_of_rows f m res rows)).
Proof. exact (array_round_trip). Qed.
Print Assumptions C14_array_round_trip.

(** (A) regular / ragged triangles (every row lists a prefix of one common lag list): equality, cells in order *)
Theorem C14_array_round_trip_regular : forall f m res rows L, 0 < res -> rows_ok res rows -> NoDup L ->
  (forall r, In r rows -> is_prefix (map fst (snd r)) L) ->
  exists af, to_array (cells_of_rows f m res rows) f = Ok af /\
             from_array af f res m = map (arr_norm m) (cells_of_rows f m res rows).
Proof. exact (array_round_trip_prefix). Qed.
Print Assumptions C14_array_round_trip_regular.

(** the right-hand side above is floatify of the cells when the metadata numbers are floats *)
Theorem C14_array_result_is_floatify f m res rows : fl_meta m = m ->
  map (arr_norm m) (cells_of_rows f m res rows) = floatify (cells_of_rows f m res rows).
Proof. exact (arr_norm_fl_cell f m res rows). Qed.
Print Assumptions C14_array_result_is_floatify.

(** period_resolution=None (after the G5 repair): the inferred resolution is the distance of the first two period starts *)
Theorem C14_array_inferred_resolution : forall res r0 r1 rows,
  MINID <= fst r0 -> MINID <= fst r1 -> fst r1 - fst r0 = res ->
  infer_resolution (array_of_rows (r0 :: r1 :: rows)) = Ok res.
Proof. exact (infer_resolution_rows). Qed.
Print Assumptions C14_array_inferred_resolution.

(** the array data frame refuses a triangle with several slices (ValueError) *)
Theorem C14_array_refuses_multi_slice : forall t f, t <> [] ->
  (exists a b, In a t /\ In b t /\ meta_seqb (cmeta a) (cmeta b) = false) ->
  to_array t f = Err ValueError.
Proof. exact to_array_refuses_multi_slice. Qed.
Print Assumptions C14_array_refuses_multi_slice.

(** ... and an incremental triangle (ValueError) *)
Theorem C14_array_refuses_incremental : forall t f c r, t = c :: r -> is_inc c = true ->
  to_array t f = Err ValueError.
Proof. exact to_array_refuses_incremental. Qed.
Print Assumptions C14_array_refuses_incremental.
