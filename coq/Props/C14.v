(** C14 -- CSV, array-frame and Matrix forms round-trip coordinates, slices and numbers.
    PARTIAL by design (pandas text layer not modelled) and partial in proof:

    FULL STATEMENTS (kept visible; validated on every run by the correspondence check, which evaluates
    them inside Coq on the implementation's results -- checks "THEOREM wide/long/long CSV/array/matrix"):

      (W)  forall sp fn dn ln t, frame_spec_ok sp = true -> frame_hyps fn dn ln t = true ->
             exists out, wide_trip sp fn dn ln t = Ok out /\ out = floatify t
      (L)  ... long_trip sp dn ln t = Ok (floatify t)
      (Lc) ... long_trip_csv sp dn ln t = Ok out /\ cells_perm_eqb out (floatify_merged t) = true
             (the long CSV entry point has no loss_detail_cols: loss_details return as details)
      (A)  regular single-slice cumulative month-aligned t with one scalar field f and period length r:
             from_array (to_array t f) f r m  ~  floatify t
      (M)  month-aligned semi-regular t on one period grid, nested resolutions, >= 2 evaluation dates,
             cumulative (or incremental with consecutive columns):
             matrix_round_trip msp t fields = Ok out /\ Permutation out (floatify t)

    where frame_hyps (Model/Frame.v) lists every side condition the proofs and the real code force:
    non-empty triangle; every cell has >= 1 field and is all-scalar or all-sample with one common
    length >= 2 (cumulative) / all-scalar (incremental); risk_basis is not None (G3); detail values
    are strings or numbers (numbers come back as floats); field, detail and loss-detail names are
    pairwise distinct and distinct from the reserved column names; no two cells share coordinates
    and metadata; each cell lists its names in the order of the enumerations fn / dn / ln.
    CSV-level side conditions outside the table model: no string equal to a pandas NA token (G4),
    no string that parses as a number.

    PROVED below (for any number of cells, slices, scenarios): the key lemma (grouping keys separate
    any two rows that differ in ANY coordinate / metadata attribute / detail -- what F8 broke), hence
    every slice stays separate and the groups are exactly the cells (wide) / (cell, field) pairs
    (long); sample order is restored from the scenario column whatever the row order; a dict listed
    in enumeration order is rebuilt exactly; Matrix index inverse (see the MatrixIx theorems).
    MISSING for (W)/(L): the writer lemma (to_*_rows produces one such block per cell) and the
    per-block cell reconstruction; both are checked by evaluation on every case. *)
From Coq Require Import ZArith List Bool Sorting.Permutation Sorting.Sorted.
From Bermuda Require Import Model.Base Model.Frame Model.MatrixIx
     Proofs.FrameLib Proofs.FrameKey Proofs.FrameGroups Proofs.FrameSort Proofs.FrameExample.
Import ListNotations.
Local Open Scope Z_scope.

(** key lemma: equal grouping keys force equal coordinates, metadata columns and detail columns *)
Theorem C14_grouping_key_separates_partial :
  forall sp cols dcols lcols (r1 r2 : row),
  frame_spec_ok sp = true -> keys r1 = cols -> keys r2 = cols ->
  row_key (key_cols (fs_wide_key sp) cols dcols lcols) r1
  = row_key (key_cols (fs_wide_key sp) cols dcols lcols) r2 ->
  forall c, In c (coord_cols ++ meta_col_names ++ dcols) -> get c r1 = get c r2.
Proof. exact wide_key_separates. Qed.
Print Assumptions C14_grouping_key_separates_partial.

Theorem C14_long_grouping_key_separates_partial :
  forall sp cols dcols lcols (r1 r2 : row),
  frame_spec_ok sp = true -> keys r1 = cols -> keys r2 = cols ->
  row_key (key_cols (fs_long_key sp) cols dcols lcols) r1
  = row_key (key_cols (fs_long_key sp) cols dcols lcols) r2 ->
  forall c, In c ([c_ps; c_pe; c_ev; c_field] ++ meta_col_names ++ dcols ++ lcols) -> get c r1 = get c r2.
Proof. exact long_key_separates. Qed.
Print Assumptions C14_long_grouping_key_separates_partial.

(** ... hence equal keys give the same reconstructed Metadata and the same coordinates *)
Theorem C14_same_key_same_slice_partial :
  forall sp cols dcols lcols (r1 r2 : row),
  frame_spec_ok sp = true -> keys r1 = cols -> keys r2 = cols -> incl lcols dcols ->
  row_key (key_cols (fs_wide_key sp) cols dcols lcols) r1
  = row_key (key_cols (fs_wide_key sp) cols dcols lcols) r2 ->
  meta_of_row (filter (not_in lcols) dcols) lcols r1 = meta_of_row (filter (not_in lcols) dcols) lcols r2
  /\ get c_ps r1 = get c_ps r2 /\ get c_pe r1 = get c_pe r2 /\ get c_ev r1 = get c_ev r2.
Proof. exact wide_key_same_meta. Qed.
Print Assumptions C14_same_key_same_slice_partial.

(** every slice stays separate: one block of rows per cell (wide) in, exactly those blocks out *)
Theorem C14_wide_groups_are_cells_partial :
  forall sp cols dcols lcols (blocks : list (list row)),
  frame_spec_ok sp = true -> incl lcols dcols ->
  (forall b, In b blocks -> b <> []) ->
  (forall b r, In b blocks -> In r b -> keys r = cols) ->
  (forall b r, In b blocks -> In r b ->
     forall c, In c (coord_cols ++ meta_col_names ++ dcols) -> get c r = get c (rep b)) ->
  (forall i j, (i < j < length blocks)%nat ->
     exists c, In c (coord_cols ++ meta_col_names ++ dcols)
               /\ get c (rep (nth i blocks [])) <> get c (rep (nth j blocks []))) ->
  map snd (group_by key_eqb (row_key (key_cols (fs_wide_key sp) cols dcols lcols)) (concat blocks)) = blocks.
Proof. exact wide_groups_are_blocks. Qed.
Print Assumptions C14_wide_groups_are_cells_partial.

Theorem C14_long_groups_are_cell_fields_partial :
  forall sp cols dcols lcols (blocks : list (list row)),
  frame_spec_ok sp = true ->
  (forall b, In b blocks -> b <> []) ->
  (forall b r, In b blocks -> In r b -> keys r = cols) ->
  (forall b r, In b blocks -> In r b ->
     forall c, In c ([c_ps; c_pe; c_ev; c_field] ++ meta_col_names ++ dcols ++ lcols) -> get c r = get c (rep b)) ->
  (forall i j, (i < j < length blocks)%nat ->
     exists c, In c ([c_ps; c_pe; c_ev; c_field] ++ meta_col_names ++ dcols ++ lcols)
               /\ get c (rep (nth i blocks [])) <> get c (rep (nth j blocks []))) ->
  map snd (group_by key_eqb (row_key (key_cols (fs_long_key sp) cols dcols lcols)) (concat blocks)) = blocks.
Proof. exact long_groups_are_blocks. Qed.
Print Assumptions C14_long_groups_are_cell_fields_partial.

(** sample arrays keep their order through the scenario column, whatever order the rows arrive in *)
Theorem C14_sample_order_restored_partial :
  forall l l', Permutation l l' -> NoDup (map scen l) -> StronglySorted scen_le l -> sort_scen l' = l.
Proof. exact sort_scen_restores. Qed.
Print Assumptions C14_sample_order_restored_partial.

(** a details / values dict listed in enumeration order is rebuilt exactly from its columns *)
Theorem C14_dict_rebuilt_partial :
  forall (V W : Type) (g : V -> W) (U : list str), NoDup U -> forall d : list (str * V),
  keys d = filter (fun k => mem k (keys d)) U ->
  flat_map (fun c => match assoc c d with Some v => [(c, g v)] | None => [] end) U
  = map (fun kv => (fst kv, g (snd kv))) d.
Proof. exact @rebuild_dict. Qed.
Print Assumptions C14_dict_rebuilt_partial.

(** the hypotheses are satisfiable and the full statements hold on a non-trivial input: two slices
    that differ ONLY in country, non-monotone samples, mixed field coverage, int and float arrays *)
Example C14_nonvacuous :
  frame_spec_ok ref_spec = true /\ frame_hyps ex_fn ex_dn [] ex_tri = true /\ length ex_tri = 3%nat
  /\ wide_trip ref_spec ex_fn ex_dn [] ex_tri = Ok (floatify ex_tri)
  /\ long_trip ref_spec ex_dn [] ex_tri = Ok (floatify ex_tri)
  /\ frame_hyps ex_fn ex_dn [] ex_inc = true
  /\ wide_trip ref_spec ex_fn ex_dn [] ex_inc = Ok (floatify ex_inc)
  /\ long_trip ref_spec ex_dn [] ex_inc = Ok (floatify ex_inc).
Proof. vm_compute. repeat split; reflexivity. Qed.

(** F8: with the grouping key of the unrepaired readers the side condition fails and (W) is false *)
Theorem C14_pre_F8_key_refuted :
  frame_spec_ok pre_f8_spec = false
  /\ exists t, frame_hyps ex_fn ex_dn [] t = true /\ wide_trip pre_f8_spec ex_fn ex_dn [] t <> Ok (floatify t).
Proof. split; [vm_compute; reflexivity|]. exists ex_scalar. split; vm_compute; [reflexivity | discriminate]. Qed.
Print Assumptions C14_pre_F8_key_refuted.

(** F12: index with min(dev, exp) and inverse with dev: a holey triangle comes back with its
    development lag multiplied; with the same step on both sides it comes back unchanged *)
Theorem C14_pre_F12_steps_refuted :
  matrix_spec_ok old_mspec = false
  /\ matrix_round_trip old_mspec ex_holey [f_paid] <> Ok (floatify ex_holey)
  /\ matrix_round_trip ref_mspec ex_holey [f_paid] = Ok (floatify ex_holey).
Proof. split; [vm_compute; reflexivity|]. split; vm_compute; [discriminate | reflexivity]. Qed.
Print Assumptions C14_pre_F12_steps_refuted.
