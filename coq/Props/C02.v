(** C02 -- `==` means identical contents; hash, membership and subset tests agree.

    Model: cell_pyeq / values_pyeq / tri_pyeq / meta_pyeq (Model/Order.v) and the hash keys and
    abc.Set mixins (Model/Eq.v).  That Cell.__eq__, IncrementalCell.__eq__, values_eq,
    Triangle.__eq__ and the hashed tuples of the SOURCE are these definitions is the generated
    obligation in GenProps/C02_gen.v, re-proved against /repo on every run.
    `dict_ok c` = the keys of c.values are distinct (always true of a Python dict). *)
From Coq Require Import ZArith List Bool Permutation.
From Bermuda Require Import Model.Base Model.Order Model.Eq Proofs.OrderP Proofs.EqP.
Import ListNotations.
Local Open Scope Z_scope.

(** a == b  iff  same number of cells and position by position equal cells *)
Theorem C02_triangle_eq_is_pointwise : forall l1 l2,
  tri_pyeq l1 l2 = true <-> length l1 = length l2 /\ Forall2 (fun a b => cell_pyeq a b = true) l1 l2.
Proof. exact tri_pyeq_char. Qed.

(** two cells are equal iff they agree on basis (Cell and CumulativeCell interchangeable), period,
    evaluation and previous evaluation date, metadata (`==`), field names and numerically equal
    values of equal shape *)
Theorem C02_cell_eq_characterised : forall a b, dict_ok a -> dict_ok b ->
  (cell_pyeq a b = true <->
   is_inc a = is_inc b /\ ps a = ps b /\ pe a = pe b /\ ev a = ev b /\ prev a = prev b
   /\ canonical_key (cmeta a) = canonical_key (cmeta b) /\ sort_nitems (cvals a) = sort_nitems (cvals b)).
Proof. exact cell_pyeq_char. Qed.
Print Assumptions C02_cell_eq_characterised.

(** reflexive, symmetric, transitive (NaN-free by construction: values are exact numbers) *)
Theorem C02_eq_is_an_equivalence : forall l1 l2 l3, tri_dict_ok l1 -> tri_dict_ok l2 -> tri_dict_ok l3 ->
  tri_pyeq l1 l1 = true
  /\ (tri_pyeq l1 l2 = true -> tri_pyeq l2 l1 = true)
  /\ (tri_pyeq l1 l2 = true -> tri_pyeq l2 l3 = true -> tri_pyeq l1 l3 = true).
Proof.
  intros l1 l2 l3 H1 H2 H3. repeat split.
  - now apply tri_pyeq_refl. - now apply tri_pyeq_sym. - now apply tri_pyeq_trans.
Qed.
Print Assumptions C02_eq_is_an_equivalence.

(** any single edit makes it False *)
Theorem C02_trailing_cell_detected : forall l c,
  tri_pyeq (l ++ [c]) l = false /\ tri_pyeq l (l ++ [c]) = false.
Proof. exact drop_trailing_detected. Qed.
Theorem C02_proper_prefix_detected : forall l1 l2, l2 <> [] -> tri_pyeq l1 (l1 ++ l2) = false.
Proof. exact prefix_detected. Qed.
Theorem C02_one_cell_edit_detected : forall l1 a a' l2, cell_pyeq a a' = false ->
  tri_pyeq (l1 ++ a :: l2) (l1 ++ a' :: l2) = false.
Proof. exact cell_edit_detected. Qed.
Theorem C02_any_component_edit_makes_cells_unequal : forall a b, dict_ok a -> dict_ok b ->
  (ps a <> ps b \/ pe a <> pe b \/ ev a <> ev b \/ prev a <> prev b
   \/ canonical_key (cmeta a) <> canonical_key (cmeta b)
   \/ sort_nitems (cvals a) <> sort_nitems (cvals b) \/ is_inc a <> is_inc b) ->
  cell_pyeq a b = false.
Proof. exact cell_component_edit. Qed.

(** equal Metadata, Cells and Triangles have equal hashes (hash keys), provided the class name is
    not hashed raw; and hashing it raw breaks the contract (defect F4) *)
Theorem C02_equal_metadata_equal_hash_key : forall a b,
  meta_pyeq a b = true <-> canonical_key a = canonical_key b.
Proof. exact meta_pyeq_key. Qed.
Theorem C02_equal_cells_equal_hash : forall comps a b, hash_comps_ok comps = true ->
  dict_ok a -> dict_ok b -> cell_pyeq a b = true -> cell_hash_key comps a = cell_hash_key comps b.
Proof. exact cell_eq_hash. Qed.
Theorem C02_equal_triangles_equal_hash : forall comps l1 l2, hash_comps_ok comps = true ->
  tri_dict_ok l1 -> tri_dict_ok l2 -> tri_pyeq l1 l2 = true -> tri_hash_key comps l1 = tri_hash_key comps l2.
Proof. exact tri_eq_hash. Qed.
Theorem C02_hashing_the_class_name_breaks_the_contract : forall comps, In HClassName comps ->
  exists a b, cell_pyeq a b = true /\ cell_hash_key comps a <> cell_hash_key comps b.
Proof. exact class_name_breaks_contract. Qed.
Print Assumptions C02_equal_triangles_equal_hash.

(** `cell in t`, `a <= b`, `a & b`, `a - b` are consistent with cell equality *)
Theorem C02_membership : forall t c, tri_contains t c = true <-> exists d, In d t /\ cell_pyeq d c = true.
Proof. exact contains_spec. Qed.
Theorem C02_subset : forall a b, tri_le a b = true <->
  (length a <= length b)%nat /\ forall c, In c a -> tri_contains b c = true.
Proof. exact le_spec. Qed.
Theorem C02_intersection : forall a b c, In c (tri_and_cells a b) <-> In c b /\ tri_contains a c = true.
Proof. exact and_spec. Qed.
Theorem C02_difference : forall a b c, In c (tri_sub_cells a b) <-> In c a /\ tri_contains b c = false.
Proof. exact sub_spec. Qed.
Theorem C02_intersection_difference_partition : forall a b c, In c b ->
  (In c (tri_and_cells a b) \/ In c (tri_sub_cells b a)) /\ ~ (In c (tri_and_cells a b) /\ In c (tri_sub_cells b a)).
Proof. exact and_sub_partition. Qed.

(** Non-vacuity *)
Definition exm : meta := mkMeta (Some [65]) None None None None (Some (Num false 1024)) [([100], MNum (Num false 1024))] [].
Definition exm' : meta := mkMeta (Some [65]) None None None None (Some (Num true 1024)) [([100], MBool true)] [].
Definition exa : cell := mkCell KCell 737425 737515 737515 None exm [([112], VNum (Num false 1024)); ([113], VNone)].
Definition exb : cell := mkCell KCum 737425 737515 737515 None exm' [([113], VNone); ([112], VNum (Num true 1024))].
Example C02_nonvacuous :
  cell_pyeq exa exb = true /\ cell_seqb exa exb = false
  /\ cell_hash_key [HBasis; HPs; HPe; HEv; HMeta; HValues] exa = cell_hash_key [HBasis; HPs; HPe; HEv; HMeta; HValues] exb
  /\ tri_pyeq [exa; exb] [exb; exa] = true /\ tri_pyeq [exa; exb] [exa] = false.
Proof. repeat split; vm_compute; reflexivity. Qed.
