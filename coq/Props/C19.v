(* C19 -- a torn .trib/.tribc file is never read as different data.

   For every well-formed triangle (hypotheses as in Props/C05.v) and EVERY byte offset n below the
   file length, reading the first n bytes either raises or returns exactly the first k cells, in
   order, unmodified ([parse] stops before the final Triangle(cells); the check validates on the
   implementation that the constructor leaves a leading segment of a sorted triangle unchanged).

   .tribc: zlib/gzip is not modelled.  ASSUMPTION (DESIGN 3, monitored on every run by the check):
   reading a truncated gzip member delivers a prefix of the plaintext and then RAISES when more is
   requested (a complete member returns b"" instead).  [parse_gen true] is the reader on such a
   stream; the theorem says every truncation -- whatever prefix of the plaintext it delivers, the
   whole plaintext included -- is rejected. *)
From Coq Require Import ZArith List Bool Lia.
From Bermuda Require Import Lib.Bytes Lib.BinParse Lib.StrSort Model.Binary Proofs.BinaryTop Props.C05.
Import ListNotations.
Open Scope Z_scope.

Theorem C19_prefix_safe : forall t n, wf t -> no_0x88_key t -> (n < length (ser t))%nat ->
  (exists e, parse (firstn n (ser t)) = RErr e) \/
  (exists k, parse (firstn n (ser t)) = ROk (firstn k (cells t))).
Proof. exact parse_prefix. Qed.
Print Assumptions C19_prefix_safe.

Theorem C19_compressed_truncation_raises : forall t n, wf t -> no_0x88_key t ->
  (n <= length (ser t))%nat -> exists e, parse_gen true (firstn n (ser t)) = RErr e.
Proof. exact parse_raising_prefix. Qed.
Print Assumptions C19_compressed_truncation_raises.

(* the same with the faithful writer (Python == as the metadata test): leading segments of what the
   whole file reads back as, [rep_py t] (= cells t on coherent triangles, see Props/C05.v) *)
Theorem C19_prefix_safe_faithful_writer : forall t n, wf t -> no_0x88_key t ->
  (n < length (ser_py t))%nat ->
  (exists e, parse (firstn n (ser_py t)) = RErr e) \/
  (exists k, parse (firstn n (ser_py t)) = ROk (firstn k (rep_py t))).
Proof. exact parse_prefix_py. Qed.
Print Assumptions C19_prefix_safe_faithful_writer.

Theorem C19_prefix_safe_coherent : forall t n, wf t -> no_0x88_key t -> coherentb t = true ->
  (n < length (ser_py t))%nat ->
  (exists e, parse (firstn n (ser_py t)) = RErr e) \/
  (exists k, parse (firstn n (ser_py t)) = ROk (firstn k (cells t))).
Proof. exact parse_prefix_py_coherent. Qed.

(* without no_0x88_key a prefix CAN be read as different data (same root cause as F9):
   the 137-field file cut anywhere after the first cell record... even uncut it yields a cell
   with fewer fields; here a strict prefix doing so *)
Theorem C19_prefix_refuted : exists t n, wf t /\ (n < length (ser t))%nat /\
  exists cs, parse (firstn n (ser t)) = ROk cs /\ forall k, cs <> firstn k (cells t).
Proof.
  exists f9_triangle, (length (ser f9_triangle) - 1)%nat.
  split; [vm_compute; reflexivity|]. split; [apply Nat.ltb_lt; vm_compute; reflexivity|].
  eexists. split; [vm_compute; reflexivity|].
  intros k. destruct k as [|k]; vm_compute; intros E; [discriminate|].
  injection E as E _. discriminate.
Qed.
Print Assumptions C19_prefix_refuted.

Example C19_nonvacuous :
  wf ex_tri /\ no_0x88_key ex_tri /\ (100 <? length (ser ex_tri))%nat = true /\
  (let n := (length (ser ex_tri) - 18)%nat in
   (n <? length (ser ex_tri))%nat = true /\ parse (firstn n (ser ex_tri)) = ROk (firstn 2 (cells ex_tri))) /\
  ((40 <? length (ser ex_tri))%nat = true /\ parse (firstn 40 (ser ex_tri)) = RErr EStruct).
Proof. vm_compute. repeat split; reflexivity. Qed.

(* the empty file (also what a truncated-to-nothing .tribc decompresses to) is rejected *)
Theorem C19_empty_file_rejected : parse [] = RErr EValue.
Proof. reflexivity. Qed.
