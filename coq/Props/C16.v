(** C16 -- Blending is a per-cell convex combination or mixture of the inputs.

    Model: coq/Model/Blend.v (exact rationals).  Every theorem quantifies over the two oracles
      fo   : iteration order of Python's set(cells[0].values.keys())
      draw : the index vectors returned by np.random.choice (one per blended cell and field)
    so the structure/membership statements hold for EVERY random generator.
    NOT proved here (properties of NumPy's generator, monitored by harness/c16.py only):
      "the choice is reproducible for a seed" and "follows the weights".
    Numbers are compared with == (Qeq).  Float rounding of the implementation is outside the model. *)
From Coq Require Import ZArith QArith Qabs List Bool Lia.
From Bermuda Require Import Model.Base Model.Blend Proofs.BlendP Proofs.BlendQ Proofs.BlendTop.
Import ListNotations.
Local Open Scope Q_scope.

(* ---------------------------------------------------------------- structure *)
(* one output cell per coordinate of the first triangle (its dictionary index), with that cell's type,
   period, dates and metadata; its fields are the first cell's fields *)
Theorem C16_structure : forall fo draw tris w m out,
  blend fo draw tris w m = Ok out ->
  exists t0 rest, tris = t0 :: rest /\
    map qhdr out = map (fun kc => hdr (snd kc)) (index_tri t0) /\
    Forall2 (fun o kc => map fst (qvals o) = fo (keys (cvals (snd kc)))) out (index_tri t0).
Proof. exact blend_structure. Qed.
Print Assumptions C16_structure.

(* for a well-formed first triangle (pairwise distinct coordinates): exactly its cells, in its order *)
Theorem C16_structure_wellformed : forall fo draw t0 rest w m out,
  blend fo draw (t0 :: rest) w m = Ok out -> NoDup (map coord_of t0) ->
  map qhdr out = map hdr t0 /\
  Forall2 (fun o c0 => map fst (qvals o) = fo (keys (cvals c0))) out t0.
Proof. exact blend_structure_nodup. Qed.
Print Assumptions C16_structure_wellformed.

(* every output cell is computed field by field from the cells found AT THE SAME COORDINATE in every input
   triangle (one per triangle, the first being the first triangle's cell), all with the same field set,
   using the i-th normalised weight vector *)
Theorem C16_cellwise : forall fo draw tris w m out,
  blend fo draw tris w m = Ok out ->
  exists t0 rest wl, tris = t0 :: rest /\ weight_list w (length t0) = Ok wl /\
    length out = length (index_tri t0) /\
    forall i o, nth_error out i = Some o ->
      exists k c0 wi cells,
        nth_error (index_tri t0) i = Some (k, c0) /\ In c0 t0 /\ k = coord_of c0 /\
        nth_error wl i = Some wi /\ at_coordinate tris k c0 cells /\
        qhdr o = hdr c0 /\ map fst (qvals o) = fo (keys (cvals c0)) /\
        Forall (fun c => keyset_eqb (keys (cvals c0)) (keys (cvals c)) = true) (tl cells) /\
        forall f v, In (f, v) (qvals o) -> blend_field (draw i f) cells wi m f = Ok v.
Proof. exact blend_fieldwise. Qed.
Print Assumptions C16_cellwise.

(* ---------------------------------------------------------------- weight forms *)
Theorem C16_weights_none : forall n i, (i < n)%nat ->
  exists wl, weight_list WNone n = Ok wl /\ nth_error wl i = Some None.
Proof. intros n i H. eexists. split; [reflexivity|]. apply nth_error_repeat. exact H. Qed.
Print Assumptions C16_weights_none.

Theorem C16_uniform_weights_convex : forall M, (M >= 1)%nat ->
  convex (eff_weights None M) /\ length (eff_weights None M) = M.
Proof. intros M H. split; [apply uniform_convex; exact H | apply uniform_length]. Qed.
Print Assumptions C16_uniform_weights_convex.

Theorem C16_weights_list : forall ws n i, (i < n)%nat ->
  exists wl, weight_list (WList ws) n = Ok wl /\ nth_error wl i = Some (Some ws).
Proof. intros ws n i H. eexists. split; [reflexivity|]. apply nth_error_repeat. exact H. Qed.
Print Assumptions C16_weights_list.

(* dict of global weights (each value a scalar / 1-element array): the same vector, in dict order, for all cells *)
Theorem C16_weights_dict_global : forall rows n i,
  rows <> [] -> Forall (fun r => length r = 1%nat) rows -> (i < n)%nat ->
  exists wl, weight_list (WDict rows) n = Ok wl /\ nth_error wl i = Some (Some (column rows 0)).
Proof.
  intros rows n i H1 H2 H3. eexists. split; [apply weight_list_dict_global; assumption|].
  apply nth_error_repeat. exact H3.
Qed.
Print Assumptions C16_weights_dict_global.

(* dict of per-cell arrays: cell i (canonical order of the first triangle) gets entry i of every array *)
Theorem C16_weights_dict_per_cell : forall rows n i,
  rows <> [] -> n <> 1%nat -> Forall (fun r => length r = n) rows -> (i < n)%nat ->
  exists wl, weight_list (WDict rows) n = Ok wl /\ nth_error wl i = Some (Some (column rows i)).
Proof.
  intros rows n i H1 H2 H3 H4. eexists. split; [apply weight_list_dict_cell; assumption|].
  apply (nth_error_map_seq (fun j => Some (column rows j))). exact H4.
Qed.
Print Assumptions C16_weights_dict_per_cell.

(* ---------------------------------------------------------------- linear *)
Theorem C16_linear : forall fo draw tris w out,
  blend fo draw tris w MLinear = Ok out ->
  exists t0 rest wl, tris = t0 :: rest /\ weight_list w (length t0) = Ok wl /\
    forall i o f v, nth_error out i = Some o -> In (f, v) (qvals o) ->
      exists k c0 wi cells vals vs xs,
        nth_error (index_tri t0) i = Some (k, c0) /\ nth_error wl i = Some wi /\
        at_coordinate tris k c0 cells /\
        field_vals cells f = Some vals /\ all_some (map samples vals) = Some vs /\
        v = QArr xs /\ length xs = max_len vs /\
        let ws := eff_weights wi (length vals) in
        length ws = length vs /\
        (forall j, (j < max_len vs)%nat -> nth j xs 0 = dot ws (map (fun x => pick x j) vs)) /\
        (convex ws -> forall j lo hi, (j < max_len vs)%nat ->
           Forall (fun x => lo <= pick x j /\ pick x j <= hi) vs -> lo <= nth j xs 0 /\ nth j xs 0 <= hi) /\
        (qsum ws == 1 -> forall j c, (j < max_len vs)%nat ->
           Forall (fun x => pick x j == c) vs -> nth j xs 0 == c).
Proof. exact blend_linear_top. Qed.
Print Assumptions C16_linear.

(* the same bound in the property's words: convex weights put the weighted sum of n >= 1 numbers between
   their minimum and their maximum *)
Theorem C16_convex_between_min_and_max : forall ws x xs,
  convex ws -> length ws = length (x :: xs) ->
  qmin_l x xs <= dot ws (x :: xs) /\ dot ws (x :: xs) <= qmax_l x xs.
Proof. exact dot_convex_minmax. Qed.
Print Assumptions C16_convex_between_min_and_max.

(* ---------------------------------------------------------------- mixture *)
Theorem C16_mixture : forall fo draw tris w out,
  blend fo draw tris w MMixture = Ok out ->
  exists t0 rest wl, tris = t0 :: rest /\ weight_list w (length t0) = Ok wl /\
    forall i o f v, nth_error out i = Some o -> In (f, v) (qvals o) ->
      exists k c0 wi cells v0 others,
        nth_error (index_tri t0) i = Some (k, c0) /\ nth_error wl i = Some wi /\
        at_coordinate tris k c0 cells /\
        field_vals cells f = Some (v0 :: others) /\
        (is_scalar v0 = true ->
           v = QKeep v0 /\ Forall (fun x => vtype x = vtype v0 /\ val_pyeq x v0 = true) others) /\
        (is_scalar v0 = false ->
           exists xs, v = QArr xs /\ length xs = length (arr_of v0) /\ length (draw i f) = length xs /\
             forall j, (j < length xs)%nat ->
               let pickd := nth j (draw i f) O in
               (pickd < length (v0 :: others))%nat /\
               nth j xs 0 = nth j (arr_of (nth pickd (v0 :: others) VNone)) 0 /\
               length (arr_of (nth pickd (v0 :: others) VNone)) = length xs).
Proof. exact blend_mixture_top. Qed.
Print Assumptions C16_mixture.

(* ---------------------------------------------------------------- refusals *)
Theorem C16_refuses_different_lengths : forall fo draw t0 rest w m,
  single_check (t0 :: rest) w = None -> m <> MBad ->
  Exists (fun t => length t <> length t0) rest ->
  blend fo draw (t0 :: rest) w m = Err ValueError.
Proof. exact blend_refuses_lengths. Qed.
Print Assumptions C16_refuses_different_lengths.

Theorem C16_refuses_different_cell_types : forall fo draw t0 rest w m,
  single_check (t0 :: rest) w = None -> m <> MBad -> t0 <> [] ->
  Forall (fun t => length t = length t0) rest ->
  Exists (fun t => first_kind t <> first_kind t0) rest ->
  blend fo draw (t0 :: rest) w m = Err ValueError.
Proof. exact blend_refuses_cell_types. Qed.
Print Assumptions C16_refuses_different_cell_types.

(* different coordinate sets: a blend can only succeed if every coordinate of the first triangle occurs in
   every triangle ... *)
Theorem C16_refuses_different_coordinates : forall fo draw tris w m out,
  blend fo draw tris w m = Ok out ->
  exists t0 rest, tris = t0 :: rest /\
    forall k c0, In (k, c0) (index_tri t0) ->
      Forall (fun t => exists c, In c t /\ coord_of c = k) tris.
Proof. exact blend_ok_coordinates. Qed.
Print Assumptions C16_refuses_different_coordinates.
(* ... and the error is ValueError when it is the first coordinate that is missing (for a later coordinate an
   error of an earlier cell may come first; the correspondence check compares the class on every case) *)
Theorem C16_refuses_missing_first_coordinate : forall fo draw c rest0 rest w m,
  let t0 := c :: rest0 in
  single_check (t0 :: rest) w = None -> m <> MBad ->
  Forall (fun t => length t = length t0) rest ->
  Forall (fun t => first_kind t = first_kind t0) rest ->
  (exists wl, weight_list w (length t0) = Ok wl) ->
  Exists (fun t => forall c', In c' t -> coord_of c' <> coord_of c) rest ->
  blend fo draw (t0 :: rest) w m = Err ValueError.
Proof. exact blend_refuses_first_coordinate. Qed.
Print Assumptions C16_refuses_missing_first_coordinate.

Theorem C16_refuses_different_field_sets : forall fo dr c0 rest w m,
  Exists (fun c => keyset_eqb (keys (cvals c0)) (keys (cvals c)) = false) rest ->
  blend_cells fo dr (c0 :: rest) w m = Err ValueError.
Proof. exact cells_refuse_field_sets. Qed.
Print Assumptions C16_refuses_different_field_sets.

Theorem C16_mixture_refuses_unequal_scalars : forall d cells w f v0 rest,
  field_vals cells f = Some (v0 :: rest) -> is_scalar v0 = true ->
  Forall (fun x => vtype x = vtype v0) rest -> Exists (fun x => val_pyeq x v0 = false) rest ->
  blend_field d cells w MMixture f = Err ValueError.
Proof. exact mixture_refuses_unequal_scalars. Qed.
Print Assumptions C16_mixture_refuses_unequal_scalars.

Theorem C16_mixture_refuses_mixed_value_types : forall d cells w f v0 rest,
  field_vals cells f = Some (v0 :: rest) -> Exists (fun x => vtype x <> vtype v0) rest ->
  blend_field d cells w MMixture f = Err TypeError.
Proof. exact mixture_refuses_types. Qed.
Print Assumptions C16_mixture_refuses_mixed_value_types.

Theorem C16_linear_refuses_sample_lengths : forall vs ws,
  Exists (fun x => length x <> max_len vs /\ length x <> 1%nat) vs -> linear_blend vs ws = Err ValueError.
Proof. exact linear_refuses_sample_lengths. Qed.
Print Assumptions C16_linear_refuses_sample_lengths.

Theorem C16_mixture_refuses_sample_lengths : forall fl x0 rest ws d,
  probs_ok ws = true -> draw_ok (length (VArr fl x0 :: rest)) (length x0) d = true ->
  Exists (fun v => length (arr_of v) <> length x0) rest ->
  mixture_blend (VArr fl x0 :: rest) ws d = Err IndexError.
Proof. exact mixture_refuses_sample_lengths. Qed.
Print Assumptions C16_mixture_refuses_sample_lengths.

Theorem C16_refuses_wrong_number_of_weights : forall d vals w m,
  length (eff_weights w (length vals)) <> length vals -> blend_samples d vals w m = Err ValueError.
Proof. exact samples_refuses_weight_length. Qed.
Print Assumptions C16_refuses_wrong_number_of_weights.

(* F14 (repaired in /repo): a single triangle passes the single-triangle sanity check unless the weights are a
   list whose first entry is not 1 *)
Theorem C16_single_triangle_check : forall t w,
  (forall ws, w <> WList ws) -> single_check [t] w = None.
Proof. intros t w H. destruct w; try reflexivity. exfalso. apply (H ws). reflexivity. Qed.
Print Assumptions C16_single_triangle_check.

(* ---------------------------------------------------------------- non-vacuity *)
Definition ex_paid : str := [112;97;105;100]%Z.
Definition ex_n : str := [110]%Z.
Definition ex_cell (e : Z) (a b : value) : cell :=
  mkCell KCum 737425%Z 737515%Z e None default_meta [(ex_paid, a); (ex_n, b)].
Definition ex_t1 : list cell :=
  [ex_cell 737515%Z (VNum (Num false 1024)) (VArr true [1024;2048;3072]%Z);
   ex_cell 737606%Z (VNum (Num false 2048)) (VArr true [4096;5120;6144]%Z)].
Definition ex_t2 : list cell :=
  [ex_cell 737515%Z (VNum (Num false 1024)) (VArr true [10240;20480;30720]%Z);
   ex_cell 737606%Z (VNum (Num false 2048)) (VArr false [40960;51200;61440]%Z)].
Definition ex_t2' : list cell :=      (* first scalar differs, second coordinate differs *)
  [ex_cell 737515%Z (VNum (Num false 3072)) (VArr true [10240;20480;30720]%Z);
   ex_cell 737607%Z (VNum (Num false 2048)) (VArr false [40960;51200;61440]%Z)].
Definition ex_w : list Q := [1 # 4; 3 # 4].
Definition ex_draw : nat -> str -> list nat := fun _ _ => [1; 0; 1]%nat.
Definition ex_fo : list str -> list str := fun ks => rev ks.

Example C16_ex_linear :
  exists out, blend ex_fo ex_draw [ex_t1; ex_t2] (WList ex_w) MLinear = Ok out /\ length out = 2%nat
    /\ NoDup (map coord_of ex_t1) /\ convex (eff_weights (Some ex_w) 2).
Proof.
  eexists. split; [vm_compute; reflexivity|]. split; [reflexivity|]. split.
  - constructor; [simpl; intros [H|[]]; discriminate H|]. constructor; [simpl; tauto|constructor].
  - split; [repeat constructor; unfold Qle; simpl; lia | reflexivity].
Qed.
Example C16_ex_linear_value :    (* scalar 1 (first) and 1 (second): equal inputs give 1; samples: 1/4*1 + 3/4*10 *)
  match blend ex_fo ex_draw [ex_t1; ex_t2] (WList ex_w) MLinear with
  | Ok (o :: _) => match qvals o with
                   | [(_, QArr [a; b; c]); (_, QArr [d])] => a == 31 # 4 /\ d == 1
                   | _ => False end
  | _ => False end.
Proof. vm_compute. split; reflexivity. Qed.
Example C16_ex_mixture :         (* draws [1;0;1]: samples come from t2, t1, t2; the equal scalar passes through *)
  match blend ex_fo ex_draw [ex_t1; ex_t2] (WDict [[1 # 2]; [1 # 2]]) MMixture with
  | Ok (o :: _) => match qvals o with
                   | [(_, QArr [a; b; c]); (_, QKeep v)] => a == 10 /\ b == 2 /\ c == 30 /\ v = VNum (Num false 1024)
                   | _ => False end
  | _ => False end.
Proof. vm_compute. repeat split; reflexivity. Qed.
Example C16_ex_refusals :
  blend ex_fo ex_draw [ex_t1; ex_t2'] WNone MMixture = Err ValueError          (* unequal scalars *)
  /\ blend ex_fo ex_draw [ex_t1; ex_t2'] WNone MLinear = Err ValueError        (* second coordinate missing *)
  /\ blend ex_fo ex_draw [ex_t1; tl ex_t2] WNone MLinear = Err ValueError      (* different lengths *)
  /\ blend ex_fo ex_draw [ex_t1; ex_t2] (WList [1 # 2]) MLinear = Err ValueError   (* one weight for two triangles *)
  /\ blend ex_fo ex_draw [ex_t1] (WList [1 # 2]) MLinear = Err ValueError      (* single triangle needs [1.0] *)
  /\ blend ex_fo ex_draw [ex_t1; ex_t2] WOther MLinear = Err TypeError.
Proof. vm_compute. repeat split; reflexivity. Qed.
Example C16_ex_single_triangle :  (* F14: a single triangle with weights None / dict is blended, not refused *)
  (exists out, blend ex_fo ex_draw [ex_t1] WNone MLinear = Ok out /\ length out = 2%nat)
  /\ (exists out, blend ex_fo (fun _ _ => [0; 0; 0]%nat) [ex_t1] (WDict [[1 # 1]]) MMixture = Ok out /\ length out = 2%nat).
Proof. split; eexists; (split; [vm_compute; reflexivity | reflexivity]). Qed.
