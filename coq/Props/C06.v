(* C06 -- the .trib byte layout is the documented v1 format and stays readable.

   Model/BinLayout.v is an independent declarative description of the documented version-1 layout
   (inductive relation [Layout t bs], written from the module comment of binary_output.py; numbers
   are described digit by digit, no encoder function is used).  Theorems:
     C06_writer_follows_layout   the bytes of the (model) writer satisfy the layout
     C06_layout_deterministic    the layout determines the bytes: any two encoders of the layout
                                 produce the same file; in particular the bytes depend only on the
                                 stored cell list, which C01's sorting makes independent of the order
                                 in which cells were supplied (that part is checked on the
                                 implementation by the permutation oracle of harness/c06.py)
     C06_layout_files_read_back  a file satisfying the layout -- whoever wrote it -- is read back
                                 exactly (hypotheses of C05: wf, no_0x88_key = known finding F9)
     C06_wrong_magic_rejected / C06_wrong_version_rejected
   The generated-constant obligations [v1_constants] and [layout_matches_model] live in
   coq/GenProps/C06_bin.v (they import GenBin.v regenerated from /repo on every run). *)
From Coq Require Import ZArith List Bool Lia.
From Bermuda Require Import Lib.Bytes Lib.BinParse Lib.StrSort Model.Binary Model.BinLayout
     Proofs.BinaryTop Proofs.BinaryLayout Props.C05.
Import ListNotations.
Open Scope Z_scope.

Theorem C06_writer_follows_layout : forall t, wf t -> no_0x88_key t -> Layout t (ser t).
Proof. exact ser_layout. Qed.
Print Assumptions C06_writer_follows_layout.

Theorem C06_layout_deterministic : forall t bs bs', Layout t bs -> Layout t bs' -> bs = bs'.
Proof. exact layout_det. Qed.
Print Assumptions C06_layout_deterministic.

Theorem C06_layout_files_read_back : forall t bs,
  wf t -> no_0x88_key t -> Layout t bs -> parse bs = ROk (cells t).
Proof. exact layout_parse. Qed.
Print Assumptions C06_layout_files_read_back.

(* a file without the magic number, or with another version, is rejected (ValueError) *)
Theorem C06_wrong_magic_rejected : forall bs,
  zlist_eqb (fst (take 4 bs)) MAGIC = false -> parse bs = RErr EValue.
Proof. exact parse_bad_magic. Qed.
Print Assumptions C06_wrong_magic_rejected.

Theorem C06_wrong_version_rejected : forall v r, v <> VERSION -> parse (MAGIC ++ v :: r) = RErr EValue.
Proof. exact parse_bad_version. Qed.
Print Assumptions C06_wrong_version_rejected.

(* the hypotheses are satisfiable: the three-cell example of Props/C05.v has a layout-conforming file *)
Example C06_nonvacuous :
  wf ex_tri /\ no_0x88_key ex_tri /\ Layout ex_tri (ser ex_tri) /\ (100 <? length (ser ex_tri))%nat = true.
Proof.
  assert (H1 : wf ex_tri) by (vm_compute; reflexivity).
  assert (H2 : no_0x88_key ex_tri) by (vm_compute; reflexivity).
  repeat split; auto. now apply ser_layout.
Qed.
