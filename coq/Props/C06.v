(* C06 -- the .trib byte layout is the documented v1 format and stays readable.

   Model/BinLayout.v is an independent declarative description of the documented version-1 layout
   (inductive relation [Layout t bs], written from the module comment of binary_output.py; numbers
   are described digit by digit, no encoder function is used).  Theorems:
     C06_writer_follows_layout   the bytes of the (model) writer satisfy the layout
     C06_layout_deterministic    the layout determines the bytes: any two encoders of the layout
                                 produce the same file
     C06_supply_order_irrelevant identical bytes whatever the order in which the cells were supplied:
                                 C01's sorting theorem (Proofs/TriangleP, Model/Order.sort_cells =
                                 Triangle.__init__'s sorted()) transported through the embedding
                                 Model/BinEmbed.wire_of_base of the structural model's cells
                                 (ordinals -> (y,m,d) by _ord2ymd; ints n/1024; the binary64 bytes of
                                 floats are a parameter [fenc]; 1-d arrays; no n-d arrays / bool
                                 values in Base).  Hypotheses as in C01: the cells are pairwise
                                 comparable by `<` (no TypeError) and order-equivalent cells are
                                 identical.  Holds for the structural and the faithful (Python ==)
                                 writer alike; the check also permutes cells on the implementation.
     C06_layout_files_read_back  a file satisfying the layout -- whoever wrote it -- is read back
                                 exactly (hypotheses of C05: wf, no_0x88_key = known finding F9)
     C06_wrong_magic_rejected / C06_wrong_version_rejected
   The generated-constant obligations [v1_constants] and [layout_matches_model] live in
   coq/GenProps/C06_bin.v (they import GenBin.v regenerated from /repo on every run). *)
From Coq Require Import ZArith List Bool Lia.
From Coq Require Import Permutation.
From Bermuda Require Import Lib.Bytes Lib.BinParse Lib.StrSort Model.Binary Model.BinLayout Model.BinEmbed
     Proofs.BinaryTop Proofs.BinaryLayout Proofs.BinaryEmbed Props.C05.
From Bermuda Require Model.Base Model.Order Proofs.TriangleP.
Import ListNotations.
Open Scope Z_scope.

Theorem C06_writer_follows_layout : forall t, wf t -> Layout t (ser t).
Proof. exact ser_layout. Qed.
Print Assumptions C06_writer_follows_layout.

(* ... and so do the bytes of the faithful writer (Python == as metadata test) on coherent triangles *)
Theorem C06_faithful_writer_follows_layout : forall t,
  wf t -> coherentb t = true -> pyeq_reflb t = true -> Layout t (ser_py t) /\ ser_py t = ser t.
Proof. intros t H1 H2 H3. split; [now apply ser_py_layout | now apply ser_py_coherent]. Qed.
Print Assumptions C06_faithful_writer_follows_layout.

Theorem C06_layout_deterministic : forall t bs bs', Layout t bs -> Layout t bs' -> bs = bs'.
Proof. exact layout_det. Qed.
Print Assumptions C06_layout_deterministic.

Theorem C06_layout_files_read_back : forall t bs,
  wf t -> no_0x88_key t -> Layout t bs -> parse bs = ROk (cells t).
Proof. exact layout_parse. Qed.
Print Assumptions C06_layout_files_read_back.

Theorem C06_supply_order_irrelevant : forall fenc cs cs',
  Permutation cs cs' -> TriangleP.cells_comparable cs -> TriangleP.cells_separated cs ->
  ser (map (wire_of_base fenc) (Order.sort_cells cs)) = ser (map (wire_of_base fenc) (Order.sort_cells cs')) /\
  ser_py (map (wire_of_base fenc) (Order.sort_cells cs)) = ser_py (map (wire_of_base fenc) (Order.sort_cells cs')).
Proof.
  intros fenc cs cs' P Hc Hs. split.
  - now apply ser_supply_order_irrelevant.
  - now apply ser_with_supply_order_irrelevant.
Qed.
Print Assumptions C06_supply_order_irrelevant.

(* a file without the magic number, or with another version, is rejected (ValueError) *)
Theorem C06_wrong_magic_rejected : forall bs,
  zlist_eqb (fst (take 4 bs)) MAGIC = false -> parse bs = RErr EValue.
Proof. exact parse_bad_magic. Qed.
Print Assumptions C06_wrong_magic_rejected.

Theorem C06_wrong_version_rejected : forall v r, v <> VERSION -> parse (MAGIC ++ v :: r) = RErr EValue.
Proof. exact parse_bad_version. Qed.
Print Assumptions C06_wrong_version_rejected.

(* the hypotheses are satisfiable: the three-cell example of Props/C05.v has a layout-conforming file *)
Example C06_nonvacuous :
  wf ex_tri /\ no_0x88_key ex_tri /\ Layout ex_tri (ser ex_tri) /\ (100 <? length (ser ex_tri))%nat = true.
Proof.
  assert (H1 : wf ex_tri) by (vm_compute; reflexivity).
  assert (H2 : no_0x88_key ex_tri) by (vm_compute; reflexivity).
  repeat split; auto. now apply ser_layout.
Qed.

(* the embedding is non-trivial: four int-valued cells in two slices that differ only in
   loss_details (C01's example), supplied in two orders, give one well-formed 182-byte file *)
Definition b_meta (cov : Z) : Base.meta :=
  Base.mkMeta (Some [65]) None None None None None [] [([99], Base.MStr [cov])].
Definition b_cells : list Base.cell :=
  [ Base.mkCell Base.KCum 737425 737515 737606 None (b_meta 66) [([112], Base.VNum (Base.Num false 1024))];
    Base.mkCell Base.KCum 737425 737515 737515 None (b_meta 65) [([112], Base.VNum (Base.Num false 2048))];
    Base.mkCell Base.KCum 737425 737515 737515 None (b_meta 66) [([112], Base.VArr false [1024; 3072])];
    Base.mkCell Base.KCum 737425 737515 737606 None (b_meta 65) [([112], Base.VNum (Base.Num false 1024))] ].
Definition no_floats (_ : Z) : bytes := [].
Example C06_supply_order_nonvacuous :
  let w := map (wire_of_base no_floats) in
  ser (w (Order.sort_cells b_cells)) = ser (w (Order.sort_cells (rev b_cells))) /\
  wfb (w (Order.sort_cells b_cells)) = true /\ coherentb (w (Order.sort_cells b_cells)) = true /\
  (150 <? length (ser (w (Order.sort_cells b_cells))))%nat = true /\
  c_pstart (hd f9_cell (w (Order.sort_cells b_cells))) = (2020, 1, 1).
Proof. vm_compute. repeat split; reflexivity. Qed.
