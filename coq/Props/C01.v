(** C01 -- A Triangle is a canonical sorted set: same cells in, same sequence out.

    Model: Model/Order.v.  `meta_cmp` / `cell_cmp` are Python's tuple comparisons of
    Metadata.__lt__ / Cell.__lt__ / IncrementalCell.__lt__ (`None` = TypeError when two detail
    values of one key have different kinds); `mk_triangle` is Triangle.__init__ (one cell class,
    then `sorted`).  That the comparison tuples of the SOURCE are these keys is the generated
    obligation in GenProps/C01_gen.v, re-proved against /repo on every run. *)
From Coq Require Import ZArith List Bool Permutation Sorted.
From Bermuda Require Import Model.Base Model.Order Model.Eq Proofs.OrderP Proofs.EqP Proofs.TriangleP.
Import ListNotations.
Local Open Scope Z_scope.

(** Metadata's `<` is a strict total order on distinct Metadata (wherever it does not raise). *)
Theorem C01_meta_lt_irreflexive : forall a, meta_cmp a a = Some Eq.
Proof. exact (f_refl _ _ meta_cmp_ok). Qed.
Theorem C01_meta_lt_asymmetric : forall a b c, meta_cmp a b = Some c -> meta_cmp b a = Some (CompOpp c).
Proof. exact (f_opp _ _ meta_cmp_ok). Qed.
Theorem C01_meta_lt_transitive : forall a b c,
  meta_cmp a b = Some Lt -> meta_cmp b c = Some Lt -> meta_cmp a c = Some Lt.
Proof. exact (f_trans _ _ meta_cmp_ok). Qed.
(** total: two Metadata are unordered exactly when they are `==` -- in particular Metadata that
    differ in any single attribute, e.g. only in loss_details, are strictly ordered. *)
Theorem C01_meta_lt_total_on_distinct : forall a b, meta_cmp a b = Some Eq <-> meta_pyeq a b = true.
Proof. intros a b. symmetry. apply meta_pyeq_iff_cmp. Qed.
Print Assumptions C01_meta_lt_total_on_distinct.

(** The cell order is a strict total order on cells with distinct (metadata, coordinates). *)
Theorem C01_cell_lt_strict : forall a b c,
  cell_cmp a a = Some Eq /\
  (cell_cmp a b = Some Lt -> cell_cmp b c = Some Lt -> cell_cmp a c = Some Lt) /\
  (forall r, cell_cmp a b = Some r -> cell_cmp b a = Some (CompOpp r)) /\
  (cell_cmp a b = Some Eq <-> cell_tuple a = cell_tuple b).
Proof.
  intros a b c. repeat split.
  - apply (f_refl _ _ cell_cmp_ok).
  - apply (f_trans _ _ cell_cmp_ok).
  - intros r. apply (f_opp _ _ cell_cmp_ok).
  - apply (f_eq _ _ cell_cmp_ok).
  - apply (f_eq' _ _ cell_cmp_ok).
Qed.

(** Same cells, any order of supply: one and the same sequence. *)
Theorem C01_constructor_is_permutation_invariant : forall l l',
  Permutation l l' -> cells_comparable l -> cells_separated l -> mk_triangle l = mk_triangle l'.
Proof. exact mk_triangle_perm. Qed.
Print Assumptions C01_constructor_is_permutation_invariant.

(** ... and it is THE sorted arrangement, whatever (stable or not) sorting algorithm produced it. *)
Theorem C01_any_sorted_arrangement_is_the_triangle : forall l s,
  Permutation l s -> StronglySorted cell_le s -> cells_comparable l -> cells_separated l ->
  s = sort_cells l.
Proof. exact any_sorted_arrangement_is_the_triangle. Qed.

Theorem C01_constructor_result_is_canonical : forall l t, cells_comparable l -> mk_triangle l = Ok t ->
  Permutation l t /\ StronglySorted cell_le t /\ same_kind t = true.
Proof. exact mk_triangle_canonical. Qed.
Theorem C01_mixed_cell_classes_rejected : forall l, same_kind l = false -> mk_triangle l = Err TriangleError.
Proof. exact mk_triangle_mixed_rejected. Qed.

(** canonical form: slices ascend by Metadata's `<`, are contiguous, and ascend by dates inside *)
Theorem C01_sorted_pairs : forall t1 a t2 b t3,
  StronglySorted cell_le (t1 ++ a :: t2 ++ b :: t3) -> cell_cmp a b <> None ->
  (mkeyc (mkey_of a) (mkey_of b) = Some Lt) \/
  (mkey_of a = mkey_of b /\ lexl zc (cell_dates b) (cell_dates a) <> Some Lt).
Proof. exact sorted_pairs. Qed.
Theorem C01_slices_contiguous : forall t1 a t2 b t3 c,
  StronglySorted cell_le (t1 ++ a :: t2 ++ b :: t3) -> cells_comparable (t1 ++ a :: t2 ++ b :: t3) ->
  mkey_of a = mkey_of b -> In c t2 -> mkey_of c = mkey_of a.
Proof. exact slices_contiguous. Qed.
Print Assumptions C01_slices_contiguous.

(** every chain of operations, each funnelled through the constructor, yields a canonical triangle
    (that every public operation IS so funnelled is the T-funnel obligation + op-sequence
    correspondence of the check) *)
Theorem C01_operation_chains_stay_canonical : forall (ops : list op) t0 tn,
  cells_comparable t0 -> (forall f t, In f ops -> cells_comparable (f t)) ->
  mk_triangle t0 = Ok t0 -> fold_left step ops (Ok t0) = Ok tn ->
  StronglySorted cell_le tn /\ same_kind tn = true /\ mk_triangle tn = Ok tn.
Proof. exact ops_preserve_canonical. Qed.
Print Assumptions C01_operation_chains_stay_canonical.

(** Non-vacuity: four cells in two slices that differ only in loss_details. *)
Definition ex_meta (cov : Z) : meta :=
  mkMeta (Some [65]) None None None None None [] [([99], MStr [cov])].
Definition ex_cells : list cell :=
  [ mkCell KCum 737425 737515 737606 None (ex_meta 66) [([112], VNum (Num false 1024))];
    mkCell KCum 737425 737515 737515 None (ex_meta 65) [([112], VNum (Num false 2048))];
    mkCell KCum 737425 737515 737515 None (ex_meta 66) [([112], VNum (Num false 1024))];
    mkCell KCum 737425 737515 737606 None (ex_meta 65) [([112], VNum (Num false 1024))] ].
Example C01_nonvacuous :
  mk_triangle ex_cells = mk_triangle (rev ex_cells)
  /\ (exists t, mk_triangle ex_cells = Ok t /\ length t = 4%nat /\ wf_triangle t = true)
  /\ meta_lt (ex_meta 65) (ex_meta 66) = Some true /\ meta_lt (ex_meta 66) (ex_meta 65) = Some false.
Proof. repeat split; try (vm_compute; reflexivity). eexists. vm_compute. repeat split. Qed.
