(* C03 -- no operation mutates its arguments.                                   STRENGTH: PARTIAL (by design)

   Full statement (properties.jsonl): no public function or method that receives a Triangle, Cell or
   Metadata modifies it; after the call -- whether it returned or raised -- every argument still has
   exactly the cells, dates, metadata, field names, insertion order, value types and array contents it
   had before; for every manipulation, conversion, resampling, I/O writer and plotting entry point and
   every position in a chain of calls.

   This is a statement about aliasing and in-place update in the Python/NumPy runtime; a pure functional
   model satisfies it vacuously.  Model/Heap.v is a store WITH OBJECT IDENTITY (arrays, dicts, cells;
   numbers immutable) and statement-level models of the mutation-prone kernels, written with Python's
   rebinding vs in-place rules.  Model/HeapApi.v writes public entry points as explicit compositions of
   those kernels over the cells of the argument triangle(s), mirroring the source.

   PROVED here (every store, every argument list / triangle of any size, return AND raise):
     KERNELS (C03_frame_kernels_partial, C03_frame_reachable_partial, C03_alias_xxx):
       frame -- every object that existed before the call has the same contents afterwards -- and the
       predicted alias graph, for _conforming_sum, _conforming_weighted_average, summarize_cell_values,
       Cell._base_replace/replace/select/derive_fields/add_statics, _merge_cell_pair, _overwrite_values,
       _thin_cell, _values_add, _values_diff, the to_cumulative / to_incremental row chains, one coordinate
       pile of _aggregate_period, _weight_cell_values, the vals_dict accumulation of
       accident_quarter_to_policy_year, blend_cells (mixture and linear).
     LIFTING (C03_frame_lifting): steps that each preserve the store they start from compose --
       sequences, maps and folds of framed steps preserve everything that existed before the WHOLE
       program began (allocation only appends; frames compose).
     PUBLIC ENTRY POINTS as kernel compositions (C03_frame_<entry>: frame + which result cells ARE
       argument cells; C03_frame_entry_points / _reachable for all of them at once):
       to_incremental, to_cumulative (deepcopy of the first cell of a row, running-total chain),
       summarize (metadata gcd, group by coordinates, summarize_cell_values per group), blend (mixture),
       Triangle.select / derive_fields / replace, merge (all six join types; matched / unmatched),
       coalesce, add_statics, thin, _aggregate_period and aggregate (to_cumulative -> per slice filter +
       per-window summarisation -> to_incremental).
       Modelling boundary: a Triangle is the list of references to its cells; the Triangle object, its
       `_cells` list and the final `Triangle(...)` sort are not modelled; coordinates / metadata / dates
       are an immutable tag and every decision taken on them (grouping, indexing, join type, evaluation
       filter, chain checks) is an oracle function -- the theorems hold for every oracle.
   NOT PROVED (monitored and screened on every run by harness/c03.py, harness/monitor.py,
   translate/t_inplace.py):
     - that the models are the code (heap-level correspondence of kernels AND entry points on generated
       aliasing patterns: argument fingerprints, id()/shares_memory alias graph);
     - the entry points that are NOT modelled: Triangle.__getitem__/filter/clip/right_edge/slices/
       derive_metadata/remove_static_details/extract/to_data_frame/+ and the set operators, Cell.derive_metadata/
       to_record, split, join, period_merge, loose_period_merge (kernel _overwrite_values only), blend (linear, at
       triangle level; the cell-level kernel is proved), make_right_triangle, make_right_diagonal,
       make_pred_triangle*, bootstrap, moment_match, backfill, fill_forward_gaps, shift_origin,
       convert_currency/convert_to_dollars, disaggregate*, accident_quarter_to_policy_year (kernel only),
       the Berquist-Sherman adjustments, weight_geometric_decay, array_from_field/array_sizes,
       slice_to_triangle/triangle_to_slice, every bermuda.io writer, build_plot_data and the plot_* functions;
     - NumPy view semantics (basic slices, .T, frombuffer), dtype casting, user callables.

   Each kernel has an [Example mutant_writes_argument_*]: the natural buggy variant (accumulator seeded
   with values[0], self._values.update(..), deepcopy dropped then +=, ...) DOES change an argument object
   in the same model, so the frame theorem is not vacuous. *)
From Coq Require Import ZArith List Bool.
From Bermuda Require Import Model.Base Model.Heap Model.HeapApi Proofs.HeapFrame Proofs.HeapKernels Proofs.HeapApi.
Import ListNotations.
Open Scope Z_scope.

Theorem C03_frame_kernels_partial : forall (c : cfg) (h : heap) (k : call),
  match run c k h with
  | Ret h' _ | Raise h' _ =>
      (length h <= length h')%nat /\ forall l, (l < length h)%nat -> nth_error h' l = nth_error h l
  end.
Proof. exact kernels_frame. Qed.
Print Assumptions C03_frame_kernels_partial.

Theorem C03_frame_reachable_partial : forall (c : cfg) (h : heap) (k : call),
  heap_ok h -> Forall (val_ok (length h)) (call_args k) ->
  match run c k h with
  | Ret h' _ | Raise h' _ =>
      forall a l, In a (call_args k) -> reach h a l -> nth_error h' l = nth_error h l
  end.
Proof. exact kernels_frame_reachable. Qed.
Print Assumptions C03_frame_reachable_partial.

(* alias graph, top level: except derive_fields() without definitions and _merge_cell_pair with a
   missing side, a result is never one of the argument objects *)
Theorem C03_alias_result_new : forall c h k, always_new k = true ->
  match run c k h with Ret _ r => res_fresh h r | Raise _ _ => True end.
Proof. exact alias_result_new. Qed.
Print Assumptions C03_alias_result_new.

Theorem C03_alias_result_is_argument : forall h self c1 c2,
  derive_fields self [] h = Ret h self /\
  merge_cell_pair PNone c2 h = Ret h c2 /\
  (c1 <> PNone -> merge_cell_pair c1 PNone h = Ret h c1).
Proof.
  intros. split; [apply alias_derive_fields_none|split; [apply alias_merge_left_none|apply alias_merge_right_none]].
Qed.
Print Assumptions C03_alias_result_is_argument.

(* alias graph, entry level *)
Theorem C03_alias_values_add_diff : forall c op swap h a l dn,
  (l < length h)%nat -> nth_error h l = Some (ODict dn) ->
  match values_combine c op swap a (PRef l) h with
  | Ret _ d => Forall (entry_spec_combine h dn) d       (* earned_premium: next's own object; else new *)
  | Raise _ _ => True
  end.
Proof. exact alias_values_combine. Qed.
Print Assumptions C03_alias_values_add_diff.

Theorem C03_alias_thin_entries : forall h ndxs d,
  match mapM (thin_value ndxs) d h with
  | Ret _ d' => Forall2 (fun kv kv' => kv' = kv \/ (fst kv' = fst kv /\ fresh h (snd kv'))) d d'
  | Raise _ _ => True
  end.
Proof. exact alias_thin_entries. Qed.
Print Assumptions C03_alias_thin_entries.

Theorem C03_alias_summaries_new : forall c h cells,
  match summarize_cell_values c cells true h with
  | Ret _ d => Forall (fun kv => fresh h (snd kv)) d
  | Raise _ _ => True
  end.
Proof. exact alias_summarize_new. Qed.
Print Assumptions C03_alias_summaries_new.

Theorem C03_alias_deepcopy_new : forall h v,
  match deepcopy_items v h with Ret _ d => Forall (fun kv => fresh h (snd kv)) d | Raise _ _ => True end.
Proof. exact alias_deepcopy_new. Qed.
Print Assumptions C03_alias_deepcopy_new.

Theorem C03_alias_base_replace_shares_values : forall h l t vs defs,
  nth_error h l = Some (OCell t vs) ->
  snd (fold_left apply_def defs (t, vs)) <> PNone ->
  base_replace false (PRef l) defs h =
    Ret (h ++ [OCell (fst (fold_left apply_def defs (t, vs))) (snd (fold_left apply_def defs (t, vs)))])
        (PRef (length h)).
Proof. exact alias_base_replace_shares_values. Qed.
Print Assumptions C03_alias_base_replace_shares_values.

(* ------------------------------------------------------------------ non-vacuity *)
(* two cells sharing nothing, array- and scalar-valued fields; key 0 = earned_premium *)
Definition ex_heap : heap :=
  [ OArr [1; 2]; OArr [10; 20];
    ODict [(EP, PNum 5); (1, PRef 0%nat)]; ODict [(EP, PNum 5); (1, PRef 1%nat)];
    OCell 0 (PRef 2%nat); OCell 1 (PRef 3%nat) ].
Definition A0 := PRef 0%nat.  Definition A1 := PRef 1%nat.
Definition D0 := PRef 2%nat.  Definition D1 := PRef 3%nat.
Definition C0 := PRef 4%nat.  Definition C1 := PRef 5%nat.
Definition ex_calls : list call :=
  [ KConformingSum [A0; A1]; KWeightedAverage [A0; A1] [PNum 1; PNum 1];
    KSummarizeCellValues [C0; C1] true; KBaseReplace false C0 [DTag 9]; KReplace C0 [DTag 9];
    KSelect C0 [1]; KDeriveFields C0 [(2, PNum 3)]; KAddStatics C0 C1 [1]; KMergeCellPair C0 C1;
    KOverwriteValues C0 C1 None; KThinCell C0 [1%nat]; KValuesAdd D0 D1; KValuesDiff D0 D1;
    KToCumulativeRow [C0; C1]; KToIncrementalRow [C0; C1]; KAggregateGroup 7 [C0; C1] true;
    KWeightCellValues C0 [1; 3]; KPolicyYearCell 7 [C0; C1] [Some 1; Some 1]; KBlendCells [C0; C1] [1%nat; 0%nat];
    KBlendCellsLinear [C0; C1] [1; 3] ].

(* the modelled kernels RETURN on these calls (the theorem is not about raising only) and leave the
   store untouched; a shared array passed twice is handled too *)
Example C03_nonvacuous :
  heap_ok ex_heap /\
  forallb (fun k => match run default_cfg k ex_heap with
                    | Ret h' _ => frozen_b ex_heap h'
                    | Raise _ _ => false
                    end) (KConformingSum [A0; A0; PNone; PNum 3] :: ex_calls) = true /\
  run default_cfg (KConformingSum [A0; A1]) ex_heap = Ret (ex_heap ++ [OArr [11; 22]]) (RVal (PRef 6%nat)) /\
  (exists h e, run default_cfg (KConformingSum [A0; PRef 2%nat]) ex_heap = Raise h e).   (* a raise path *)
Proof.
  split; [repeat constructor|]. split; [vm_compute; reflexivity|]. split; [vm_compute; reflexivity|].
  eexists; eexists; vm_compute; reflexivity.
Qed.

(* Appendix D's example: "total = values[0]" adds into the first argument array *)
Example mutant_writes_argument_conforming_sum :
  exists h', conforming_sum_mutant [A0; A1] ex_heap = Ret h' A0 /\ nth_error h' 0 = Some (OArr [11; 22]).
Proof. eexists; split; vm_compute; reflexivity. Qed.
Example mutant_writes_argument_weighted_average :
  mutant_writes default_cfg ex_heap (KWeightedAverage [A0; A1] [PNum 1; PNum 1]) = true.
Proof. vm_compute; reflexivity. Qed.
Example mutant_writes_argument_summarize_cell_values :
  mutant_writes default_cfg ex_heap (KSummarizeCellValues [C0; C1] true) = true.
Proof. vm_compute; reflexivity. Qed.
Example mutant_writes_argument_base_replace :
  mutant_writes default_cfg ex_heap (KBaseReplace false C0 [DTag 9]) = true.
Proof. vm_compute; reflexivity. Qed.
Example mutant_writes_argument_replace :
  mutant_writes default_cfg ex_heap (KReplace C0 [DTag 9]) = true.
Proof. vm_compute; reflexivity. Qed.
Example mutant_writes_argument_select :
  mutant_writes default_cfg ex_heap (KSelect C0 [1]) = true.
Proof. vm_compute; reflexivity. Qed.
(* "self._values.update({name: value})" in derive_fields *)
Example mutant_writes_argument_derive_fields :
  exists h', derive_fields_mutant C0 [(2, PNum 3)] ex_heap = Ret h' C0 /\
             nth_error h' 2 = Some (ODict [(EP, PNum 5); (1, A0); (2, PNum 3)]).
Proof. eexists; split; vm_compute; reflexivity. Qed.
Example mutant_writes_argument_add_statics :
  mutant_writes default_cfg ex_heap (KAddStatics C0 C1 [1]) = true.
Proof. vm_compute; reflexivity. Qed.
Example mutant_writes_argument_merge_cell_pair :
  mutant_writes default_cfg ex_heap (KMergeCellPair C0 C1) = true.
Proof. vm_compute; reflexivity. Qed.
Example mutant_writes_argument_overwrite_values :
  mutant_writes default_cfg ex_heap (KOverwriteValues C0 C1 None) = true.
Proof. vm_compute; reflexivity. Qed.
Example mutant_writes_argument_thin_cell :
  mutant_writes default_cfg ex_heap (KThinCell C0 [1%nat]) = true.
Proof. vm_compute; reflexivity. Qed.
Example mutant_writes_argument_values_add :
  mutant_writes default_cfg ex_heap (KValuesAdd D0 D1) = true.
Proof. vm_compute; reflexivity. Qed.
Example mutant_writes_argument_values_diff :
  mutant_writes default_cfg ex_heap (KValuesDiff D0 D1) = true.
Proof. vm_compute; reflexivity. Qed.
(* "deepcopy dropped in to_cumulative followed by +=": the first cell's array and dict are overwritten *)
Example mutant_writes_argument_to_cumulative :
  exists h' r, to_cumulative_row_mutant default_cfg [C0; C1] ex_heap = Ret h' r /\
               nth_error h' 0 = Some (OArr [11; 22]) /\
               nth_error h' 2 = Some (ODict [(EP, PNum 10); (1, A0)]).
Proof. eexists; eexists; split; [|split]; vm_compute; reflexivity. Qed.
Example mutant_writes_argument_to_incremental :
  mutant_writes default_cfg ex_heap (KToIncrementalRow [C0; C1]) = true.
Proof. vm_compute; reflexivity. Qed.
Example mutant_writes_argument_aggregate_group :
  mutant_writes default_cfg ex_heap (KAggregateGroup 7 [C0; C1] true) = true.
Proof. vm_compute; reflexivity. Qed.
Example mutant_writes_argument_weight_cell_values :
  mutant_writes default_cfg ex_heap (KWeightCellValues C0 [1; 3]) = true.
Proof. vm_compute; reflexivity. Qed.
Example mutant_writes_argument_policy_year :
  mutant_writes default_cfg ex_heap (KPolicyYearCell 7 [C0; C1] [Some 1; Some 1]) = true.
Proof. vm_compute; reflexivity. Qed.
Example mutant_writes_argument_blend_cells :
  mutant_writes default_cfg ex_heap (KBlendCells [C0; C1] [1%nat; 0%nat]) = true.
Proof. vm_compute; reflexivity. Qed.
Example mutant_writes_argument_blend_cells_linear :
  mutant_writes default_cfg ex_heap (KBlendCellsLinear [C0; C1] [1; 3]) = true.
Proof. vm_compute; reflexivity. Qed.

(* ================================================================== lifting and public entry points *)
Theorem C03_frame_lifting :
  (forall A (a : A), framed (ret a)) /\ (forall A e, framed (@raise A e)) /\ (forall o, framed (alloc o)) /\
  (forall c k, framed (run c k)) /\
  (forall A B (m : M A) (f : A -> M B), framed m -> (forall a, framed (f a)) -> framed (mbind m f)) /\
  (forall A B (f : A -> M B) xs, (forall x, framed (f x)) -> framed (mapM f xs)) /\
  (forall A B (f : B -> A -> M B) xs b, (forall b x, framed (f b x)) -> framed (foldM f xs b)) /\
  (forall A (m : M A), framed m <-> forall h0, sat h0 m (fun _ => True)).
Proof.
  split; [intros; apply framed_ret|]. split; [intros; apply framed_raise|]. split; [intros; apply framed_alloc|].
  split; [intros; apply framed_kernel|]. split; [intros; apply framed_bind; auto|].
  split; [intros; apply framed_mapM; auto|]. split; [intros; apply framed_foldM; auto|].
  intros A m; split; [apply framed_sat|apply sat_framed].
Qed.
Print Assumptions C03_frame_lifting.

Theorem C03_frame_entry_points : forall (f : tagfns) (c : cfg) (h : heap) (a : apicall),
  match run_api f c a h with
  | Ret h' _ | Raise h' _ =>
      (length h <= length h')%nat /\ forall l, (l < length h)%nat -> nth_error h' l = nth_error h l
  end.
Proof. exact api_frame. Qed.
Print Assumptions C03_frame_entry_points.

Theorem C03_frame_entry_points_reachable : forall f c h a,
  heap_ok h -> Forall (val_ok (length h)) (api_args a) ->
  match run_api f c a h with
  | Ret h' _ | Raise h' _ => forall x l, In x (api_args a) -> reach h x l -> nth_error h' l = nth_error h l
  end.
Proof. exact api_frame_reachable. Qed.
Print Assumptions C03_frame_entry_points_reachable.

(* [post m h Q]: from the store h, m -- returning or raising -- leaves every object of h untouched, and a
   returned value satisfies the alias statement Q *)
Theorem C03_frame_to_incremental : forall f c is_inc cells h,
  post (api_to_incremental f c is_inc cells) h
       (fun r => if is_inc then r = cells                 (* already incremental: the argument itself *)
                 else Forall (fresh h) r).                (* every produced cell is a new object *)
Proof. intros; apply sat_both, sat_api_to_incremental. Qed.
Theorem C03_frame_to_cumulative : forall f c is_inc cells h,
  post (api_to_cumulative f c is_inc cells) h
       (fun r => if is_inc then Forall (fresh h) r        (* incl. the first cell of a row: a deep copy *)
                 else r = cells).
Proof. intros; apply sat_both, sat_api_to_cumulative. Qed.
Theorem C03_frame_summarize : forall f c gcd_ok prem cells h,
  post (api_summarize f c gcd_ok prem cells) h (Forall (fresh h)).
Proof. intros; apply sat_both, sat_api_summarize. Qed.
Theorem C03_frame_blend_mixture : forall f c tris picks h, post (api_blend f c tris picks) h (Forall (fresh h)).
Proof. intros; apply sat_both, sat_api_blend. Qed.
Theorem C03_frame_select : forall cells ks h, post (api_select cells ks) h (Forall (fresh h)).
Proof. intros; apply sat_both, sat_api_select. Qed.
Theorem C03_frame_derive_fields : forall cells defs h,
  post (api_derive_fields cells defs) h (fun r => defs <> [] -> Forall (fresh h) r).
Proof. intros; apply sat_both, sat_api_derive_fields. Qed.
Theorem C03_frame_replace : forall cells defs h, post (api_replace cells defs) h (Forall (fresh h)).
Proof. intros; apply sat_both, sat_api_replace. Qed.
Theorem C03_frame_merge : forall f kl kr km cells1 cells2 h,
  post (api_merge f kl kr km cells1 cells2) h
       (Forall (fun r => fresh h r \/ In r (cells1 ++ cells2))).   (* matched: new; unmatched: the argument's cell *)
Proof. intros; apply sat_both, sat_api_merge. Qed.
Theorem C03_frame_coalesce : forall f tris h,
  post (api_coalesce f tris) h (Forall (fun r => In r (concat tris))).   (* the arguments' own cell objects *)
Proof. intros; apply sat_both, sat_api_coalesce. Qed.
Theorem C03_frame_add_statics : forall f cells source fields h,
  post (api_add_statics f cells source fields) h (Forall (fun r => fresh h r \/ In r cells)).
Proof. intros; apply sat_both, sat_api_add_statics. Qed.
Theorem C03_frame_thin : forall n k cells ndxs h,
  post (api_thin n k cells ndxs) h (fun r => (n = k -> r = cells) /\ ((k < n)%nat -> Forall (fresh h) r)).
Proof. intros; apply sat_both, sat_api_thin. Qed.
Theorem C03_frame_aggregate_period : forall f c prem cells h,
  post (api_aggregate_period f c prem cells) h (Forall (fresh h)).
Proof. intros; apply sat_both, sat_api_aggregate_period. Qed.
Theorem C03_frame_aggregate : forall f c is_inc prem keep cells h,
  post (api_aggregate f c is_inc prem keep cells) h (Forall (fresh h)).
Proof. intros; apply sat_both, sat_api_aggregate. Qed.
Print Assumptions C03_frame_to_cumulative.
Print Assumptions C03_frame_merge.
Print Assumptions C03_frame_aggregate.

(* non-vacuity: on a two-cell row the entry points RETURN, leave the store untouched, and the alias
   predictions are the interesting ones (coalesce / unmatched merge / no-op conversions return argument cells) *)
Definition ex_tagfns : tagfns :=
  mkTagfns (fun _ => 0) (fun t => t) (fun t => t) (fun t => t) (fun _ => 0) (fun _ => 0) (fun t => t)
           (fun _ => 0) (fun t => t) (fun _ => 7).
Definition ex_api_calls : list apicall :=
  [ AToIncremental false [C0; C1]; AToIncremental true [C0; C1]; AToCumulative true [C0; C1];
    ASummarize true true [C0; C1]; ABlend [[C0]; [C0]] [1%nat; 0%nat]; ASelect [C0; C1] [1];
    ADeriveFields [C0; C1] [(2, PNum 3)]; AReplace [C0; C1] [DTag 9]; AMerge true true true [C0] [C1];
    ACoalesce [[C0; C1]; [C1]]; AAddStatics [C0] [C1] [1]; AThin 2 1 [C0; C1] [1%nat];
    AAggregatePeriod true [C0; C1]; AAggregate false true (fun _ => true) [C0; C1];
    AAggregate true true (fun _ => true) [C0; C1] ].
Example C03_entry_points_nonvacuous :
  forallb (fun a => match run_api ex_tagfns default_cfg a ex_heap with
                    | Ret h' _ => frozen_b ex_heap h'
                    | Raise _ _ => false
                    end) ex_api_calls = true /\
  run_api ex_tagfns default_cfg (ACoalesce [[C0; C1]; [C1]]) ex_heap = Ret ex_heap (RVals [C0; C1]) /\
  run_api ex_tagfns default_cfg (AMerge true true true [C0] [C1]) ex_heap = Ret ex_heap (RVals [C0; C1]) /\
  (exists h e, run_api ex_tagfns default_cfg (AToCumulative true [C1; C0]) ex_heap = Raise h e).
Proof.
  split; [vm_compute; reflexivity|]. split; [vm_compute; reflexivity|]. split; [vm_compute; reflexivity|].
  eexists; eexists; vm_compute; reflexivity.
Qed.
