(** C09 -- summarize conserves totals and keeps exactly the shared metadata.
    Static part: theorems about Model/Summarize.v that hold for EVERY rule table [rules], NON_LOSS
    list [nl] and weighted-average oracle [wavg].  The instance for the table generated from /repo
    (and the obligation [table_ok]) is in GenProps/C09_rules.v.

    Ratio fields are kept symbolic (oracle [wavg]): what is proved is WHICH key and WHICH weight key
    reach _conforming_weighted_average; its numerical value is checked by the harness against exact
    rational arithmetic within 1e-9 relative.
    Numbers: Base.num (n/1024, exact +); array fields: component-wise ([vmeas i]). *)
From Coq Require Import ZArith List Bool.
From Bermuda Require Import Model.Base Model.Summarize Proofs.SummarizeLib Proofs.Summarize Proofs.Summarize2.
Import ListNotations.
Local Open Scope Z_scope.

Section C09.
  Variable wavg : transform -> list value -> list value -> result value.
  Variable rules : rule_table.
  Variable nl : list str.
  Notation summ := (summarize wavg rules nl).
  Notation scv := (summarize_cell_values wavg rules nl).

  (* one cell per distinct (period, evaluation date, prev) -- in first-occurrence order before the
     final Triangle sort *)
  Theorem C09_one_cell_per_coordinate : forall prem t out,
    summ prem t = Ok out ->
    NoDup (map (coord_of (inc_of t)) out) /\
    (forall k, In k (map (coord_of (inc_of t)) out) <-> In k (map (coord_of (inc_of t)) t)).
  Proof. exact (summarize_one_cell_per_coordinate wavg rules nl). Qed.

  (* each output cell: kind, metadata = metadata_gcd, values = summarize_cell_values of exactly the
     input cells holding its coordinate *)
  Theorem C09_cell_summarises_its_group : forall prem t out o,
    summ prem t = Ok out -> In o out ->
    let g := group_of (inc_of t) (coord_of (inc_of t) o) t in
    g <> [] /\ scv (prem_of prem t) g = Ok (cvals o) /\ metadata_gcd t = Ok (cmeta o) /\
    ckind o = (if inc_of t then KInc else KCum) /\ (inc_of t = false -> prev o = None).
  Proof. exact (summarize_cell wavg rules nl). Qed.

  Theorem C09_keys : forall prem t out o,
    summ prem t = Ok out -> In o out ->
    NoDup (keys (cvals o)) /\
    forall k, In k (keys (cvals o)) <-> In k (union_keys (group_of (inc_of t) (coord_of (inc_of t) o) t)).
  Proof. exact (summarize_keys wavg rules nl). Qed.

  (* a field whose rule is "sum of its own key" equals the conforming sum over the group *)
  Theorem C09_additive_field_is_sum : forall prem t out o k v,
    summ prem t = Ok out -> In o out -> In (k, v) (cvals o) ->
    lookup_rule rules k = Some (RSum k) -> (prem_of prem t = true \/ mem_str k nl = false) ->
    conforming_sum (raw k (group_of (inc_of t) (coord_of (inc_of t) o) t)) = Ok v.
  Proof. exact (summarize_sums wavg rules nl). Qed.

  (* conforming_sum IS the sum (component i of array values; scalars count in every component) *)
  Theorem C09_conforming_sum_is_sum : forall i vals r,
    conforming_sum vals = Ok r -> in_range i r -> vmeas i r = zsum (map (vmeas i) vals).
  Proof. exact conforming_sum_meas. Qed.

  (* hence every field total over the whole triangle is conserved *)
  Theorem C09_conservation : forall prem t out k i,
    summ prem t = Ok out ->
    lookup_rule rules k = Some (RSum k) -> (prem_of prem t = true \/ mem_str k nl = false) ->
    (forall o, In o out -> in_range i (getv k o)) ->
    field_total i k out = field_total i k t.
  Proof. exact (conservation wavg rules nl). Qed.

  (* ratio fields: structural statement *)
  Theorem C09_ratio_field_structure : forall prem t out o k v a w tr,
    summ prem t = Ok out -> In o out -> In (k, v) (cvals o) ->
    lookup_rule rules k = Some (RWAvg a w tr) -> (prem_of prem t = true \/ mem_str k nl = false) ->
    let g := group_of (inc_of t) (coord_of (inc_of t) o) t in
    wavg tr (raw a g) (raw w g) = Ok v.
  Proof. exact (summarize_wavg wavg rules nl). Qed.

  (* shared metadata *)
  Theorem C09_metadata_shape : forall t m,
    metadata_gcd t = Ok m ->
    exists c0 r, t = c0 :: r /\
      (forall c, In c t -> risk_basis (cmeta c) = risk_basis m /\ currency (cmeta c) = currency m) /\
      country m = attr_gcd str_eqb (map country (map cmeta t)) /\
      reinsurance_basis m = attr_gcd str_eqb (map reinsurance_basis (map cmeta t)) /\
      loss_definition m = attr_gcd str_eqb (map loss_definition (map cmeta t)) /\
      per_occurrence_limit m = attr_gcd num_eqb (map per_occurrence_limit (map cmeta t)) /\
      details m = details_gcd (map details (map cmeta t)) /\
      loss_details m = details_gcd (map loss_details (map cmeta t)).
  Proof. exact metadata_gcd_shape. Qed.
  Theorem C09_shared_str_attribute : forall (f : meta -> option str) t s,
    t <> [] ->
    (attr_gcd str_eqb (map f (map cmeta t)) = Some s <-> forall c, In c t -> f (cmeta c) = Some s).
  Proof. exact shared_str_attribute. Qed.
  Theorem C09_shared_numeric_attribute : forall (vals : list (option num)) x,
    attr_gcd num_eqb vals = Some x <->
    exists r, vals = Some x :: r /\ forall v, In v vals -> exists y, v = Some y /\ num_n y = num_n x.
  Proof. exact attr_gcd_num_spec. Qed.
  (* NB: an entry whose shared value is None is dropped (`first_value is not None` in _details_gcd) *)
  Theorem C09_shared_detail_entry : forall (f : meta -> list (str * mval)) c0 r k v,
    NoDup (keys (f (cmeta c0))) ->
    (assoc k (details_gcd (map f (map cmeta (c0 :: r)))) = Some v <->
     assoc k (f (cmeta c0)) = Some v /\ v <> MNone /\
     forall c, In c r -> exists v', assoc k (f (cmeta c)) = Some v' /\ mval_pyeq v' v = true).
  Proof. exact shared_detail_entry. Qed.

  (* refusals *)
  Theorem C09_mixed_currency_refused : forall prem t c1 c2,
    In c1 t -> In c2 t -> currency (cmeta c1) <> currency (cmeta c2) -> summ prem t = Err TriangleError.
  Proof. exact (summarize_mixed_currency_refused wavg rules nl). Qed.
  Theorem C09_mixed_risk_basis_refused : forall prem t c1 c2,
    In c1 t -> In c2 t -> risk_basis (cmeta c1) <> risk_basis (cmeta c2) -> summ prem t = Err TriangleError.
  Proof. exact (summarize_mixed_risk_basis_refused wavg rules nl). Qed.
  Theorem C09_unregistered_field_refused_group : forall prem g k,
    In k (union_keys g) -> lookup_rule rules k = None -> scv prem g = Err TriangleError.
  Proof. exact (scv_unregistered wavg rules nl). Qed.
  Theorem C09_unregistered_field_never_ok : forall prem t out c k,
    summ prem t = Ok out -> In c t -> In k (keys (cvals c)) -> lookup_rule rules k <> None.
  Proof. exact (summarize_unregistered_never_ok wavg rules nl). Qed.
  (* every error is TriangleError unless an earlier group fails at value level (array shape /
     dtype mismatch, rule reading an absent key) *)
  Theorem C09_error_provenance : forall prem t e,
    summ prem t = Err e ->
    e = TriangleError \/
    exists k, In k (map (coord_of (inc_of t)) t) /\ scv (prem_of prem t) (group_of (inc_of t) k t) = Err e.
  Proof. exact (summarize_error_provenance wavg rules nl). Qed.

  (* summarize_premium=False on cumulative triangles *)
  Theorem C09_premium_not_summed : forall t out o k v,
    summ false t = Ok out -> inc_of t = false -> In o out -> In (k, v) (cvals o) -> mem_str k nl = true ->
    exists c g, group_of false (coord_of false o) t = c :: g /\ v = getv k c.
  Proof. exact (summarize_premium_not_summed wavg rules nl). Qed.
End C09.

Print Assumptions C09_one_cell_per_coordinate.
Print Assumptions C09_cell_summarises_its_group.
Print Assumptions C09_additive_field_is_sum.
Print Assumptions C09_conservation.
Print Assumptions C09_ratio_field_structure.
Print Assumptions C09_metadata_shape.
Print Assumptions C09_shared_detail_entry.
Print Assumptions C09_mixed_currency_refused.
Print Assumptions C09_unregistered_field_never_ok.
Print Assumptions C09_error_provenance.
Print Assumptions C09_premium_not_summed.

(* ---- the hypotheses are satisfiable by a non-trivial input: 2 slices x 2 coordinates ---- *)
Definition k_paid : str := [112;97;105;100;95;108;111;115;115].                         (* paid_loss *)
Definition k_ep : str := [101;97;114;110;101;100;95;112;114;101;109;105;117;109].       (* earned_premium *)
Definition ex_rules : rule_table := [(k_paid, RSum k_paid); (k_ep, RSum k_ep)].
Definition ex_meta (cov : Z) : meta :=
  mkMeta (Some [65]) (Some [85;83]) None None None None [([108], MStr [120])] [([99], MNum (Num false cov))].
Definition ex_cell (cov ev paid ep : Z) : cell :=
  mkCell KCum 730120 730210 ev None (ex_meta cov) [(k_paid, VNum (Num false paid)); (k_ep, VNum (Num false ep))].
Definition ex_tri : list cell :=
  [ex_cell 1024 730210 10240 102400; ex_cell 1024 730301 20480 102400;
   ex_cell 2048 730210 30720 102400; ex_cell 2048 730301 40960 102400].
Example C09_nonvacuous :
  summarize wavg_mask ex_rules [k_ep] false ex_tri
  = Ok [mkCell KCum 730120 730210 730210 None (mkMeta (Some [65]) (Some [85;83]) None None None None [([108], MStr [120])] [])
          [(k_paid, VNum (Num false 40960)); (k_ep, VNum (Num false 102400))];
        mkCell KCum 730120 730210 730301 None (mkMeta (Some [65]) (Some [85;83]) None None None None [([108], MStr [120])] [])
          [(k_paid, VNum (Num false 61440)); (k_ep, VNum (Num false 102400))]]
  /\ summarize wavg_mask ex_rules [k_ep] true ex_tri
     = Ok [mkCell KCum 730120 730210 730210 None (mkMeta (Some [65]) (Some [85;83]) None None None None [([108], MStr [120])] [])
          [(k_paid, VNum (Num false 40960)); (k_ep, VNum (Num false 204800))];
        mkCell KCum 730120 730210 730301 None (mkMeta (Some [65]) (Some [85;83]) None None None None [([108], MStr [120])] [])
          [(k_paid, VNum (Num false 61440)); (k_ep, VNum (Num false 204800))]].
Proof. split; vm_compute; reflexivity. Qed.
