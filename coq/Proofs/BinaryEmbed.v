(* C06: identical bytes whatever the order in which the cells were supplied -- C01's sorting theorem
   transported to the wire level through Model/BinEmbed.wire_of_base. *)
From Coq Require Import ZArith List Bool Permutation.
From Bermuda Require Import Lib.Bytes Model.Binary Model.BinEmbed.
From Bermuda Require Model.Base Model.Order Proofs.OrderP Proofs.TriangleP.
Import ListNotations.

Lemma sort_cells_perm cs cs' :
  Permutation cs cs' -> TriangleP.cells_comparable cs -> TriangleP.cells_separated cs ->
  Order.sort_cells cs = Order.sort_cells cs'.
Proof.
  intros P Hc Hs. rewrite !TriangleP.sort_cells_is_isort.
  exact (OrderP.isort_perm_invariant Order.cell_tuple Order.cell_cmp OrderP.cell_cmp_ok cs cs' P Hc Hs).
Qed.

(* Triangle(cells).to_binary: sort, embed, write -- with ANY writer-side metadata test *)
Theorem ser_with_supply_order_irrelevant meq fenc cs cs' :
  Permutation cs cs' -> TriangleP.cells_comparable cs -> TriangleP.cells_separated cs ->
  ser_with meq (map (wire_of_base fenc) (Order.sort_cells cs))
  = ser_with meq (map (wire_of_base fenc) (Order.sort_cells cs')).
Proof. intros P Hc Hs. now rewrite (sort_cells_perm cs cs' P Hc Hs). Qed.

Theorem ser_supply_order_irrelevant fenc cs cs' :
  Permutation cs cs' -> TriangleP.cells_comparable cs -> TriangleP.cells_separated cs ->
  ser (map (wire_of_base fenc) (Order.sort_cells cs))
  = ser (map (wire_of_base fenc) (Order.sort_cells cs')).
Proof. intros P Hc Hs. now rewrite (sort_cells_perm cs cs' P Hc Hs). Qed.
