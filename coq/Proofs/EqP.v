(** Equality, hashing and membership (C02), and the bridge between `==` and the order (C01). *)
From Coq Require Import ZArith List Bool Lia Permutation Sorted.
From Bermuda Require Import Model.Base Model.Order Model.Eq Proofs.OrderP.
Import ListNotations.
Local Open Scope Z_scope.

(* ---------- decidable equalities reflect Leibniz equality ---------- *)
Lemma list_eqb_eq {A} (eqb : A -> A -> bool) :
  (forall x y, eqb x y = true <-> x = y) -> forall l1 l2, list_eqb eqb l1 l2 = true <-> l1 = l2.
Proof.
  intros H. induction l1 as [|a r IH]; intros [|b s]; cbn; split; try discriminate; try reflexivity; intros E.
  - apply andb_prop in E. destruct E as [E1 E2]. apply H in E1. apply IH in E2. now subst.
  - injection E as -> ->. apply andb_true_intro. split; [now apply H | now apply IH].
Qed.
Lemma str_eqb_eq a b : str_eqb a b = true <-> a = b.
Proof. apply list_eqb_eq. intros x y. apply Z.eqb_eq. Qed.
Lemma opt_eqb_eq {A} (eqb : A -> A -> bool) :
  (forall x y, eqb x y = true <-> x = y) -> forall a b, opt_eqb eqb a b = true <-> a = b.
Proof.
  intros H [a|] [b|]; cbn; split; try discriminate; try reflexivity; intros E.
  - f_equal. now apply H. - injection E as ->. now apply H.
Qed.
Lemma pair_eqb_eq {A B} (ea : A -> A -> bool) (eb : B -> B -> bool) :
  (forall x y, ea x y = true <-> x = y) -> (forall x y, eb x y = true <-> x = y) ->
  forall p q, pair_eqb ea eb p q = true <-> p = q.
Proof.
  intros Ha Hb [a b] [a' b']. unfold pair_eqb. cbn. rewrite andb_true_iff, Ha, Hb.
  split; [intros [-> ->]; reflexivity | intros E; injection E as -> ->; auto].
Qed.
Lemma atom_eqb_eq a b : atom_eqb a b = true <-> a = b.
Proof.
  destruct a, b; cbn; split; try discriminate; try reflexivity; intros E.
  - f_equal. now apply str_eqb_eq. - injection E as ->. now apply str_eqb_eq.
  - f_equal. now apply Z.eqb_eq. - injection E as ->. now apply Z.eqb_eq.
  - f_equal. now apply Z.eqb_eq. - injection E as ->. now apply Z.eqb_eq.
Qed.
Lemma mkey_eqb_eq a b : mkey_eqb a b = true <-> a = b.
Proof.
  destruct a as [s l d ld], b as [s' l' d' ld']. unfold mkey_eqb. cbn.
  rewrite !andb_true_iff.
  rewrite (list_eqb_eq _ (opt_eqb_eq _ str_eqb_eq)), (opt_eqb_eq _ Z.eqb_eq),
          !(list_eqb_eq _ (pair_eqb_eq _ _ str_eqb_eq atom_eqb_eq)).
  split; [intros [[[-> ->] ->] ->]; reflexivity | intros E; injection E as -> -> -> ->; auto].
Qed.

(** `==` of Metadata is exactly "neither is smaller": distinct metadata are strictly ordered. *)
Lemma meta_pyeq_iff_cmp a b : meta_pyeq a b = true <-> meta_cmp a b = Some Eq.
Proof.
  unfold meta_pyeq, meta_cmp. rewrite mkey_eqb_eq. split.
  - intros E. rewrite E. apply (o_refl _ mkeyc_ok).
  - apply (o_eq _ mkeyc_ok).
Qed.
Lemma meta_pyeq_refl a : meta_pyeq a a = true.
Proof. apply mkey_eqb_eq. reflexivity. Qed.
Lemma meta_pyeq_key a b : meta_pyeq a b = true <-> canonical_key a = canonical_key b.
Proof. apply mkey_eqb_eq. Qed.

(* ---------- values ---------- *)
Lemma value_pyeq_nval a b : value_pyeq a b = true <-> nval a = nval b.
Proof.
  destruct a as [x| |f xs], b as [y| |g ys]; cbn; split; try discriminate; try reflexivity; intros E.
  - f_equal. now apply Z.eqb_eq. - injection E as E. now apply Z.eqb_eq.
  - f_equal. now apply (list_eqb_eq _ Z.eqb_eq). - injection E as ->. now apply (list_eqb_eq _ Z.eqb_eq).
Qed.

Lemma assoc_In {V} k (d : list (str * V)) v : assoc k d = Some v -> In (k, v) d.
Proof.
  induction d as [|[k' v'] r IH]; cbn; [discriminate|].
  destruct (str_eqb k k') eqn:E.
  - intros H. injection H as ->. apply str_eqb_eq in E. subst. now left.
  - intros H. right. now apply IH.
Qed.
Lemma In_assoc {V} k (d : list (str * V)) v : NoDup (keys d) -> In (k, v) d -> assoc k d = Some v.
Proof.
  induction d as [|[k' v'] r IH]; cbn; [contradiction|].
  intros Hnd [E|Hin].
  - injection E as -> ->. now rewrite (proj2 (str_eqb_eq k k) eq_refl).
  - inversion Hnd as [|? ? Hni Hnd']; subst.
    destruct (str_eqb k k') eqn:E.
    + apply str_eqb_eq in E. subst. exfalso. apply Hni. unfold keys. apply in_map_iff. now exists (k', v).
    + now apply IH.
Qed.
Lemma assoc_keys {V} k (d : list (str * V)) : In k (keys d) -> exists v, assoc k d = Some v.
Proof.
  induction d as [|[k' v'] r IH]; cbn; [contradiction|].
  destruct (str_eqb k k') eqn:E; [eauto|].
  intros [->|H]; [|now apply IH].
  now rewrite (proj2 (str_eqb_eq k k) eq_refl) in E.
Qed.

(* sorting strings / items with the generic insertion sort *)
Lemma strc_total a b : strc a b <> None.
Proof.
  revert b. induction a as [|x r IH]; intros [|y s]; cbn; try discriminate.
  unfold zc, total. destruct (x ?= y); try discriminate. apply IH.
Qed.

Definition keyc {V} : ocmp (str * V) := fun a b => strc (fst a) (fst b).
Lemma keyc_ok {V} : OrdOKf (@fst str V) keyc.
Proof. exact (proj_ok fst strc strc_ok). Qed.

Lemma ins_nitem_is_ins x l : ins_nitem x l = ins keyc x l.
Proof.
  induction l as [|y r IH]; cbn; [reflexivity|]. unfold ltb, keyc.
  destruct (strc (fst x) (fst y)) as [[| |]|]; try reflexivity; now rewrite IH.
Qed.
Lemma sort_nitems_is_isort d : sort_nitems d = isort keyc (map nitem d).
Proof.
  unfold sort_nitems, isort. generalize (@nil (str * nvalue)).
  induction d as [|kv r IH]; intros acc; cbn; [reflexivity|].
  rewrite ins_nitem_is_ins. apply IH.
Qed.

Lemma ins_str_perm x l : Permutation (x :: l) (ins_str x l).
Proof.
  induction l as [|y r IH]; cbn; [reflexivity|].
  destruct (strc x y) as [[| |]|]; try reflexivity.
  rewrite perm_swap. now constructor.
Qed.
Lemma sort_strs_perm l : Permutation l (sort_strs l).
Proof.
  induction l as [|x r IH]; cbn; [reflexivity|].
  rewrite <- ins_str_perm. now constructor.
Qed.

Lemma ins_str_sorted x l : StronglySorted (le strc) l -> StronglySorted (le strc) (ins_str x l).
Proof.
  intros Hs. induction Hs as [|y s Hs IH Hy]; cbn; [repeat constructor|].
  destruct (strc x y) as [[| |]|] eqn:E.
  - constructor; [now constructor|]. constructor; [unfold le; pose proof (o_opp _ strc_ok _ _ _ E); cbn in *; congruence|].
    apply (o_eq _ strc_ok) in E. subst. exact Hy.
  - constructor; [now constructor|]. constructor; [unfold le; pose proof (o_opp _ strc_ok _ _ _ E); cbn in *; congruence|].
    rewrite Forall_forall in *. intros z Hz. specialize (Hy z Hz). unfold le in *.
    intros Hzx. apply Hy.
    destruct (strc z y) as [[| |]|] eqn:Ezy; try reflexivity.
    + apply (o_eq _ strc_ok) in Ezy. subst. apply (o_opp _ strc_ok) in Hzx. cbn in Hzx. congruence.
    + apply (o_opp _ strc_ok) in Ezy. cbn in Ezy. pose proof (o_trans _ strc_ok _ _ _ Ezy Hzx) as Hyx.
      apply (o_opp _ strc_ok) in Hyx. cbn in Hyx. congruence.
    + exfalso. now apply (strc_total z y).
  - constructor; [exact IH|]. rewrite Forall_forall. intros z Hz.
    apply (Permutation_in _ (Permutation_sym (ins_str_perm x s))) in Hz. destruct Hz as [<-|Hz].
    + unfold le. congruence.
    + rewrite Forall_forall in Hy. now apply Hy.
  - exfalso. now apply (strc_total x y).
Qed.
Lemma sort_strs_sorted l : StronglySorted (le strc) (sort_strs l).
Proof. induction l as [|x r IH]; cbn; [constructor|]. now apply ins_str_sorted. Qed.
Lemma sort_strs_isort l : NoDup l -> sort_strs l = isort strc l.
Proof.
  intros N. apply (any_sorted_is_isort (fun x : str => x) strc (proj_ok (fun x => x) strc strc_ok)).
  - apply sort_strs_perm.
  - apply sort_strs_sorted.
  - intros a b _ _. apply strc_total.
  - intros a b _ _ E. now apply (o_eq _ strc_ok).
Qed.

Lemma NoDup_keys_items {V W} (g : V -> W) (d : list (str * V)) :
  NoDup (keys d) -> NoDup (map (fun kv => (fst kv, g (snd kv))) d).
Proof.
  induction d as [|[k v] r IH]; cbn; intros H; [constructor|].
  inversion H as [|? ? Hni Hnd]; subst. constructor; [|now apply IH].
  intros Hin. apply in_map_iff in Hin. destruct Hin as [[k' v'] [E Hin]]. cbn in E. injection E as -> _.
  apply Hni. unfold keys. apply in_map_iff. now exists (k, v').
Qed.

(** Equal value dicts have the same canonical (sorted, normalised) item list. *)
Lemma values_pyeq_sorted v1 v2 : NoDup (keys v1) -> NoDup (keys v2) ->
  values_pyeq v1 v2 = true -> sort_nitems v1 = sort_nitems v2.
Proof.
  intros N1 N2 H. unfold values_pyeq in H. apply andb_prop in H. destruct H as [Hk Hv].
  apply (list_eqb_eq _ str_eqb_eq) in Hk. rewrite forallb_forall in Hv.
  assert (PK : Permutation (keys v1) (keys v2)).
  { rewrite (sort_strs_perm (keys v1)), (sort_strs_perm (keys v2)), Hk. reflexivity. }
  rewrite !sort_nitems_is_isort.
  apply (isort_perm_invariant fst keyc keyc_ok).
  - apply NoDup_Permutation.
    + exact (NoDup_keys_items nval v1 N1).
    + exact (NoDup_keys_items nval v2 N2).
    + intros [k nv]. unfold nitem. rewrite !in_map_iff. split.
      * intros [[k1 x] [E Hin]]. cbn in E. injection E as -> <-.
        specialize (Hv _ Hin). cbn in Hv.
        destruct (assoc k v2) as [w|] eqn:Ea; [|discriminate].
        apply value_pyeq_nval in Hv. exists (k, w). cbn. split; [now rewrite Hv | now apply assoc_In].
      * intros [[k2 w] [E Hin]]. cbn in E. injection E as -> <-.
        assert (Hk2 : In k (keys v1)).
        { eapply Permutation_in; [apply Permutation_sym, PK|]. unfold keys. apply in_map_iff. now exists (k, w). }
        destruct (assoc_keys _ _ Hk2) as [x Hx].
        pose proof (assoc_In _ _ _ Hx) as Hin1. specialize (Hv _ Hin1). cbn in Hv.
        rewrite (In_assoc _ _ _ N2 Hin) in Hv. apply value_pyeq_nval in Hv.
        exists (k, x). cbn. split; [now rewrite Hv | assumption].
  - intros a b _ _. apply strc_total.
  - intros [k a] [k' b] Ha Hb E. unfold keyc in E. cbn in E. apply (o_eq _ strc_ok) in E. subst k'.
    apply in_map_iff in Ha, Hb. destruct Ha as [[ka xa] [Ea Ha]], Hb as [[kb xb] [Eb Hb]].
    unfold nitem in Ea, Eb. cbn in Ea, Eb. injection Ea as -> <-. injection Eb as -> <-.
    pose proof (In_assoc _ _ _ N1 Ha) as A1. pose proof (In_assoc _ _ _ N1 Hb) as A2.
    rewrite A1 in A2. now injection A2 as ->.
Qed.

(* ---------- cells ---------- *)
Definition dict_ok (c : cell) : Prop := NoDup (keys (cvals c)).

Lemma basis_is_inc a b : basis_eqb (ckind a) (ckind b) = true -> is_inc a = is_inc b.
Proof. unfold basis_eqb, is_inc. destruct (ckind a), (ckind b); cbn; congruence. Qed.

(** the hash/eq contract for cells *)
Theorem cell_eq_hash comps a b : hash_comps_ok comps = true -> dict_ok a -> dict_ok b ->
  cell_pyeq a b = true -> cell_hash_key comps a = cell_hash_key comps b.
Proof.
  intros Hok Da Db H. unfold cell_pyeq in H.
  repeat (apply andb_prop in H; destruct H as [H ?]).
  match goal with X : basis_eqb _ _ = true |- _ => pose proof (basis_is_inc _ _ X) as Hinc end.
  repeat match goal with X : (_ =? _) = true |- _ => apply Z.eqb_eq in X end.
  match goal with X : meta_pyeq _ _ = true |- _ => apply meta_pyeq_key in X; rename X into Hm end.
  match goal with X : values_pyeq _ _ = true |- _ => apply (values_pyeq_sorted _ _ Da Db) in X; rename X into Hv end.
  match goal with X : opt_eqb _ _ _ = true |- _ => apply (opt_eqb_eq _ Z.eqb_eq) in X; rename X into Hp end.
  unfold cell_hash_key. rewrite Hinc, Hp. f_equal.
  unfold hash_comps_ok in Hok. rewrite forallb_forall in Hok.
  apply map_ext_in. intros h Hh. specialize (Hok _ Hh).
  destruct h; cbn; try congruence.
Qed.

(** ... and the class name hashed raw breaks it (the F4 defect), for any other components *)
Theorem class_name_breaks_contract comps : In HClassName comps ->
  exists a b, cell_pyeq a b = true /\ cell_hash_key comps a <> cell_hash_key comps b.
Proof.
  intros Hin.
  exists (mkCell KCell 1 1 1 None default_meta []), (mkCell KCum 1 1 1 None default_meta []).
  split; [reflexivity|].
  unfold cell_hash_key. cbn. rewrite !app_nil_r. intros E.
  apply in_split in Hin. destruct Hin as [l1 [l2 ->]].
  rewrite !map_app in E.
  apply (f_equal (fun l => nth (length l1) l (HVz 0))) in E.
  rewrite !app_nth2 in E by (rewrite map_length; lia).
  rewrite !map_length, Nat.sub_diag in E. cbn in E. discriminate.
Qed.

(* reflexivity / symmetry / transitivity of value and cell equality *)
Lemma values_pyeq_refl v : NoDup (keys v) -> values_pyeq v v = true.
Proof.
  intros N. unfold values_pyeq. apply andb_true_intro. split; [now apply (list_eqb_eq _ str_eqb_eq)|].
  apply forallb_forall. intros [k x] Hin. cbn. rewrite (In_assoc _ _ _ N Hin). now apply value_pyeq_nval.
Qed.
Lemma values_pyeq_iff v1 v2 : NoDup (keys v1) -> NoDup (keys v2) ->
  (values_pyeq v1 v2 = true <-> sort_nitems v1 = sort_nitems v2).
Proof.
  intros N1 N2. split; [now apply values_pyeq_sorted|].
  intros E. rewrite !sort_nitems_is_isort in E.
  assert (P : Permutation (map nitem v1) (map nitem v2)).
  { rewrite (isort_perm keyc (map nitem v1)), (isort_perm keyc (map nitem v2)), E. reflexivity. }
  unfold values_pyeq. apply andb_true_intro. split.
  - apply (list_eqb_eq _ str_eqb_eq).
    assert (PK : Permutation (keys v1) (keys v2)).
    { unfold keys. replace (map fst v1) with (map fst (map nitem v1)) by (rewrite map_map; reflexivity).
      replace (map fst v2) with (map fst (map nitem v2)) by (rewrite map_map; reflexivity).
      now apply Permutation_map. }
    pose proof (sort_strs_isort (keys v1) N1) as S1. pose proof (sort_strs_isort (keys v2) N2) as S2.
    rewrite S1, S2.
    apply (isort_perm_invariant (fun x : str => x) strc (proj_ok (fun x => x) strc strc_ok)); [exact PK| |].
    + intros a b _ _. apply strc_total.
    + intros a b _ _ E0. now apply (o_eq _ strc_ok).
  - apply forallb_forall. intros [k x] Hin. cbn.
    assert (Hn : In (nitem (k, x)) (map nitem v2)).
    { eapply Permutation_in; [exact P|]. now apply in_map. }
    apply in_map_iff in Hn. destruct Hn as [[k2 w] [E2 Hin2]]. unfold nitem in E2. cbn in E2.
    injection E2 as -> E2. rewrite (In_assoc _ _ _ N2 Hin2). now apply value_pyeq_nval.
Qed.

Lemma cell_pyeq_char a b : dict_ok a -> dict_ok b ->
  (cell_pyeq a b = true <->
   is_inc a = is_inc b /\ ps a = ps b /\ pe a = pe b /\ ev a = ev b /\ prev a = prev b
   /\ canonical_key (cmeta a) = canonical_key (cmeta b) /\ sort_nitems (cvals a) = sort_nitems (cvals b)).
Proof.
  intros Da Db. unfold cell_pyeq. rewrite !andb_true_iff, !Z.eqb_eq, meta_pyeq_key,
    (values_pyeq_iff _ _ Da Db), (opt_eqb_eq _ Z.eqb_eq).
  assert (Hb : basis_eqb (ckind a) (ckind b) = true <-> is_inc a = is_inc b).
  { unfold basis_eqb, is_inc. destruct (ckind a), (ckind b); cbn; split; congruence. }
  rewrite Hb. tauto.
Qed.

Theorem cell_pyeq_refl a : dict_ok a -> cell_pyeq a a = true.
Proof. intros D. apply (cell_pyeq_char a a D D). repeat split. Qed.
Theorem cell_pyeq_sym a b : dict_ok a -> dict_ok b -> cell_pyeq a b = true -> cell_pyeq b a = true.
Proof.
  intros Da Db H. apply (cell_pyeq_char a b Da Db) in H. apply (cell_pyeq_char b a Db Da).
  intuition congruence.
Qed.
Theorem cell_pyeq_trans a b c : dict_ok a -> dict_ok b -> dict_ok c ->
  cell_pyeq a b = true -> cell_pyeq b c = true -> cell_pyeq a c = true.
Proof.
  intros Da Db Dc H1 H2. apply (cell_pyeq_char a b Da Db) in H1. apply (cell_pyeq_char b c Db Dc) in H2.
  apply (cell_pyeq_char a c Da Dc). intuition congruence.
Qed.

(* ---------- triangles ---------- *)
Theorem tri_pyeq_char l1 l2 :
  tri_pyeq l1 l2 = true <-> length l1 = length l2 /\ Forall2 (fun a b => cell_pyeq a b = true) l1 l2.
Proof.
  revert l2. induction l1 as [|a r IH]; intros [|b s]; cbn; split; try discriminate; intros H.
  - split; [reflexivity|constructor].
  - reflexivity.
  - destruct H as [H _]. discriminate.
  - destruct H as [H _]. discriminate.
  - apply andb_prop in H. destruct H as [H1 H2]. apply IH in H2. destruct H2 as [L F].
    split; [now rewrite L | now constructor].
  - destruct H as [L F]. inversion F; subst. apply andb_true_intro. split; [assumption|].
    apply IH. split; [now injection L | assumption].
Qed.

Definition tri_dict_ok (l : list cell) : Prop := Forall dict_ok l.

Theorem tri_pyeq_refl l : tri_dict_ok l -> tri_pyeq l l = true.
Proof.
  induction l as [|a r IH]; cbn; intros H; [reflexivity|]. inversion H; subst.
  apply andb_true_intro. split; [now apply cell_pyeq_refl | now apply IH].
Qed.
Theorem tri_pyeq_sym l1 l2 : tri_dict_ok l1 -> tri_dict_ok l2 -> tri_pyeq l1 l2 = true -> tri_pyeq l2 l1 = true.
Proof.
  revert l2. induction l1 as [|a r IH]; intros [|b s] H1 H2; cbn; try discriminate; [reflexivity|].
  intros H. apply andb_prop in H. destruct H as [Ha Hr]. inversion H1; inversion H2; subst.
  apply andb_true_intro. split; [now apply cell_pyeq_sym | now apply IH].
Qed.
Theorem tri_pyeq_trans l1 l2 l3 : tri_dict_ok l1 -> tri_dict_ok l2 -> tri_dict_ok l3 ->
  tri_pyeq l1 l2 = true -> tri_pyeq l2 l3 = true -> tri_pyeq l1 l3 = true.
Proof.
  revert l2 l3. induction l1 as [|a r IH]; intros [|b s] [|c t] H1 H2 H3; cbn; try discriminate; [reflexivity|].
  intros Ha Hb. apply andb_prop in Ha, Hb. destruct Ha as [Ha Hr], Hb as [Hb Hs].
  inversion H1; inversion H2; inversion H3; subst.
  apply andb_true_intro. split; [now apply cell_pyeq_trans with b | now apply IH with s].
Qed.

(** any single edit is detected *)
Theorem drop_trailing_detected l c : tri_pyeq (l ++ [c]) l = false /\ tri_pyeq l (l ++ [c]) = false.
Proof.
  split; apply not_true_is_false; intros H; apply tri_pyeq_char in H; destruct H as [L _];
  rewrite app_length in L; cbn in L; lia.
Qed.
Theorem prefix_detected l1 l2 : l2 <> [] -> tri_pyeq l1 (l1 ++ l2) = false.
Proof.
  intros Hne. apply not_true_is_false. intros H. apply tri_pyeq_char in H. destruct H as [L _].
  rewrite app_length in L. destruct l2; [congruence|cbn in L; lia].
Qed.
Theorem cell_edit_detected l1 a a' l2 : cell_pyeq a a' = false ->
  tri_pyeq (l1 ++ a :: l2) (l1 ++ a' :: l2) = false.
Proof.
  intros H. induction l1 as [|x r IH]; cbn; [now rewrite H|].
  rewrite IH. apply andb_false_r.
Qed.
(* what makes two cells unequal *)
Theorem cell_component_edit a b : dict_ok a -> dict_ok b ->
  (ps a <> ps b \/ pe a <> pe b \/ ev a <> ev b \/ prev a <> prev b
   \/ canonical_key (cmeta a) <> canonical_key (cmeta b)
   \/ sort_nitems (cvals a) <> sort_nitems (cvals b) \/ is_inc a <> is_inc b) ->
  cell_pyeq a b = false.
Proof.
  intros Da Db H. apply not_true_is_false. intros E. apply (cell_pyeq_char a b Da Db) in E.
  intuition congruence.
Qed.

(** equal triangles have equal hash keys *)
Theorem tri_eq_hash comps l1 l2 : hash_comps_ok comps = true -> tri_dict_ok l1 -> tri_dict_ok l2 ->
  tri_pyeq l1 l2 = true -> tri_hash_key comps l1 = tri_hash_key comps l2.
Proof.
  intros Hok. revert l2. induction l1 as [|a r IH]; intros [|b s] H1 H2; cbn; try discriminate; [reflexivity|].
  intros H. apply andb_prop in H. destruct H as [Ha Hr]. inversion H1; inversion H2; subst.
  f_equal; [now apply cell_eq_hash | now apply IH].
Qed.

(** membership, subset, intersection and difference agree with cell equality *)
Theorem contains_spec t c : tri_contains t c = true <-> exists d, In d t /\ cell_pyeq d c = true.
Proof. unfold tri_contains. apply existsb_exists. Qed.
Theorem and_spec a b c : In c (tri_and_cells a b) <-> In c b /\ tri_contains a c = true.
Proof. unfold tri_and_cells. apply filter_In. Qed.
Theorem sub_spec a b c : In c (tri_sub_cells a b) <-> In c a /\ tri_contains b c = false.
Proof. unfold tri_sub_cells. rewrite filter_In, negb_true_iff. reflexivity. Qed.
Theorem le_spec a b : tri_le a b = true <->
  (length a <= length b)%nat /\ forall c, In c a -> tri_contains b c = true.
Proof.
  unfold tri_le. rewrite andb_true_iff, Nat.leb_le, forallb_forall. reflexivity.
Qed.
Theorem and_sub_partition a b c : In c b -> (In c (tri_and_cells a b) \/ In c (tri_sub_cells b a)) /\
  ~ (In c (tri_and_cells a b) /\ In c (tri_sub_cells b a)).
Proof.
  intros Hc. rewrite and_spec, sub_spec. destruct (tri_contains a c); split; intuition congruence.
Qed.
