(** C18 -- the share table computed by accident_quarter_to_policy_year's helpers gives every accident quarter
    a positive total share when issuance is continuous (so conservation is unconditional there). *)
From Coq Require Import ZArith QArith Qabs List Bool Lia Lqa Arith.
From Bermuda Require Import Model.Base Lib.Calendar Model.Blend Model.Units Proofs.BlendP Proofs.UnitsP Proofs.UnitsQ.
Import ListNotations.
Local Open Scope Q_scope.

(* ------------------------------------------------------------------ ranges and sums *)
Lemma ids_In lo hi j : In j (ids lo hi) <-> (lo <= j <= hi)%Z.
Proof.
  unfold ids. rewrite in_map_iff. split.
  - intros [k [<- Hk]]. apply in_seq in Hk. lia.
  - intro H. exists (Z.to_nat (j - lo)). split; [lia|]. apply in_seq. lia.
Qed.
Lemma qsum_pos_member {A} (f : A -> Q) l a :
  (forall x, In x l -> 0 <= f x) -> In a l -> 0 < f a -> 0 < qsum (map f l).
Proof.
  induction l as [|x l IH]; intros Hn Hin Hp; [destruct Hin|]. simpl.
  assert (N : 0 <= qsum (map f l)).
  { apply qsum_nonneg. apply Forall_forall. intros y Hy. apply in_map_iff in Hy. destruct Hy as [z [<- Hz]].
    apply Hn. right. exact Hz. }
  destruct Hin as [->|Hin].
  - lra.
  - pose proof (Hn x (or_introl eq_refl)). pose proof (IH (fun y Hy => Hn y (or_intror Hy)) Hin Hp). lra.
Qed.
Lemma qsum_map_nonneg {A} (f : A -> Q) l : (forall x, In x l -> 0 <= f x) -> 0 <= qsum (map f l).
Proof.
  intro H. apply qsum_nonneg. apply Forall_forall. intros y Hy. apply in_map_iff in Hy.
  destruct Hy as [z [<- Hz]]. auto.
Qed.

(* ------------------------------------------------------------------ monthly shares *)
Lemma inject_Z_pos z : (0 < z)%Z -> 0 < inject_Z z.
Proof. intro H. unfold Qlt, inject_Z. simpl. lia. Qed.
Lemma vol_pos ws we L : (ws <= we)%Z -> (1 <= L)%Z -> 0 < 1 / inject_Z (we - ws + 1) / inject_Z L.
Proof.
  intros H1 H2. pose proof (inject_Z_pos (we - ws + 1) ltac:(lia)). pose proof (inject_Z_pos L ltac:(lia)).
  apply Qlt_shift_div_l; auto. rewrite Qmult_0_l. apply Qlt_shift_div_l; auto. lra.
Qed.
Lemma month_contrib_nonneg vol L wm j : 0 < vol -> 0 <= month_contrib vol L wm j.
Proof.
  intro H. unfold month_contrib. assert (0 <= vol / 2) by (apply Qle_shift_div_l; lra).
  destruct (j =? wm)%Z; auto. destruct ((wm <? j)%Z && (j <? wm + L)%Z); [lra|]. destruct (j =? wm + L)%Z; auto. lra.
Qed.
Lemma month_contrib_pos vol L wm j : 0 < vol -> (1 <= L)%Z -> (wm <= j <= wm + L)%Z -> 0 < month_contrib vol L wm j.
Proof.
  intros H HL Hj. unfold month_contrib. assert (0 < vol / 2) by (apply Qlt_shift_div_l; lra).
  destruct (j =? wm)%Z eqn:E1; auto.
  destruct ((wm <? j)%Z && (j <? wm + L)%Z) eqn:E2; auto.
  destruct (j =? wm + L)%Z eqn:E3; auto. exfalso.
  apply Z.eqb_neq in E1. apply Z.eqb_neq in E3. apply andb_false_iff in E2.
  destruct E2 as [E2|E2]; [apply Z.ltb_ge in E2|apply Z.ltb_ge in E2]; lia.
Qed.
Lemma month_share_nonneg ws we L j : (ws <= we)%Z -> (1 <= L)%Z -> 0 <= month_share ws we L j.
Proof.
  intros H1 H2. unfold month_share. apply qsum_map_nonneg. intros wm _.
  apply month_contrib_nonneg. apply vol_pos; assumption.
Qed.
(* every month from the first writing month to the last earning month earns something *)
Lemma month_share_pos ws we L j :
  (ws <= we)%Z -> (1 <= L)%Z -> (ws <= j <= we + L)%Z -> 0 < month_share ws we L j.
Proof.
  intros H1 H2 Hj. unfold month_share. pose proof (vol_pos ws we L H1 H2) as Hv.
  apply (qsum_pos_member _ _ (Z.max ws (j - L))).
  - intros wm _. apply month_contrib_nonneg. exact Hv.
  - apply ids_In. lia.
  - apply month_contrib_pos; auto. lia.
Qed.

(* ------------------------------------------------------------------ quarterly shares *)
Lemma quarter_raw_nonneg ws we L q x :
  (ws <= we)%Z -> (1 <= L)%Z -> quarter_raw ws we L q = Some x -> 0 <= x.
Proof.
  intros H1 H2. unfold quarter_raw.
  destruct (filter _ (ids ws (we + L))) as [|m ms]; [discriminate|]. intro H. injection H as <-.
  apply (qsum_map_nonneg (month_share ws we L) (m :: ms)). intros j _. apply month_share_nonneg; assumption.
Qed.
Lemma quarter_raw_pos ws we L q j :
  (ws <= we)%Z -> (1 <= L)%Z -> (ws <= j <= we + L)%Z -> in_period q (month_start j) = true ->
  exists x, quarter_raw ws we L q = Some x /\ 0 < x.
Proof.
  intros H1 H2 Hj Hq. unfold quarter_raw.
  assert (Hin : In j (filter (fun j => in_period q (month_start j)) (ids ws (we + L)))).
  { apply filter_In. split; [apply ids_In; exact Hj|exact Hq]. }
  destruct (filter _ (ids ws (we + L))) as [|m ms] eqn:E; [destruct Hin|].
  eexists. split; [reflexivity|].
  apply (qsum_pos_member (month_share ws we L) (m :: ms) j).
  - intros y _. apply month_share_nonneg; assumption.
  - exact Hin.
  - apply month_share_pos; assumption.
Qed.

Lemma period_eqb_eq a b : period_eqb a b = true <-> a = b.
Proof.
  destruct a, b. unfold period_eqb. simpl. rewrite andb_true_iff, !Z.eqb_eq. split; [intros []; congruence|].
  intro H. inversion H. auto.
Qed.
(* the dictionary of one policy year: the entry of quarter q (if q is a period of the triangle) is quarter_raw *)
Lemma passoc_py_table cont L quarters s q :
  In q quarters ->
  passoc q (snd (py_table cont L quarters s)) = quarter_raw s (if cont then (s + 11)%Z else s) L q.
Proof.
  unfold py_table. cbn [snd]. set (we := if cont then (s + 11)%Z else s).
  induction quarters as [|q' qs IH]; intro Hin; [destruct Hin|]. cbn [flat_map].
  destruct (period_eqb q q') eqn:E.
  - apply period_eqb_eq in E. subst q'.
    destruct (quarter_raw s we L q) as [x|] eqn:Er; cbn [app passoc].
    + assert (period_eqb q q = true) as -> by (apply period_eqb_eq; reflexivity). reflexivity.
    + (* no entry for q here; later duplicates of q (there are none in a triangle) would give None as well *)
      clear IH Hin. induction qs as [|q2 qs IH2]; [reflexivity|]. cbn [flat_map].
      destruct (period_eqb q q2) eqn:E2.
      * apply period_eqb_eq in E2. subst q2. rewrite Er. exact IH2.
      * destruct (quarter_raw s we L q2); cbn [app passoc]; [rewrite E2|]; exact IH2.
  - destruct Hin as [->|Hin]; [assert (period_eqb q q = true) by (apply period_eqb_eq; reflexivity); congruence|].
    destruct (quarter_raw s we L q'); cbn [app passoc]; [rewrite E|]; apply IH; exact Hin.
Qed.

(* ------------------------------------------------------------------ totals *)
Lemma raw_or_0_nonneg cont L quarters s q : (1 <= L)%Z -> In q quarters ->
  0 <= raw_or_0 q (snd (py_table cont L quarters s)).
Proof.
  intros HL Hin. unfold raw_or_0. rewrite (passoc_py_table cont L quarters s q Hin).
  destruct (quarter_raw s (if cont then (s + 11)%Z else s) L q) as [x|] eqn:E; [|lra].
  eapply quarter_raw_nonneg; [| exact HL | exact E]. destruct cont; lia.
Qed.
(* continuous issuance: a quarter containing the first day of month j, with j among the writing months of some
   policy year in the table, has a positive total share *)
Lemma total_share_pos L quarters starts q s j :
  (1 <= L)%Z -> In q quarters -> In s starts -> (s <= j <= s + 11)%Z -> in_period q (month_start j) = true ->
  0 < total_share (code_share_table true L quarters starts) q.
Proof.
  intros HL Hq Hs Hj Hin. unfold total_share, code_share_table. rewrite map_map.
  apply (qsum_pos_member _ _ s).
  - intros s' _. apply raw_or_0_nonneg; assumption.
  - exact Hs.
  - unfold raw_or_0. rewrite (passoc_py_table true L quarters s q Hq).
    destruct (quarter_raw_pos s (s + 11) L q j ltac:(lia) HL ltac:(lia) Hin) as [x [Ex Px]].
    rewrite Ex. exact Px.
Qed.

(* the policy years of policy_years_covered tile the months from s0 to beyond e *)
Lemma py_start_covers s0 e j : (s0 <= j <= e)%Z ->
  exists s, In s (py_start_ids s0 e) /\ (s <= j <= s + 11)%Z.
Proof.
  intro H. exists (s0 + 12 * ((j - s0) / 12))%Z. split.
  - unfold py_start_ids. apply in_map_iff. exists (Z.to_nat ((j - s0) / 12)).
    assert (0 <= (j - s0) / 12)%Z by (apply Z.div_pos; lia).
    split; [rewrite Z2Nat.id by lia; reflexivity|]. apply in_seq.
    assert ((j - s0) / 12 <= (e - s0) / 12)%Z by (apply Z.div_le_mono; lia). lia.
  - pose proof (Z.div_mod (j - s0) 12 ltac:(lia)). pose proof (Z.mod_pos_bound (j - s0) 12 ltac:(lia)). lia.
Qed.
Lemma py_first_start_le f om : (py_first_start f om <= f)%Z.
Proof. unfold py_first_start. pose proof (Z.mod_pos_bound (f - (om - 1)) 12 ltac:(lia)). lia. Qed.

(* accident_quarter_to_policy_year, continuous issuance: every period of the triangle that contains the first
   day of some month between the first period's start month f and the last period's end month e has a non-zero
   total share in the table the code computes *)
Theorem code_table_covers L quarters f e om q j :
  (1 <= L)%Z -> In q quarters -> (f <= j <= e)%Z -> in_period q (month_start j) = true ->
  ~ total_share (code_share_table true L quarters (py_start_ids (py_first_start f om) e)) q == 0.
Proof.
  intros HL Hq Hj Hin.
  destruct (py_start_covers (py_first_start f om) e j) as [s [Hs Hsj]].
  { pose proof (py_first_start_le f om). lia. }
  pose proof (total_share_pos L quarters _ q s j HL Hq Hs Hsj Hin). lra.
Qed.

(* conservation, unconditional for continuous issuance *)
Theorem aq_conservation_continuous L quarters f e om cells evd fld k :
  (1 <= L)%Z ->
  (forall c, In c (cells_at evd cells) ->
     In (cperiod c) quarters /\ exists j, (f <= j <= e)%Z /\ in_period (cperiod c) (month_start j) = true) ->
  let ep := code_share_table true L quarters (py_start_ids (py_first_start f om) e) in
  out_amount ep cells evd fld k == in_amount cells evd fld k.
Proof.
  intros HL H ep. apply aq_conservation. intros c Hc. destruct (H c Hc) as [Hq [j [Hj Hin]]].
  apply (code_table_covers L quarters f e om (cperiod c) j HL Hq Hj Hin).
Qed.

(* ------------------------------------------------------------------ non-continuous issuance (F18, finer cut) *)
(* all premium written in the first month of the policy year: the earning months of policy year s are s .. s+L.
   If policies last at least 11 months these windows tile the calendar, so every quarter is covered as well;
   for shorter policies the months s+L+1 .. s+11 earn nothing (F18: C18_aq_to_py_code_table_refuted, L = 6). *)
Lemma total_share_pos_noncontinuous L quarters starts q s j :
  (11 <= L)%Z -> In q quarters -> In s starts -> (s <= j <= s + 11)%Z -> in_period q (month_start j) = true ->
  0 < total_share (code_share_table false L quarters starts) q.
Proof.
  intros HL Hq Hs Hj Hin. unfold total_share, code_share_table. rewrite map_map.
  apply (qsum_pos_member _ _ s).
  - intros s' _. apply raw_or_0_nonneg; [lia|assumption].
  - exact Hs.
  - unfold raw_or_0. rewrite (passoc_py_table false L quarters s q Hq).
    destruct (quarter_raw_pos s s L q j ltac:(lia) ltac:(lia) ltac:(lia) Hin) as [x [Ex Px]].
    rewrite Ex. exact Px.
Qed.
Theorem code_table_covers_noncontinuous L quarters f e om q j :
  (11 <= L)%Z -> In q quarters -> (f <= j <= e)%Z -> in_period q (month_start j) = true ->
  ~ total_share (code_share_table false L quarters (py_start_ids (py_first_start f om) e)) q == 0.
Proof.
  intros HL Hq Hj Hin.
  destruct (py_start_covers (py_first_start f om) e j) as [s [Hs Hsj]].
  { pose proof (py_first_start_le f om). lia. }
  pose proof (total_share_pos_noncontinuous L quarters _ q s j HL Hq Hs Hsj Hin). lra.
Qed.
Theorem aq_conservation_noncontinuous L quarters f e om cells evd fld k :
  (11 <= L)%Z ->
  (forall c, In c (cells_at evd cells) ->
     In (cperiod c) quarters /\ exists j, (f <= j <= e)%Z /\ in_period (cperiod c) (month_start j) = true) ->
  let ep := code_share_table false L quarters (py_start_ids (py_first_start f om) e) in
  out_amount ep cells evd fld k == in_amount cells evd fld k.
Proof.
  intros HL H ep. apply aq_conservation. intros c Hc. destruct (H c Hc) as [Hq [j [Hj Hin]]].
  apply (code_table_covers_noncontinuous L quarters f e om (cperiod c) j HL Hq Hj Hin).
Qed.
