(** C14 -- sample order through the scenario column: whatever order the rows of one cell arrive in,
    sorting them by `scenario` (as both readers do for groups of several rows) restores the order
    in which they were written, provided the scenario numbers are distinct. *)
From Coq Require Import ZArith List Bool Lia ZifyBool Sorting.Permutation Sorting.Sorted.
From Bermuda Require Import Model.Base Model.Frame.
Import ListNotations.
Local Open Scope Z_scope.

Definition scen_le (a b : row) : Prop := scen a <= scen b.

Lemma insert_row_perm r l : Permutation (insert_row r l) (r :: l).
Proof.
  induction l as [|x t IH]; cbn; auto. destruct (scen r <=? scen x); auto.
  rewrite IH. apply perm_swap.
Qed.
Lemma sort_scen_perm l : Permutation (sort_scen l) l.
Proof.
  induction l as [|a l IH]; cbn; auto. rewrite insert_row_perm. auto.
Qed.
Lemma insert_row_sorted r l : StronglySorted scen_le l -> StronglySorted scen_le (insert_row r l).
Proof.
  induction l as [|x t IH]; cbn; intros S.
  - constructor; auto.
  - inversion S as [|? ? St Hx]; subst. destruct (scen r <=? scen x) eqn:E.
    + constructor; auto. constructor.
      * unfold scen_le; lia.
      * eapply Forall_impl; [|exact Hx]. unfold scen_le. intros; lia.
    + constructor; auto.
      apply (Permutation_Forall (Permutation_sym (insert_row_perm r t))).
      constructor; auto. unfold scen_le; lia.
Qed.
Lemma sort_scen_sorted l : StronglySorted scen_le (sort_scen l).
Proof. induction l as [|a l IH]; cbn; [constructor | apply insert_row_sorted; auto]. Qed.

Lemma scen_inj_on l a b :
  NoDup (map scen l) -> In a l -> In b l -> scen a = scen b -> a = b.
Proof.
  induction l as [|x l IH]; cbn; [tauto|]. intros ND Ha Hb E. inversion ND as [|? ? Hn ND']; subst.
  destruct Ha as [->|Ha], Hb as [->|Hb]; auto.
  - exfalso. apply Hn. rewrite E. apply in_map; auto.
  - exfalso. apply Hn. rewrite <- E. apply in_map; auto.
Qed.

Lemma sorted_perm_unique l1 : forall l2,
  StronglySorted scen_le l1 -> StronglySorted scen_le l2 -> Permutation l1 l2 ->
  NoDup (map scen l1) -> l1 = l2.
Proof.
  induction l1 as [|a l1 IH]; intros l2 S1 S2 P ND.
  - apply Permutation_nil in P; auto.
  - destruct l2 as [|b l2]; [apply Permutation_sym, Permutation_nil in P; discriminate|].
    inversion S1 as [|? ? S1' H1]; inversion S2 as [|? ? S2' H2]; subst.
    assert (Hb : In b (a :: l1)) by (apply (Permutation_in b (Permutation_sym P)); cbn; auto).
    assert (Ha : In a (b :: l2)) by (apply (Permutation_in a P); cbn; auto).
    assert (Hab : scen a <= scen b).
    { destruct Hb as [->|Hb]; [lia|]. rewrite Forall_forall in H1. apply H1; auto. }
    assert (Hba : scen b <= scen a).
    { destruct Ha as [->|Ha]; [lia|]. rewrite Forall_forall in H2. apply H2; auto. }
    assert (a = b) by (apply (scen_inj_on (a :: l1)); cbn; auto; lia). subst b.
    f_equal. apply IH; auto.
    + eapply Permutation_cons_inv; eauto.
    + cbn in ND. inversion ND; auto.
Qed.

(** the order of the rows of a group does not matter *)
Theorem sort_scen_restores l l' :
  Permutation l l' -> NoDup (map scen l) -> StronglySorted scen_le l -> sort_scen l' = l.
Proof.
  intros P ND S. symmetry. apply sorted_perm_unique; auto.
  - apply sort_scen_sorted.
  - rewrite sort_scen_perm. exact P.
Qed.
Corollary sort_scen_id l : NoDup (map scen l) -> StronglySorted scen_le l -> sort_scen l = l.
Proof. intros. apply sort_scen_restores; auto. Qed.

(* the rows written for one cell: scenario ndx+1 for ndx = 0..n-1, in this order *)
Lemma scen_seq_sorted (mk : nat -> row) n :
  (forall i, scen (mk i) = 1024 * (Z.of_nat i + 1)) ->
  NoDup (map scen (map mk (seq 0 n))) /\ StronglySorted scen_le (map mk (seq 0 n)).
Proof.
  intros H. generalize 0%nat as s. induction n as [|n IH]; intros s; cbn.
  - split; constructor.
  - destruct (IH (S s)) as [ND SS]. split.
    + constructor; auto. rewrite map_map. intros Hin. apply in_map_iff in Hin as [j [E Hj]].
      apply in_seq in Hj. rewrite !H in E. lia.
    + constructor; auto. apply Forall_forall. intros r Hr. apply in_map_iff in Hr as [j [<- Hj]].
      apply in_seq in Hj. unfold scen_le. rewrite !H. lia.
Qed.
