(** C17 -- for ANY description d with thin_spec_ok d = true the model parametrised by d (Model/ResampleDesc.v) is
    the thin model of Model/Resample.v; hence it satisfies the thin statements of Props/C17.v. *)
From Coq Require Import ZArith List Bool PeanoNat Lia String.
From Bermuda Require Import Model.Base Model.Resample Model.ResampleDesc Proofs.ResampleP.
Import ListNotations.
Local Notation length := Datatypes.length.

Lemma refuse_ok_spec b : refuse_ok b = true -> forall r n k t dr,
  run_branches (b :: r) n k t dr = if n <? k then Err ValueError else run_branches r n k t dr.
Proof.
  destruct b as [c a b' e|c a b'|]; try (intro H; discriminate H).
  destruct c, a, b', e; simpl; intro H; try discriminate H; reflexivity.
Qed.

Lemma ident_ok_spec b : ident_ok b = true -> forall r n k t dr,
  run_branches (b :: r) n k t dr = if n =? k then Ok t else run_branches r n k t dr.
Proof.
  destruct b as [c a b' e|c a b'|]; try (intro H; discriminate H).
  destruct c, a, b'; simpl; intro H; try discriminate H; intros; try reflexivity.
  rewrite (Nat.eqb_sym k n). reflexivity.
Qed.

Lemma branches_ok_spec brs : branches_ok brs = true -> forall n k t dr,
  run_branches brs n k t dr = if n <? k then Err ValueError else if n =? k then Ok t else Ok dr.
Proof.
  destruct brs as [|r [|i [|[| |] [|x y]]]]; try (intro H; discriminate H).
  unfold branches_ok. intro H. apply orb_true_iff in H. intros n k t dr.
  destruct H as [H|H]; apply andb_true_iff in H; destruct H as [H1 H2].
  - rewrite (refuse_ok_spec _ H1), (ident_ok_spec _ H2). reflexivity.
  - rewrite (ident_ok_spec _ H1), (refuse_ok_spec _ H2). simpl.
    destruct (n =? k) eqn:E1; destruct (n <? k) eqn:E2; try reflexivity.
    apply Nat.eqb_eq in E1. apply Nat.ltb_lt in E2. lia.
Qed.

Lemma guard_tail_spec xs r : forallb guard_tail_ok r = true ->
  forallb (guard_arr xs) r = if existsb is_len1 r then 1 <? length xs else true.
Proof.
  induction r as [|g r IH]; [reflexivity|]. simpl. intro H. apply andb_true_iff in H. destruct H as [H1 H2].
  rewrite (IH H2). destruct g as [| |[|[|m]]]; simpl in H1; try discriminate H1; simpl.
  - reflexivity.
  - destruct (existsb is_len1 r); [|rewrite andb_true_r; reflexivity].
    destruct (1 <? length xs); reflexivity.
Qed.

Lemma thin_valueD_eq gs : guards_ok gs = true -> forall ndxs v, thin_valueD gs ndxs v = thin_value ndxs v.
Proof.
  destruct gs as [|[| |n] [|[| |m] r]]; try (intro H; discriminate H). simpl. intro H.
  apply andb_true_iff in H. destruct H as [H1 H2]. intros ndxs v.
  destruct v as [x| |f xs]; try reflexivity.
  unfold thin_valueD, thin_value. cbn [forallb guard_arr andb]. rewrite (guard_tail_spec xs r H1), H2. reflexivity.
Qed.

Lemma thin_cellD_eq gs : guards_ok gs = true -> forall ndxs c, thin_cellD gs ndxs c = thin_cell ndxs c.
Proof.
  intros H ndxs c. unfold thin_cellD, thin_cell, map_vals. f_equal. apply map_ext. intros [k v]. simpl.
  rewrite (thin_valueD_eq gs H). reflexivity.
Qed.

Record thin_decided (d : thin_desc) : Prop := mkThinDecided {
  tdc_branches : branches_ok (td_branches d) = true;
  tdc_guards : guards_ok (td_guards d) = true
}.
Lemma thin_spec_ok_decided d : thin_spec_ok d = true -> thin_decided d.
Proof.
  unfold thin_spec_ok. intro H.
  repeat match type of H with (_ && _ = true) => apply andb_true_iff in H; let H' := fresh "E" in destruct H as [H H'] end.
  constructor; assumption.
Qed.

Section Generic.
Variable d : thin_desc.
Hypothesis OK : thin_spec_ok d = true.
Let Hd : thin_decided d := thin_spec_ok_decided d OK.

Theorem thinD_is_thin : forall t k ndxs, thinD d t k ndxs = thin t k ndxs.
Proof.
  intros t k ndxs. unfold thinD, thin. destruct (num_samples t) as [n|e]; [|reflexivity]. cbn [bind].
  rewrite (branches_ok_spec _ (tdc_branches d Hd)).
  rewrite (map_ext _ _ (thin_cellD_eq _ (tdc_guards d Hd) ndxs)). reflexivity.
Qed.

Theorem thin_valueD_is_thin_value : forall ndxs v, thin_valueD (td_guards d) ndxs v = thin_value ndxs v.
Proof. apply thin_valueD_eq. exact (tdc_guards d Hd). Qed.

Theorem thinD_refuses : forall t k ndxs n, num_samples t = Ok n -> n < k -> thinD d t k ndxs = Err ValueError.
Proof. intros t k ndxs n. rewrite thinD_is_thin. apply thin_refuses. Qed.

Theorem thinD_identity : forall t ndxs n, num_samples t = Ok n -> thinD d t n ndxs = Ok t.
Proof. intros t ndxs n. rewrite thinD_is_thin. apply thin_identity. Qed.

Theorem thinD_structure : forall t k ndxs t', thinD d t k ndxs = Ok t' ->
  exists n, num_samples t = Ok n /\ k <= n /\ (k = n -> t' = t) /\
    (k < n ->
       length t' = length t /\
       (forall i c, nth_error t i = Some c ->
          exists c', nth_error t' i = Some c' /\ same_frame c c' /\ keys (cvals c') = keys (cvals c)) /\
       (forall i key, field t' i key = option_map (thin_valueD (td_guards d) ndxs) (field t i key))).
Proof.
  intros t k ndxs t' H. rewrite thinD_is_thin in H. destruct (thin_structure _ _ _ _ H) as [n [A [B [C D]]]].
  exists n. split; [exact A|]. split; [exact B|]. split; [exact C|]. intro L. destruct (D L) as [D1 [D2 D3]].
  split; [exact D1|]. split; [exact D2|]. intros i key. rewrite D3.
  destruct (field t i key) as [v|]; [|reflexivity]. simpl. rewrite thin_valueD_is_thin_value. reflexivity.
Qed.

Theorem thin_valueD_spec : forall ndxs v,
  match v with
  | VArr f xs => if 1 <? length xs
                 then exists ys, thin_valueD (td_guards d) ndxs v = VArr f ys /\ length ys = length ndxs /\
                                 forall j, j < length ndxs -> nth j ys 0%Z = nth (nth j ndxs 0) xs 0%Z
                 else thin_valueD (td_guards d) ndxs v = v
  | _ => thin_valueD (td_guards d) ndxs v = v
  end.
Proof. intros ndxs v. rewrite thin_valueD_is_thin_value. apply thin_value_spec. Qed.

Theorem thinD_preserves_samplewise_relation :
  forall t k ndxs t' n (f : Z -> Z) ia ka fa A ib kb fb B,
    thinD d t k ndxs = Ok t' -> num_samples t = Ok n -> length ndxs = k -> Forall (fun i => i < n) ndxs ->
    field t ia ka = Some (VArr fa A) -> field t ib kb = Some (VArr fb B) ->
    length A = n -> length B = n -> 1 < n ->
    (forall i, i < n -> nth i B 0%Z = f (nth i A 0%Z)) ->
    exists A' B', field t' ia ka = Some (VArr fa A') /\ field t' ib kb = Some (VArr fb B') /\
                  length A' = k /\ length B' = k /\
                  forall j, j < k -> nth j B' 0%Z = f (nth j A' 0%Z).
Proof.
  intros t k ndxs t' n f ia ka fa A ib kb fb B. rewrite thinD_is_thin. apply thin_preserves_samplewise_relation.
Qed.
End Generic.

(* ------------------------------------------------------------------ _sort_x_on_y_rank *)
Theorem rerankD_is_rerank d : rank_spec_ok d = true ->
  forall px py x y, rerankD d px py x y = rerank py x.
Proof.
  unfold rank_spec_ok. intro H.
  repeat match type of H with (_ && _ = true) => apply andb_true_iff in H; let H' := fresh "E" in destruct H as [H H'] end.
  intros px py x y. unfold rerankD, rerank. apply Nat.eqb_eq in H. apply Nat.eqb_eq in E1. apply negb_true_iff in E0.
  rewrite H, E1, E0. reflexivity.
Qed.

Theorem rerankD_rank_order d : rank_spec_ok d = true -> forall px py x y,
  valid_perm_b y py = true -> length x = length y ->
  length (rerankD d px py x y) = length y /\
  forall p q, p < length y -> q < length y -> (nth p y 0 < nth q y 0)%Z ->
              (nth p (rerankD d px py x y) 0 <= nth q (rerankD d px py x y) 0)%Z.
Proof. intros H px py x y. rewrite (rerankD_is_rerank d H). apply rerank_rank_order. Qed.
