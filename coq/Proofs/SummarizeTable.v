(** What [table_ok] gives: every documented additive field is bound to the sum of ITS OWN key,
    every ratio field to its documented weighted average, NON_LOSS_METRICS is the documented set. *)
From Coq Require Import ZArith List Bool.
From Bermuda Require Import Model.Base Model.Summarize Proofs.SummarizeLib.
Import ListNotations.
Local Open Scope Z_scope.

Lemma transform_eqb_eq a b : transform_eqb a b = true <-> a = b.
Proof. destruct a, b; cbn; split; congruence. Qed.
Lemma rule_eqb_eq a b : rule_eqb a b = true <-> a = b.
Proof.
  destruct a, b; cbn [rule_eqb]; try (split; congruence).
  - rewrite str_eqb_eq. split; congruence.
  - rewrite !andb_true_iff, !str_eqb_eq, transform_eqb_eq. split.
    + intros [[-> ->] ->]. reflexivity.
    + intros H. inversion H. auto.
Qed.
Lemma rule_is_eq rules k r : rule_is rules k r = true <-> assoc k rules = Some r.
Proof.
  unfold rule_is. destruct (assoc k rules) as [r'|]; [|split; discriminate].
  rewrite rule_eqb_eq. split; congruence.
Qed.

Lemma additive_lower : forallb (fun k => str_eqb (lower k) k) additive_fields = true.
Proof. vm_compute. reflexivity. Qed.
Lemma ratio_lower : forallb (fun kr => str_eqb (lower (fst kr)) (fst kr)) ratio_fields = true.
Proof. vm_compute. reflexivity. Qed.

Theorem table_ok_additive rules nl k :
  table_ok rules nl = true -> In k additive_fields -> lookup_rule rules k = Some (RSum k).
Proof.
  unfold table_ok. rewrite !andb_true_iff. intros [[[H _] _] _] Hin.
  rewrite forallb_forall in H. specialize (H k Hin). apply rule_is_eq in H.
  pose proof additive_lower as L. rewrite forallb_forall in L. specialize (L k Hin).
  apply str_eqb_eq in L. unfold lookup_rule. now rewrite L.
Qed.
Theorem table_ok_ratio rules nl k r :
  table_ok rules nl = true -> In (k, r) ratio_fields -> lookup_rule rules k = Some r.
Proof.
  unfold table_ok. rewrite !andb_true_iff. intros [[[_ H] _] _] Hin.
  rewrite forallb_forall in H. specialize (H _ Hin). apply rule_is_eq in H.
  pose proof ratio_lower as L. rewrite forallb_forall in L. specialize (L _ Hin).
  apply str_eqb_eq in L. unfold lookup_rule. cbn [fst snd] in *. now rewrite L.
Qed.
Theorem table_ok_non_loss rules nl k :
  table_ok rules nl = true -> (mem_str k nl = true <-> In k documented_non_loss).
Proof.
  unfold table_ok. rewrite !andb_true_iff. intros [[_ H1] H2].
  rewrite forallb_forall in H1, H2. rewrite mem_str_In. split.
  - intros H. now apply mem_str_In, H1.
  - intros H. now apply mem_str_In, H2.
Qed.
