(** C14 -- generic lemmas: reflection of the Boolean equalities, first-occurrence de-duplication,
    grouping, association lists. *)
From Coq Require Import ZArith List Bool Lia ZifyBool.
From Bermuda Require Import Model.Base Model.Frame.
Import ListNotations.
Local Open Scope Z_scope.

(* ---------- reflection ---------- *)
Lemma list_eqb_eq {A} (eqb : A -> A -> bool) :
  (forall a b, eqb a b = true <-> a = b) ->
  forall l1 l2, list_eqb eqb l1 l2 = true <-> l1 = l2.
Proof.
  intros H. induction l1 as [|a l1 IH]; destruct l2 as [|b l2]; cbn; try (split; congruence).
  rewrite andb_true_iff, H, IH. split; [intros [-> ->]; reflexivity | intros E; inversion E; auto].
Qed.
Lemma str_eqb_eq a b : str_eqb a b = true <-> a = b.
Proof. apply list_eqb_eq. intros; apply Z.eqb_eq. Qed.
Lemma str_eqb_refl a : str_eqb a a = true.
Proof. apply str_eqb_eq; reflexivity. Qed.
Lemma str_eqb_neq a b : str_eqb a b = false <-> a <> b.
Proof. rewrite <- str_eqb_eq. destruct (str_eqb a b); split; congruence. Qed.
Lemma str_eqb_sym a b : str_eqb a b = str_eqb b a.
Proof.
  destruct (str_eqb a b) eqn:E; symmetry.
  - apply str_eqb_eq in E; subst; apply str_eqb_refl.
  - apply str_eqb_neq. apply str_eqb_neq in E. congruence.
Qed.
Lemma tval_eqb_eq a b : tval_eqb a b = true <-> a = b.
Proof.
  destruct a, b; cbn; try (split; congruence).
  - rewrite str_eqb_eq; split; congruence.
  - rewrite Z.eqb_eq; split; congruence.
  - rewrite Z.eqb_eq; split; congruence.
Qed.
Lemma key_eqb_eq a b : key_eqb a b = true <-> a = b.
Proof. apply list_eqb_eq, tval_eqb_eq. Qed.

Lemma mem_In k l : mem k l = true <-> In k l.
Proof.
  unfold mem. rewrite existsb_exists. split.
  - intros [x [Hx E]]. apply str_eqb_eq in E; subst; auto.
  - intros H. exists k. split; auto. apply str_eqb_refl.
Qed.
Lemma mem_false k l : mem k l = false <-> ~ In k l.
Proof. rewrite <- mem_In. destruct (mem k l); split; congruence. Qed.

Lemma nodup_b_NoDup {A} (eqb : A -> A -> bool) :
  (forall a b, eqb a b = true <-> a = b) -> forall l, nodup_b eqb l = true -> NoDup l.
Proof.
  intros H. induction l as [|a l IH]; cbn; intros E; constructor.
  - apply andb_true_iff in E as [E _]. apply negb_true_iff in E. intros Hin.
    assert (existsb (eqb a) l = true) by (apply existsb_exists; exists a; split; auto; apply H; auto).
    congruence.
  - apply IH. apply andb_true_iff in E as [_ E]. exact E.
Qed.

(* ---------- association lists ---------- *)
Lemma assoc_app {V} k (a b : list (str * V)) :
  assoc k (a ++ b) = match assoc k a with Some v => Some v | None => assoc k b end.
Proof. induction a as [|[k' v] a IH]; cbn; auto. destruct (str_eqb k k'); auto. Qed.
Lemma assoc_notin {V} k (a : list (str * V)) : ~ In k (keys a) -> assoc k a = None.
Proof.
  induction a as [|[k' v] a IH]; cbn; auto. intros H.
  destruct (str_eqb k k') eqn:E. { apply str_eqb_eq in E. subst. tauto. } apply IH. tauto.
Qed.
Lemma assoc_in_keys {V} k (a : list (str * V)) v : assoc k a = Some v -> In k (keys a).
Proof.
  induction a as [|[k' w] a IH]; cbn; [discriminate|]. destruct (str_eqb k k') eqn:E.
  - apply str_eqb_eq in E; subst; auto.
  - intros H; right; auto.
Qed.
Lemma assoc_map {V W} (g : V -> W) k (a : list (str * V)) :
  assoc k (map (fun kv => (fst kv, g (snd kv))) a) = option_map g (assoc k a).
Proof. induction a as [|[k' v] a IH]; cbn; auto. destruct (str_eqb k k'); auto. Qed.
Lemma get_app k a b : get k (a ++ b) = match assoc k a with Some v => v | None => get k b end.
Proof. unfold get. rewrite assoc_app. destruct (assoc k a); auto. Qed.
Lemma get_app_notin k a b : ~ In k (keys a) -> get k (a ++ b) = get k b.
Proof. intros H. rewrite get_app, assoc_notin; auto. Qed.
Lemma keys_app {V} (a b : list (str * V)) : keys (a ++ b) = keys a ++ keys b.
Proof. unfold keys. apply map_app. Qed.
Lemma keys_map_pair {V} (g : str -> V) l : keys (map (fun n => (n, g n)) l) = l.
Proof. unfold keys. rewrite map_map. cbn. apply map_id. Qed.
Lemma assoc_map_pair {V} (g : str -> V) n l : In n l -> assoc n (map (fun x => (x, g x)) l) = Some (g n).
Proof.
  induction l as [|a l IH]; cbn; [tauto|]. intros [->|H].
  - rewrite str_eqb_refl; auto.
  - destruct (str_eqb n a) eqn:E; auto. apply str_eqb_eq in E; subst; auto.
Qed.

Lemma flat_map_ext_in' {A B} (f g : A -> list B) l :
  (forall a, In a l -> f a = g a) -> flat_map f l = flat_map g l.
Proof. induction l as [|a l IH]; cbn; auto. intros H. rewrite H, IH; auto. Qed.

(* the universe-ordered reconstruction of a dict: if the keys of [d] are listed in the order of
   the duplicate-free universe [U], walking over [U] and looking every name up gives [d] back *)
Lemma ordered_in_spec U ks : ordered_in U ks = true -> ks = filter (fun k => mem k ks) U.
Proof. unfold ordered_in. intros H. apply (proj1 (list_eqb_eq _ str_eqb_eq _ _)) in H. exact H. Qed.

Lemma rebuild_dict {V W} (g : V -> W) (U : list str) :
  NoDup U -> forall (d : list (str * V)),
  keys d = filter (fun k => mem k (keys d)) U ->
  flat_map (fun c => match assoc c d with Some v => [(c, g v)] | None => [] end) U
  = map (fun kv => (fst kv, g (snd kv))) d.
Proof.
  induction U as [|u U IH]; intros ND d Hk.
  - cbn in Hk. destruct d; [reflexivity | discriminate].
  - inversion ND as [|? ? Hnu ND']; subst. cbn [flat_map]. cbn [filter] in Hk.
    destruct (mem u (keys d)) eqn:Em.
    + destruct d as [|[k v] d]; [discriminate|]. cbn [keys map fst] in Hk.
      injection Hk as Hku Hk. subst k. cbn [assoc]. rewrite str_eqb_refl. cbn [app map fst snd].
      f_equal.
      assert (Hext : forall x, In x U -> mem x (u :: keys d) = mem x (keys d)).
      { intros x Hx. cbn. destruct (str_eqb x u) eqn:E; auto. apply str_eqb_eq in E; subst; tauto. }
      assert (Hk' : keys d = filter (fun k => mem k (keys d)) U).
      { change (map fst d) with (keys d) in Hk. rewrite Hk at 1. apply filter_ext_in. intros x Hx. apply Hext; auto. }
      rewrite <- (IH ND' d Hk').
      apply flat_map_ext_in'. intros x Hx. cbn [assoc].
      destruct (str_eqb x u) eqn:E; auto. apply str_eqb_eq in E; subst; tauto.
    + rewrite (assoc_notin u d) by (apply mem_false; exact Em). cbn [app].
      apply IH; auto.
Qed.

(* ---------- first-occurrence de-duplication and grouping ---------- *)
Section Dedup.
  Context {K : Type} (eqb : K -> K -> bool).
  Hypothesis eqb_eq : forall a b, eqb a b = true <-> a = b.

  Lemma eqb_refl' a : eqb a a = true. Proof. apply eqb_eq; reflexivity. Qed.
  Lemma eqb_false a b : eqb a b = false <-> a <> b.
  Proof. rewrite <- eqb_eq. destruct (eqb a b); split; congruence. Qed.

  Lemma In_dedup x l : In x (dedup eqb l) <-> In x l.
  Proof.
    induction l as [|k l IH]; cbn; [tauto|]. rewrite filter_In, IH. split.
    - intros [->|[H _]]; auto.
    - intros [->|H]; auto. destruct (eqb x k) eqn:E.
      + left. symmetry. apply eqb_eq; auto.
      + right; split; auto.
  Qed.
  Lemma filter_id {A} (p : A -> bool) l : (forall x, In x l -> p x = true) -> filter p l = l.
  Proof.
    induction l as [|a l IH]; cbn; auto. intros H. rewrite H by auto. f_equal. apply IH. auto.
  Qed.
  Lemma filter_nil {A} (p : A -> bool) l : (forall x, In x l -> p x = false) -> filter p l = [].
  Proof. induction l as [|a l IH]; cbn; auto. intros H. rewrite H by auto. apply IH. auto. Qed.

  (* a block of equal keys followed by keys different from it *)
  Lemma dedup_block k n l : ~ In k l -> dedup eqb (repeat k (S n) ++ l) = k :: dedup eqb l.
  Proof.
    intros Hk. induction n as [|n IH].
    - cbn. f_equal. apply filter_id. intros x Hx. apply (proj1 (In_dedup _ _)) in Hx.
      apply negb_true_iff, eqb_false. intros E; rewrite E in Hx; exact (Hk Hx).
    - change (repeat k (S (S n)) ++ l) with (k :: (repeat k (S n) ++ l)). cbn [dedup]. rewrite IH.
      cbn [filter]. rewrite eqb_refl'. cbn. f_equal. apply filter_id. intros x Hx. apply (proj1 (In_dedup _ _)) in Hx.
      apply negb_true_iff, eqb_false. intros E; rewrite E in Hx; exact (Hk Hx).
  Qed.

  (* cells -> blocks: every element contributes a non-empty block of one key, keys pairwise different *)
  Lemma dedup_blocks {A} (kf : A -> K) (n : A -> nat) (t : list A) :
    NoDup (map kf t) ->
    dedup eqb (flat_map (fun c => repeat (kf c) (S (n c))) t) = map kf t.
  Proof.
    induction t as [|c t IH]; cbn [flat_map map]; intros ND; [reflexivity|].
    inversion ND as [|? ? Hn ND']; subst. rewrite dedup_block.
    - f_equal. apply IH; auto.
    - intros Hin. apply in_flat_map in Hin as [c' [Hc' Hr]]. apply repeat_spec in Hr.
      apply Hn. rewrite Hr. apply in_map; auto.
  Qed.

  Section Blocks.
    Context {A C : Type} (kf : A -> K) (rows : C -> list A) (kc : C -> K).

    Lemma map_key_rows c :
      (forall r, In r (rows c) -> kf r = kc c) -> map kf (rows c) = repeat (kc c) (length (rows c)).
    Proof.
      induction (rows c) as [|r l IH]; cbn; auto. intros H. rewrite H by auto. f_equal. apply IH. auto.
    Qed.

    Lemma filter_key_rows (t : list C) :
      (forall c, In c t -> forall r, In r (rows c) -> kf r = kc c) ->
      NoDup (map kc t) ->
      forall c, In c t -> filter (fun a => eqb (kf a) (kc c)) (flat_map rows t) = rows c.
    Proof.
      induction t as [|c0 t IH]; intros Hk ND c Hc; [destruct Hc|].
      inversion ND as [|? ? Hn ND']; subst. cbn [flat_map]. rewrite filter_app.
      destruct Hc as [->|Hc].
      - rewrite (filter_id _ (rows c)).
        2:{ intros r Hr. apply eqb_eq. apply Hk; cbn; auto. }
        rewrite filter_nil; [apply app_nil_r|].
        intros r Hr. apply in_flat_map in Hr as [c' [Hc' Hr]]. apply eqb_false.
        rewrite (Hk c' (or_intror Hc') r Hr). intros E. apply Hn. rewrite <- E. apply in_map; auto.
      - rewrite filter_nil.
        2:{ intros r Hr. apply eqb_false. rewrite (Hk c0 (or_introl eq_refl) r Hr). intros E.
            apply Hn. rewrite E. apply in_map; auto. }
        cbn [app]. apply IH; auto. intros c' Hc'. apply Hk; cbn; auto.
    Qed.

    (** every element of [t] contributes a non-empty block of rows carrying one key, the keys of
        different elements differ: the groups are exactly the blocks, in order *)
    Theorem group_by_blocks (t : list C) :
      (forall c, In c t -> rows c <> []) ->
      (forall c, In c t -> forall r, In r (rows c) -> kf r = kc c) ->
      NoDup (map kc t) ->
      group_by eqb kf (flat_map rows t) = map (fun c => (kc c, rows c)) t.
    Proof.
      intros Hne Hk ND. unfold group_by.
      assert (E : map kf (flat_map rows t) = flat_map (fun c => repeat (kc c) (S (pred (length (rows c))))) t).
      { clear ND. induction t as [|c t IH]; cbn [flat_map map]; auto.
        rewrite map_app, IH.
        - f_equal. rewrite map_key_rows by (apply Hk; cbn; auto).
          f_equal. specialize (Hne c (or_introl eq_refl)). destruct (rows c); [congruence|reflexivity].
        - intros c' Hc'. apply Hne; cbn; auto.
        - intros c' Hc'. apply Hk; cbn; auto. }
      rewrite E, dedup_blocks by exact ND. rewrite map_map. apply map_ext_in.
      intros c Hc. f_equal. apply filter_key_rows; auto.
    Qed.
  End Blocks.
End Dedup.
