(** C14 -- a reference description (the documented constants and key lists, as generated from the
    repaired source), the pre-F8 description, and a small concrete triangle used for the
    non-vacuity examples and the `_refuted` witnesses. *)
From Coq Require Import ZArith List Bool String.
From Bermuda Require Import Model.Base Model.Frame Model.MatrixIx.
Import ListNotations.
Local Open Scope Z_scope.

Definition ref_key (extra : list keypart) : list keypart :=
  [KCol c_ps; KCol c_pe; KCol c_ev] ++ extra ++ [KCol c_risk_basis; KCol c_pol;
   KOpt c_country; KOpt c_currency; KOpt c_reinsurance_basis; KOpt c_loss_definition; KDetail; KLoss].
Definition ref_spec : frame_spec :=
  mkSpec [c_ps; c_pe; c_ev] [c_ps; c_pe; c_ev; c_prev] meta_col_names
         ([c_ps; c_pe; c_ev; c_prev] ++ meta_col_names ++ [c_scenario])
         (ref_key []) (ref_key [KCol c_field]) [c_scenario] [c_scenario]
         (map (fun c => (c, c)) meta_col_names).
(* the readers before the F8 repair: country / currency / reinsurance_basis / loss_definition
   did not take part in the grouping *)
Definition pre_f8_key (extra : list keypart) : list keypart :=
  [KCol c_ps; KCol c_pe; KCol c_ev] ++ extra ++ [KCol c_risk_basis; KCol c_pol; KDetail; KLoss].
Definition pre_f8_spec : frame_spec :=
  mkSpec [c_ps; c_pe; c_ev] [c_ps; c_pe; c_ev; c_prev] meta_col_names
         ([c_ps; c_pe; c_ev; c_prev] ++ meta_col_names ++ [c_scenario])
         (pre_f8_key []) (pre_f8_key [KCol c_field]) [c_scenario] [c_scenario]
         (map (fun c => (c, c)) meta_col_names).

Definition f_paid := bs "paid_loss".
Definition f_rep := bs "reported_loss".
Definition m_us : meta := mkMeta (Some s_accident) (Some (bs "US")) None None None None [(bs "lob", MStr (bs "auto"))] [].
Definition m_de : meta := mkMeta (Some s_accident) (Some (bs "DE")) None None None None [(bs "lob", MStr (bs "auto"))] [].
(* two slices that differ ONLY in country; non-monotone samples; mixed field coverage *)
Definition ex_tri : list cell :=
  [ mkCell KCum 737425 737515 737515 None m_de [(f_paid, VArr false [3072; 1024; 2048]); (f_rep, VArr true [4096; 2048; 3072])];
    mkCell KCum 737425 737515 737606 None m_de [(f_paid, VArr true [5120; 3072; 4096])];
    mkCell KCum 737425 737515 737515 None m_us [(f_paid, VArr true [7168; 5120; 6144]); (f_rep, VArr true [1024; 1024; 0])] ].
Definition ex_fn := [f_paid; f_rep].
Definition ex_dn := [bs "lob"].
Definition ex_scalar : list cell :=
  [ mkCell KCum 737425 737515 737515 None m_de [(f_paid, VNum (Num false 3072))];
    mkCell KCum 737425 737515 737515 None m_us [(f_paid, VNum (Num true 1536)); (f_rep, VNum (Num false 1024))] ].
Definition ex_inc : list cell :=
  [ mkCell KInc 737425 737515 737515 (Some 737424) m_de [(f_paid, VNum (Num false 3072))];
    mkCell KInc 737425 737515 737606 (Some 737515) m_de [(f_paid, VNum (Num true 1536)); (f_rep, VNum (Num false 1024))] ].

Definition wide_trip (sp : frame_spec) (fn dn ln : list str) (t : list cell) : result (list cell) :=
  bind (to_wide_rows fn dn ln t) (from_wide_rows sp fn ln).
Definition long_trip (sp : frame_spec) (dn ln : list str) (t : list cell) : result (list cell) :=
  bind (to_long_rows dn ln t) (from_long_rows sp ln).
Definition long_trip_csv (sp : frame_spec) (dn ln : list str) (t : list cell) : result (list cell) :=
  bind (to_long_rows dn ln t) (from_long_rows sp []).

Definition old_mspec : matrix_spec := mkMSpec SMin SDev SMin.       (* before the F12 repair *)
Definition ref_mspec : matrix_spec := mkMSpec SMin SMin SMin.
Definition m0 : meta := default_meta.
(* annual period 2020, evaluated at lag 0 and lag 24 (a holey triangle) *)
Definition ex_holey : list cell :=
  [ mkCell KCum 737425 737790 737790 None m0 [(f_paid, VNum (Num true 1024))];
    mkCell KCum 737425 737790 738520 None m0 [(f_paid, VNum (Num true 2048))] ].
