(** C17 -- lemmas about Model/Resample.v (thin, bootstrap skeleton, re-ranking, moment_match). *)
From Coq Require Import ZArith List Bool PeanoNat Lia Sorting.Sorted Sorting.Permutation Sorting.Mergesort.
From Bermuda Require Import Model.Base Model.Resample.
Import ListNotations.

(* ------------------------------------------------------------------ strings, dicts *)
Lemma list_eqb_Z_eq (a b : list Z) : list_eqb Z.eqb a b = true <-> a = b.
Proof.
  revert b; induction a as [|x a IH]; intros [|y b]; simpl; split; intros H; try congruence; try discriminate.
  - apply andb_true_iff in H. destruct H as [H1 H2]. apply Z.eqb_eq in H1. apply IH in H2. congruence.
  - inversion H; subst. rewrite Z.eqb_refl. simpl. apply IH. reflexivity.
Qed.
Lemma str_eqb_eq (a b : str) : str_eqb a b = true <-> a = b.
Proof. apply list_eqb_Z_eq. Qed.
Lemma str_eqb_refl a : str_eqb a a = true.
Proof. apply str_eqb_eq; reflexivity. Qed.

Lemma assoc_map_vals g k d : assoc k (map_vals g d) = option_map g (assoc k d).
Proof.
  induction d as [|[k' v] r IH]; simpl; auto. destruct (str_eqb k k'); auto.
Qed.
Lemma keys_map_vals g d : keys (map_vals g d) = keys d.
Proof. unfold keys, map_vals. rewrite map_map. apply map_ext. reflexivity. Qed.

Lemma keys_dict_set {V} k (v : V) d x : In x (keys (dict_set k v d)) <-> x = k \/ In x (keys d).
Proof.
  unfold keys. induction d as [|[k' v'] r IH]; simpl.
  - intuition.
  - destruct (str_eqb k k') eqn:E; simpl.
    + apply str_eqb_eq in E. subst. intuition.
    + rewrite IH. intuition.
Qed.
Lemma keys_dict_union {V} (a b : list (str * V)) x :
  In x (keys (dict_union a b)) <-> In x (keys a) \/ In x (keys b).
Proof.
  unfold dict_union. revert a. induction b as [|[k v] r IH]; intros a; simpl.
  - tauto.
  - rewrite IH. rewrite keys_dict_set. unfold keys; simpl. intuition.
Qed.

(* ------------------------------------------------------------------ thin *)
Lemma thin_refuses t k ndxs n : num_samples t = Ok n -> n < k -> thin t k ndxs = Err ValueError.
Proof.
  intros H L. unfold thin. rewrite H. simpl. destruct (n <? k) eqn:E; auto. apply Nat.ltb_ge in E. lia.
Qed.
Lemma thin_identity t ndxs n : num_samples t = Ok n -> thin t n ndxs = Ok t.
Proof. intros H. unfold thin. rewrite H. simpl. rewrite Nat.ltb_irrefl, Nat.eqb_refl. reflexivity. Qed.
Lemma thin_draws t k ndxs n : num_samples t = Ok n -> k < n -> thin t k ndxs = Ok (map (thin_cell ndxs) t).
Proof.
  intros H L. unfold thin. rewrite H. simpl.
  destruct (n <? k) eqn:E1; [apply Nat.ltb_lt in E1; lia|].
  destruct (n =? k) eqn:E2; [apply Nat.eqb_eq in E2; lia|]. reflexivity.
Qed.
Lemma thin_inv t k ndxs t' : thin t k ndxs = Ok t' ->
  exists n, num_samples t = Ok n /\ ((k = n /\ t' = t) \/ (k < n /\ t' = map (thin_cell ndxs) t)).
Proof.
  unfold thin. destruct (num_samples t) as [n|e]; simpl; [|discriminate]. intros H. exists n. split; auto.
  destruct (n <? k) eqn:E1; [discriminate|]. apply Nat.ltb_ge in E1.
  destruct (n =? k) eqn:E2.
  - apply Nat.eqb_eq in E2. left. inversion H; subst; auto.
  - apply Nat.eqb_neq in E2. right. inversion H; subst. split; auto. lia.
Qed.
Lemma thin_cell_frame ndxs c :
  same_frame c (thin_cell ndxs c) /\ keys (cvals (thin_cell ndxs c)) = keys (cvals c).
Proof. unfold same_frame, thin_cell, set_vals; simpl. rewrite keys_map_vals. repeat split. Qed.
Lemma thin_field ndxs t i k :
  field (map (thin_cell ndxs) t) i k = option_map (thin_value ndxs) (field t i k).
Proof.
  unfold field. rewrite nth_error_map. destruct (nth_error t i); simpl; auto. apply assoc_map_vals.
Qed.
Lemma nth_take xs ndxs j : j < length ndxs -> nth j (take xs ndxs) 0%Z = nth (nth j ndxs 0) xs 0%Z.
Proof.
  revert j; induction ndxs as [|i r IH]; intros j H; simpl in *; [lia|].
  destruct j; auto. apply IH. lia.
Qed.
Lemma take_length xs ndxs : length (take xs ndxs) = length ndxs.
Proof. unfold take. apply map_length. Qed.
(* what thinning does to one value: the same positions for every array, nothing else touched *)
Lemma thin_value_spec ndxs v :
  match v with
  | VArr f xs => if 1 <? length xs
                 then exists ys, thin_value ndxs v = VArr f ys /\ length ys = length ndxs /\
                                 forall j, j < length ndxs -> nth j ys 0%Z = nth (nth j ndxs 0) xs 0%Z
                 else thin_value ndxs v = v
  | _ => thin_value ndxs v = v
  end.
Proof.
  destruct v; simpl; auto. destruct (1 <? length xs); auto.
  exists (take xs ndxs). split; auto. split; [apply take_length|]. intros; apply nth_take; auto.
Qed.

Theorem thin_structure t k ndxs t' : thin t k ndxs = Ok t' ->
  exists n, num_samples t = Ok n /\ k <= n /\ (k = n -> t' = t) /\
    (k < n ->
       length t' = length t /\
       (forall i c, nth_error t i = Some c ->
          exists c', nth_error t' i = Some c' /\ same_frame c c' /\ keys (cvals c') = keys (cvals c)) /\
       (forall i key, field t' i key = option_map (thin_value ndxs) (field t i key))).
Proof.
  intros H. apply thin_inv in H. destruct H as [n [Hn [[E1 E2]|[L E]]]]; exists n; subst.
  - repeat split; auto; lia.
  - split; auto. split; [lia|]. split; [lia|]. intros _. split; [apply map_length|]. split.
    + intros i c Hc. exists (thin_cell ndxs c). rewrite nth_error_map, Hc. simpl.
      split; auto. apply thin_cell_frame.
    + intros; apply thin_field.
Qed.

(* a relation that holds samplewise between two array fields (of the same or of different cells)
   survives thinning -- because ONE index vector is used for every array of every cell *)
Theorem thin_preserves_samplewise_relation :
  forall t k ndxs t' n (f : Z -> Z) ia ka fa A ib kb fb B,
    thin t k ndxs = Ok t' -> num_samples t = Ok n -> length ndxs = k -> Forall (fun i => i < n) ndxs ->
    field t ia ka = Some (VArr fa A) -> field t ib kb = Some (VArr fb B) ->
    length A = n -> length B = n -> 1 < n ->
    (forall i, i < n -> nth i B 0%Z = f (nth i A 0%Z)) ->
    exists A' B', field t' ia ka = Some (VArr fa A') /\ field t' ib kb = Some (VArr fb B') /\
                  length A' = k /\ length B' = k /\
                  forall j, j < k -> nth j B' 0%Z = f (nth j A' 0%Z).
Proof.
  intros t k ndxs t' n f ia ka fa A ib kb fb B H Hn Hk Hnd HA HB LA LB L1 R.
  apply thin_inv in H. destruct H as [n' [Hn' C]]. rewrite Hn in Hn'. inversion Hn'; subst n'.
  destruct C as [[E1 E2]|[L E]]; subst t'.
  - exists A, B. subst k. repeat split; auto; try congruence; intros; apply R; congruence.
  - exists (take A ndxs), (take B ndxs). rewrite !thin_field, HA, HB. simpl.
    assert (T1 : 1 <? length A = true) by (apply Nat.ltb_lt; lia).
    assert (T2 : 1 <? length B = true) by (apply Nat.ltb_lt; lia).
    rewrite T1, T2. repeat split; auto; try (rewrite take_length; auto).
    intros j Hj. rewrite !nth_take by lia. apply R.
    rewrite Forall_forall in Hnd. apply Hnd. apply nth_In. lia.
Qed.

(* ------------------------------------------------------------------ bootstrap skeleton *)
Section DevelopP.
  Variable mul : value -> cell -> str -> value.
  Variable sel : str -> bool.
  Definition fields_of (cells : list cell) : list str := flat_map (fun c => keys (cvals c)) cells.

  Lemma develop_go_length t : forall cells carried,
    length (develop_go mul sel t carried cells) = length cells.
  Proof. induction cells as [|c r IH]; intros; simpl; auto. destruct (is_first t c); simpl; auto. Qed.

  (* every output cell sits at the coordinates / in the slice of the input cell at the same position;
     the earliest development cell of a period is returned unchanged *)
  Lemma develop_go_frame t : forall cells carried,
    Forall2 (fun c c' => same_frame c c' /\ (is_first t c = true -> c' = c))
            cells (develop_go mul sel t carried cells).
  Proof.
    induction cells as [|c r IH]; intros; simpl; [constructor|].
    destruct (is_first t c) eqn:E; constructor; auto.
    - split; auto. unfold same_frame; repeat split.
    - split; [unfold same_frame, set_vals; simpl; repeat split|intros H; congruence].
  Qed.
  Lemma keys_develop_vals c carried x :
    (In x (keys (cvals c)) -> In x (keys (develop_vals mul sel c carried))) /\
    (In x (keys (develop_vals mul sel c carried)) -> In x (keys (cvals c)) \/ In x (keys carried)).
  Proof.
    unfold develop_vals. rewrite keys_dict_union.
    assert (K : forall (g : str * value -> value) l, keys (map (fun kv => (fst kv, g kv)) l) = keys l).
    { intros g l. unfold keys. rewrite map_map. apply map_ext. reflexivity. }
    rewrite K. split; [tauto|]. intros [H|H]; auto. right.
    unfold keys in *. apply in_map_iff in H. destruct H as [kv [E I]]. apply filter_In in I.
    apply in_map_iff. exists kv. tauto.
  Qed.
  (* field names: nothing is lost, nothing foreign is introduced *)
  Lemma develop_go_fields t F : forall cells carried,
    incl (keys carried) F -> incl (fields_of cells) F ->
    incl (fields_of cells) (fields_of (develop_go mul sel t carried cells)) /\
    incl (fields_of (develop_go mul sel t carried cells)) F.
  Proof.
    induction cells as [|c r IH]; intros carried Hc Hf; simpl; [split; intros x []|].
    unfold fields_of in Hf; simpl in Hf. apply incl_app_inv in Hf. destruct Hf as [Hf1 Hf2].
    destruct (is_first t c) eqn:E; simpl.
    - destruct (IH (cvals c) Hf1 Hf2) as [I1 I2]. unfold fields_of in *; simpl. split.
      + apply incl_app; [apply incl_appl, incl_refl|apply incl_appr; auto].
      + apply incl_app; auto.
    - assert (Hv : incl (keys (develop_vals mul sel c carried)) F).
      { intros x Hx. apply (proj2 (keys_develop_vals c carried x)) in Hx. destruct Hx; auto. }
      destruct (IH (develop_vals mul sel c carried) Hv Hf2) as [I1 I2]. unfold fields_of in *; simpl. split.
      + apply incl_app; [|apply incl_appr; auto].
        intros x Hx. apply in_or_app. left. apply (proj1 (keys_develop_vals c carried x)). auto.
      + apply incl_app; auto.
  Qed.

  Theorem develop_structure t :
    length (develop mul sel t) = length t /\
    Forall2 (fun c c' => same_frame c c' /\ (is_first t c = true -> c' = c)) t (develop mul sel t) /\
    (forall x, In x (fields_of (develop mul sel t)) <-> In x (fields_of t)).
  Proof.
    unfold develop. split; [apply develop_go_length|]. split; [apply develop_go_frame|].
    destruct (develop_go_fields t (fields_of t) t []) as [I1 I2]; [intros x []|apply incl_refl|].
    intros x; split; auto.
  Qed.
End DevelopP.

Lemma with_detail_spec i c :
  ckind (with_detail i c) = ckind c /\ ps (with_detail i c) = ps c /\ pe (with_detail i c) = pe c /\
  ev (with_detail i c) = ev c /\ prev (with_detail i c) = prev c /\ cvals (with_detail i c) = cvals c /\
  details (cmeta (with_detail i c)) = dict_set BOOTSTRAP (MNum (num_of_int i)) (details (cmeta c)) /\
  risk_basis (cmeta (with_detail i c)) = risk_basis (cmeta c) /\
  country (cmeta (with_detail i c)) = country (cmeta c) /\
  currency (cmeta (with_detail i c)) = currency (cmeta c) /\
  reinsurance_basis (cmeta (with_detail i c)) = reinsurance_basis (cmeta c) /\
  loss_definition (cmeta (with_detail i c)) = loss_definition (cmeta c) /\
  per_occurrence_limit (cmeta (with_detail i c)) = per_occurrence_limit (cmeta c) /\
  loss_details (cmeta (with_detail i c)) = loss_details (cmeta c).
Proof. unfold with_detail, set_meta; simpl. repeat split. Qed.

(* the replicate of a multi-slice triangle: position by position the input cell with the detail added,
   same coordinates, first development cells unchanged apart from the detail *)
Definition rep_rel (i : Z) (t : triangle) (c c' : cell) : Prop :=
  exists d, same_frame c d /\ (is_first t c = true -> d = c) /\ c' = with_detail i d.
Lemma rep_rel_map i (t : triangle) l l' :
  Forall2 (fun c c' => same_frame c c' /\ (is_first t c = true -> c' = c)) l l' ->
  Forall2 (fun tc c' => rep_rel i (fst tc) (snd tc) c') (map (fun c => (t, c)) l) (map (with_detail i) l').
Proof.
  induction 1 as [|x y l l' H F IH]; simpl; constructor; auto.
  destruct H as [H1 H2]. exists y. simpl. auto.
Qed.
Theorem replicate_structure : forall sel muls i slices, length muls = length slices ->
  length (replicate sel muls i slices) = length (concat slices) /\
  Forall2 (fun tc c' => rep_rel i (fst tc) (snd tc) c')
          (flat_map (fun s => map (fun c => (s, c)) s) slices) (replicate sel muls i slices).
Proof.
  unfold replicate. intros sel. induction muls as [|m muls IH]; intros i [|s slices] L; simpl in *; try discriminate.
  - split; [reflexivity|constructor].
  - inversion L as [L']. destruct (IH i slices L') as [I1 I2].
    destruct (develop_structure m sel s) as [D1 [D2 _]]. split.
    + rewrite !app_length, map_length, D1, I1. reflexivity.
    + apply Forall2_app; [apply rep_rel_map; exact D2|exact I2].
Qed.

(* ------------------------------------------------------------------ re-imposing a rank order *)
Lemma sortedb_Sorted l : sortedb l = true -> Sorted Z.le l.
Proof.
  induction l as [|a [|b r] IH]; intros H; simpl in *; constructor; auto.
  - apply andb_true_iff in H. apply IH. tauto.
  - apply andb_true_iff in H. constructor. apply Z.leb_le. tauto.
Qed.
Lemma StronglySorted_nth l : StronglySorted Z.le l ->
  forall i j, i <= j -> j < length l -> (nth i l 0 <= nth j l 0)%Z.
Proof.
  induction 1 as [|a r S IH F]; intros i j Hij Hj; simpl in *; [lia|].
  destruct i, j; try lia.
  - rewrite Forall_forall in F. apply F. apply nth_In. lia.
  - apply IH; lia.
Qed.
Lemma sortedb_nth l : sortedb l = true ->
  forall i j, i <= j -> j < length l -> (nth i l 0 <= nth j l 0)%Z.
Proof.
  intros H. apply StronglySorted_nth. apply Sorted_StronglySorted; [|apply sortedb_Sorted; auto].
  intros x y z'; apply Z.le_trans.
Qed.
Lemma sort_sorted l : StronglySorted Z.le (ZSort.sort l).
Proof.
  assert (T : Relations_1.Transitive (fun x y => is_true (ZOrder.leb x y))).
  { intros x y z' H1 H2. unfold is_true, ZOrder.leb in *. apply Z.leb_le in H1, H2. apply Z.leb_le. lia. }
  pose proof (ZSort.StronglySorted_sort l T) as S.
  induction S; constructor; auto.
  eapply Forall_impl; [|exact H]. intros b Hb. apply Z.leb_le. exact Hb.
Qed.
Lemma sort_length l : length (ZSort.sort l) = length l.
Proof. symmetry. apply Permutation_length. apply ZSort.Permuted_sort. Qed.

Lemma nodupb_NoDup l : nodupb l = true -> NoDup l.
Proof.
  induction l as [|x r IH]; simpl; intros H; constructor.
  - apply andb_true_iff in H. destruct H as [H _]. intros I. apply negb_true_iff in H.
    assert (E : existsb (Nat.eqb x) r = true) by (apply existsb_exists; exists x; split; auto; apply Nat.eqb_refl).
    congruence.
  - apply andb_true_iff in H. apply IH. tauto.
Qed.
Lemma pos_spec p perm : In p perm -> pos p perm < length perm /\ nth (pos p perm) perm 0 = p.
Proof.
  induction perm as [|x r IH]; simpl; intros H; [contradiction|].
  destruct (x =? p) eqn:E.
  - apply Nat.eqb_eq in E. split; [lia|auto].
  - apply Nat.eqb_neq in E. destruct H as [H|H]; [congruence|]. destruct (IH H). split; [lia|auto].
Qed.
Lemma place_length perm s : length (place perm s) = length perm.
Proof. unfold place. rewrite map_length, seq_length. reflexivity. Qed.
Lemma map_nth_d {A B} (g : A -> B) l i d da : i < length l -> nth i (map g l) d = g (nth i l da).
Proof. intros H. rewrite nth_indep with (d' := g da) by (rewrite map_length; auto). apply map_nth. Qed.
Lemma place_nth perm s p : p < length perm -> nth p (place perm s) 0%Z = nth (pos p perm) s 0%Z.
Proof.
  intros H. unfold place.
  rewrite map_nth_d with (da := 0) by (rewrite seq_length; auto).
  rewrite seq_nth by auto. reflexivity.
Qed.
Lemma valid_perm_all y perm : valid_perm_b y perm = true ->
  length perm = length y /\ (forall p, p < length y -> In p perm) /\
  sortedb (map (fun i => nth i y 0%Z) perm) = true.
Proof.
  unfold valid_perm_b. intros H. repeat (apply andb_true_iff in H; destruct H as [H ?]).
  apply Nat.eqb_eq in H. split; auto. split; auto.
  intros p Hp. apply nodupb_NoDup in H1.
  assert (I : incl perm (seq 0 (length y))).
  { intros x Hx. rewrite forallb_forall in H2. specialize (H2 x Hx). apply Nat.ltb_lt in H2.
    apply in_seq. lia. }
  assert (J : incl (seq 0 (length y)) perm).
  { apply NoDup_length_incl; auto. rewrite seq_length. lia. }
  apply J. apply in_seq. lia.
Qed.

(* the general statement: for ANY sorted vector s placed along ANY argsort of y *)
Theorem place_rank_order y perm s :
  valid_perm_b y perm = true -> StronglySorted Z.le s -> length s = length y ->
  length (place perm s) = length y /\
  forall p q, p < length y -> q < length y -> (nth p y 0 < nth q y 0)%Z ->
              (nth p (place perm s) 0 <= nth q (place perm s) 0)%Z.
Proof.
  intros V S L. destruct (valid_perm_all y perm V) as [Lp [All Srt]].
  split; [rewrite place_length; auto|]. intros p q Hp Hq Lt.
  rewrite !place_nth by lia.
  destruct (pos_spec p perm (All p Hp)) as [Pa Na]. destruct (pos_spec q perm (All q Hq)) as [Pb Nb].
  set (a := pos p perm) in *. set (b := pos q perm) in *.
  destruct (Nat.lt_ge_cases a b) as [Hab|Hba].
  - apply StronglySorted_nth; auto; lia.
  - exfalso.
    pose proof (sortedb_nth _ Srt b a Hba) as M. rewrite map_length in M. specialize (M Pa).
    rewrite (map_nth_d (fun i => nth i y 0%Z) perm b 0%Z 0) in M by lia.
    rewrite (map_nth_d (fun i => nth i y 0%Z) perm a 0%Z 0) in M by lia.
    rewrite Na, Nb in M. lia.
Qed.
Theorem rerank_rank_order y perm news :
  valid_perm_b y perm = true -> length news = length y ->
  length (rerank perm news) = length y /\
  forall p q, p < length y -> q < length y -> (nth p y 0 < nth q y 0)%Z ->
              (nth p (rerank perm news) 0 <= nth q (rerank perm news) 0)%Z.
Proof.
  intros V L. unfold rerank. apply place_rank_order; auto; [apply sort_sorted|rewrite sort_length; auto].
Qed.

(* ------------------------------------------------------------------ moment_match *)
Lemma mm_cell_spec fields perms draws c :
  same_frame c (mm_cell fields perms draws c) /\
  keys (cvals (mm_cell fields perms draws c)) = keys (cvals c) /\
  forall k, assoc k (cvals (mm_cell fields perms draws c)) =
            option_map (fun v => if existsb (str_eqb k) fields then mm_value (perms k) (draws k) v else v)
                       (assoc k (cvals c)).
Proof.
  unfold mm_cell, set_vals, same_frame; simpl. split; [repeat split|]. split.
  - unfold keys. rewrite map_map. apply map_ext. intros [k v]; simpl. destruct (existsb _ fields); auto.
  - intros k. induction (cvals c) as [|[k' v] r IH]; simpl; auto.
    destruct (existsb (str_eqb k') fields) eqn:E; simpl; destruct (str_eqb k k') eqn:K; auto;
      apply str_eqb_eq in K; subst; rewrite E; auto.
Qed.
Theorem moment_match_structure fields perms draws t :
  length (moment_match fields perms draws t) = length t /\
  forall i c, nth_error t i = Some c ->
    exists c', nth_error (moment_match fields perms draws t) i = Some c' /\
               same_frame c c' /\ keys (cvals c') = keys (cvals c) /\
               forall k, assoc k (cvals c') =
                         option_map (fun v => if existsb (str_eqb k) fields
                                              then mm_value (perms i k) (draws i k) v else v)
                                    (assoc k (cvals c)).
Proof.
  unfold moment_match. split.
  - rewrite map_length, combine_length, seq_length. lia.
  - intros i c H. exists (mm_cell fields (perms i) (draws i) c).
    rewrite nth_error_map.
    assert (N : nth_error (combine (seq 0 (length t)) t) i = Some (i, c)).
    { assert (G : forall s (l : triangle) j, nth_error l j = Some c ->
                  nth_error (combine (seq s (length l)) l) j = Some (s + j, c)).
      { intros s l; revert s; induction l as [|x l IH]; intros s [|j] Hj; simpl in *; try discriminate.
        - inversion Hj; subst. f_equal. f_equal. lia.
        - rewrite IH by auto. f_equal. f_equal. lia. }
      apply (G 0 t i H). }
    rewrite N. simpl. split; auto. apply mm_cell_spec.
Qed.
(* a re-ranked array has the length and the rank order of the samples it replaces *)
Theorem mm_value_rank_order perm draw f xs :
  valid_perm_b xs perm = true -> length draw = length xs ->
  exists ys, mm_value perm draw (VArr f xs) = VArr true ys /\ length ys = length xs /\
             forall p q, p < length xs -> q < length xs -> (nth p xs 0 < nth q xs 0)%Z ->
                         (nth p ys 0 <= nth q ys 0)%Z.
Proof.
  intros V L. exists (rerank perm draw). split; [reflexivity|]. apply rerank_rank_order; auto.
Qed.
