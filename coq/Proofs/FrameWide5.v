(** C14 -- the wide reader does not depend on the order of the rows: for ANY permutation of the
    written table the result is a permutation of [floatify t] (what Triangle(...) then sorts), the
    sample arrays being restored from the scenario column. *)
From Coq Require Import ZArith List Bool Lia ZifyBool Sorting.Permutation Sorting.Sorted.
From Bermuda Require Import Model.Base Model.Frame Proofs.FrameLib Proofs.FrameKey Proofs.FrameRow
     Proofs.FrameMeta Proofs.FrameValues Proofs.FrameSort Proofs.FrameWide1 Proofs.FrameWide2 Proofs.FrameWide3
     Proofs.FrameWide4 Proofs.FrameExample.
Import ListNotations.
Local Open Scope Z_scope.

Lemma Permutation_filter' {A} (p : A -> bool) l l' : Permutation l l' -> Permutation (filter p l) (filter p l').
Proof.
  induction 1; cbn; auto.
  - destruct (p x); auto.
  - destruct (p x), (p y); auto. apply perm_swap.
  - eapply Permutation_trans; eauto.
Qed.

Section DedupPerm.
  Context {K : Type} (eqb : K -> K -> bool).
  Hypothesis eqb_eq : forall a b, eqb a b = true <-> a = b.

  Lemma NoDup_filter' {A} (p : A -> bool) l : NoDup l -> NoDup (filter p l).
  Proof.
    induction 1; cbn; [constructor|]. destruct (p x); auto. constructor; auto.
    intros Hin. apply filter_In in Hin. tauto.
  Qed.
  Lemma NoDup_dedup l : NoDup (dedup eqb l).
  Proof.
    induction l as [|k l IH]; cbn; constructor.
    - intros Hin. apply filter_In in Hin as [_ H]. rewrite (proj2 (eqb_eq k k) eq_refl) in H. discriminate.
    - apply NoDup_filter'; auto.
  Qed.
  Lemma dedup_perm l l' : Permutation l l' -> Permutation (dedup eqb l) (dedup eqb l').
  Proof.
    intros P. apply NoDup_Permutation; try apply NoDup_dedup.
    intros x. rewrite !(In_dedup eqb eqb_eq). split; intros H.
    - eapply Permutation_in; eauto.
    - eapply Permutation_in; [apply Permutation_sym|]; eauto.
  Qed.

  Context {A C : Type} (kf : A -> K) (rows : C -> list A) (kc : C -> K).

  (** grouping a permuted block table: the groups are the blocks of a permutation of the elements,
      each group a permutation of its block *)
  Theorem group_by_perm_blocks (t : list C) (T' : list A) :
    (forall c, In c t -> rows c <> []) ->
    (forall c, In c t -> forall r, In r (rows c) -> kf r = kc c) ->
    NoDup (map kc t) ->
    Permutation (flat_map rows t) T' ->
    exists t', Permutation t t'
      /\ group_by eqb kf T' = map (fun c => (kc c, filter (fun a => eqb (kf a) (kc c)) T')) t'
      /\ (forall c, In c t -> Permutation (rows c) (filter (fun a => eqb (kf a) (kc c)) T')).
  Proof.
    intros Hne Hk ND P.
    pose proof (group_by_blocks eqb eqb_eq kf rows kc t Hne Hk ND) as G.
    assert (Ed : dedup eqb (map kf (flat_map rows t)) = map kc t).
    { apply (f_equal (map fst)) in G. unfold group_by in G. rewrite !map_map in G. cbn in G.
      rewrite map_id in G. exact G. }
    assert (Pk : Permutation (dedup eqb (map kf T')) (map kc t)).
    { rewrite <- Ed. apply dedup_perm. apply Permutation_map. apply Permutation_sym. exact P. }
    destruct (Permutation_map_inv _ _ Pk) as (t' & Et' & Pt).
    exists t'. split; [exact Pt|]. split.
    - unfold group_by. rewrite Et', map_map. reflexivity.
    - intros c Hc. rewrite <- (filter_key_rows eqb eqb_eq kf rows kc t Hk ND c Hc).
      apply Permutation_filter'. exact P.
  Qed.
End DedupPerm.

Section Shuffled.
  Variables (sp : frame_spec) (fn dn ln : list str) (t : list cell).
  Hypothesis sp_ok : frame_spec_ok sp = true.
  Hypothesis hyps : frame_hyps fn dn ln t = true.
  Let mn := attr_names t ++ dn ++ ln.

  Lemma cum_cell_of_group_perm d c g :
    In c t -> cum_ok c = true -> (d = true -> nrows c = 1%nat) ->
    Permutation (crows fn dn ln t d false c) g ->
    wide_cell_of_group sp fn dn ln (wcols d false mn fn) g = Ok (fl_cell c).
  Proof.
    intros Hc Hk Hd P.
    pose proof (frame_hyps_inv _ _ _ _ hyps) as HI. destruct HI as (_ & names & _ & _ & _).
    destruct (cum_ok_inv c Hk) as (Kc & Pc & Hu).
    destruct (spec_ok_wide sp sp_ok) as (_ & _ & _ & Hsort).
    pose proof (cum_cell_of_group sp fn dn ln t sp_ok hyps d c Hc Hk Hd) as Hbase. fold mn in Hbase.
    destruct g as [|r0 rest].
    { apply Permutation_sym, Permutation_nil in P. unfold crows in P.
      pose proof (nrows_pos c Hu). destruct (nrows c); [lia|]. discriminate. }
    assert (Hr0 : In r0 (crows fn dn ln t d false c)).
    { eapply Permutation_in; [apply Permutation_sym; exact P|]. cbn; auto. }
    unfold crows in Hr0. apply in_map_iff in Hr0 as [i [Er0 _]]. fold mn in Er0. subst r0.
    (* the sorted group is the written block *)
    assert (Hs : sort_group (wcols d false mn fn) (fs_wide_sort sp) (wrow' d false mn fn c i :: rest)
                 = Ok (crows fn dn ln t d false c)).
    { rewrite Hsort.
      pose proof (nrows_pos c Hu) as Hp.
      assert (Hlen : length (wrow' d false mn fn c i :: rest) = nrows c).
      { rewrite <- (Permutation_length P). unfold crows. rewrite map_length, seq_length. reflexivity. }
      destruct (nrows c) as [|[|n]] eqn:En; [lia| |].
      - destruct rest; [|cbn in Hlen; lia]. unfold sort_group. f_equal.
        unfold crows in *. rewrite En in *. cbn [seq map] in *.
        apply Permutation_length_1_inv in P. exact P.
      - destruct d; [specialize (Hd eq_refl); discriminate|].
        destruct rest as [|r1 rest']; [cbn in Hlen; lia|]. unfold sort_group.
        assert (Hm : mem c_scenario [c_scenario] = true) by (apply mem_In; cbn; auto).
        rewrite Hm. unfold mn. rewrite (scen_present fn dn ln t names). cbn [negb]. f_equal.
        destruct (scen_seq_sorted (wrow' false false mn fn c) (nrows c) (scen_wrow fn dn ln t false c)) as [ND SS].
        apply sort_scen_restores; auto. }
    unfold wide_cell_of_group.
    rewrite (get'_ps fn dn ln t), (get'_pe fn dn ln t), (get'_ev fn dn ln t). cbn [date_of bind].
    rewrite Hs. cbn [bind]. unfold mn.
    rewrite (values_crows fn dn ln t hyps d false c Hc Hu Hd). cbn [bind].
    rewrite (meta_crow fn dn ln t hyps d false c i Hc).
    unfold fl_cell. rewrite Kc, Pc. reflexivity.
  Qed.

  (** (W, any row order) *)
  Theorem wide_round_trip_shuffled T T' :
    to_wide_rows fn dn ln t = Ok T -> Permutation T T' ->
    exists out, from_wide_rows sp fn ln T' = Ok out /\ Permutation out (floatify t).
  Proof.
    intros ET P.
    pose proof (frame_hyps_inv _ _ _ _ hyps) as HI. destruct HI as (Hne & names & Hshape & Hnd & Hkind).
    destruct (to_wide_rows_ok fn dn ln t hyps) as [d [Ew Hd]]. rewrite Ew in ET. injection ET as <-. fold mn in P.
    assert (Hunif : forall c, In c t -> uniform c).
    { intros c Hc. destruct Hkind as [Hk|Hk]; rewrite forallb_forall in Hk; specialize (Hk c Hc).
      - apply cum_ok_inv in Hk. tauto.
      - apply inc_ok_inv in Hk. left. tauto. }
    (* columns: the first row of T' is some written row *)
    assert (Hcols : columns T' = wcols d (tri_is_inc t) mn fn).
    { destruct T' as [|r0 rest].
      - exfalso. apply Permutation_sym, Permutation_nil in P.
        pose proof (columns_wtable fn dn ln t hyps d (tri_is_inc t) Hunif) as Hc. fold mn in Hc.
        rewrite P in Hc. unfold wcols in Hc. cbn in Hc. destruct (tri_is_inc t); discriminate.
      - cbn [columns].
        assert (Hin : In r0 (wtable d (tri_is_inc t) mn fn t)).
        { eapply Permutation_in; [apply Permutation_sym; exact P|]. cbn; auto. }
        unfold wtable in Hin. apply in_flat_map in Hin as [c [Hc Hr]]. apply in_map_iff in Hr as [i [<- _]].
        apply (keys_wrow' fn dn ln t names). }
    unfold from_wide_rows. cbv zeta. rewrite Hcols. unfold mn.
    rewrite (index_cum_present fn dn ln t sp sp_ok). cbn [negb].
    rewrite (dcols_wcols fn dn ln t names sp sp_ok).
    rewrite (lcols_present dn ln). cbn [negb].
    rewrite (pure_wcols fn dn ln names).
    rewrite (prev_present fn dn ln t names). fold mn.
    destruct Hkind as [Hk|Hk].
    - rewrite (tri_is_inc_cum t Hne Hk) in *. rewrite forallb_forall in Hk.
      unfold wtable in P.
      destruct (group_by_perm_blocks key_eqb key_eqb_eq
                 (row_key (key_cols (fs_wide_key sp) (wcols d false mn fn) (dn ++ ln) ln))
                 (crows fn dn ln t d false)
                 (fun c => row_key (key_cols (fs_wide_key sp) (wcols d false mn fn) (dn ++ ln) ln)
                                   (wrow' d false mn fn c 0)) t T') as (t' & Pt & G & Hg).
      + intros c Hc. unfold crows. pose proof (nrows_pos c (Hunif c Hc)).
        destruct (nrows c); [lia|]. rewrite seq_S_first. discriminate.
      + intros c Hc r Hr. unfold crows in Hr. apply in_map_iff in Hr as [i [<- _]].
        apply (key_const sp fn dn ln t sp_ok hyps); auto.
      + apply (nodup_b_NoDup_map same_coords); auto.
        intros a b Ha Hb E. apply (key_inj sp fn dn ln t sp_ok hyps d a b); auto.
      + exact P.
      + exists (map fl_cell t'). split; [|apply Permutation_map, Permutation_sym; exact Pt].
        rewrite G, map_result_map. cbn [snd]. apply map_result_ok. intros c Hc.
        assert (Hct : In c t) by (eapply Permutation_in; [apply Permutation_sym; exact Pt|exact Hc]).
        apply cum_cell_of_group_perm; auto.
    - rewrite (tri_is_inc_inc t Hne Hk) in *. rewrite forallb_forall in Hk.
      rewrite wtable_single in P.
      2:{ intros c Hc. apply nrows_scalar. apply inc_ok_inv. apply Hk; auto. }
      apply Permutation_sym in P. destruct (Permutation_map_inv _ _ P) as (t' & ET' & Pt).
      exists (map fl_cell t'). split; [|apply Permutation_map, Permutation_sym; exact Pt].
      rewrite ET', map_result_map. apply map_result_ok. intros c Hc.
      assert (Hct : In c t) by (eapply Permutation_in; [apply Permutation_sym; exact Pt|exact Hc]).
      apply (inc_cell_of_row fn dn ln t hyps); auto.
  Qed.
End Shuffled.
