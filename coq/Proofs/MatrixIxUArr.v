(** C14 -- the array data frame round trip for regular single-slice triangles, UNBOUNDED version of
    Proofs/MatrixIxArr.v (calendar side conditions are lower bounds MINID <= id only):
    to_array groups the cells of a row-structured triangle into the rows of the frame,
    from_array turns them back into the same cells.
      to_array_rows          to_array (cells_of_rows ..) = Ok (array_of_rows rows)
      array_round_trip       ... Permutation (from_array af ..) (map (arr_norm m) cells)
      array_round_trip_eq / array_round_trip_prefix   equality when the rows list their lags in header
                             order, e.g. every row a prefix of one common lag list
      infer_resolution_rows  period_resolution=None reads the resolution off the first two rows *)
From Coq Require Import ZArith List Bool Lia ZifyBool Permutation.
From Bermuda Require Import Model.Base Lib.Calendar Model.Frame Model.MatrixIx.
From Bermuda Require Import Proofs.FrameLib Proofs.MatrixIxU.
Import ListNotations.
Local Open Scope Z_scope.

(* ====================================================================================== *)
(** * The generating row structure *)

Definition acell (f : str) (m : meta) (res s lag : Z) (v : value) : cell :=
  mkCell KCum (month_start s) (month_end (s + res - 1)) (month_end (s + res - 1 + lag)) None m [(f, v)].
Definition cells_of_row (f : str) (m : meta) (res : Z) (r : Z * list (Z * num)) : list cell :=
  map (fun lx => acell f m res (fst r) (fst lx) (VNum (snd lx))) (snd r).
Definition cells_of_rows (f : str) (m : meta) (res : Z) (rows : list (Z * list (Z * num))) : list cell :=
  flat_map (cells_of_row f m res) rows.

(* period start, period end and every evaluation month of the row not before 0001-01 *)
Definition row_ok (res : Z) (r : Z * list (Z * num)) : Prop :=
  MINID <= fst r /\ MINID <= fst r + res - 1 /\
  Forall (fun lx => MINID <= fst r + res - 1 + fst lx) (snd r).
Definition rows_ok (res : Z) (rows : list (Z * list (Z * num))) : Prop :=
  NoDup (map fst rows) /\
  forall r, In r rows -> snd r <> [] /\ NoDup (map fst (snd r)) /\ row_ok res r.

(* what from_array returns: kind, coordinates and the given metadata kept, numbers as floats *)
Definition arr_norm (m : meta) (c : cell) : cell :=
  mkCell KCum (ps c) (pe c) (ev c) None m (map (fun kv => (fst kv, fl_value (snd kv))) (cvals c)).

(* the frame to_array builds *)
Definition header_of (rows : list (Z * list (Z * num))) : list Z :=
  dedup Z.eqb (flat_map (fun r => map fst (snd r)) rows).
Definition entry_of (lvs : list (Z * num)) (h : Z) : option Z :=
  match filter (fun lx => fst lx =? h) lvs with [] => None | lx :: _ => Some (num_n (snd lx)) end.
Definition array_of_rows (rows : list (Z * list (Z * num))) : aframe :=
  mkAF (header_of rows)
       (map (fun r => (month_start (fst r), map (entry_of (snd r)) (header_of rows))) rows).

(* ====================================================================================== *)
(** * to_array on a row-structured triangle *)

Lemma period_eqb_eq a b : period_eqb a b = true <-> a = b.
Proof.
  destruct a as [a1 a2], b as [b1 b2]. unfold period_eqb. cbn [fst snd].
  rewrite andb_true_iff, !Z.eqb_eq. split; [intros [-> ->]; reflexivity|inversion 1; auto].
Qed.

Lemma cells_of_rows_meta f m res rows c : In c (cells_of_rows f m res rows) -> cmeta c = m.
Proof.
  unfold cells_of_rows, cells_of_row. intros H. apply in_flat_map in H. destruct H as [r [_ H]].
  apply in_map_iff in H. destruct H as [lx [<- _]]. reflexivity.
Qed.
Lemma cells_of_rows_kind f m res rows c : In c (cells_of_rows f m res rows) -> ckind c = KCum.
Proof.
  unfold cells_of_rows, cells_of_row. intros H. apply in_flat_map in H. destruct H as [r [_ H]].
  apply in_map_iff in H. destruct H as [lx [<- _]]. reflexivity.
Qed.

Lemma dedup_const_meta (m : meta) l : (forall x, In x l -> x = m) -> l <> [] -> dedup meta_seqb l = [m].
Proof.
  intros H Hne. destruct l as [|x r]; [congruence|]. cbn [dedup].
  rewrite (H x (or_introl eq_refl)). f_equal.
  apply filter_nil. intros y Hy. apply (proj1 (In_dedup meta_seqb mx_meta_seqb_eq _ _)) in Hy.
  rewrite (H y (or_intror Hy)). rewrite (proj2 (mx_meta_seqb_eq m m) eq_refl). reflexivity.
Qed.

Lemma to_array_meta_check f m res rows :
  let t := cells_of_rows f m res rows in
  negb (Nat.eqb (List.length (dedup meta_seqb (map cmeta t))) 1) && negb (Nat.eqb (List.length t) 0) = false.
Proof.
  intros t. destruct t as [|c0 t'] eqn:Et; [reflexivity|].
  rewrite (dedup_const_meta m).
  - reflexivity.
  - intros x Hx. apply in_map_iff in Hx. destruct Hx as [c [<- Hc]].
    apply (cells_of_rows_meta f m res rows). unfold t in Et. rewrite Et. exact Hc.
  - discriminate.
Qed.
Lemma to_array_inc_check f m res rows : tri_is_inc (cells_of_rows f m res rows) = false.
Proof.
  destruct (cells_of_rows f m res rows) as [|c0 t'] eqn:Et; [reflexivity|].
  unfold tri_is_inc, is_inc. rewrite (cells_of_rows_kind f m res rows c0); [reflexivity|].
  rewrite Et. left. reflexivity.
Qed.
Lemma filter_has_field f m res rows :
  filter (has_field f) (cells_of_rows f m res rows) = cells_of_rows f m res rows.
Proof.
  apply filter_id. intros c H. unfold cells_of_rows, cells_of_row in H.
  apply in_flat_map in H. destruct H as [r [_ H]]. apply in_map_iff in H. destruct H as [lx [<- _]].
  unfold has_field, has_key, acell. cbn [cvals assoc]. rewrite (proj2 (mx_str_eqb_eq f f) eq_refl). reflexivity.
Qed.

Lemma group_by_rows f m res rows : rows_ok res rows ->
  group_by period_eqb period (cells_of_rows f m res rows)
  = map (fun r => ((month_start (fst r), month_end (fst r + res - 1)), cells_of_row f m res r)) rows.
Proof.
  intros [Hnd Hrows]. unfold cells_of_rows.
  apply (group_by_blocks period_eqb period_eqb_eq period (cells_of_row f m res)
           (fun r => (month_start (fst r), month_end (fst r + res - 1)))).
  - intros r Hr E. destruct (Hrows r Hr) as [Hne _]. unfold cells_of_row in E.
    destruct (snd r); [congruence|discriminate].
  - intros r Hr c Hc. unfold cells_of_row in Hc. apply in_map_iff in Hc. destruct Hc as [lx [<- _]].
    reflexivity.
  - rewrite <- (map_map fst (fun s => (month_start s, month_end (s + res - 1)))).
    apply NoDup_map_inj_in; [|exact Hnd].
    intros a b Ha Hb E. injection E as E _.
    apply in_map_iff in Ha, Hb. destruct Ha as [ra [<- Hra]], Hb as [rb [<- Hrb]].
    apply month_start_inj; assumption.
Qed.

Lemma cell_lag_acell f m res s lag v :
  MINID <= s + res - 1 -> MINID <= s + res - 1 + lag -> cell_lag (acell f m res s lag v) = lag.
Proof. intros H1 H2. unfold cell_lag, acell. cbn [pe ev]. rewrite lag_months_ends by assumption. lia. Qed.

Lemma map_cell_lag_row f m res r : row_ok res r ->
  map cell_lag (cells_of_row f m res r) = map fst (snd r).
Proof.
  intros (Hs & Hpe & HF). unfold cells_of_row. rewrite map_map. apply map_ext_in.
  intros lx Hlx. rewrite Forall_forall in HF. apply cell_lag_acell; [lia|apply HF; exact Hlx].
Qed.

(* at most one entry of a row carries a given lag *)
Lemma filter_lag_unique (lvs : list (Z * num)) h : NoDup (map fst lvs) ->
  filter (fun lx => fst lx =? h) lvs = [] \/
  exists lx, filter (fun lx => fst lx =? h) lvs = [lx] /\ fst lx = h /\ In lx lvs.
Proof.
  induction lvs as [|a l IH]; intros Hn; [left; reflexivity|].
  cbn [map] in Hn. inversion Hn as [|? ? Ha Hl]; subst. cbn [filter].
  destruct (fst a =? h) eqn:E.
  - right. exists a. apply Z.eqb_eq in E. split; [|split; [exact E|left; reflexivity]]. f_equal.
    apply filter_nil. intros x Hx. apply Z.eqb_neq. intros Ex. apply Ha. rewrite E, <- Ex.
    apply in_map. exact Hx.
  - destruct (IH Hl) as [H|[lx [H [H1 H2]]]]; [left; exact H|right]. exists lx. split; [exact H|].
    split; [exact H1|right; exact H2].
Qed.

Lemma filter_cell_lag_row f m res r h : row_ok res r ->
  filter (fun c => cell_lag c =? h) (cells_of_row f m res r)
  = map (fun lx => acell f m res (fst r) (fst lx) (VNum (snd lx))) (filter (fun lx => fst lx =? h) (snd r)).
Proof.
  intros (Hs & Hpe & HF). unfold cells_of_row. rewrite Forall_forall in HF.
  induction (snd r) as [|lx l IH]; [reflexivity|]. cbn [map filter].
  rewrite cell_lag_acell by (try lia; apply HF; left; reflexivity).
  rewrite IH by (intros x Hx; apply HF; right; exact Hx).
  destruct (fst lx =? h); reflexivity.
Qed.

Lemma row_entry f m res r h : row_ok res r -> NoDup (map fst (snd r)) ->
  match filter (fun c => cell_lag c =? h) (cells_of_row f m res r) with
  | [] => None
  | c :: rest => scalar_of (assoc f (cvals (last rest c)))
  end = entry_of (snd r) h.
Proof.
  intros Hok Hnd. rewrite (filter_cell_lag_row f m res r h Hok). unfold entry_of.
  destruct (filter_lag_unique (snd r) h Hnd) as [E|[lx [E _]]]; rewrite E; [reflexivity|].
  cbn [map last]. unfold acell. cbn [cvals assoc]. rewrite (proj2 (mx_str_eqb_eq f f) eq_refl). reflexivity.
Qed.

Theorem to_array_rows : forall f m res rows, rows_ok res rows ->
  to_array (cells_of_rows f m res rows) f = Ok (array_of_rows rows).
Proof.
  intros f m res rows Hok. unfold to_array.
  rewrite (to_array_meta_check f m res rows), (to_array_inc_check f m res rows), filter_has_field.
  rewrite (group_by_rows f m res rows Hok). destruct Hok as [Hnd Hrows].
  assert (Hh : dedup Z.eqb (flat_map (fun g : date * date * list cell => map cell_lag (snd g))
                 (map (fun r => ((month_start (fst r), month_end (fst r + res - 1)), cells_of_row f m res r)) rows))
               = header_of rows).
  { unfold header_of. f_equal. rewrite flat_map_map'. apply flat_map_ext_in'. intros r Hr. cbn [snd].
    apply map_cell_lag_row. apply Hrows. exact Hr. }
  rewrite Hh. unfold array_of_rows. f_equal. f_equal. rewrite map_map. apply map_ext_in. intros r Hr.
  cbn [fst snd]. f_equal. apply map_ext. intros h.
  destruct (Hrows r Hr) as (_ & Hn & Hr'). apply row_entry; assumption.
Qed.

(* ====================================================================================== *)
(** * from_array on the frame built by to_array *)

(* from_array_row_opt again (no condition on the lags is needed any more) *)
Lemma from_array_row_sparse : forall f m res s lags (ovals : list (option Z)),
  MINID <= s -> MINID <= s + res - 1 ->
  from_array (mkAF lags [(month_start s, ovals)]) f res m
  = arow_cells_opt f m res s (combine lags ovals).
Proof.
  intros f m res s lags ovals Hs Hpe.
  unfold from_array, arow_cells_opt. cbn [af_rows af_lags flat_map fst snd]. rewrite app_nil_r.
  rewrite (addm_start_pred_is_end s res) by exact Hs.
  apply flat_map_ext_in'. intros [lag [x|]] Hin; cbn [fst snd]; [|reflexivity].
  rewrite addm_month_end by exact Hpe. reflexivity.
Qed.

Lemma from_array_map_rows : forall {R} (g : R -> date * list (option Z)) lags (rows : list R) f res m,
  from_array (mkAF lags (map g rows)) f res m
  = flat_map (fun r => from_array (mkAF lags [g r]) f res m) rows.
Proof.
  intros R g lags rows f res m. induction rows as [|r rows IH]; [reflexivity|].
  cbn [map flat_map]. rewrite from_array_cons, IH. reflexivity.
Qed.

Lemma combine_map_self {A B} (g : A -> B) l : combine l (map g l) = map (fun a => (a, g a)) l.
Proof. induction l as [|a l IH]; [reflexivity|]. cbn [map combine]. rewrite IH. reflexivity. Qed.

Lemma entry_of_some lvs h x : entry_of lvs h = Some x ->
  exists lx, In lx lvs /\ fst lx = h /\ num_n (snd lx) = x.
Proof.
  unfold entry_of. destruct (filter (fun lx => fst lx =? h) lvs) as [|lx l] eqn:E; [discriminate|].
  intros H. inversion H. exists lx.
  assert (Hin : In lx (filter (fun lx => fst lx =? h) lvs)) by (rewrite E; left; reflexivity).
  apply filter_In in Hin. destruct Hin as [Hin Hh]. apply Z.eqb_eq in Hh. auto.
Qed.

Lemma Permutation_flat_map_pointwise {A B} (f g : A -> list B) l :
  (forall a, In a l -> Permutation (f a) (g a)) -> Permutation (flat_map f l) (flat_map g l).
Proof.
  induction l as [|a l IH]; intros H; [constructor|]. cbn [flat_map].
  apply Permutation_app; [apply H; left; reflexivity|apply IH; intros; apply H; right; assumption].
Qed.

Lemma perm_of_eq {A} (a b : list A) : a = b -> Permutation a b.
Proof. intros ->. apply Permutation_refl. Qed.

Lemma header_in rows r lx : In r rows -> In lx (snd r) -> In (fst lx) (header_of rows).
Proof.
  intros Hr Hlx. unfold header_of. apply (dedup_in Z.eqb Z.eqb_eq). apply in_flat_map.
  exists r. split; [exact Hr|apply in_map; exact Hlx].
Qed.

(* one row of the frame turns back into the cells of the generating row, as floats *)
Lemma from_array_row_of f m res rows r : In r rows -> NoDup (map fst (snd r)) -> row_ok res r ->
  from_array (mkAF (header_of rows) [((month_start (fst r) : date), map (entry_of (snd r)) (header_of rows))]) f res m
  = flat_map (fun h => match entry_of (snd r) h with
                       | Some x => [acell f m res (fst r) h (VNum (Num true x))]
                       | None => []
                       end) (header_of rows).
Proof.
  intros Hr Hnd (Hs & Hpe & HF).
  rewrite from_array_row_sparse; try assumption.
  unfold arow_cells_opt. rewrite combine_map_self, flat_map_map'. reflexivity.
Qed.

Lemma row_cells_perm f m res rows r : In r rows -> NoDup (map fst (snd r)) ->
  Permutation
    (flat_map (fun h => match entry_of (snd r) h with
                        | Some x => [acell f m res (fst r) h (VNum (Num true x))]
                        | None => []
                        end) (header_of rows))
    (map (arr_norm m) (cells_of_row f m res r)).
Proof.
  intros Hr Hnd.
  set (mk' := fun lx : Z * num => acell f m res (fst r) (fst lx) (VNum (Num true (num_n (snd lx))))).
  assert (E1 : map (arr_norm m) (cells_of_row f m res r) = map mk' (snd r)).
  { unfold cells_of_row. rewrite map_map. reflexivity. }
  assert (E2 : flat_map (fun h => match entry_of (snd r) h with
                                  | Some x => [acell f m res (fst r) h (VNum (Num true x))]
                                  | None => []
                                  end) (header_of rows)
               = flat_map (fun h => map mk' (filter (fun lx => fst lx =? h) (snd r))) (header_of rows)).
  { apply flat_map_ext. intros h. unfold entry_of.
    destruct (filter_lag_unique (snd r) h Hnd) as [E|[lx [E [Hh _]]]]; rewrite E; [reflexivity|].
    cbn [map]. unfold mk'. rewrite Hh. reflexivity. }
  rewrite E1, E2, map_flat_map'. apply Permutation_map.
  apply (bucket_perm (fun h lx => fst lx =? h)). intros lx Hlx.
  destruct (NoDup_split_at (fst lx) (header_of rows)) as (g1 & g2 & Eg & Hn1 & Hn2).
  - apply (dedup_NoDup Z.eqb Z.eqb_eq).
  - apply (header_in rows r lx Hr Hlx).
  - exists g1, (fst lx), g2. split; [exact Eg|]. split; [apply Z.eqb_refl|].
    intros g' Hg'. apply Z.eqb_neq. intros E. subst g'. destruct Hg'; contradiction.
Qed.

Theorem from_array_of_rows : forall f m res rows, rows_ok res rows ->
  Permutation (from_array (array_of_rows rows) f res m) (map (arr_norm m) (cells_of_rows f m res rows)).
Proof.
  intros f m res rows [Hnd Hrows]. unfold array_of_rows.
  rewrite (from_array_map_rows (fun r => (month_start (fst r), map (entry_of (snd r)) (header_of rows)))).
  unfold cells_of_rows. rewrite <- map_flat_map'.
  apply Permutation_flat_map_pointwise. intros r Hr. destruct (Hrows r Hr) as (_ & Hn & Hok).
  cbv beta. eapply Permutation_trans; [|apply (row_cells_perm f m res rows r Hr Hn)].
  apply perm_of_eq. exact (from_array_row_of f m res rows r Hr Hn Hok).
Qed.

(** the array data frame of a regular single-slice triangle converts back to the same cells *)
Theorem array_round_trip : forall f m res rows, 0 < res -> rows_ok res rows ->
  exists af out,
    to_array (cells_of_rows f m res rows) f = Ok af /\ from_array af f res m = out /\
    Permutation out (map (arr_norm m) (cells_of_rows f m res rows)).
Proof.
  intros f m res rows _ Hok. exists (array_of_rows rows), (from_array (array_of_rows rows) f res m).
  split; [apply to_array_rows; exact Hok|]. split; [reflexivity|apply from_array_of_rows; exact Hok].
Qed.

(* arr_norm is fl_cell when the metadata is already float-normalised *)
Lemma arr_norm_fl_cell f m res rows : fl_meta m = m ->
  map (arr_norm m) (cells_of_rows f m res rows) = floatify (cells_of_rows f m res rows).
Proof.
  intros Hm. unfold floatify. apply map_ext_in. intros c Hc.
  unfold arr_norm, fl_cell. rewrite (cells_of_rows_meta f m res rows c Hc), Hm.
  unfold cells_of_rows, cells_of_row in Hc. apply in_flat_map in Hc. destruct Hc as [r [_ Hc]].
  apply in_map_iff in Hc. destruct Hc as [lx [<- _]]. reflexivity.
Qed.

(* period_resolution=None: the resolution is read off the first two period starts *)
Theorem infer_resolution_rows : forall res r0 r1 rows,
  MINID <= fst r0 -> MINID <= fst r1 -> fst r1 - fst r0 = res ->
  infer_resolution (array_of_rows (r0 :: r1 :: rows)) = Ok res.
Proof.
  intros res r0 r1 rows H0 H1 E. unfold infer_resolution, array_of_rows. cbn [af_rows map fst].
  rewrite !month_id_start by assumption. rewrite E. reflexivity.
Qed.

(* ====================================================================================== *)
(** * Equality (not only permutation) when every row lists its lags in the order of the header,
      in particular for regular / ragged triangles: every row a prefix of one common lag list *)

Lemma existsb_Zeqb_In y a : existsb (Z.eqb y) a = true <-> In y a.
Proof.
  rewrite existsb_exists. split.
  - intros [x [Hx E]]. apply Z.eqb_eq in E. subst. exact Hx.
  - intros H. exists y. split; [exact H|apply Z.eqb_refl].
Qed.

Lemma row_cells_eq f m res s : forall hdr (lvs : list (Z * num)), NoDup hdr ->
  map fst lvs = filter (fun h => existsb (Z.eqb h) (map fst lvs)) hdr ->
  flat_map (fun h => match entry_of lvs h with
                     | Some x => [acell f m res s h (VNum (Num true x))]
                     | None => []
                     end) hdr
  = map (fun lx => acell f m res s (fst lx) (VNum (Num true (num_n (snd lx))))) lvs.
Proof.
  induction hdr as [|u U IH]; intros lvs Hnd Hk.
  - cbn [filter] in Hk. destruct lvs; [reflexivity|discriminate].
  - inversion Hnd as [|? ? Hu HU]; subst. cbn [flat_map]. cbn [filter] in Hk.
    destruct (existsb (Z.eqb u) (map fst lvs)) eqn:Em.
    + destruct lvs as [|[l x] lvs']; [discriminate|]. cbn [map fst] in Hk. injection Hk as Hl Hk. subst l.
      unfold entry_of at 1. cbn [filter fst]. rewrite Z.eqb_refl. cbn [map fst snd app]. f_equal.
      rewrite <- (IH lvs' HU).
      * apply flat_map_ext_in'. intros h Hh. unfold entry_of. cbn [filter fst].
        destruct (u =? h) eqn:E; [apply Z.eqb_eq in E; subst; contradiction|reflexivity].
      * rewrite Hk at 1. apply filter_ext_in. intros h Hh. cbn [existsb].
        destruct (h =? u) eqn:E; [apply Z.eqb_eq in E; subst; contradiction|reflexivity].
    + assert (En : entry_of lvs u = None).
      { unfold entry_of. rewrite filter_nil; [reflexivity|]. intros lx Hlx. apply Z.eqb_neq. intros E.
        assert (H : existsb (Z.eqb u) (map fst lvs) = true)
          by (apply existsb_Zeqb_In; rewrite <- E; apply in_map; exact Hlx).
        congruence. }
      rewrite En. cbn [app]. apply IH; assumption.
Qed.

Definition rows_ordered (rows : list (Z * list (Z * num))) : Prop :=
  forall r, In r rows ->
    map fst (snd r) = filter (fun h => existsb (Z.eqb h) (map fst (snd r))) (header_of rows).

Theorem from_array_of_rows_eq : forall f m res rows, rows_ok res rows -> rows_ordered rows ->
  from_array (array_of_rows rows) f res m = map (arr_norm m) (cells_of_rows f m res rows).
Proof.
  intros f m res rows [Hnd Hrows] Hord. unfold array_of_rows.
  rewrite (from_array_map_rows (fun r => (month_start (fst r), map (entry_of (snd r)) (header_of rows)))).
  unfold cells_of_rows. rewrite <- map_flat_map'.
  apply flat_map_ext_in'. intros r Hr. destruct (Hrows r Hr) as (_ & Hn & Hok).
  etransitivity; [exact (from_array_row_of f m res rows r Hr Hn Hok)|].
  rewrite (row_cells_eq f m res (fst r) (header_of rows) (snd r) (dedup_NoDup Z.eqb Z.eqb_eq _) (Hord r Hr)).
  unfold cells_of_row. rewrite map_map. reflexivity.
Qed.

Theorem array_round_trip_eq : forall f m res rows, 0 < res -> rows_ok res rows -> rows_ordered rows ->
  exists af, to_array (cells_of_rows f m res rows) f = Ok af /\
             from_array af f res m = map (arr_norm m) (cells_of_rows f m res rows).
Proof.
  intros f m res rows _ Hok Hord. exists (array_of_rows rows).
  split; [apply to_array_rows; exact Hok|apply from_array_of_rows_eq; assumption].
Qed.

(* ---------- rows that are prefixes of one common duplicate-free lag list are ordered ---------- *)
Definition is_prefix (p L : list Z) : Prop := exists rest, L = p ++ rest.

Lemma prefix_total : forall (a b L : list Z), is_prefix a L -> is_prefix b L ->
  (exists x, b = a ++ x) \/ (exists x, a = b ++ x).
Proof.
  induction a as [|x a IH]; intros b L [ra Ha] [rb Hb].
  - left. exists b. reflexivity.
  - destruct b as [|y b]; [right; exists (x :: a); reflexivity|].
    subst L. cbn [app] in Hb. injection Hb as Hxy Hb. subst y.
    destruct (IH b (a ++ ra) (ex_intro _ ra eq_refl) (ex_intro _ rb Hb)) as [[z Hz]|[z Hz]].
    + left. exists z. rewrite Hz. reflexivity.
    + right. exists z. rewrite Hz. reflexivity.
Qed.
Lemma NoDup_app_disj {A} (a b : list A) y : NoDup (a ++ b) -> In y a -> In y b -> False.
Proof.
  induction a as [|x a IH]; intros Hn Ha Hb; [contradiction|].
  cbn [app] in Hn. inversion Hn as [|? ? Hx Hn']; subst. destruct Ha as [->|Ha].
  - apply Hx. apply in_or_app. right. exact Hb.
  - exact (IH Hn' Ha Hb).
Qed.
Lemma filter_mem_id (p : list Z) l : (forall y, In y l -> In y p) ->
  filter (fun h => existsb (Z.eqb h) p) l = l.
Proof. intros H. apply filter_id. intros y Hy. apply existsb_Zeqb_In. apply H. exact Hy. Qed.
Lemma filter_mem_nil (p : list Z) l : (forall y, In y l -> ~ In y p) ->
  filter (fun h => existsb (Z.eqb h) p) l = [].
Proof.
  intros H. apply filter_nil. intros y Hy. destruct (existsb (Z.eqb y) p) eqn:E; [|reflexivity].
  apply existsb_Zeqb_In in E. exfalso. exact (H y Hy E).
Qed.
Lemma filter_notmem_nil (p : list Z) l : (forall y, In y l -> In y p) ->
  filter (fun h => negb (existsb (Z.eqb h) p)) l = [].
Proof.
  intros H. apply filter_nil. intros y Hy. apply negb_false_iff. apply existsb_Zeqb_In. apply H. exact Hy.
Qed.
Lemma filter_notmem_id (p : list Z) l : (forall y, In y l -> ~ In y p) ->
  filter (fun h => negb (existsb (Z.eqb h) p)) l = l.
Proof.
  intros H. apply filter_id. intros y Hy. apply negb_true_iff.
  destruct (existsb (Z.eqb y) p) eqn:E; [|reflexivity].
  apply existsb_Zeqb_In in E. exfalso. exact (H y Hy E).
Qed.

Lemma dedup_NoDup_id (l : list Z) : NoDup l -> dedup Z.eqb l = l.
Proof.
  induction 1 as [|x l Hx Hn IH]; [reflexivity|]. cbn [dedup]. rewrite IH. f_equal.
  apply filter_id. intros y Hy. apply negb_true_iff. apply Z.eqb_neq. intros E. subst. contradiction.
Qed.
Lemma filter_filter_notmem x a (l : list Z) :
  filter (fun z => negb (z =? x)) (filter (fun y => negb (existsb (Z.eqb y) a)) l)
  = filter (fun y => negb (existsb (Z.eqb y) (x :: a))) l.
Proof.
  induction l as [|y l IHl]; [reflexivity|]. cbn [filter].
  change (existsb (Z.eqb y) (x :: a)) with ((y =? x) || existsb (Z.eqb y) a).
  destruct (existsb (Z.eqb y) a) eqn:Ea; destruct (y =? x) eqn:Exy; cbn [negb orb filter];
    rewrite ?Exy; cbn [negb]; rewrite IHl; reflexivity.
Qed.
Lemma dedup_app_Z (a b : list Z) :
  dedup Z.eqb (a ++ b) = dedup Z.eqb a ++ filter (fun y => negb (existsb (Z.eqb y) a)) (dedup Z.eqb b).
Proof.
  induction a as [|x a IH].
  - cbn [app dedup existsb]. symmetry. apply filter_id. reflexivity.
  - cbn [app dedup]. rewrite IH, filter_app. f_equal. f_equal. apply filter_filter_notmem.
Qed.

Lemma header_prefix L rows : NoDup L ->
  (forall r, In r rows -> is_prefix (map fst (snd r)) L) -> is_prefix (header_of rows) L.
Proof.
  intros HL. unfold header_of. induction rows as [|r rows IH]; intros H.
  - exists L. reflexivity.
  - cbn [flat_map]. rewrite dedup_app_Z.
    destruct (H r (or_introl eq_refl)) as [ra Ha].
    assert (Hna : NoDup (map fst (snd r))).
    { rewrite Ha in HL. clear -HL. induction (map fst (snd r)) as [|x a IHa]; [constructor|].
      cbn [app] in HL. inversion HL; subst. constructor; [|apply IHa; assumption].
      intros Hin. apply H1. apply in_or_app. left. exact Hin. }
    rewrite (dedup_NoDup_id _ Hna).
    destruct (IH (fun r' Hr' => H r' (or_intror Hr'))) as [rb Hb].
    set (a := map fst (snd r)) in *. set (b := dedup Z.eqb (flat_map (fun r0 => map fst (snd r0)) rows)) in *.
    destruct (prefix_total a b L (ex_intro _ ra Ha) (ex_intro _ rb Hb)) as [[x Hx]|[x Hx]].
    + rewrite Hx, filter_app, (filter_notmem_nil a a) by auto. cbn [app].
      rewrite filter_notmem_id.
      * exists rb. rewrite Hb, Hx. reflexivity.
      * intros y Hy Hya. rewrite Hb, Hx, <- app_assoc in HL.
        apply (NoDup_app_disj a (x ++ rb) y HL Hya). apply in_or_app. left. exact Hy.
    + rewrite filter_notmem_nil.
      * rewrite app_nil_r. exists ra. exact Ha.
      * intros y Hy. rewrite Hx. apply in_or_app. left. exact Hy.
Qed.

Theorem prefix_rows_ordered : forall L rows, NoDup L ->
  (forall r, In r rows -> is_prefix (map fst (snd r)) L) -> rows_ordered rows.
Proof.
  intros L rows HL H r Hr. pose proof (header_prefix L rows HL H) as [rh Hh].
  destruct (H r Hr) as [rp Hp].
  set (p := map fst (snd r)) in *. set (hd := header_of rows) in *.
  assert (Hsub : forall y, In y p -> In y hd).
  { intros y Hy. unfold p in Hy. apply in_map_iff in Hy. destruct Hy as [lx [<- Hlx]].
    apply (header_in rows r lx Hr Hlx). }
  assert (Hx : exists x, hd = p ++ x).
  { destruct (prefix_total p hd L (ex_intro _ rp Hp) (ex_intro _ rh Hh)) as [Hx|[x Hx]]; [exact Hx|].
    destruct x as [|y x]; [exists []; rewrite app_nil_r in Hx; rewrite app_nil_r; symmetry; exact Hx|]. exfalso.
    assert (Hy : In y hd) by (apply Hsub; rewrite Hx; apply in_or_app; right; left; reflexivity).
    rewrite Hp, Hx, <- app_assoc in HL.
    apply (NoDup_app_disj hd ((y :: x) ++ rp) y HL Hy). left. reflexivity. }
  destruct Hx as [x Hx]. rewrite Hx, filter_app, (filter_mem_id p p) by auto.
  rewrite filter_mem_nil; [rewrite app_nil_r; reflexivity|].
  intros y Hy Hyp. rewrite Hh, Hx, <- app_assoc in HL.
  apply (NoDup_app_disj p (x ++ rh) y HL Hyp). apply in_or_app. left. exact Hy.
Qed.

(** regular / ragged triangles: the frame converts back to exactly the same cell list *)
Theorem array_round_trip_prefix : forall f m res rows L, 0 < res -> rows_ok res rows -> NoDup L ->
  (forall r, In r rows -> is_prefix (map fst (snd r)) L) ->
  exists af, to_array (cells_of_rows f m res rows) f = Ok af /\
             from_array af f res m = map (arr_norm m) (cells_of_rows f m res rows).
Proof.
  intros f m res rows L Hres Hok HL Hp.
  apply (array_round_trip_eq f m res rows Hres Hok (prefix_rows_ordered L rows HL Hp)).
Qed.

(* ====================================================================================== *)
(** * Refusals of to_array *)

(* more than one slice: ValueError (whatever the cells are) *)
Theorem to_array_refuses_multi_slice : forall t f, t <> [] ->
  (exists a b, In a t /\ In b t /\ meta_seqb (cmeta a) (cmeta b) = false) ->
  to_array t f = Err ValueError.
Proof.
  intros t f Hne (a & b & Ha & Hb & Hab). unfold to_array.
  assert (Ia : In (cmeta a) (dedup meta_seqb (map cmeta t)))
    by (apply (dedup_in meta_seqb mx_meta_seqb_eq); apply in_map; exact Ha).
  assert (Ib : In (cmeta b) (dedup meta_seqb (map cmeta t)))
    by (apply (dedup_in meta_seqb mx_meta_seqb_eq); apply in_map; exact Hb).
  assert (Hlen : Nat.eqb (List.length (dedup meta_seqb (map cmeta t))) 1 = false).
  { destruct (dedup meta_seqb (map cmeta t)) as [|x [|y l]]; [contradiction| |reflexivity].
    exfalso. destruct Ia as [Ea|[]]. destruct Ib as [Eb|[]].
    rewrite <- Ea, <- Eb, (proj2 (mx_meta_seqb_eq x x) eq_refl) in Hab. discriminate. }
  rewrite Hlen. destruct t as [|c r]; [congruence|]. reflexivity.
Qed.

(* an incremental triangle (first cell incremental): ValueError, from the slice test or, when the
   triangle has a single slice, from the `is_incremental` test -- no slice hypothesis is needed *)
Theorem to_array_refuses_incremental : forall t f c r, t = c :: r -> is_inc c = true ->
  to_array t f = Err ValueError.
Proof.
  intros t f c r -> Hc. unfold to_array.
  destruct (negb (Nat.eqb (List.length (dedup meta_seqb (map cmeta (c :: r)))) 1)
            && negb (Nat.eqb (List.length (c :: r)) 0)); [reflexivity|].
  unfold tri_is_inc. rewrite Hc. reflexivity.
Qed.

(* NOT PROVED (array frame):
   - cells holding more fields than `f` (to_array keeps only `f`, so the round trip drops the others). *)
