(** C13 lemmas, part 2: common_metadata / metadata_differences recombination, the taxonomy
    (is_disjoint, is_semi_regular, is_regular), resolutions (gcd), experience gaps. *)
From Coq Require Import ZArith List Bool Lia Sorted Znumtheory.
From Bermuda Require Import Lib.Calendar Model.Base Model.Accessors Proofs.Accessors.
Import ListNotations.
Local Open Scope Z_scope.

(* ================================================================== metadata algebra *)
Definition wf_meta (m : meta) : Prop := NoDup (keys (details m)) /\ NoDup (keys (loss_details m)).

(* ---- scalar attributes: fold of _first_if_equal *)
Section Fie.
  Context {A : Type} (eqb : A -> A -> bool).
  Hypothesis r : forall x, eqb x x = true.
  Hypothesis s : forall x y, eqb x y = eqb y x.
  Hypothesis tr : forall x y z, eqb x y = true -> eqb y z = true -> eqb x z = true.

  Lemma fie_fold_Some : forall os o x,
    fold_left (first_if_equal eqb) os o = Some x ->
    o = Some x /\ forall o', In o' os -> opt_eqb eqb (Some x) o' = true.
  Proof.
    induction os as [|o1 os IH]; simpl; intros o x H.
    - split; [assumption|tauto].
    - apply IH in H. destruct H as [H1 H2]. unfold first_if_equal in H1.
      destruct (opt_eqb eqb o o1) eqn:E; [|discriminate]. subst o. split; [reflexivity|].
      intros o' [<-|Hin]; [exact E|apply H2, Hin].
  Qed.

  Lemma fie_fold_complete : forall os x,
    (forall o', In o' os -> opt_eqb eqb (Some x) o' = true) ->
    fold_left (first_if_equal eqb) os (Some x) = Some x.
  Proof.
    induction os as [|o1 os IH]; intros x H; [reflexivity|].
    cbn [fold_left]. unfold first_if_equal at 2. rewrite (H o1 (or_introl eq_refl)).
    apply IH. intros o' Ho. apply H. now right.
  Qed.

End Fie.

(* projections commute with the fold over slices *)
Lemma fold_common_proj {B} (proj : meta -> B) (f : B -> B -> B) :
  (forall a b, proj (common_metadata2 a b) = f (proj a) (proj b)) ->
  forall ms m, proj (fold_left common_metadata2 ms m) = fold_left f (map proj ms) (proj m).
Proof.
  intros H. induction ms as [|m1 ms IH]; intros m; simpl; [reflexivity|]. rewrite IH, H. reflexivity.
Qed.

(* ---- detail dictionaries *)
Definition cv (ts : bool) (o1 o2 : option mval) : option mval :=
  match o1, o2 with
  | Some v1, Some v2 => if mval_pyeq v1 v2 then Some (if ts then v2 else v1) else None
  | _, _ => None
  end.

Lemma keys_common_dict_sub ts d1 d2 k : In k (keys (common_dict ts d1 d2)) -> In k (keys d1).
Proof.
  unfold keys, common_dict. rewrite !in_map_iff. intros [[k' v] [E H]]. simpl in E. subst k'.
  apply in_flat_map in H. destruct H as [[k1 v1] [H1 H2]]. simpl in H2.
  destruct (assoc k1 d2) as [v2|]; [|contradiction]. destruct (mval_pyeq v1 v2); [|contradiction].
  destruct H2 as [E|[]]. inversion E; subst. exists (k, v1). auto.
Qed.

Lemma common_dict_NoDup ts d1 d2 : NoDup (keys d1) -> NoDup (keys (common_dict ts d1 d2)).
Proof.
  induction d1 as [|[k v] r IH]; simpl; intros H; [constructor|].
  inversion H as [|? ? Hn Hr]; subst. unfold common_dict. simpl. fold (common_dict ts r d2).
  unfold keys. rewrite map_app. fold (keys (common_dict ts r d2)).
  destruct (assoc k d2) as [v2|]; simpl; [|auto]. destruct (mval_pyeq v v2); simpl; [|auto].
  constructor; [|auto]. intros C. apply Hn. eapply keys_common_dict_sub. exact C.
Qed.

Lemma assoc_common_dict ts d2 : forall d1 k, NoDup (keys d1) ->
  assoc k (common_dict ts d1 d2) = cv ts (assoc k d1) (assoc k d2).
Proof.
  induction d1 as [|[k1 v1] r IH]; intros k H; simpl; [reflexivity|].
  inversion H as [|? ? Hn Hr]; subst.
  unfold common_dict. simpl. fold (common_dict ts r d2). rewrite assoc_app.
  destruct (str_eqb k k1) eqn:E.
  - apply str_eqb_eq in E. subst k1.
    assert (assoc k (common_dict ts r d2) = None) as Hnone.
    { apply assoc_None_keys. intros C. apply Hn. eapply keys_common_dict_sub. exact C. }
    destruct (assoc k d2) as [v2|] eqn:E2; simpl.
    + destruct (mval_pyeq v1 v2); simpl; [now rewrite str_eqb_refl|]. rewrite Hnone. reflexivity.
    + exact Hnone.
  - assert (assoc k (match assoc k1 d2 with
                     | Some v2 => if mval_pyeq v1 v2 then [(k1, if ts then v2 else v1)] else []
                     | None => [] end) = None) as ->.
    { destruct (assoc k1 d2) as [v2|]; [|reflexivity]. destruct (mval_pyeq v1 v2); simpl; [|reflexivity].
      now rewrite E. }
    apply IH. assumption.
Qed.

Lemma fold_common_dict_NoDup ts : forall ds d, NoDup (keys d) ->
  NoDup (keys (fold_left (common_dict ts) ds d)).
Proof. induction ds as [|d1 ds IH]; simpl; intros d H; [assumption|]. apply IH, common_dict_NoDup, H. Qed.

Lemma assoc_fold_common_dict ts k : forall ds d, NoDup (keys d) ->
  assoc k (fold_left (common_dict ts) ds d) = fold_left (cv ts) (map (assoc k) ds) (assoc k d).
Proof.
  induction ds as [|d1 ds IH]; simpl; intros d H; [reflexivity|].
  rewrite IH by (apply common_dict_NoDup, H). rewrite assoc_common_dict by assumption. reflexivity.
Qed.

Lemma cv_fold_None ts : forall os, fold_left (cv ts) os None = None.
Proof. induction os; simpl; auto. Qed.

(* what survives the fold is Python-equal to the value in EVERY slice ... *)
Lemma cv_fold_Some ts : forall os o v,
  fold_left (cv ts) os o = Some v ->
  (exists v0, o = Some v0 /\ mval_pyeq v v0 = true) /\
  forall o', In o' os -> exists v', o' = Some v' /\ mval_pyeq v v' = true.
Proof.
  induction os as [|o1 os IH]; simpl; intros o v H.
  - split; [exists v; split; [assumption|apply mval_pyeq_refl]|tauto].
  - apply IH in H. destruct H as [[w [Hw Ew]] Hall].
    destruct o as [v0|]; [|discriminate]. destruct o1 as [v1|]; [|discriminate]. simpl in Hw.
    destruct (mval_pyeq v0 v1) eqn:E01; [|discriminate].
    assert (mval_pyeq v v0 = true /\ mval_pyeq v v1 = true) as [H0 H1].
    { destruct ts; inversion Hw; subst w; split; try assumption.
      - eapply mval_pyeq_trans; [exact Ew|]. rewrite mval_pyeq_sym. exact E01.
      - eapply mval_pyeq_trans; [exact Ew|exact E01]. }
    split; [eauto|]. intros o' [<-|Hin]; eauto.
Qed.

(* ... and everything Python-equal in every slice survives *)
Lemma cv_fold_complete ts : forall os v0,
  (forall o', In o' os -> exists v', o' = Some v' /\ mval_pyeq v0 v' = true) ->
  exists v, fold_left (cv ts) os (Some v0) = Some v.
Proof.
  induction os as [|o1 os IH]; simpl; intros v0 H; [eauto|].
  destruct (H o1 (or_introl eq_refl)) as [v1 [-> E]]. simpl. rewrite E.
  apply IH. intros o' Hin. destruct (H o' (or_intror Hin)) as [v' [-> E']]. exists v'. split; [reflexivity|].
  destruct ts; [|assumption]. eapply mval_pyeq_trans; [|exact E']. rewrite mval_pyeq_sym. exact E.
Qed.

(* ---- "common_metadata keeps precisely what all slices share" *)
Section CommonSpec.
  Variable m0 : meta.
  Variable ms : list meta.
  Let c := fold_left common_metadata2 ms m0.

  Lemma common_str_attr (proj : meta -> option str) :
    (forall a b, proj (common_metadata2 a b) = first_if_equal str_eqb (proj a) (proj b)) ->
    forall x, proj c = Some x <-> forall m, In m (m0 :: ms) -> proj m = Some x.
  Proof.
    intros Hp x. unfold c. rewrite (fold_common_proj proj _ Hp). split.
    - intros H. apply fie_fold_Some in H. destruct H as [H0 Hall]. intros m [<-|Hin]; [assumption|].
      specialize (Hall (proj m) (in_map proj _ _ Hin)). destruct (proj m) as [y|]; simpl in Hall; [|discriminate].
      apply str_eqb_eq in Hall. now subst.
    - intros H. rewrite (H m0 (or_introl eq_refl)). apply (fie_fold_complete _).
      intros o' Hin. apply in_map_iff in Hin. destruct Hin as [m [<- Hin]].
      rewrite (H m (or_intror Hin)). simpl. apply str_eqb_refl.
  Qed.

  Lemma common_limit x :
    per_occurrence_limit c = Some x <->
    per_occurrence_limit m0 = Some x /\
    forall m, In m ms -> onum_pyeq (Some x) (per_occurrence_limit m) = true.
  Proof.
    unfold c. rewrite (fold_common_proj per_occurrence_limit (first_if_equal num_eqb)) by reflexivity. split.
    - intros H. apply fie_fold_Some in H. destruct H as [H0 Hall]. split; [assumption|].
      intros m Hin. apply Hall. now apply in_map.
    - intros [H0 H]. rewrite H0. apply (fie_fold_complete _).
      intros o' Hin. apply in_map_iff in Hin. destruct Hin as [m [<- Hin]]. now apply H.
  Qed.

  Lemma common_dict_attr (ts : bool) (proj : meta -> list (str * mval)) :
    (forall a b, proj (common_metadata2 a b) = common_dict ts (proj a) (proj b)) ->
    NoDup (keys (proj m0)) ->
    NoDup (keys (proj c)) /\
    (forall k v, assoc k (proj c) = Some v ->
       forall m, In m (m0 :: ms) -> exists v', assoc k (proj m) = Some v' /\ mval_pyeq v v' = true) /\
    (forall k v0, assoc k (proj m0) = Some v0 ->
       (forall m, In m ms -> exists v', assoc k (proj m) = Some v' /\ mval_pyeq v0 v' = true) ->
       exists v, assoc k (proj c) = Some v).
  Proof.
    intros Hp Hnd. unfold c. rewrite (fold_common_proj proj _ Hp). repeat split.
    - apply fold_common_dict_NoDup, Hnd.
    - intros k v H m Hin. rewrite assoc_fold_common_dict in H by assumption.
      apply cv_fold_Some in H. destruct H as [[v0 [E0 H0]] Hall]. destruct Hin as [<-|Hin]; [eauto|].
      apply Hall. rewrite map_map. apply (in_map (fun m => assoc k (proj m))). assumption.
    - intros k v0 H0 Hall. rewrite assoc_fold_common_dict by assumption. rewrite H0.
      apply cv_fold_complete. intros o' Hin. rewrite map_map in Hin. apply in_map_iff in Hin.
      destruct Hin as [m [<- Hin]]. now apply Hall.
  Qed.
End CommonSpec.

(* ---- recombination *)
Lemma assoc_filter_nokey (core d : list (str * mval)) k :
  assoc k core = None ->
  assoc k (filter (fun kv => negb (has_key (fst kv) core)) d) = assoc k d.
Proof.
  intros Hc. induction d as [|[k1 v1] r IH]; simpl; [reflexivity|].
  destruct (has_key k1 core) eqn:E; simpl.
  - destruct (str_eqb k k1) eqn:Ek; [|assumption]. apply str_eqb_eq in Ek. subst k1.
    unfold has_key in E. rewrite Hc in E. discriminate.
  - destruct (str_eqb k k1); [reflexivity|assumption].
Qed.

Lemma recombine_str (cc mm : option str) :
  (forall x, cc = Some x -> mm = Some x) ->
  ostr_eqb (or_else cc (none_if_some cc mm)) mm = true.
Proof.
  intros H. destruct cc as [x|]; simpl.
  - rewrite (H x eq_refl). simpl. apply str_eqb_refl.
  - apply (opt_eqb_refl _ str_eqb_refl).
Qed.

Lemma recombine_dict (core d : list (str * mval)) :
  (forall k v, assoc k core = Some v -> exists v', assoc k d = Some v' /\ mval_pyeq v v' = true) ->
  dict_pyeq (core ++ filter (fun kv => negb (has_key (fst kv) core)) d) d = true.
Proof.
  intros H. apply dict_pyeq_spec. intros k. rewrite assoc_app.
  destruct (assoc k core) as [v|] eqn:E.
  - destruct (H k v E) as [v' [-> Ev]]. exact Ev.
  - rewrite assoc_filter_nokey by assumption. apply omval_refl.
Qed.

Theorem recombine_member m0 ms m :
  wf_meta m0 -> In m (m0 :: ms) ->
  let c := fold_left common_metadata2 ms m0 in
  meta_pyeq (recombine c (metadata_diff c m)) m = true.
Proof.
  intros [Hd Hl] Hin c. apply meta_pyeq_spec. unfold recombine, metadata_diff; simpl.
  repeat split.
  - apply recombine_str. intros x Hx. now apply (proj1 (common_str_attr m0 ms risk_basis (fun _ _ => eq_refl) x) Hx).
  - apply recombine_str. intros x Hx. now apply (proj1 (common_str_attr m0 ms country (fun _ _ => eq_refl) x) Hx).
  - apply recombine_str. intros x Hx. now apply (proj1 (common_str_attr m0 ms currency (fun _ _ => eq_refl) x) Hx).
  - apply recombine_str. intros x Hx. now apply (proj1 (common_str_attr m0 ms reinsurance_basis (fun _ _ => eq_refl) x) Hx).
  - apply recombine_str. intros x Hx. now apply (proj1 (common_str_attr m0 ms loss_definition (fun _ _ => eq_refl) x) Hx).
  - destruct (per_occurrence_limit c) as [x|] eqn:E; simpl.
    + apply common_limit in E. destruct E as [E0 Eall]. destruct Hin as [<-|Hin].
      * rewrite E0. simpl. apply num_eqb_refl.
      * apply Eall, Hin.
    + apply (opt_eqb_refl _ num_eqb_refl).
  - apply recombine_dict. intros k v Hk.
    destruct (common_dict_attr m0 ms false details (fun _ _ => eq_refl) Hd) as [_ [H _]]. eapply H; eassumption.
  - apply recombine_dict. intros k v Hk.
    destruct (common_dict_attr m0 ms true loss_details (fun _ _ => eq_refl) Hl) as [_ [H _]]. eapply H; eassumption.
Qed.

(* the statement in terms of the three accessors *)
Theorem recombine_nth t i dflt :
  (forall c, In c t -> wf_meta (cmeta c)) ->
  (i < length (metadata t))%nat ->
  exists c, common_metadata t = Ok c /\
    meta_pyeq (recombine c (nth i (metadata_differences t) dflt)) (nth i (metadata t) dflt) = true.
Proof.
  intros Hwf Hi. unfold metadata_differences, common_metadata, common_of.
  destruct (metadata t) as [|m0 ms] eqn:E; [simpl in Hi; lia|].
  exists (fold_left common_metadata2 ms m0). split; [reflexivity|].
  set (c := fold_left common_metadata2 ms m0).
  assert (Hm0 : wf_meta m0).
  { destruct (metadata_spec t) as [H _]. rewrite E in H. destruct (H m0 (or_introl eq_refl)) as [c0 [Hc <-]]. auto. }
  assert (Hn : nth i (map (metadata_diff c) (m0 :: ms)) dflt = metadata_diff c (nth i (m0 :: ms) dflt)).
  { rewrite (nth_indep _ dflt (metadata_diff c dflt)) by (rewrite map_length; exact Hi). apply map_nth. }
  rewrite Hn. apply recombine_member; [assumption|]. apply nth_In. exact Hi.
Qed.

(* ================================================================== is_disjoint *)
Definition valid_period (p : Z * Z) : Prop := fst p <= snd p.

(* the adjacent-pair scan over a sorted list of valid periods decides pairwise non-overlap *)
Lemma adj_ok_complete : forall ps,
  StronglySorted plt ps -> Forall valid_period ps ->
  (adj_ok overlap_adjacent ps = true <-> ForallOrdPairs (fun p q => overlap p q = false) ps).
Proof.
  induction ps as [|a r IH]; intros Hs Hv.
  - simpl. split; [constructor|reflexivity].
  - inversion Hs as [|? ? Hs' Hf]; subst. inversion Hv as [|? ? Hva Hv']; subst.
    specialize (IH Hs' Hv'). destruct r as [|b r'].
    + simpl. split; [intros _; constructor; constructor|reflexivity].
    + change (adj_ok overlap_adjacent (a :: b :: r')) with
        (if overlap_adjacent a b then false else adj_ok overlap_adjacent (b :: r')).
      unfold overlap_adjacent at 1.
      assert (Hab : plt a b) by (inversion Hf; assumption).
      apply pair_ltb_spec in Hab.
      inversion Hv' as [|? ? Hvb _]; subst. unfold valid_period in *.
      destruct (snd a >=? fst b) eqn:E.
      * split; [discriminate|]. intros H. inversion H as [|? ? Hfa _]; subst.
        inversion Hfa as [|? ? Hov _]; subst. unfold overlap in Hov.
        apply andb_false_iff in Hov. rewrite !Z.leb_gt in Hov. lia.
      * rewrite IH. split.
        -- intros H. constructor; [|assumption].
           (* chain: every later period starts after b starts, b starts after a ends *)
           inversion Hs' as [|? ? _ Hfb]; subst. rewrite Forall_forall in Hf, Hfb.
           rewrite Forall_forall. intros q Hq. unfold overlap.
           apply andb_false_iff. right. rewrite Z.leb_gt.
           destruct Hq as [<-|Hq]; [lia|].
           specialize (Hfb _ Hq). apply pair_ltb_spec in Hfb. lia.
        -- intros H. inversion H; assumption.
Qed.

Lemma FOP_In {A} (R : A -> A -> Prop) l :
  (forall a b, R a b -> R b a) -> NoDup l -> ForallOrdPairs R l ->
  forall p q, In p l -> In q l -> p <> q -> R p q.
Proof.
  intros Hsym Hnd H. induction H as [|a r Hf Hr IH]; [intros ? ? []|].
  inversion Hnd; subst. rewrite Forall_forall in Hf.
  intros p q [<-|Hp] [<-|Hq] Hne; auto; congruence.
Qed.
Lemma In_FOP {A} (R : A -> A -> Prop) l :
  NoDup l -> (forall p q, In p l -> In q l -> p <> q -> R p q) -> ForallOrdPairs R l.
Proof.
  induction 1 as [|a r Hn Hnd IH]; intros H; constructor.
  - rewrite Forall_forall. intros q Hq. apply H; [now left|now right|]. intros ->. contradiction.
  - apply IH. intros p q Hp Hq. apply H; now right.
Qed.

Lemma overlap_sym p q : overlap p q = overlap q p.
Proof. unfold overlap. apply andb_comm. Qed.

Definition wf_cell (c : cell) : Prop := ps c <= pe c.      (* enforced by the Cell constructor *)

Theorem is_disjoint_spec t :
  (forall c, In c t -> wf_cell c) ->
  (is_disjoint t = true <->
   forall c1 c2, In c1 t -> In c2 t -> period c1 <> period c2 -> overlap (period c1) (period c2) = false).
Proof.
  intros Hwf. destruct (periods_spec t) as [Hs [Hnd Hin]].
  assert (Hv : Forall valid_period (periods t)).
  { rewrite Forall_forall. intros p Hp. apply Hin in Hp. destruct Hp as [c [Hc <-]]. apply Hwf, Hc. }
  assert (is_disjoint t = adj_ok overlap_adjacent (periods t)) as ->.
  { unfold is_disjoint, is_disjoint_with. destruct t; reflexivity. }
  rewrite (adj_ok_complete _ Hs Hv). split.
  - intros H c1 c2 H1 H2 Hne.
    apply (FOP_In (fun p q => overlap p q = false) (periods t)); auto.
    + intros a b. now rewrite overlap_sym.
    + apply Hin. eauto.
    + apply Hin. eauto.
  - intros H. apply In_FOP; [assumption|]. intros p q Hp Hq Hne.
    apply Hin in Hp. apply Hin in Hq. destruct Hp as [c1 [H1 <-]]. destruct Hq as [c2 [H2 <-]]. auto.
Qed.

(* ================================================================== semi-regular, regular *)
Definition equal_lengths (u : unit_) (t : list cell) : Prop :=
  forall c1 c2, In c1 t -> In c2 t -> plen u (period c1) = plen u (period c2).

Theorem is_semi_regular_spec u t :
  is_semi_regular u t = true <-> is_disjoint t = true /\ equal_lengths u t.
Proof.
  unfold is_semi_regular. destruct (is_disjoint t) eqn:Ed; simpl; [|split; [discriminate|intros [C _]; discriminate]].
  destruct (periods_spec t) as [_ [_ Hin]]. unfold equal_lengths.
  destruct (periods t) as [|p0 r] eqn:E.
  - split; [|reflexivity]. intros _. split; [reflexivity|]. intros c1 c2 H1 _.
    exfalso. apply (proj2 (Hin (period c1))). eauto.
  - rewrite forallb_forall. split.
    + intros H. split; [reflexivity|].
      assert (forall c, In c t -> plen u (period c) = plen u p0) as Hall.
      { intros c Hc. destruct (proj2 (Hin (period c))) as [<-|Hr]; eauto. specialize (H _ Hr). lia. }
      intros c1 c2 H1 H2. rewrite (Hall c1 H1), (Hall c2 H2). reflexivity.
    + intros [_ H] p Hp. apply Z.eqb_eq.
      destruct (proj1 (Hin p) (or_intror Hp)) as [c1 [H1 <-]].
      destruct (proj1 (Hin p0) (or_introl eq_refl)) as [c2 [H2 <-]]. auto.
Qed.

(* constant spacing of a list: every adjacent difference equals the first one *)
Definition const_spacing (l : list Z) : Prop :=
  forall i, (S i < length l)%nat -> nth (S i) l 0 - nth i l 0 = nth 1 l 0 - nth 0 l 0.

Lemma const_step_spec d : forall l,
  const_step d l = true <-> forall i, (S i < length l)%nat -> nth (S i) l 0 - nth i l 0 = d.
Proof.
  induction l as [|a r IH].
  - simpl. split; [intros _ i Hi; lia|reflexivity].
  - destruct r as [|b r'].
    + simpl. split; [intros _ i Hi; lia|reflexivity].
    + change (const_step d (a :: b :: r')) with (if b - a =? d then const_step d (b :: r') else false).
      destruct (b - a =? d) eqn:E.
      * rewrite IH. split.
        -- intros H [|i] Hi; [simpl; lia|]. apply (H i). simpl in *. lia.
        -- intros H i Hi. apply (H (S i)). simpl in *. lia.
      * split; [discriminate|]. intros H. specialize (H 0%nat). simpl in H. lia.
Qed.

Theorem is_regular_spec u t :
  is_regular u t = true <-> is_semi_regular u t = true /\ const_spacing (dev_lags u t).
Proof.
  unfold is_regular. destruct (is_semi_regular u t); simpl; [|split; [discriminate|intros [C _]; discriminate]].
  unfold const_spacing. destruct (dev_lags u t) as [|l0 [|l1 r]].
  - split; [|reflexivity]. intros _. split; [reflexivity|]. intros i Hi. simpl in Hi. lia.
  - split; [|reflexivity]. intros _. split; [reflexivity|]. intros i Hi. simpl in Hi. lia.
  - rewrite const_step_spec. simpl nth at 3 4. split.
    + intros H. split; [reflexivity|]. intros [|i] Hi; [reflexivity|]. apply (H i). simpl in *. lia.
    + intros [_ H] i Hi. apply (H (S i)). simpl in *. lia.
Qed.

Theorem taxonomy_nested u t :
  (is_regular u t = true -> is_semi_regular u t = true) /\
  (is_semi_regular u t = true -> is_disjoint t = true).
Proof.
  split.
  - intros H. apply is_regular_spec in H. tauto.
  - intros H. apply is_semi_regular_spec in H. tauto.
Qed.

(* ================================================================== resolutions: gcd *)
Lemma fold_gcd_spec : forall l g0, 0 <= g0 ->
  let g := fold_left Z.gcd l g0 in
  0 <= g /\ (g | g0) /\ (forall x, In x l -> (g | x)) /\
  (forall d, (d | g0) -> (forall x, In x l -> (d | x)) -> (d | g)).
Proof.
  induction l as [|a r IH]; intros g0 H0; simpl.
  - repeat split; [assumption|apply Z.divide_refl|tauto|auto].
  - destruct (IH (Z.gcd g0 a) (Z.gcd_nonneg _ _)) as [H1 [H2 [H3 H4]]]. repeat split.
    + assumption.
    + eapply Z.divide_trans; [exact H2|apply Z.gcd_divide_l].
    + intros x [<-|Hx]; [eapply Z.divide_trans; [exact H2|apply Z.gcd_divide_r]|auto].
    + intros d Hd Hall. apply H4; [apply Z.gcd_greatest; auto|auto].
Qed.

(* the characterisation: g is the greatest common divisor of xs in the divisibility order *)
Definition is_gcd_of (xs : list Z) (g : Z) : Prop :=
  0 <= g /\ (forall x, In x xs -> (g | x)) /\ (forall d, (forall x, In x xs -> (d | x)) -> (d | g)).

Lemma is_gcd_of_unique xs g1 g2 : is_gcd_of xs g1 -> is_gcd_of xs g2 -> g1 = g2.
Proof.
  intros [P1 [D1 G1]] [P2 [D2 G2]]. apply Z.divide_antisym_nonneg; auto.
Qed.

Theorem multi_gcd_spec xs :
  xs <> [] -> (forall x, In x xs -> 0 <= x) ->
  exists g, multi_gcd xs = Ok g /\ is_gcd_of xs g.
Proof.
  intros Hne Hpos. unfold multi_gcd.
  pose proof (sort_u_In Z.ltb zltb_tricho xs) as Hin.
  destruct (sort_u Z.ltb xs) as [|x [|y r]] eqn:E.
  - destruct xs as [|a xs']; [congruence|]. exfalso. apply (proj2 (Hin a)). now left.
  - exists x. split; [reflexivity|].
    assert (forall z, In z xs -> z = x) as Hall by (intros z Hz; apply Hin in Hz; destruct Hz as [<-|[]]; reflexivity).
    assert (In x xs) as Hx by (apply Hin; now left).
    repeat split.
    + auto.
    + intros z Hz. rewrite (Hall z Hz). apply Z.divide_refl.
    + intros d Hd. auto.
  - exists (fold_left Z.gcd r (Z.gcd x y)). split; [reflexivity|].
    destruct (fold_gcd_spec r (Z.gcd x y) (Z.gcd_nonneg _ _)) as [H1 [H2 [H3 H4]]].
    repeat split.
    + assumption.
    + intros z Hz. apply Hin in Hz. destruct Hz as [<-|[<-|Hz]].
      * eapply Z.divide_trans; [exact H2|apply Z.gcd_divide_l].
      * eapply Z.divide_trans; [exact H2|apply Z.gcd_divide_r].
      * auto.
    + intros d Hd. apply H4.
      * apply Z.gcd_greatest; apply Hd, Hin; [now left|right; now left].
      * intros z Hz. apply Hd, Hin. right; right; assumption.
Qed.

(* the value does not depend on the iteration order of set(xs): any reduction order gives the gcd *)
Lemma gcd_order_independent xs ys g0 :
  (forall x, In x ys <-> In x xs) -> is_gcd_of xs g0 ->
  forall a r, ys = a :: r -> fold_left Z.gcd r (Z.abs a) = g0.
Proof.
  intros Hsame Hg a r ->. apply (is_gcd_of_unique xs); [|assumption].
  destruct (fold_gcd_spec r (Z.abs a) (Z.abs_nonneg a)) as [H1 [H2 [H3 H4]]]. repeat split.
  - assumption.
  - intros x Hx. apply Hsame in Hx. destruct Hx as [<-|Hx]; [|auto].
    exact (proj1 (Z.divide_abs_r _ _) H2).
  - intros d Hd. apply H4.
    + apply (proj2 (Z.divide_abs_r _ _)), Hd, Hsame. now left.
    + intros x Hx. apply Hd, Hsame. now right.
Qed.

(* differences of a (weakly) sorted list are non-negative *)
Lemma diffs_nonneg : forall l, StronglySorted Z.le l -> forall x, In x (diffs l) -> 0 <= x.
Proof.
  induction l as [|a r IH]; intros Hs x Hx; [destruct Hx|].
  destruct r as [|b r']; [destruct Hx|].
  change (diffs (a :: b :: r')) with ((b - a) :: diffs (b :: r')) in Hx.
  inversion Hs as [|? ? Hs' Hf]; subst. destruct Hx as [<-|Hx]; [inversion Hf; lia|auto].
Qed.
Lemma diffs_nil_iff l : diffs l = [] <-> (length l <= 1)%nat.
Proof. destruct l as [|a [|b r]]; simpl; split; intros; try reflexivity; try lia; discriminate. Qed.

Theorem resolution_of_spec months :
  StronglySorted Z.le months ->
  (resolution_of months = Ok None <-> diffs months = []) /\
  (diffs months <> [] -> exists g, resolution_of months = Ok (Some g) /\ is_gcd_of (diffs months) g).
Proof.
  intros Hs. unfold resolution_of. destruct (diffs months) as [|d ds] eqn:E.
  - split; [tauto|congruence].
  - destruct (multi_gcd_spec (d :: ds)) as [g [Hg Hspec]]; [discriminate| |].
    + intros x Hx. rewrite <- E in Hx. eapply diffs_nonneg; eassumption.
    + rewrite Hg. split; [split; discriminate|]. intros _. eauto.
Qed.

Lemma ssorted_lt_le l : StronglySorted zlt l -> StronglySorted Z.le l.
Proof.
  induction 1 as [|a r Hs IH Hf]; constructor; [assumption|].
  rewrite Forall_forall in *. intros x Hx. specialize (Hf x Hx). unfold zlt in Hf. apply Z.ltb_lt in Hf. lia.
Qed.

Lemma isort_ins_sorted x l : StronglySorted Z.le l -> StronglySorted Z.le (isort_ins x l).
Proof.
  induction l as [|a r IH]; simpl; intros H; [constructor; constructor|].
  inversion H as [|? ? Hs Hf]; subst. rewrite Forall_forall in Hf. destruct (x <=? a) eqn:E.
  - constructor; [assumption|]. rewrite Forall_forall. intros z [<-|Hz]; [lia|specialize (Hf z Hz); lia].
  - constructor; [auto|]. rewrite Forall_forall. intros z Hz.
    assert (z = x \/ In z r) as [->|Hr].
    { clear -Hz. induction r as [|b r IH]; simpl in *; [intuition congruence|].
      destruct (x <=? b); simpl in *; intuition congruence. }
    + lia.
    + auto.
Qed.
Lemma isort_sorted l : StronglySorted Z.le (isort l).
Proof. induction l; simpl; [constructor|]. now apply isort_ins_sorted. Qed.

(* period boundaries in months: starts and next-starts *)
Definition period_month_bounds (t : list cell) : list Z :=
  sort_u Z.ltb (map (fun p => month_id (fst p)) (periods t) ++ map (fun p => month_id (snd p) + 1) (periods t)).
Definition period_month_gaps (t : list cell) : list Z := diffs (period_month_bounds t).
Definition eval_month_gaps (t : list cell) : list Z := diffs (isort (map month_id (evaluation_dates t))).

Theorem period_resolution_spec t :
  (t = [] <-> period_resolution t = Err ValueError) /\
  (t <> [] ->
   (period_resolution t = Ok None <-> period_month_gaps t = []) /\
   (period_month_gaps t <> [] ->
      exists g, period_resolution t = Ok (Some g) /\ is_gcd_of (period_month_gaps t) g)).
Proof.
  unfold period_resolution, period_month_gaps, period_month_bounds.
  destruct (periods_spec t) as [_ [_ Hin]].
  destruct (periods t) as [|p0 r] eqn:E.
  - split.
    + split; [reflexivity|]. intros _. destruct t as [|c t']; [reflexivity|].
      exfalso. apply (proj2 (Hin (period c))). exists c. split; [now left|reflexivity].
    + intros Hne. exfalso. destruct t as [|c t']; [congruence|].
      apply (proj2 (Hin (period c))). exists c. split; [now left|reflexivity].
  - set (bounds := sort_u Z.ltb _).
    assert (Hs : StronglySorted Z.le bounds)
      by (apply ssorted_lt_le, (sort_u_sorted Z.ltb zltb_trans zltb_tricho)).
    destruct (resolution_of_spec bounds Hs) as [H1 H2]. split.
    + split; [|destruct (resolution_of bounds) as [[?|]|?] eqn:Er].
      * intros ->. destruct (proj1 (Hin p0) (or_introl eq_refl)) as [c [[] _]].
      * discriminate.
      * discriminate.
      * destruct (diffs bounds) eqn:Ed; [pose proof (proj2 H1 eq_refl) as C; discriminate|].
        destruct H2 as [g [Hg _]]; discriminate.
    + intros _. split; assumption.
Qed.

Theorem eval_date_resolution_spec t :
  (eval_date_resolution t = Ok None <-> eval_month_gaps t = []) /\
  (eval_month_gaps t <> [] ->
     exists g, eval_date_resolution t = Ok (Some g) /\ is_gcd_of (eval_month_gaps t) g).
Proof. unfold eval_date_resolution, eval_month_gaps. apply resolution_of_spec, isort_sorted. Qed.

(* "None iff there is no gap": fewer than two boundaries / evaluation dates *)
Lemma eval_month_gaps_nil t : eval_month_gaps t = [] <-> (length (evaluation_dates t) <= 1)%nat.
Proof.
  unfold eval_month_gaps. rewrite diffs_nil_iff.
  assert (forall l, length (isort l) = length l) as Hl.
  { induction l as [|a r IH]; simpl; [reflexivity|]. rewrite <- IH. generalize (isort r). clear.
    induction l as [|b l IH]; simpl; [reflexivity|]. destruct (a <=? b); simpl; [reflexivity|]. now rewrite IH. }
  rewrite Hl, map_length. tauto.
Qed.

(* ================================================================== experience gaps *)
Lemma gaps_of_In : forall ps g,
  In g (gaps_of ps) <->
  exists i, (S i < length ps)%nat /\
    let a := nth i ps (0, 0) in let b := nth (S i) ps (0, 0) in
    fst b <> snd a + 1 /\ g = (snd a + 1, fst b - 1).
Proof.
  induction ps as [|a r IH]; intros g.
  - simpl. split; [tauto|]. intros [i [Hi _]]. lia.
  - destruct r as [|b r'].
    + simpl. split; [tauto|]. intros [i [Hi _]]. lia.
    + change (gaps_of (a :: b :: r')) with
        (if fst b =? snd a + 1 then gaps_of (b :: r') else (snd a + 1, fst b - 1) :: gaps_of (b :: r')).
      destruct (fst b =? snd a + 1) eqn:E.
      * rewrite IH. split.
        -- intros [i [Hi H]]. exists (S i). split; [simpl in *; lia|exact H].
        -- intros [[|i] [Hi H]]; [simpl in H; lia|]. exists i. split; [simpl in *; lia|exact H].
      * simpl In. rewrite IH. split.
        -- intros [<-|[i [Hi H]]].
           ++ exists 0%nat. split; [simpl; lia|]. simpl. split; [lia|reflexivity].
           ++ exists (S i). split; [simpl in *; lia|exact H].
        -- intros [[|i] [Hi H]].
           ++ left. simpl in H. symmetry. tauto.
           ++ right. exists i. split; [simpl in *; lia|exact H].
Qed.

(* for pairwise disjoint sorted valid periods the reported gaps are exactly the uncovered days
   between the first start and the last end *)
Definition in_range (d : Z) (p : Z * Z) : Prop := fst p <= d <= snd p.

Lemma gaps_cover : forall ps,
  StronglySorted plt ps -> Forall valid_period ps -> adj_ok overlap_adjacent ps = true ->
  forall p0 d, hd_error ps = Some p0 ->
  ((exists g, In g (gaps_of ps) /\ in_range d g) <->
   (fst p0 <= d /\ (exists p, In p ps /\ d <= snd p) /\ forall p, In p ps -> ~ in_range d p)).
Proof.
  induction ps as [|a r IH]; intros Hs Hv Hok p0 d Hhd; [discriminate|].
  simpl in Hhd. inversion Hhd; subst p0. clear Hhd.
  inversion Hs as [|? ? Hs' Hf]; subst. inversion Hv as [|? ? Hva Hv']; subst.
  destruct r as [|b r'].
  - simpl. unfold in_range, valid_period in *. split.
    + intros [g [[] _]].
    + intros [H1 [[p [[<-|[]] H2]] H3]]. exfalso. apply (H3 a); [now left|lia].
  - change (adj_ok overlap_adjacent (a :: b :: r')) with
      (if overlap_adjacent a b then false else adj_ok overlap_adjacent (b :: r')) in Hok.
    unfold overlap_adjacent at 1 in Hok. destruct (snd a >=? fst b) eqn:Eab; [discriminate|].
    specialize (IH Hs' Hv' Hok b d eq_refl).
    inversion Hv' as [|? ? Hvb _]; subst. unfold valid_period in *.
    assert (Hlater : forall q, In q (b :: r') -> fst b <= fst q).
    { intros q [<-|Hq]; [lia|]. inversion Hs' as [|? ? _ Hfb]; subst. rewrite Forall_forall in Hfb.
      specialize (Hfb q Hq). apply pair_ltb_spec in Hfb. lia. }
    change (gaps_of (a :: b :: r')) with
      (if fst b =? snd a + 1 then gaps_of (b :: r') else (snd a + 1, fst b - 1) :: gaps_of (b :: r')).
    unfold in_range in *. split.
    + intros [g [Hg Hd]].
      assert (In g (gaps_of (b :: r')) \/ (g = (snd a + 1, fst b - 1) /\ fst b <> snd a + 1)) as [Hg'|[-> Hne]].
      { destruct (fst b =? snd a + 1) eqn:E; [now left|]. destruct Hg as [<-|Hg]; [right; split; [reflexivity|lia]|now left]. }
      * destruct (proj1 IH (ex_intro _ g (conj Hg' Hd))) as [H1 [[p [Hp H2]] H3]].
        split; [lia|]. split; [exists p; split; [now right|assumption]|].
        intros p' [<-|Hp']; [lia|auto].
      * simpl in Hd. split; [lia|]. split; [exists b; split; [right; now left|lia]|].
        intros p' [<-|Hp']; [lia|]. specialize (Hlater p' Hp'). lia.
    + intros [H1 [[p [Hp H2]] H3]].
      assert (Hna : ~ (fst a <= d <= snd a)) by (apply H3; now left).
      destruct (Z_lt_le_dec d (fst b)) as [Hlt|Hge].
      * (* d lies strictly between a and b: the gap (snd a + 1, fst b - 1) *)
        exists (snd a + 1, fst b - 1). simpl. split; [|lia].
        destruct (fst b =? snd a + 1) eqn:E; [lia|now left].
      * destruct (proj2 IH) as [g [Hg Hd]].
        { split; [assumption|]. split.
          - destruct Hp as [<-|Hp]; [lia|eauto].
          - intros p' Hp'. apply H3. now right. }
        exists g. split; [|assumption]. destruct (fst b =? snd a + 1); [assumption|now right].
Qed.

Theorem experience_gaps_spec t :
  (forall c, In c t -> wf_cell c) -> is_disjoint t = true ->
  forall d,
  (exists g, In g (experience_gaps t) /\ in_range d g) <->
  ((exists c, In c t /\ ps c <= d) /\ (exists c, In c t /\ d <= pe c) /\
   forall c, In c t -> ~ (ps c <= d <= pe c)).
Proof.
  intros Hwf Hd d. destruct (periods_spec t) as [Hs [Hnd Hin]].
  assert (Hv : Forall valid_period (periods t)).
  { rewrite Forall_forall. intros p Hp. apply Hin in Hp. destruct Hp as [c [Hc <-]]. apply Hwf, Hc. }
  assert (is_disjoint t = adj_ok overlap_adjacent (periods t)) as Hdj.
  { unfold is_disjoint, is_disjoint_with. destruct t; reflexivity. }
  rewrite Hdj in Hd. unfold experience_gaps.
  destruct (periods t) as [|p0 r] eqn:E.
  - simpl. split; [intros [g [[] _]]|]. intros [[c [Hc _]] _]. exfalso.
    apply (proj2 (Hin (period c))). eauto.
  - rewrite (gaps_cover (p0 :: r) Hs Hv Hd p0 d eq_refl).
    assert (Hmin : forall p, In p (p0 :: r) -> fst p0 <= fst p).
    { intros p [<-|Hp]; [lia|]. inversion Hs as [|? ? _ Hf]; subst. rewrite Forall_forall in Hf.
      specialize (Hf p Hp). apply pair_ltb_spec in Hf. lia. }
    unfold in_range. split.
    + intros [H1 [[p [Hp H2]] H3]]. repeat split.
      * destruct (proj1 (Hin p0) (or_introl eq_refl)) as [c [Hc Ec]]. exists c. split; [assumption|].
        rewrite <- Ec in H1. exact H1.
      * apply Hin in Hp. destruct Hp as [c [Hc Ec]]. exists c. split; [assumption|]. rewrite <- Ec in H2. exact H2.
      * intros c Hc. apply (H3 (period c)). apply Hin. eauto.
    + intros [[c1 [Hc1 H1]] [[c2 [Hc2 H2]] H3]]. repeat split.
      * assert (In (period c1) (p0 :: r)) as Hp by (apply Hin; eauto). specialize (Hmin _ Hp). simpl in Hmin. lia.
      * exists (period c2). split; [apply Hin; eauto|exact H2].
      * intros p Hp. apply Hin in Hp. destruct Hp as [c [Hc <-]]. apply H3, Hc.
Qed.
